(* C03Req: the start address each segment requests, at document level.  The exact start of .seg for the
   five kinds of request, the alignment of the output section pinned to what it receives, the same for
   .seg.noload; lifted over the list of segments (with the location counter before each segment) and read
   in the state at the end of the pass. *)
From Slinky Require Import Model.Types Model.Generated Model.Runtime Model.Style Model.Script Model.Writer Model.LdSem.
From Slinky Require Import Spec.C17 Spec.C04 Spec.C03 Spec.C09 Spec.C05 Spec.C10 Spec.DocLevel Spec.Fixpoint
  Spec.DocPartial Spec.C03Req.
From Slinky Require Import Proofs.C06 Proofs.C18 Proofs.C17 Proofs.LdLemmas Proofs.C09 Proofs.C05 Proofs.C04 Proofs.C03
  Proofs.C10 Proofs.DocLevel Proofs.Fixpoint Proofs.DocPartial.
From Coq Require Import Lia ZArith.
Local Open Scope Z_scope.

(* Proofs/C03.v has a theorem of the same name (the per-segment case analysis): here the name is the function *)
Local Notation requested_start := Slinky.Spec.C03Req.requested_start.

(* ====================================================================== *)
(* 1. where the header of an output section is                             *)
(* ====================================================================== *)

Lemma before_from name l : l = (before_sec name l ++ from_sec name l)%list.
Proof.
  induction l as [|s r IH]; [reflexivity|].
  destruct s; cbn [before_sec from_sec app]; try (f_equal; exact IH).
  destruct (String.eqb name0 name); [reflexivity|]. cbn [app]. f_equal. exact IH.
Qed.

Lemma before_sec_skip name a b :
  ~ In name (flat_map makes_sec a) -> before_sec name (a ++ b) = (a ++ before_sec name b)%list.
Proof.
  induction a as [|s r IH]; intro H; [reflexivity|].
  cbn [flat_map] in H.
  assert (Hr : ~ In name (flat_map makes_sec r)) by (intro Hb; apply H; apply in_or_app; right; exact Hb).
  destruct s; cbn [before_sec app]; try (f_equal; apply IH; exact Hr).
  destruct (String.eqb name0 name) eqn:E.
  - apply String.eqb_eq in E. exfalso. apply H. apply in_or_app. left. left. exact E.
  - f_equal. apply IH. exact Hr.
Qed.

Lemma from_sec_skip name a b :
  ~ In name (flat_map makes_sec a) -> from_sec name (a ++ b) = from_sec name b.
Proof.
  induction a as [|s r IH]; intro H; [reflexivity|].
  cbn [flat_map] in H.
  assert (Hr : ~ In name (flat_map makes_sec r)) by (intro Hb; apply H; apply in_or_app; right; exact Hb).
  destruct s; cbn [from_sec app]; try (apply IH; exact Hr).
  destruct (String.eqb name0 name) eqn:E.
  - apply String.eqb_eq in E. exfalso. apply H. apply in_or_app. left. left. exact E.
  - apply IH. exact Hr.
Qed.

Lemma before_sec_at name a ad at_ nl sub body b :
  ~ In name (flat_map makes_sec a) -> before_sec name (a ++ SOutSec name ad at_ nl sub body :: b) = a.
Proof.
  intro H. rewrite before_sec_skip by exact H. cbn [before_sec]. rewrite String.eqb_refl. apply app_nil_r.
Qed.

Lemma from_sec_at name a ad at_ nl sub body b :
  ~ In name (flat_map makes_sec a) ->
  from_sec name (a ++ SOutSec name ad at_ nl sub body :: b) = SOutSec name ad at_ nl sub body :: b.
Proof. intro H. rewrite from_sec_skip by exact H. cbn [from_sec]. rewrite String.eqb_refl. reflexivity. Qed.

Lemma sec_body_at name a ad at_ nl sub body b :
  ~ In name (flat_map makes_sec a) -> sec_body name (a ++ SOutSec name ad at_ nl sub body :: b) = body.
Proof. intro H. unfold sec_body. rewrite from_sec_at by exact H. reflexivity. Qed.

Lemma after_sec_at name a ad at_ nl sub body b :
  ~ In name (flat_map makes_sec a) -> after_sec name (a ++ SOutSec name ad at_ nl sub body :: b) = b.
Proof. intro H. unfold after_sec. rewrite from_sec_at by exact H. reflexivity. Qed.

(* ====================================================================== *)
(* 2. the alignment of an output section is that of what it receives       *)
(* ====================================================================== *)

Lemma sub_z_map sub : match option_map Z.of_N sub with Some s => s | None => 1 end = sub_z sub.
Proof. destruct sub; reflexivity. Qed.

Lemma body_align_received sub body : forall rem acc,
  body_align (option_map Z.of_N sub) body rem acc =
  fold_left (fun m u => Z.max (Z.max m (u_align u)) (sub_z sub)) (received body rem) acc.
Proof.
  induction body as [|s r IH]; intros rem acc; [reflexivity|].
  destruct s; cbn [body_align received]; try apply IH.
  rewrite fold_left_app, IH, sub_z_map. reflexivity.
Qed.

Lemma fold_max_init l : forall a b, a = b -> fold_left Z.max l a = fold_left Z.max l b.
Proof. intros a b E. subst. reflexivity. Qed.

Lemma fold_align_max s us : forall acc,
  us <> [] ->
  fold_left (fun m u => Z.max (Z.max m (u_align u)) s) us acc = fold_left Z.max (map u_align us) (Z.max acc s).
Proof.
  induction us as [|u r IH]; intros acc Hne; [congruence|].
  cbn [fold_left map]. destruct r as [|u' r'].
  - cbn [fold_left map]. lia.
  - rewrite IH by discriminate. apply fold_max_init. lia.
Qed.

(* body_align, the alignment LdSem.exec_outsec rounds "." up to, is [sec_align] of what the body receives *)
Theorem body_align_pinned sub body rem :
  body_align (option_map Z.of_N sub) body rem 1 = sec_align sub (received body rem).
Proof.
  rewrite body_align_received. unfold sec_align.
  destruct (received body rem) as [|u r] eqn:E; [reflexivity|].
  apply fold_align_max. discriminate.
Qed.

(* what [sec_align] is: at least 1; at least SUBALIGN and the alignment of every received section when
   something is received; and one of these values *)
Lemma fold_max_ge l : forall a, a <= fold_left Z.max l a.
Proof. induction l as [|x r IH]; intro a; [cbn; lia|]. cbn [fold_left]. specialize (IH (Z.max a x)). lia. Qed.

Lemma fold_max_in_ge l : forall a x, In x l -> x <= fold_left Z.max l a.
Proof.
  induction l as [|y r IH]; intros a x H; [contradiction|]. cbn [fold_left]. destruct H as [H|H].
  - subst y. pose proof (fold_max_ge r (Z.max a x)). lia.
  - apply IH. exact H.
Qed.

Lemma fold_max_in_or l : forall a, fold_left Z.max l a = a \/ In (fold_left Z.max l a) l.
Proof.
  induction l as [|y r IH]; intro a; [left; reflexivity|]. cbn [fold_left].
  destruct (IH (Z.max a y)) as [E|H].
  - rewrite E. destruct (Z.max_spec a y) as [[_ M]|[_ M]]; rewrite M; [right; left; reflexivity | left; reflexivity].
  - right. right. exact H.
Qed.

Theorem sec_align_spec sub us :
  1 <= sec_align sub us /\
  (us = [] -> sec_align sub us = 1) /\
  (us <> [] -> sub_z sub <= sec_align sub us) /\
  (forall u, In u us -> u_align u <= sec_align sub us) /\
  (sec_align sub us = 1 \/ (us <> [] /\ sec_align sub us = sub_z sub) \/
   exists u, In u us /\ sec_align sub us = u_align u).
Proof.
  unfold sec_align. destruct us as [|u0 r]; [repeat split; try lia; try contradiction; auto|].
  set (l := u0 :: r). set (b := Z.max 1 (sub_z sub)).
  pose proof (fold_max_ge (map u_align l) b) as G.
  split; [unfold b in *; lia|]. split; [discriminate|]. split; [intros _; unfold b in *; lia|].
  split.
  - intros u Hu. apply fold_max_in_ge. apply in_map. exact Hu.
  - destruct (fold_max_in_or (map u_align l) b) as [E|H].
    + rewrite E. unfold b. destruct (Z.max_spec 1 (sub_z sub)) as [[_ M]|[_ M]]; rewrite M.
      * right. left. split; [discriminate | reflexivity].
      * left. reflexivity.
    + right. right. apply in_map_iff in H. destruct H as [u [Eu Hu]]. exists u. split; [exact Hu | symmetry; exact Eu].
Qed.

(* ====================================================================== *)
(* 3. the requested start is what outsec_vma computes                      *)
(* ====================================================================== *)

Lemma requested_of_vma env senv ext sty seg sub body stE vma :
  outsec_vma env senv ext (segment_addr sty seg) sub body stE = Ok vma ->
  requested_start env ext sty seg (sec_align sub (received body (l_remaining stE))) stE = Some vma.
Proof.
  unfold outsec_vma, segment_addr, requested_start.
  destruct (sg_fixed_vram seg) as [v|]; [intro H; cbn [eval_expr] in H; apply ok_inj in H; rewrite H; reflexivity|].
  destruct (sg_fixed_symbol seg) as [e|]; [intro H; cbn [eval_expr] in H; rewrite H; reflexivity|].
  destruct (sg_follows_segment seg) as [n|].
  { intro H. cbn [eval_expr] in H. destruct (sym_lookup (segment_vram_end sty n) stE env ext); [|discriminate].
    apply ok_inj in H. rewrite H. reflexivity. }
  destruct (sg_vram_class seg) as [c|].
  { intro H. cbn [eval_expr] in H. destruct (sym_lookup (vram_class_start sty c) stE env ext); [|discriminate].
    apply ok_inj in H. rewrite H. reflexivity. }
  intro H. apply ok_inj in H. rewrite <- H, body_align_pinned. reflexivity.
Qed.

Lemma requested_fixed_vram env ext sty seg A stH v :
  sg_fixed_vram seg = Some v -> requested_start env ext sty seg A stH = Some (Z.of_N v).
Proof. intro E. unfold Slinky.Spec.C03Req.requested_start. rewrite E. reflexivity. Qed.

(* ====================================================================== *)
(* 4. one segment                                                          *)
(* ====================================================================== *)

Section SegmentReq.
  Variables (env : list (string * Z)) (senv : list osec) (ext : list (string * Z)) (final : bool).
  Notation top := (exec_top_stmt env senv ext final).
  Notation runl := (run env senv ext final).

  Lemma run_no_secs l st : flat_map makes_sec l = [] -> l_secs (runl l st) = l_secs st.
  Proof.
    intro H. destruct (run_secs env senv ext final l st) as [new [E F]]. rewrite H in F.
    destruct new as [|o new]; [rewrite app_nil_r in E; exact E|]. inversion F as [|x y Hx _]. destruct Hx.
  Qed.

  (* the statements of an included segment are "pre; .seg { body1 }; mid; .seg.noload { body2 }; post",
     pre and mid making no output section; with stH / stN the states at the two headers: the exact start
     of .seg, the alignments of both sections pinned to what they receive *)
  Theorem segment_req rt stg cfg classes seg ws s ws' st0 :
    add_segment rt stg cfg classes seg ws = Ok (s, ws') ->
    should_emit rt (sg_conds seg) = true ->
    let sty := linker_symbols_style stg in
    let name := sg_name seg in
    let st' := runl s st0 in
    vram_names_distinct sty name s = true ->
    ~ In (LForwardRef (alloc_name seg)) (l_errors st') ->
    sizes_ok st0 ->
    exists pre body1 mid body2 post o1 o2,
      let O1 := SOutSec (alloc_name seg) (segment_addr sty seg) (Some (segment_rom_start sty name)) false
                        (subalign seg) body1 in
      let O2 := SOutSec (noload_name seg) None None true (subalign seg) body2 in
      s = (pre ++ O1 :: mid ++ O2 :: post)%list /\
      flat_map makes_sec pre = [] /\ flat_map makes_sec mid = [] /\
      let stH := runl pre st0 in
      let stN := runl (pre ++ O1 :: mid) st0 in
      l_dot stH = align_up (l_dot st0) (align_z (segment_start_align seg)) /\
      requested_start env ext sty seg (sec_align (subalign seg) (received body1 (l_remaining stH))) stH
        = Some (os_vma o1) /\
      l_secs st' = (l_secs st0 ++ [o1; o2])%list /\
      os_name o1 = alloc_name seg /\ os_name o2 = noload_name seg /\
      0 <= os_size o1 /\ 0 <= os_size o2 /\
      l_dot stN = os_vma o1 + os_size o1 /\
      os_vma o2 = align_up (os_vma o1 + os_size o1)
                           (sec_align (subalign seg) (received body2 (l_remaining stN))) /\
      let ve := align_up (os_vma o2 + os_size o2) (align_z (segment_end_align seg)) in
      l_dot st' = ve /\ val st' (segment_vram_end sty name) = Some ve.
  Proof.
    intros H Hc sty name st' Hdist Herr Hsz. apply add_segment_inv in H.
    destruct H as [[Hc' _] | [_ [cls [ws1 [s1 [ws2 [s2 [Ec [E1 [E2 E]]]]]]]]]]; [congruence|].
    pose proof (kd_class_part _ _ _ _ _ _ Ec) as K0.
    apply write_segment_inv in E1. destruct E1 as [body1 [_ E1]]. rewrite alloc_name_outsec in E1.
    apply write_segment_inv in E2. destruct E2 as [body2 [_ E2]]. rewrite noload_name_outsec in E2.
    fold sty name in E1, E2.
    set (ks := sections_kind_start sty cfg seg false) in *.
    set (ke := sections_kind_end sty cfg seg false) in *.
    set (ks2 := sections_kind_start sty cfg seg true) in *.
    set (ke2 := sections_kind_end sty cfg seg true) in *.
    set (RS := segment_rom_start sty name) in *.
    set (B1 := (opt_fill seg ++ body1)%list) in *. set (B2 := (opt_fill seg ++ body2)%list) in *.
    set (O1 := SOutSec (alloc_name seg) (segment_addr sty seg) (Some RS) false (subalign seg) B1) in *.
    set (O2 := SOutSec (noload_name seg) None None true (subalign seg) B2) in *.
    set (pre := (cls ++ seg_head stg seg ++ ks)%list).
    set (mid := (ke ++ [SBlank] ++ ks2)%list).
    set (post := (ke2 ++ [SBlank] ++ seg_foot stg seg)%list).
    assert (Es : s = (pre ++ O1 :: ke ++ [SBlank] ++ ks2 ++ O2 :: ke2 ++ [SBlank] ++ seg_foot stg seg)%list).
    { rewrite E, E1, E2. unfold pre. repeat (rewrite <- app_assoc; cbn [app]). reflexivity. }
    assert (Es2 : s = (pre ++ O1 :: mid ++ O2 :: post)%list).
    { rewrite Es. unfold mid, post. repeat (rewrite <- app_assoc; cbn [app]). reflexivity. }
    assert (Mpre : flat_map makes_sec pre = []).
    { unfold pre. rewrite !flat_map_app, (makes_sec_plain cls (pl_class_part _ _ _ _ _ _ Ec)),
        (makes_sec_plain _ (pl_seg_head _ _)), (makes_sec_plain ks (pl_kind_start _ _ _ _)). reflexivity. }
    assert (Mmid : flat_map makes_sec mid = []).
    { unfold mid. rewrite !flat_map_app, (makes_sec_plain ke (pl_kind_end _ _ _ _)),
        (makes_sec_plain ks2 (pl_kind_start _ _ _ _)). reflexivity. }
    assert (Kmid : forallb keeps_dot mid = true).
    { unfold mid, ke, ks2. rewrite !forallb_app, kd_kind_end, kd_kind_start. reflexivity. }
    subst st'. rewrite Es in Hdist, Herr.
    destruct (segment_vram_general env senv ext final stg seg cls ks (segment_addr sty seg) (Some RS) (subalign seg)
                B1 ke ks2 None (subalign seg) B2 ke2 st0)
      as (o1 & o2 & A2 & C1 & C2 & C3 & N1 & _ & Z1 & N2 & _ & _ & Z2 & _ & _ & C4); try assumption.
    { rewrite !forallb_app, K0. unfold ks, ke, ks2, ke2. rewrite !kd_kind_start, !kd_kind_end. reflexivity. }
    cbv zeta in C4. destruct C4 as [D' [VE _]].
    fold sty name RS O1 O2 pre in C1, C2, C3, D', VE. rewrite <- Es in C3, D', VE.
    exists pre, B1, mid, B2, post, o1, o2. cbv zeta. fold RS O1 O2.
    split; [exact Es2|]. split; [exact Mpre|]. split; [exact Mmid|].
    set (stH := runl pre st0) in *.
    assert (HszH : sizes_ok stH) by (apply run_remaining_Forall; exact Hsz).
    assert (SH : l_secs stH = l_secs st0) by (apply run_no_secs; exact Mpre).
    (* the allocatable section *)
    destruct (outsec_start env senv ext final (alloc_name seg) (segment_addr sty seg) (Some RS) false (subalign seg)
                           B1 stH (os_vma o1) C2 HszH) as [o1' [F2 [_ [Fv [_ [_ [F1 F3]]]]]]].
    change (exec_outsec env senv ext final (alloc_name seg) (segment_addr sty seg) (Some RS) false (subalign seg) B1 stH)
      with (top stH O1) in F1, F2, F3.
    set (stF := top stH O1) in *.
    destruct (run_keeps env senv ext final mid stF Kmid) as [G1 [G2 G3]]. specialize (G3 F3).
    assert (EN : runl (pre ++ O1 :: mid) st0 = runl mid stF).
    { rewrite run_app, run_cons. reflexivity. }
    rewrite EN. set (stN := runl mid stF) in *.
    (* the noload section *)
    destruct (noload_section env senv ext final (noload_name seg) None (subalign seg) B2 stN)
      as [o2' [H2 [_ [_ [_ Hv]]]]].
    change (exec_outsec env senv ext final (noload_name seg) None None true (subalign seg) B2 stN)
      with (top stN O2) in H2.
    set (stG := top stN O2) in *.
    assert (ES : runl s st0 = runl post stG).
    { rewrite Es2. rewrite run_app, run_cons. fold stH stF. rewrite run_app, run_cons. reflexivity. }
    destruct (run_secs env senv ext final post stG) as [new [En _]].
    assert (Eo : o1' = o1 /\ o2' = o2).
    { rewrite ES, En, H2, G2, F2, SH in C3. rewrite <- !app_assoc in C3. apply app_inv_head in C3.
      cbn [app] in C3. inversion C3. split; reflexivity. }
    destruct Eo as [Eo1 Eo2]. subst o1' o2'.
    split; [exact C1|].
    split; [apply (requested_of_vma env senv); exact C2|].
    split; [exact C3|]. split; [exact N1|]. split; [exact N2|]. split; [exact Z1|]. split; [exact Z2|].
    split; [rewrite G1, F1; reflexivity|].
    split; [rewrite Hv, G1, F1, body_align_pinned; reflexivity|].
    split; [exact D' | exact VE].
  Qed.
End SegmentReq.

(* ====================================================================== *)
(* 5. the chain over the list of segments                                  *)
(* ====================================================================== *)

Section ReqChains.
  Variables (env : list (string * Z)) (senv : list osec) (ext : list (string * Z)) (final : bool).
  Notation top := (exec_top_stmt env senv ext final).
  Notation runl := (run env senv ext final).

  Lemma SegReq_frame sty stH stN b1 b2 tail st dt seg ve :
    existsb (assigns (segment_vram_end sty (sg_name seg))) tail = false ->
    SegReq sty env ext stH stN b1 b2 st dt seg ve -> SegReq sty env ext stH stN b1 b2 (runl tail st) dt seg ve.
  Proof.
    intros U (o1 & o2 & F1 & F2 & Z1 & Z2 & D & R & DN & V2 & Eve & VE).
    exists o1, o2. split; [apply run_find_sec; exact F1|]. split; [apply run_find_sec; exact F2|].
    repeat (split; [assumption|]). unfold val. rewrite run_syms by exact U. exact VE.
  Qed.

  Lemma ReqChain_frame sty hs bd tail segs : forall st dt,
    (forall seg, In seg segs -> existsb (assigns (segment_vram_end sty (sg_name seg))) tail = false) ->
    ReqChain sty env ext hs bd st dt segs -> ReqChain sty env ext hs bd (runl tail st) dt segs.
  Proof.
    induction segs as [|seg rest IH]; intros st dt Hun H; [exact I|].
    cbn [ReqChain] in *. destruct H as [ve [Hs Hr]]. exists ve. split.
    - apply SegReq_frame; [apply Hun; left; reflexivity | exact Hs].
    - apply IH; [intros s Hin; apply Hun; right; exact Hin | exact Hr].
  Qed.

  Lemma req_chain_fold rt stg cfg classes segs : forall ws body ws' P F stI,
    fold_out (add_segment rt stg cfg classes) segs ws = Ok (body, ws') ->
    let sty := linker_symbols_style stg in
    let st0 := runl P stI in
    let L := (P ++ body ++ F)%list in
    (forall n, In n (out_names (included rt segs)) -> ~ In n (flat_map makes_sec P)) ->
    (forall n, In n (out_names (included rt segs)) -> find_sec n (l_secs st0) = None) ->
    NoDup (out_names (included rt segs)) ->
    (forall seg, In seg (included rt segs) -> vram_names_distinct sty (sg_name seg) body = true) ->
    (forall seg, In seg (included rt segs) ->
                 ~ In (LForwardRef (alloc_name seg)) (l_errors (runl body st0))) ->
    sizes_ok st0 ->
    ReqChain sty env ext (fun n => runl (before_sec n L) stI) (fun n => sec_body n L)
             (runl body st0) (l_dot st0) (included rt segs).
  Proof.
    induction segs as [|seg rest IH]; intros ws body ws' P F stI H sty st0 L HP Hfresh Hnd Hdist Herr Hsz.
    - exact I.
    - apply fold_out_cons in H. destruct H as [s1 [ws1 [body_r [E1 [E2 E]]]]]. subst body.
      unfold included in *. cbn [filter] in *. destruct (should_emit rt (sg_conds seg)) eqn:Hc.
      + pose proof (vram_assigned_add_segment _ _ _ _ _ _ _ _ E1 Hc) as Hass.
        destruct (vnd_app_l _ _ _ _ (Hdist seg (or_introl eq_refl)) Hass) as [Hd1 [U1 [U2 U3]]].
        rewrite run_app in *.
        set (st1 := runl s1 st0) in *.
        destruct (segment_req env senv ext final rt stg cfg classes seg ws s1 ws1 st0 E1 Hc Hd1)
          as (pre & body1 & mid & body2 & post & o1 & o2 & Hrest).
        { fold st1. intro Hin. apply (Herr seg (or_introl eq_refl)). apply run_errors_in. exact Hin. }
        { exact Hsz. }
        cbv zeta in Hrest.
        destruct Hrest as (Es & Mpre & Mmid & Dot & Req & Hsecs & N1 & N2 & Z1 & Z2 & DN & V2 & Hd' & VE).
        fold st1 sty in Hsecs, Hd', VE.
        set (O1 := SOutSec (alloc_name seg) (segment_addr sty seg)
                           (Some (segment_rom_start sty (sg_name seg))) false (subalign seg) body1) in *.
        set (O2 := SOutSec (noload_name seg) None None true (subalign seg) body2) in *.
        cbn [out_names flat_map app] in Hnd, Hfresh, HP. inversion Hnd as [|x l Hn1 Hnd1]; subst x l.
        inversion Hnd1 as [|x l Hn2 Hnd2]; subst x l.
        assert (Hsz1 : sizes_ok st1) by (unfold st1; apply run_remaining_Forall; exact Hsz).
        assert (Hne : String.eqb (alloc_name seg) (noload_name seg) = false).
        { apply String.eqb_neq. intro Ea. apply Hn1. left. symmetry. exact Ea. }
        assert (Hf0 : find_sec (alloc_name seg) (l_secs st0) = None) by (apply Hfresh; left; reflexivity).
        assert (Hf0' : find_sec (noload_name seg) (l_secs st0) = None)
          by (apply Hfresh; right; left; reflexivity).
        assert (HPa : ~ In (alloc_name seg) (flat_map makes_sec P)) by (apply HP; left; reflexivity).
        assert (HPn : ~ In (noload_name seg) (flat_map makes_sec P)) by (apply HP; right; left; reflexivity).
        (* where the two headers are in L *)
        assert (EL1 : L = ((P ++ pre) ++ O1 :: (mid ++ O2 :: post) ++ body_r ++ F)%list).
        { unfold L. rewrite Es. repeat (rewrite <- app_assoc; cbn [app]). reflexivity. }
        assert (EL2 : L = ((P ++ pre ++ O1 :: mid) ++ O2 :: post ++ body_r ++ F)%list).
        { unfold L. rewrite Es. repeat (rewrite <- app_assoc; cbn [app]). reflexivity. }
        assert (M1 : ~ In (alloc_name seg) (flat_map makes_sec (P ++ pre))).
        { rewrite flat_map_app, Mpre, app_nil_r. exact HPa. }
        assert (M2 : ~ In (noload_name seg) (flat_map makes_sec (P ++ pre ++ O1 :: mid))).
        { rewrite !flat_map_app, Mpre. cbn [flat_map makes_sec O1 app]. rewrite Mmid. cbn [app].
          intro Hb. apply in_app_or in Hb. destruct Hb as [Hb|[Hb|[]]]; [exact (HPn Hb)|].
          apply String.eqb_neq in Hne. exact (Hne Hb). }
        assert (HH : runl (before_sec (alloc_name seg) L) stI = runl pre st0).
        { rewrite EL1. unfold O1. rewrite (before_sec_at _ _ _ _ _ _ _ _ M1), run_app. reflexivity. }
        assert (HN : runl (before_sec (noload_name seg) L) stI = runl (pre ++ O1 :: mid) st0).
        { rewrite EL2. unfold O2. rewrite (before_sec_at _ _ _ _ _ _ _ _ M2), run_app. reflexivity. }
        assert (HB1 : sec_body (alloc_name seg) L = body1).
        { rewrite EL1. unfold O1. apply (sec_body_at _ _ _ _ _ _ _ _ M1). }
        assert (HB2 : sec_body (noload_name seg) L = body2).
        { rewrite EL2. unfold O2. apply (sec_body_at _ _ _ _ _ _ _ _ M2). }
        cbn [ReqChain]. exists (align_up (os_vma o2 + os_size o2) (align_z (segment_end_align seg))). split.
        * rewrite HH, HN, HB1, HB2. exists o1, o2.
          split.
          { apply run_find_sec. rewrite Hsecs, find_sec_app_none by exact Hf0.
            rewrite find_sec_two, N1, String.eqb_refl. reflexivity. }
          split.
          { apply run_find_sec. rewrite Hsecs, find_sec_app_none by exact Hf0'.
            rewrite find_sec_two, N1, N2, Hne, String.eqb_refl. reflexivity. }
          split; [exact Z1|]. split; [exact Z2|]. split; [exact Dot|]. split; [exact Req|].
          split; [exact DN|]. split; [exact V2|]. split; [reflexivity|].
          unfold val. rewrite run_syms by exact U2. exact VE.
        * assert (EL3 : L = ((P ++ s1) ++ body_r ++ F)%list).
          { unfold L. repeat (rewrite <- app_assoc; cbn [app]). reflexivity. }
          rewrite EL3, <- Hd'.
          assert (Est1 : st1 = runl (P ++ s1) stI) by (unfold st1, st0; rewrite run_app; reflexivity).
          rewrite Est1.
          apply (IH ws1 body_r ws' (P ++ s1)%list F stI E2); rewrite <- ?Est1.
          -- intros n Hin Hb. rewrite flat_map_app in Hb. apply in_app_or in Hb. destruct Hb as [Hb|Hb].
             ++ apply (HP n); [right; right; exact Hin | exact Hb].
             ++ rewrite (makes_sec_add_segment _ _ _ _ _ _ _ _ E1), Hc in Hb. destruct Hb as [Ea|[Ea|[]]].
                ** apply Hn1. right. rewrite Ea. exact Hin.
                ** apply Hn2. rewrite Ea. exact Hin.
          -- intros n Hin. rewrite Hsecs, find_sec_app_none by (apply Hfresh; right; right; exact Hin).
             rewrite find_sec_two, N1, N2.
             destruct (String.eqb (alloc_name seg) n) eqn:Ea.
             { apply String.eqb_eq in Ea. exfalso. apply Hn1. right. rewrite Ea. exact Hin. }
             destruct (String.eqb (noload_name seg) n) eqn:Eb; [|reflexivity].
             apply String.eqb_eq in Eb. exfalso. apply Hn2. rewrite Eb. exact Hin.
          -- exact Hnd2.
          -- intros seg' Hin.
             apply (vnd_app_r _ _ s1 body_r (Hdist seg' (or_intror Hin))).
             eapply vram_assigned_fold; eassumption.
          -- intros seg' Hin. apply Herr. right. exact Hin.
          -- exact Hsz1.
      + rewrite (add_segment_excluded _ _ _ _ _ _ Hc) in E1. apply ok_inj in E1. inversion E1; subst s1 ws1.
        cbn [app] in *. eapply IH; eassumption.
  Qed.
End ReqChains.

(* ====================================================================== *)
(* 6. a whole script "version; SECTIONS { begin; segments; end }; tail"     *)
(* ====================================================================== *)

Lemma makes_sec_version rt : flat_map makes_sec (version_stmts rt) = [].
Proof. unfold version_stmts. destruct (rt_emit_version_comment rt); reflexivity. Qed.

Section AnyReq.
  Variables (rt : runtime) (stg : settings) (cfg : wcfg) (classes : list vram_class) (segs : list segment).
  Variables (tl body : list stmt) (ws' : wstate) (script : list stmt).
  Variables (env : list (string * Z)) (senv : list osec) (ext : list (string * Z)) (final : bool).
  Notation runl := (run env senv ext final).
  Notation sty := (linker_symbols_style stg).
  Notation isegs := (included rt segs).
  Notation fin := (end_sections_body stg classes ws' ++ tl)%list.

  Hypothesis E : fold_out (add_segment rt stg cfg classes) segs ws0 = Ok (body, ws').
  Hypothesis Hnd : NoDup (out_names isegs).
  Hypothesis Hseg : forall seg, In seg isegs -> seg_link_wf sty (begin_sections_body stg ++ body ++ fin) seg = true.
  Hypothesis Hflat : flat_stmts script = ((version_stmts rt ++ begin_sections_body stg) ++ body ++ fin)%list.

  Lemma anyreq_vram2 seg : In seg isegs ->
    vram_names_distinct sty (sg_name seg) body = true /\ vram_untouched sty (sg_name seg) fin.
  Proof.
    intro Hin. destruct (seg_wf_parts _ _ _ (Hseg seg Hin)) as [_ [D _]].
    pose proof (vram_assigned_fold _ _ _ _ _ _ _ _ _ E Hin) as Hass.
    destruct (vnd_app_r _ _ _ _ D (vram_assigned_app_l _ _ _ _ Hass)) as [D' _].
    apply (vnd_app_l _ _ _ _ D' Hass).
  Qed.

  Lemma anyreq_exec st : exec_script env senv ext final script st = runl (flat_stmts script) st.
  Proof. apply exec_script_flat. Qed.

  Theorem any_req_chain u :
    Forall (fun x => 0 <= u_size x) u ->
    let st' := exec_script env senv ext final script (init_state u) in
    (forall seg, In seg isegs -> ~ In (LForwardRef (alloc_name seg)) (l_errors st')) ->
    ReqChain sty env ext (header_state env senv ext final script u) (fun n => sec_body n (flat_stmts script))
             st' 0 isegs.
  Proof.
    intros Hu st' Herr. unfold st' in *. clear st'. rewrite anyreq_exec in *.
    unfold header_state. rewrite Hflat in *.
    set (P := (version_stmts rt ++ begin_sections_body stg)%list) in *.
    rewrite run_app, (run_app env senv ext final body fin) in *.
    assert (EP : runl P (init_state u) = runl (begin_sections_body stg) (init_state u)).
    { unfold P. rewrite run_app, run_version. reflexivity. }
    destruct (run_begin env senv ext final stg (init_state u)) as [B1 [B2 [B3 [B4 B5]]]].
    cbv zeta in B1, B2, B3, B4, B5. rewrite <- EP in B1, B2, B3, B4, B5.
    set (stb := runl P (init_state u)) in *.
    apply ReqChain_frame.
    { intros seg Hin. destruct (anyreq_vram2 seg Hin) as [_ [_ [U2 _]]]. exact U2. }
    replace 0 with (l_dot stb) by (rewrite B5; reflexivity).
    apply (req_chain_fold env senv ext final rt stg cfg classes segs ws0 body ws' P fin (init_state u) E).
    - intros n _ Hb. unfold P in Hb. rewrite flat_map_app, makes_sec_version, makes_sec_begin in Hb. exact Hb.
    - intros n _. fold stb. rewrite B2. reflexivity.
    - exact Hnd.
    - intros seg Hin. apply (anyreq_vram2 seg Hin).
    - intros seg Hin Hbad. apply (Herr seg Hin). apply run_errors_in. exact Hbad.
    - unfold sizes_ok. fold stb. rewrite B3. exact Hu.
  Qed.
End AnyReq.

(* ====================================================================== *)
(* 7. what an output section receives is what is placed in it              *)
(* ====================================================================== *)

Lemma place_markers vma sub outsec l : forall off acc c off' acc' c',
  place vma sub outsec l off acc c = (off', acc', c') ->
  exists new, acc' = (acc ++ new)%list /\ map pl_marker new = map u_marker l /\
              Forall (fun p => pl_outsec p = outsec) new.
Proof.
  induction l as [|x r IH]; intros off acc c off' acc' c' H; cbn [place] in H.
  - inversion H; subst. exists []. rewrite app_nil_r. split; [reflexivity|]. split; [reflexivity | constructor].
  - cbv zeta in H. destruct (IH _ _ _ _ _ _ H) as [new [Hacc [Hm Ho]]]. eexists (_ :: new).
    rewrite Hacc, <- app_assoc. split; [reflexivity|]. cbn [map pl_marker]. rewrite Hm.
    split; [reflexivity|]. constructor; [reflexivity | exact Ho].
Qed.

Lemma from_sec_shape name l :
  from_sec name l = [] \/ exists ad at_ nl sub body b, from_sec name l = SOutSec name ad at_ nl sub body :: b.
Proof.
  induction l as [|s r IH]; [left; reflexivity|].
  destruct s; cbn [from_sec]; try exact IH.
  destruct (String.eqb name0 name) eqn:E; [|exact IH].
  apply String.eqb_eq in E. subst name0. right. repeat eexists.
Qed.

Section Placed.
  Variables (env : list (string * Z)) (senv : list osec) (ext : list (string * Z)) (final : bool).
  Notation top := (exec_top_stmt env senv ext final).
  Notation runl := (run env senv ext final).
  Notation secs vma sub name := (exec_sec_stmt env senv ext final vma sub name).

  Lemma sec_fold_received vma sub name body : forall ss,
    let ss' := fold_left (secs vma sub name) body ss in
    exists new, l_placed (s_st ss') = (l_placed (s_st ss) ++ new)%list /\
                map pl_marker new = map u_marker (received body (l_remaining (s_st ss))) /\
                Forall (fun p => pl_outsec p = name) new.
  Proof.
    induction body as [|s body IH]; intro ss.
    - exists []. cbn. rewrite app_nil_r. repeat split. constructor.
    - cbn [fold_left]. destruct (IH (secs vma sub name ss s)) as [n1 [E1 [M1 O1]]]. cbv zeta.
      destruct (sec_stmt_cases env senv ext final vma sub name ss s)
        as [[p [h [r [sym [e [Es E]]]]]] | [[k [path [member [sect [wild [off' [pls [c [Es [Ep E]]]]]]]]]] | [E [Na Ni]]]].
      + subst s. exists n1. rewrite E1, E in *. cbn [s_st received] in *.
        rewrite Proofs.C04.assign_placed, Proofs.C04.assign_remaining in *. repeat split; assumption.
      + subst s. destruct (place_markers _ _ _ _ _ _ _ _ _ _ Ep) as [new [Hacc [Hm Ho]]].
        cbn [app] in Hacc. subst pls.
        exists (new ++ n1)%list. rewrite E1, E in *. cbn [s_st l_placed l_remaining received] in *.
        rewrite app_assoc. split; [reflexivity|]. rewrite !map_app, Hm, M1.
        split; [reflexivity | apply Forall_app; split; assumption].
      + exists n1. rewrite E1, E in *.
        assert (Er : received (s :: body) (l_remaining (s_st ss)) = received body (l_remaining (s_st ss))).
        { destruct s; try reflexivity. exfalso. eapply Ni. reflexivity. }
        rewrite Er. repeat split; assumption.
  Qed.

  (* for ANY script and ANY section name: unless the address of that section could not be evaluated, the
     placements of the final state are those made before its header, then the input sections it
     receives, in order, all in that section, then those made after it *)
  Theorem received_is_placed L stI name :
    ~ In (LForwardRef name) (l_errors (runl L stI)) ->
    let stH := runl (before_sec name L) stI in
    exists new post,
      l_placed (runl L stI) = (l_placed stH ++ new ++ post)%list /\
      map pl_marker new = map u_marker (received (sec_body name L) (l_remaining stH)) /\
      Forall (fun p => pl_outsec p = name) new.
  Proof.
    intros Herr stH. unfold sec_body.
    destruct (from_sec_shape name L) as [E0 | (ad & at_ & nl & sub & body & b & E0)].
    - exists [], []. rewrite E0. cbn [received map app]. rewrite app_nil_r.
      pose proof (before_from name L) as EL. rewrite E0, app_nil_r in EL. unfold stH. rewrite <- EL.
      repeat split. constructor.
    - rewrite E0. pose proof (before_from name L) as EL. rewrite E0 in EL.
      assert (ER : runl L stI = runl b (top stH (SOutSec name ad at_ nl sub body))).
      { rewrite EL at 1. rewrite run_app, run_cons. reflexivity. }
      rewrite ER in *. destruct (run_placed env senv ext final b (top stH (SOutSec name ad at_ nl sub body))) as [post Ep].
      cbn [exec_top_stmt] in *.
      destruct (outsec_vma env senv ext ad sub body stH) as [vma|e] eqn:Ev.
      + destruct (exec_outsec_ok env senv ext final name ad at_ nl sub body stH vma Ev) as [_ [_ [_ [_ [Hp _]]]]].
        unfold outsec_body in Hp.
        destruct (sec_fold_received vma (option_map Z.of_N sub) name body (SState 0 false stH)) as [new [En [Mn On]]].
        cbn [s_st] in En, Mn. exists new, post. rewrite Ep, Hp, En, <- app_assoc. repeat split; assumption.
      + exfalso. apply Herr. apply run_errors_in. rewrite (exec_outsec_err _ _ _ _ _ _ _ _ _ _ _ _ Ev).
        cbn [add_err l_errors]. apply in_or_app. right. left. reflexivity.
  Qed.
End Placed.

(* ====================================================================== *)
(* 8. reading the chain: one segment, its predecessor                      *)
(* ====================================================================== *)

(* the segment [seg] of the chain: the location counter before it is [dt] when it is the first one, else
   the VRAM end of the segment just before it *)
Lemma ReqChain_split sty env ext hs bd st' l1 seg l2 : forall dt,
  ReqChain sty env ext hs bd st' dt (l1 ++ seg :: l2) ->
  exists dt' ve,
    (l1 = [] -> dt' = dt) /\
    (forall l0 p, l1 = (l0 ++ [p])%list -> val st' (segment_vram_end sty (sg_name p)) = Some dt') /\
    SegReq sty env ext (hs (alloc_name seg)) (hs (noload_name seg)) (bd (alloc_name seg))
           (bd (noload_name seg)) st' dt' seg ve /\
    ReqChain sty env ext hs bd st' ve l2.
Proof.
  induction l1 as [|p r IH]; intros dt H.
  - cbn [app ReqChain] in H. destruct H as [ve [Hs Hr]]. exists dt, ve. split; [reflexivity|].
    split; [|split; assumption]. intros l0 q Eq. destruct l0; discriminate Eq.
  - cbn [app ReqChain] in H. destruct H as [vep [Hp Hr]].
    destruct (IH vep Hr) as (dt' & ve & H1 & H2 & H3 & H4). exists dt', ve.
    split; [discriminate|]. split; [|split; assumption].
    intros l0 q Eq. destruct l0 as [|x l0].
    + cbn [app] in Eq. inversion Eq; subst q r. rewrite (H1 eq_refl).
      destruct Hp as (o1 & o2 & _ & _ & _ & _ & _ & _ & _ & _ & _ & VE). exact VE.
    + cbn [app] in Eq. inversion Eq; subst x r. apply (H2 l0 q). reflexivity.
Qed.

Lemma ReqChain_in sty env ext hs bd st' segs seg dt :
  ReqChain sty env ext hs bd st' dt segs -> In seg segs ->
  exists dt' ve, SegReq sty env ext (hs (alloc_name seg)) (hs (noload_name seg)) (bd (alloc_name seg))
                        (bd (noload_name seg)) st' dt' seg ve.
Proof.
  intros H Hin. apply in_split in Hin. destruct Hin as [l1 [l2 El]]. subst segs.
  destruct (ReqChain_split _ _ _ _ _ _ _ _ _ _ H) as (dt' & ve & _ & _ & Hs & _). exists dt', ve. exact Hs.
Qed.

(* the new statement implies the old formula of VramChain (the converse fails, see the Examples) *)
Lemma SegReq_old_formula sty env ext stH stN b1 b2 st' dt seg ve :
  SegReq sty env ext stH stN b1 b2 st' dt seg ve ->
  sg_fixed_vram seg = None -> sg_fixed_symbol seg = None -> sg_follows_segment seg = None ->
  sg_vram_class seg = None ->
  exists o1, find_sec (alloc_name seg) (l_secs st') = Some o1 /\
             os_vma o1 = align_up (align_up dt (align_z (segment_start_align seg)))
                                  (sec_align (subalign seg) (received b1 (l_remaining stH))) /\
             old_default_formula dt (align_z (segment_start_align seg)) (os_vma o1).
Proof.
  intros (o1 & o2 & F1 & _ & _ & _ & D & R & _) E1 E2 E3 E4. exists o1. split; [exact F1|].
  unfold requested_start in R. rewrite E1, E2, E3, E4, D in R. inversion R as [ER].
  split; [reflexivity|]. eexists. reflexivity.
Qed.

(* ====================================================================== *)
(* 9. composing with the rest of the link: follows_segment, vram_class      *)
(* ====================================================================== *)

Lemma filter_assigns_version x rt : filter (assigns x) (version_stmts rt) = [].
Proof. unfold version_stmts. destruct (rt_emit_version_comment rt); reflexivity. Qed.

Lemma makes_sec_fold rt stg cfg classes segs : forall ws body ws',
  fold_out (add_segment rt stg cfg classes) segs ws = Ok (body, ws') ->
  flat_map makes_sec body = out_names (included rt segs).
Proof.
  induction segs as [|x r IH]; intros ws body ws' H.
  - apply fold_out_nil in H. destruct H; subst. reflexivity.
  - apply fold_out_cons in H. destruct H as [s1 [ws1 [s2 [E1 [E2 E]]]]]. subst body.
    rewrite flat_map_app, (makes_sec_add_segment _ _ _ _ _ _ _ _ E1), (IH _ _ _ E2).
    unfold included. cbn [filter]. destruct (should_emit rt (sg_conds x)); reflexivity.
Qed.

Lemma included_app rt a b : included rt (a ++ b) = (included rt a ++ included rt b)%list.
Proof. apply filter_app. Qed.

Section HeaderFrame.
  Variables (env : list (string * Z)) (senv : list osec) (ext : list (string * Z)) (final : bool).
  Notation runl := (run env senv ext final).

  (* a symbol assigned once in the whole list, by a statement before the header of [name]: at the header
     it already has its final value *)
  Lemma header_value_final L stI name x :
    defined_once x L = true -> existsb (assigns x) (before_sec name L) = true ->
    lookup x (l_syms (runl (before_sec name L) stI)) = lookup x (l_syms (runl L stI)).
  Proof.
    intros Hd Ha. pose proof (before_from name L) as EL.
    set (a := before_sec name L) in *. set (b := from_sec name L) in *. clearbody a b. subst L.
    destruct (defined_once_app_l _ _ _ Hd Ha) as [_ Hb].
    rewrite run_app. symmetry. apply run_syms. exact Hb.
  Qed.

  (* a symbol not assigned from the header of [name] on: its value at the header is the final one *)
  Lemma header_value_kept L stI name x :
    existsb (assigns x) (from_sec name L) = false ->
    lookup x (l_syms (runl (before_sec name L) stI)) = lookup x (l_syms (runl L stI)).
  Proof.
    intros Hb. pose proof (before_from name L) as EL.
    set (a := before_sec name L) in *. set (b := from_sec name L) in *. clearbody a b. subst L.
    rewrite run_app. symmetry. apply run_syms. exact Hb.
  Qed.

  Lemma sym_lookup_same st1 st2 x :
    lookup x (l_syms st1) = lookup x (l_syms st2) -> sym_lookup x st1 env ext = sym_lookup x st2 env ext.
  Proof. intro H. unfold sym_lookup. rewrite H. reflexivity. Qed.
End HeaderFrame.

Section AnyCompose.
  Variables (rt : runtime) (stg : settings) (cfg : wcfg) (classes : list vram_class) (segs : list segment).
  Variables (tl body : list stmt) (ws' : wstate) (script : list stmt).
  Variables (env : list (string * Z)) (senv : list osec) (ext : list (string * Z)) (final : bool).
  Variable u : list usec.
  Notation runl := (run env senv ext final).
  Notation sty := (linker_symbols_style stg).
  Notation isegs := (included rt segs).
  Notation fin := (end_sections_body stg classes ws' ++ tl)%list.
  Notation st' := (exec_script env senv ext final script (init_state u)).
  Notation hs := (header_state env senv ext final script u).
  Notation bd := (fun n => sec_body n (flat_stmts script)).

  Hypothesis E : fold_out (add_segment rt stg cfg classes) segs ws0 = Ok (body, ws').
  Hypothesis Hnd : NoDup (out_names isegs).
  Hypothesis Hseg : forall seg, In seg isegs -> seg_link_wf sty (begin_sections_body stg ++ body ++ fin) seg = true.
  Hypothesis Hflat : flat_stmts script = ((version_stmts rt ++ begin_sections_body stg) ++ body ++ fin)%list.
  Hypothesis Hu : Forall (fun x => 0 <= u_size x) u.
  Hypothesis Herr : forall seg, In seg isegs -> ~ In (LForwardRef (alloc_name seg)) (l_errors st').

  Lemma anyc_chain : ReqChain sty env ext hs bd st' 0 isegs.
  Proof. exact (any_req_chain rt stg cfg classes segs tl body ws' script env senv ext final E Hnd Hseg Hflat u Hu Herr). Qed.

  Lemma anyc_vend_once seg : In seg isegs -> defined_once (segment_vram_end sty (sg_name seg)) (flat_stmts script) = true.
  Proof.
    intro Hin. destruct (seg_wf_parts _ _ _ (Hseg seg Hin)) as [_ [D _]].
    unfold vram_names_distinct in D. apply andb_true_iff in D. destruct D as [D _].
    apply andb_true_iff in D. destruct D as [_ D].
    rewrite Hflat. unfold defined_once in *. rewrite <- app_assoc, filter_app, filter_assigns_version. exact D.
  Qed.

  (* where the header of an included segment is: after the statements of the segments before it *)
  Lemma anyc_before la seg lb :
    segs = (la ++ seg :: lb)%list -> should_emit rt (sg_conds seg) = true ->
    exists ba wsa cls wsx,
      fold_out (add_segment rt stg cfg classes) la ws0 = Ok (ba, wsa) /\
      class_part stg classes seg wsa = Ok (cls, wsx) /\
      before_sec (alloc_name seg) (flat_stmts script) =
      ((version_stmts rt ++ begin_sections_body stg) ++ ba ++
       (cls ++ seg_head stg seg ++ sections_kind_start sty cfg seg false))%list.
  Proof.
    intros Hs Hc. pose proof E as E'. rewrite Hs, fold_out_app in E'.
    apply bind_ok_out in E'. destruct E' as [ba [wsa [Ea E']]]. cbn [fst snd] in E'.
    apply bind_ok_out in E'. destruct E' as [bb [wsb [Eb E']]]. cbn [fst snd] in E'.
    apply ok_inj in E'. inversion E'; subst body wsb. clear E'.
    apply fold_out_cons in Eb. destruct Eb as [s1 [ws1 [bc [E1 [E2 Ebb]]]]]. subst bb.
    exists ba, wsa.
    (* the shape of the statements of seg *)
    pose proof E1 as E1'. apply add_segment_inv in E1'.
    destruct E1' as [[Hc' _] | [_ [cls [wsx [sa [wsy [sb [Ec [Ea1 [Ea2 Es]]]]]]]]]]; [congruence|].
    apply write_segment_inv in Ea1. destruct Ea1 as [body1 [_ Ea1]]. rewrite alloc_name_outsec in Ea1.
    set (ks := sections_kind_start sty cfg seg false) in *.
    exists cls, wsx. split; [exact Ea|]. split; [exact Ec|]. fold ks.
    rewrite Hflat, Es, Ea1.
    set (O1 := SOutSec (alloc_name seg) (segment_addr sty seg) (Some (segment_rom_start sty (sg_name seg))) false
                       (subalign seg) (opt_fill seg ++ body1)).
    match goal with |- before_sec _ ?L = ?R => assert (EL : L = (R ++ O1 :: (sections_kind_end sty cfg seg false ++
        [SBlank] ++ sb ++ [SBlank] ++ seg_foot stg seg) ++ bc ++ fin)%list) end.
    { repeat (rewrite <- app_assoc; cbn [app]). reflexivity. }
    rewrite EL. unfold O1. apply before_sec_at.
    rewrite !flat_map_app, makes_sec_version, makes_sec_begin, (makes_sec_fold _ _ _ _ _ _ _ _ Ea),
      (makes_sec_plain cls (pl_class_part _ _ _ _ _ _ Ec)), (makes_sec_plain _ (pl_seg_head _ _)),
      (makes_sec_plain ks (pl_kind_start _ _ _ _)). cbn [app]. rewrite !app_nil_r.
    (* the names of the earlier segments are different *)
    pose proof Hnd as Hnd'. rewrite Hs, included_app in Hnd'. unfold included at 2 in Hnd'. cbn [filter] in Hnd'.
    rewrite Hc in Hnd'. unfold out_names in Hnd'. rewrite flat_map_app in Hnd'. cbn [flat_map app] in Hnd'.
    apply NoDup_remove_2 in Hnd'. intro Hb. apply Hnd'. apply in_or_app. left. exact Hb.
  Qed.

  (* follows_segment: the segment starts at the VRAM end of the followed segment - the end of its noload
     part rounded up to its segment_end_align -, when that segment is an EARLIER included segment *)
  Theorem any_follows la seg lb segn :
    segs = (la ++ seg :: lb)%list -> should_emit rt (sg_conds seg) = true -> In segn (included rt la) ->
    sg_fixed_vram seg = None -> sg_fixed_symbol seg = None -> sg_follows_segment seg = Some (sg_name segn) ->
    exists o1 on2,
      find_sec (alloc_name seg) (l_secs st') = Some o1 /\
      find_sec (noload_name segn) (l_secs st') = Some on2 /\
      os_vma o1 = align_up (os_vma on2 + os_size on2) (align_z (segment_end_align segn)) /\
      val st' (segment_vram_end sty (sg_name segn)) = Some (os_vma o1).
  Proof.
    intros Hs Hc Hn F1 F2 F3.
    assert (Hin : In seg isegs).
    { rewrite Hs. apply filter_In. split; [apply in_or_app; right; left; reflexivity | exact Hc]. }
    assert (Hinn : In segn isegs).
    { rewrite Hs, included_app. apply in_or_app. left. exact Hn. }
    destruct (ReqChain_in _ _ _ _ _ _ _ _ _ anyc_chain Hin) as (dt & ve & o1 & o2 & G1 & _ & _ & _ & _ & R & _).
    destruct (ReqChain_in _ _ _ _ _ _ _ _ _ anyc_chain Hinn)
      as (dtn & ven & on1 & on2 & _ & K2 & _ & _ & _ & _ & _ & _ & Even & VEn).
    unfold requested_start in R. rewrite F1, F2, F3 in R.
    (* the value of the followed VRAM_END at the header is its final value *)
    destruct (anyc_before la seg lb Hs Hc) as (ba & wsa & cls & wsx & Ea & _ & Eb).
    assert (Hl : lookup (segment_vram_end sty (sg_name segn)) (l_syms (hs (alloc_name seg))) = Some ven).
    { unfold header_state. rewrite (header_value_final env senv ext final).
      - rewrite <- exec_script_flat. exact VEn.
      - apply anyc_vend_once. exact Hinn.
      - rewrite Eb. destruct (vram_assigned_fold _ _ _ _ _ _ _ _ _ Ea Hn) as [_ [A2 _]].
        rewrite existsb_app, (existsb_app _ ba), A2. cbn [orb]. apply orb_true_r. }
    rewrite (sym_lookup_defined _ _ _ _ _ Hl) in R. inversion R as [ER].
    exists o1, on2. split; [exact G1|]. split; [exact K2|]. rewrite <- ER. split; [exact Even | exact VEn].
  Qed.

  (* vram_class: the segment starts at the value the class start symbol has at its header; that is also
     the value of the symbol at the end of the pass when nothing assigns it from that header on *)
  Theorem any_class_start seg c :
    In seg isegs ->
    sg_fixed_vram seg = None -> sg_fixed_symbol seg = None -> sg_follows_segment seg = None ->
    sg_vram_class seg = Some c ->
    exists o1,
      find_sec (alloc_name seg) (l_secs st') = Some o1 /\
      sym_lookup (vram_class_start sty c) (hs (alloc_name seg)) env ext = Some (os_vma o1) /\
      (existsb (assigns (vram_class_start sty c)) (from_sec (alloc_name seg) (flat_stmts script)) = false ->
       sym_lookup (vram_class_start sty c) st' env ext = Some (os_vma o1)).
  Proof.
    intros Hin F1 F2 F3 F4.
    destruct (ReqChain_in _ _ _ _ _ _ _ _ _ anyc_chain Hin) as (dt & ve & o1 & o2 & G1 & _ & _ & _ & _ & R & _).
    unfold requested_start in R. rewrite F1, F2, F3, F4 in R.
    exists o1. split; [exact G1|]. split; [exact R|].
    intro Hno. rewrite <- R. symmetry. apply sym_lookup_same.
    unfold header_state. rewrite (header_value_kept env senv ext final _ _ _ _ Hno), <- exec_script_flat. reflexivity.
  Qed.

  (* vram_class, the FIRST included segment of the class (the class start statements are written in front
     of it): the start is what these statements compute from the state [st0] before them - the fixed_vram
     of the class, the value of its fixed_symbol text, or the largest end of the classes it follows (0 at
     least) *)
  Theorem any_class_first la seg lb cn c :
    segs = (la ++ seg :: lb)%list -> should_emit rt (sg_conds seg) = true ->
    sg_fixed_vram seg = None -> sg_fixed_symbol seg = None -> sg_follows_segment seg = None ->
    sg_vram_class seg = Some cn -> class_get classes cn = Some c ->
    names_class rt cn la = false ->
    existsb (assigns (vram_class_start sty cn)) (seg_head stg seg ++ sections_kind_start sty cfg seg false) = false ->
    exists o1 st0,
      find_sec (alloc_name seg) (l_secs st') = Some o1 /\
      hs (alloc_name seg) =
        runl (class_start_stmts stg c cn ++ seg_head stg seg ++ sections_kind_start sty cfg seg false) st0 /\
      (forall v, vc_fixed_vram c = Some v -> os_vma o1 = Z.of_N v) /\
      (forall s v, vc_fixed_vram c = None -> vc_fixed_symbol c = Some s ->
                   eval_raw env ext st0 s = Ok v -> os_vma o1 = v) /\
      (forall es, vc_fixed_vram c = None -> vc_fixed_symbol c = None ->
                  Forall2 (fun o e => sym_lookup (vram_class_end sty o) st0 env ext = Some e) (vc_follows_classes c) es ->
                  os_vma o1 = fold_left Z.max es 0).
  Proof.
    intros Hs Hc F1 F2 F3 F4 Hget Hfirst Hno.
    assert (Hin : In seg isegs).
    { rewrite Hs. apply filter_In. split; [apply in_or_app; right; left; reflexivity | exact Hc]. }
    destruct (ReqChain_in _ _ _ _ _ _ _ _ _ anyc_chain Hin) as (dt & ve & o1 & o2 & G1 & _ & _ & _ & _ & R & _).
    unfold requested_start in R. rewrite F1, F2, F3, F4 in R.
    destruct (anyc_before la seg lb Hs Hc) as (ba & wsa & cls & wsx & Ea & Ec & Eb).
    assert (Hmem : mem_str cn (ws_emitted wsa) = false).
    { rewrite (emitted_fold _ _ _ _ cn _ _ _ _ Ea), Hfirst. reflexivity. }
    unfold class_part in Ec. rewrite F4, Hget, Hmem in Ec. apply ok_inj in Ec. inversion Ec as [[Ecls Ews]].
    subst cls. clear Ec Ews.
    set (ks := sections_kind_start sty cfg seg false) in *.
    set (st0 := runl ((version_stmts rt ++ begin_sections_body stg) ++ ba) (init_state u)).
    assert (EH : hs (alloc_name seg) = runl (class_start_stmts stg c cn ++ seg_head stg seg ++ ks) st0).
    { unfold header_state. rewrite Eb, app_assoc, run_app. reflexivity. }
    exists o1, st0. split; [exact G1|]. split; [exact EH|].
    rewrite EH, run_app, (sym_lookup_frame env senv ext final _ _ _ Hno) in R.
    destruct (class_start_value env senv ext final stg c cn st0) as [_ [V1 [V2 V3]]].
    split; [|split].
    - intros v Ev. rewrite (sym_lookup_defined _ _ _ _ _ (V1 v Ev)) in R. inversion R. reflexivity.
    - intros s v E1 E2 E3. rewrite (sym_lookup_defined _ _ _ _ _ (V2 s v E1 E2 E3)) in R. inversion R. reflexivity.
    - intros es E1 E2 E3. rewrite (sym_lookup_defined _ _ _ _ _ (V3 es E1 E2 E3)) in R. inversion R. reflexivity.
  Qed.

  (* fixed_symbol naming a plain symbol that the script assigns nowhere: the segment starts at the value
     that symbol has outside the pass (an object symbol, or the previous pass) *)
  Theorem any_plain_symbol seg s :
    In seg isegs ->
    sg_fixed_vram seg = None -> sg_fixed_symbol seg = Some s ->
    defined_arg s = None -> split_on " " s = [s] -> parse_num s = None ->
    no_assign s (flat_stmts script) = true ->
    exists o1,
      find_sec (alloc_name seg) (l_secs st') = Some o1 /\ outer_lookup env ext s = Some (os_vma o1).
  Proof.
    intros Hin F1 F2 Hd Hs Hp Hno.
    destruct (ReqChain_in _ _ _ _ _ _ _ _ _ anyc_chain Hin) as (dt & ve & o1 & o2 & G1 & _ & _ & _ & _ & R & _).
    unfold requested_start in R. rewrite F1, F2 in R. exists o1. split; [exact G1|].
    unfold eval_raw in R. rewrite Hd, Hs in R. unfold atom in R. rewrite Hp in R.
    unfold sym_lookup in R.
    assert (Hl : lookup s (l_syms (hs (alloc_name seg))) = None).
    { unfold header_state. rewrite run_syms; [reflexivity|].
      apply negb_true_iff in Hno. pose proof (before_from (alloc_name seg) (flat_stmts script)) as EL.
      rewrite EL, existsb_app in Hno. apply orb_false_iff in Hno. apply Hno. }
    rewrite Hl in R. unfold outer_lookup.
    destruct (lookup s env) as [v|]; [inversion R; reflexivity|].
    destruct (lookup s ext) as [v|]; [inversion R; reflexivity | discriminate R].
  Qed.
End AnyCompose.

(* ====================================================================== *)
(* 10. the ordinary script of a document                                   *)
(* ====================================================================== *)

Lemma doc_flat d rt w :
  gen_normal d rt = Ok w -> doc_link_wf d rt = true ->
  let stg := doc_settings d in
  let sty := linker_symbols_style stg in
  let classes := doc_vram_classes d in
  exists body ws',
    fold_out (add_segment rt stg cfg_normal classes) (doc_segments d) ws0 = Ok (body, ws') /\
    NoDup (out_names (included rt (doc_segments d))) /\
    (forall seg, In seg (included rt (doc_segments d)) ->
       seg_link_wf sty (begin_sections_body stg ++ body ++ end_sections_body stg classes ws' ++ tail_stmts rt d) seg = true) /\
    flat_stmts (wo_script w) =
    ((version_stmts rt ++ begin_sections_body stg) ++ body ++ end_sections_body stg classes ws' ++ tail_stmts rt d)%list.
Proof.
  intros Hg Hwf stg sty classes.
  destruct (doc_link_wf_inv d rt Hwf) as (body & ws' & E & Hm & Hnd & Hseg & _ & _).
  destruct (script_shape d rt w Hg Hm) as (parts & ws2 & _ & E2 & Ew & _).
  fold stg classes in E, E2, Ew, Hseg. rewrite E in E2. apply ok_inj in E2. inversion E2 as [[Ebody Ews]]. subst ws2.
  exists body, ws'. split; [exact E|]. split; [exact Hnd|]. split; [exact Hseg|].
  rewrite Ew, flat_sections_script. rewrite <- Ebody. repeat (rewrite <- app_assoc; cbn [app]). reflexivity.
Qed.

Section DocReq.
  Variables (env : list (string * Z)) (senv : list osec) (ext : list (string * Z)) (final : bool).

  (* C03_document_requested_start *)
  Theorem document_requested_start d rt w u :
    gen_normal d rt = Ok w -> doc_link_wf d rt = true ->
    Forall (fun x => 0 <= u_size x) u ->
    let sty := linker_symbols_style (doc_settings d) in
    let segs := included rt (doc_segments d) in
    let st' := exec_script env senv ext final (wo_script w) (init_state u) in
    (forall seg, In seg segs -> ~ In (LForwardRef (alloc_name seg)) (l_errors st')) ->
    ReqChain sty env ext (header_state env senv ext final (wo_script w) u)
             (fun n => sec_body n (flat_stmts (wo_script w))) st' 0 segs.
  Proof.
    intros Hg Hwf Hu sty segs st' Herr.
    destruct (doc_flat d rt w Hg Hwf) as (body & ws' & E & Hnd & Hseg & Hflat).
    exact (any_req_chain rt _ _ _ _ _ _ _ _ env senv ext final E Hnd Hseg Hflat u Hu Herr).
  Qed.

  (* C03_document_follows_start *)
  Theorem document_follows_start d rt w u la seg lb segn :
    gen_normal d rt = Ok w -> doc_link_wf d rt = true ->
    Forall (fun x => 0 <= u_size x) u ->
    doc_segments d = (la ++ seg :: lb)%list -> should_emit rt (sg_conds seg) = true ->
    In segn (included rt la) ->
    sg_fixed_vram seg = None -> sg_fixed_symbol seg = None -> sg_follows_segment seg = Some (sg_name segn) ->
    let sty := linker_symbols_style (doc_settings d) in
    let st' := exec_script env senv ext final (wo_script w) (init_state u) in
    (forall s, In s (included rt (doc_segments d)) -> ~ In (LForwardRef (alloc_name s)) (l_errors st')) ->
    exists o1 on2,
      find_sec (alloc_name seg) (l_secs st') = Some o1 /\
      find_sec (noload_name segn) (l_secs st') = Some on2 /\
      os_vma o1 = align_up (os_vma on2 + os_size on2) (align_z (segment_end_align segn)) /\
      val st' (segment_vram_end sty (sg_name segn)) = Some (os_vma o1).
  Proof.
    intros Hg Hwf Hu Hs Hc Hn F1 F2 F3 sty st' Herr.
    destruct (doc_flat d rt w Hg Hwf) as (body & ws' & E & Hnd & Hseg & Hflat).
    exact (any_follows rt _ _ _ _ _ _ _ _ env senv ext final u E Hnd Hseg Hflat Hu Herr la seg lb segn Hs Hc Hn F1 F2 F3).
  Qed.

  (* C03_document_class_start *)
  Theorem document_class_start d rt w u seg c :
    gen_normal d rt = Ok w -> doc_link_wf d rt = true ->
    Forall (fun x => 0 <= u_size x) u ->
    In seg (included rt (doc_segments d)) ->
    sg_fixed_vram seg = None -> sg_fixed_symbol seg = None -> sg_follows_segment seg = None ->
    sg_vram_class seg = Some c ->
    let sty := linker_symbols_style (doc_settings d) in
    let st' := exec_script env senv ext final (wo_script w) (init_state u) in
    (forall s, In s (included rt (doc_segments d)) -> ~ In (LForwardRef (alloc_name s)) (l_errors st')) ->
    exists o1,
      find_sec (alloc_name seg) (l_secs st') = Some o1 /\
      sym_lookup (vram_class_start sty c) (header_state env senv ext final (wo_script w) u (alloc_name seg)) env ext
        = Some (os_vma o1) /\
      (existsb (assigns (vram_class_start sty c)) (from_sec (alloc_name seg) (flat_stmts (wo_script w))) = false ->
       sym_lookup (vram_class_start sty c) st' env ext = Some (os_vma o1)).
  Proof.
    intros Hg Hwf Hu Hin F1 F2 F3 F4 sty st' Herr.
    destruct (doc_flat d rt w Hg Hwf) as (body & ws' & E & Hnd & Hseg & Hflat).
    exact (any_class_start rt _ _ _ _ _ _ _ _ env senv ext final u E Hnd Hseg Hflat Hu Herr seg c Hin F1 F2 F3 F4).
  Qed.

  (* C03_document_class_first_member *)
  Theorem document_class_first_member d rt w u la seg lb cn c :
    gen_normal d rt = Ok w -> doc_link_wf d rt = true ->
    Forall (fun x => 0 <= u_size x) u ->
    doc_segments d = (la ++ seg :: lb)%list -> should_emit rt (sg_conds seg) = true ->
    sg_fixed_vram seg = None -> sg_fixed_symbol seg = None -> sg_follows_segment seg = None ->
    sg_vram_class seg = Some cn -> class_get (doc_vram_classes d) cn = Some c ->
    names_class rt cn la = false ->
    let stg := doc_settings d in
    let sty := linker_symbols_style stg in
    let st' := exec_script env senv ext final (wo_script w) (init_state u) in
    existsb (assigns (vram_class_start sty cn))
            (seg_head stg seg ++ sections_kind_start sty cfg_normal seg false) = false ->
    (forall s, In s (included rt (doc_segments d)) -> ~ In (LForwardRef (alloc_name s)) (l_errors st')) ->
    exists o1 st0,
      find_sec (alloc_name seg) (l_secs st') = Some o1 /\
      header_state env senv ext final (wo_script w) u (alloc_name seg) =
        run env senv ext final
            (class_start_stmts stg c cn ++ seg_head stg seg ++ sections_kind_start sty cfg_normal seg false) st0 /\
      (forall v, vc_fixed_vram c = Some v -> os_vma o1 = Z.of_N v) /\
      (forall s v, vc_fixed_vram c = None -> vc_fixed_symbol c = Some s ->
                   eval_raw env ext st0 s = Ok v -> os_vma o1 = v) /\
      (forall es, vc_fixed_vram c = None -> vc_fixed_symbol c = None ->
                  Forall2 (fun o e => sym_lookup (vram_class_end sty o) st0 env ext = Some e) (vc_follows_classes c) es ->
                  os_vma o1 = fold_left Z.max es 0).
  Proof.
    intros Hg Hwf Hu Hs Hc F1 F2 F3 F4 Hget Hfirst stg sty st' Hno Herr.
    destruct (doc_flat d rt w Hg Hwf) as (body & ws' & E & Hnd & Hseg & Hflat).
    exact (any_class_first rt _ _ _ _ _ _ _ _ env senv ext final u E Hnd Hseg Hflat Hu Herr la seg lb cn c
                           Hs Hc F1 F2 F3 F4 Hget Hfirst Hno).
  Qed.

  (* C03_document_plain_symbol_start *)
  Theorem document_plain_symbol_start d rt w u seg s :
    gen_normal d rt = Ok w -> doc_link_wf d rt = true ->
    Forall (fun x => 0 <= u_size x) u ->
    In seg (included rt (doc_segments d)) ->
    sg_fixed_vram seg = None -> sg_fixed_symbol seg = Some s ->
    defined_arg s = None -> split_on " " s = [s] -> parse_num s = None ->
    no_assign s (flat_stmts (wo_script w)) = true ->
    let st' := exec_script env senv ext final (wo_script w) (init_state u) in
    (forall s, In s (included rt (doc_segments d)) -> ~ In (LForwardRef (alloc_name s)) (l_errors st')) ->
    exists o1,
      find_sec (alloc_name seg) (l_secs st') = Some o1 /\ outer_lookup env ext s = Some (os_vma o1).
  Proof.
    intros Hg Hwf Hu Hin F1 F2 Hd Hs Hp Hno st' Herr.
    destruct (doc_flat d rt w Hg Hwf) as (body & ws' & E & Hnd & Hseg & Hflat).
    exact (any_plain_symbol rt _ _ _ _ _ _ _ _ env senv ext final u E Hnd Hseg Hflat Hu Herr seg s Hin F1 F2 Hd Hs Hp Hno).
  Qed.

  (* C03_document_default_start: the old existential with A pinned, and "." before the segment named *)
  Theorem document_default_start d rt w u l1 seg l2 :
    gen_normal d rt = Ok w -> doc_link_wf d rt = true ->
    Forall (fun x => 0 <= u_size x) u ->
    included rt (doc_segments d) = (l1 ++ seg :: l2)%list ->
    sg_fixed_vram seg = None -> sg_fixed_symbol seg = None -> sg_follows_segment seg = None ->
    sg_vram_class seg = None ->
    let sty := linker_symbols_style (doc_settings d) in
    let st' := exec_script env senv ext final (wo_script w) (init_state u) in
    let stH := header_state env senv ext final (wo_script w) u (alloc_name seg) in
    (forall s, In s (included rt (doc_segments d)) -> ~ In (LForwardRef (alloc_name s)) (l_errors st')) ->
    exists o1 dt,
      find_sec (alloc_name seg) (l_secs st') = Some o1 /\
      (l1 = [] -> dt = 0) /\
      (forall l0 p, l1 = (l0 ++ [p])%list -> val st' (segment_vram_end sty (sg_name p)) = Some dt) /\
      os_vma o1 = align_up (align_up dt (align_z (segment_start_align seg)))
                           (sec_align (subalign seg)
                                      (received (sec_body (alloc_name seg) (flat_stmts (wo_script w)))
                                                (l_remaining stH))).
  Proof.
    intros Hg Hwf Hu Hs F1 F2 F3 F4 sty st' stH Herr.
    pose proof (document_requested_start d rt w u Hg Hwf Hu Herr) as Hch. cbv zeta in Hch. rewrite Hs in Hch.
    destruct (ReqChain_split _ _ _ _ _ _ _ _ _ _ Hch) as (dt & ve & D1 & D2 & Hseg & _).
    destruct (SegReq_old_formula _ _ _ _ _ _ _ _ _ _ _ Hseg F1 F2 F3 F4) as (o1 & G1 & G2 & _).
    exists o1, dt. repeat split; assumption.
  Qed.

  (* C03_document_noload_start *)
  Theorem document_noload_start d rt w u seg :
    gen_normal d rt = Ok w -> doc_link_wf d rt = true ->
    Forall (fun x => 0 <= u_size x) u ->
    In seg (included rt (doc_segments d)) ->
    let st' := exec_script env senv ext final (wo_script w) (init_state u) in
    let stN := header_state env senv ext final (wo_script w) u (noload_name seg) in
    (forall s, In s (included rt (doc_segments d)) -> ~ In (LForwardRef (alloc_name s)) (l_errors st')) ->
    exists o1 o2,
      find_sec (alloc_name seg) (l_secs st') = Some o1 /\
      find_sec (noload_name seg) (l_secs st') = Some o2 /\
      l_dot stN = os_vma o1 + os_size o1 /\
      os_vma o2 = align_up (os_vma o1 + os_size o1)
                           (sec_align (subalign seg)
                                      (received (sec_body (noload_name seg) (flat_stmts (wo_script w)))
                                                (l_remaining stN))).
  Proof.
    intros Hg Hwf Hu Hin st' stN Herr.
    pose proof (document_requested_start d rt w u Hg Hwf Hu Herr) as Hch. cbv zeta in Hch.
    destruct (ReqChain_in _ _ _ _ _ _ _ _ _ Hch Hin) as (dt & ve & o1 & o2 & G1 & G2 & _ & _ & _ & _ & DN & V2 & _).
    exists o1, o2. repeat split; assumption.
  Qed.

  (* C03_received_is_placed: any script *)
  Theorem script_received_placed script u name :
    let st' := exec_script env senv ext final script (init_state u) in
    let stH := header_state env senv ext final script u name in
    ~ In (LForwardRef name) (l_errors st') ->
    exists new post,
      l_placed st' = (l_placed stH ++ new ++ post)%list /\
      map pl_marker new = map u_marker (received (sec_body name (flat_stmts script)) (l_remaining stH)) /\
      Forall (fun p => pl_outsec p = name) new.
  Proof.
    intros st' stH Herr. unfold st', stH, header_state in *. rewrite exec_script_flat in *.
    apply received_is_placed. exact Herr.
  Qed.
End DocReq.

(* ---------- the last pass of layout ---------- *)

Theorem document_requested_start_layout d rt w u ext0 :
  gen_normal d rt = Ok w -> doc_link_wf d rt = true ->
  Forall (fun x => 0 <= u_size x) u ->
  let sty := linker_symbols_style (doc_settings d) in
  let segs := included rt (doc_segments d) in
  let p1 := exec_script [] [] ext0 false (wo_script w) (init_state u) in
  let p2 := exec_script (l_syms p1) (l_secs p1) (ext0 ++ markers_of p1)%list false (wo_script w) (init_state u) in
  let ext3 := (ext0 ++ markers_of p2)%list in
  let st' := layout (wo_script w) u ext0 in
  (forall seg, In seg segs -> ~ In (LForwardRef (alloc_name seg)) (l_errors st')) ->
  ReqChain sty (l_syms p2) ext3 (header_state (l_syms p2) (l_secs p2) ext3 true (wo_script w) u)
           (fun n => sec_body n (flat_stmts (wo_script w))) st' 0 segs.
Proof. intros Hg Hwf Hu sty segs p1 p2 ext3 st'. unfold st', layout. apply document_requested_start; assumption. Qed.

(* C03_vram_symbol_requested_layout: with the fixpoint side conditions, the VRAM start SYMBOL of every
   included segment is the requested start, in the final state; no hypothesis on errors *)
Theorem vram_symbol_requested_layout R d rt w u ext0 seg :
  gen_normal d rt = Ok w -> doc_link_wf d rt = true ->
  script_stable R (wo_script w) = true -> outside_ok R (wo_script w) ext0 = true ->
  Forall (fun x => 0 <= u_size x) u ->
  let sty := linker_symbols_style (doc_settings d) in
  let p1 := exec_script [] [] ext0 false (wo_script w) (init_state u) in
  let p2 := exec_script (l_syms p1) (l_secs p1) (ext0 ++ markers_of p1)%list false (wo_script w) (init_state u) in
  let ext3 := (ext0 ++ markers_of p2)%list in
  let st' := layout (wo_script w) u ext0 in
  let stH := header_state (l_syms p2) (l_secs p2) ext3 true (wo_script w) u (alloc_name seg) in
  In seg (included rt (doc_segments d)) ->
  exists o1,
    find_sec (alloc_name seg) (l_secs st') = Some o1 /\
    requested_start (l_syms p2) ext3 sty seg
      (sec_align (subalign seg) (received (sec_body (alloc_name seg) (flat_stmts (wo_script w))) (l_remaining stH)))
      stH = Some (os_vma o1) /\
    val st' (segment_vram_start sty (sg_name seg)) = Some (os_vma o1).
Proof.
  intros Hg Hwf Hst Hout Hu sty p1 p2 ext3 st' stH Hin.
  destruct (layout_fixpoint R (wo_script w) u ext0 Hst Hout) as (_ & _ & _ & Hnf).
  assert (Herr : forall s, In s (included rt (doc_segments d)) ->
                           ~ In (LForwardRef (alloc_name s)) (l_errors (layout (wo_script w) u ext0)))
    by (intros s _; apply Hnf).
  pose proof (document_requested_start_layout d rt w u ext0 Hg Hwf Hu Herr) as Hch. cbv zeta in Hch.
  destruct (ReqChain_in _ _ _ _ _ _ _ _ _ Hch Hin) as (dt & ve & o1 & o2 & G1 & _ & _ & _ & _ & Rq & _).
  exists o1. split; [exact G1|]. split; [exact Rq|].
  exact (vram_is_section_start R d rt w u ext0 seg o1 Hg Hwf Hst Hout Hu Hin G1).
Qed.

(* ====================================================================== *)
(* 11. the main script of a partial build                                  *)
(* ====================================================================== *)

Lemma ReqChain_clone sty env ext hs bd st folder segs : forall dt,
  ReqChain sty env ext hs bd st dt (map (partial_clone folder) segs) -> ReqChain sty env ext hs bd st dt segs.
Proof.
  induction segs as [|seg rest IH]; intros dt H; [exact I|]. cbn [map ReqChain] in *.
  destruct H as [ve [Hs Hr]]. exists ve. split; [exact Hs | apply IH; exact Hr].
Qed.

(* C03_partial_requested_start *)
Theorem partial_requested_start env senv ext final d rt p u :
  gen_partial d rt = Ok p -> doc_link_wf_partial d rt = true ->
  Forall (fun x => 0 <= u_size x) u ->
  let sty := linker_symbols_style (doc_settings d) in
  let segs := included rt (doc_segments d) in
  let script := wo_script (po_main p) in
  let st' := exec_script env senv ext final script (init_state u) in
  (forall seg, In seg segs -> ~ In (LForwardRef (alloc_name seg)) (l_errors st')) ->
  ReqChain sty env ext (header_state env senv ext final script u) (fun n => sec_body n (flat_stmts script)) st' 0 segs.
Proof.
  intros Hg Hwf Hu sty segs script st' Herr.
  destruct (partial_exec d rt p Hg Hwf) as (folder & body & ws' & Ef & E & Hwc & _ & Ew & _).
  destruct (link_wf_stmts_inv _ _ _ _ _ _ _ Hwc) as (Hnd & Hseg & _ & _).
  assert (Hflat : flat_stmts script =
                  ((version_stmts rt ++ begin_sections_body (doc_settings d)) ++ body ++
                   end_sections_body (doc_settings d) (doc_vram_classes d) ws' ++ tail_stmts rt d)%list).
  { unfold script. rewrite Ew, flat_sections_script. repeat (rewrite <- app_assoc; cbn [app]). reflexivity. }
  assert (Herr' : forall c, In c (included rt (map (partial_clone folder) (doc_segments d))) ->
                            ~ In (LForwardRef (alloc_name c)) (l_errors st')).
  { intros c Hin. rewrite included_clone in Hin. apply in_clone in Hin. destruct Hin as [seg [Ec Hin]].
    subst c. exact (Herr seg Hin). }
  pose proof (any_req_chain rt _ _ _ _ _ _ _ _ env senv ext final E Hnd Hseg Hflat u Hu Herr') as Hch.
  cbv zeta in Hch. rewrite included_clone in Hch. eapply ReqChain_clone. exact Hch.
Qed.

Theorem partial_requested_start_layout d rt p u ext0 :
  gen_partial d rt = Ok p -> doc_link_wf_partial d rt = true ->
  Forall (fun x => 0 <= u_size x) u ->
  let sty := linker_symbols_style (doc_settings d) in
  let segs := included rt (doc_segments d) in
  let script := wo_script (po_main p) in
  let p1 := exec_script [] [] ext0 false script (init_state u) in
  let p2 := exec_script (l_syms p1) (l_secs p1) (ext0 ++ markers_of p1)%list false script (init_state u) in
  let ext3 := (ext0 ++ markers_of p2)%list in
  let st' := layout script u ext0 in
  (forall seg, In seg segs -> ~ In (LForwardRef (alloc_name seg)) (l_errors st')) ->
  ReqChain sty (l_syms p2) ext3 (header_state (l_syms p2) (l_secs p2) ext3 true script u)
           (fun n => sec_body n (flat_stmts script)) st' 0 segs.
Proof. intros Hg Hwf Hu sty segs script p1 p2 ext3 st'. unfold st', layout. apply partial_requested_start; assumption. Qed.

(* ====================================================================== *)
(* 12. layout corollaries of the readings; the old formula is a lower bound *)
(* ====================================================================== *)

Theorem document_follows_start_layout d rt w u ext0 la seg lb segn :
  gen_normal d rt = Ok w -> doc_link_wf d rt = true ->
  Forall (fun x => 0 <= u_size x) u ->
  doc_segments d = (la ++ seg :: lb)%list -> should_emit rt (sg_conds seg) = true ->
  In segn (included rt la) ->
  sg_fixed_vram seg = None -> sg_fixed_symbol seg = None -> sg_follows_segment seg = Some (sg_name segn) ->
  let sty := linker_symbols_style (doc_settings d) in
  let st' := layout (wo_script w) u ext0 in
  (forall s, In s (included rt (doc_segments d)) -> ~ In (LForwardRef (alloc_name s)) (l_errors st')) ->
  exists o1 on2,
    find_sec (alloc_name seg) (l_secs st') = Some o1 /\
    find_sec (noload_name segn) (l_secs st') = Some on2 /\
    os_vma o1 = align_up (os_vma on2 + os_size on2) (align_z (segment_end_align segn)) /\
    val st' (segment_vram_end sty (sg_name segn)) = Some (os_vma o1).
Proof.
  intros Hg Hwf Hu Hs Hc Hn F1 F2 F3 sty st'. unfold st', layout.
  apply (document_follows_start _ _ _ _ d rt w u la seg lb segn); assumption.
Qed.

Theorem document_default_start_layout d rt w u ext0 l1 seg l2 :
  gen_normal d rt = Ok w -> doc_link_wf d rt = true ->
  Forall (fun x => 0 <= u_size x) u ->
  included rt (doc_segments d) = (l1 ++ seg :: l2)%list ->
  sg_fixed_vram seg = None -> sg_fixed_symbol seg = None -> sg_follows_segment seg = None ->
  sg_vram_class seg = None ->
  let sty := linker_symbols_style (doc_settings d) in
  let p1 := exec_script [] [] ext0 false (wo_script w) (init_state u) in
  let p2 := exec_script (l_syms p1) (l_secs p1) (ext0 ++ markers_of p1)%list false (wo_script w) (init_state u) in
  let st' := layout (wo_script w) u ext0 in
  let stH := header_state (l_syms p2) (l_secs p2) (ext0 ++ markers_of p2)%list true (wo_script w) u (alloc_name seg) in
  (forall s, In s (included rt (doc_segments d)) -> ~ In (LForwardRef (alloc_name s)) (l_errors st')) ->
  exists o1 dt,
    find_sec (alloc_name seg) (l_secs st') = Some o1 /\
    (l1 = [] -> dt = 0) /\
    (forall l0 p, l1 = (l0 ++ [p])%list -> val st' (segment_vram_end sty (sg_name p)) = Some dt) /\
    os_vma o1 = align_up (align_up dt (align_z (segment_start_align seg)))
                         (sec_align (subalign seg)
                                    (received (sec_body (alloc_name seg) (flat_stmts (wo_script w)))
                                              (l_remaining stH))).
Proof.
  intros Hg Hwf Hu Hs F1 F2 F3 F4 sty p1 p2 st' stH. unfold st', stH, layout.
  apply (document_default_start _ _ _ _ d rt w u l1 seg l2); assumption.
Qed.

(* what the formula of VramChain says: exactly "x is at or after align_up dot sa" (when that is positive) *)
Theorem old_formula_is_lower_bound dot sa x :
  0 < align_up dot sa -> (old_default_formula dot sa x <-> align_up dot sa <= x).
Proof.
  intro Hpos. set (y := align_up dot sa) in *. unfold old_default_formula. fold y. split.
  - intros [A EA]. subst x. apply align_up_le.
  - intro Hle. destruct (Z.eq_dec x y) as [Exy|Nxy].
    + exists 1. rewrite align_up_1. exact Exy.
    + exists x. unfold align_up. destruct (x <=? 1) eqn:E1; [apply Z.leb_le in E1; lia|].
      apply Z.leb_gt in E1. replace ((y + x - 1) / x) with 1; [lia|].
      apply Z.div_unique with (r := y - 1); lia.
Qed.
