(* C02Order: lemmas.  1. any script: l_placed is the concatenation of the blocks of the claims, in the
   order of the claims; two statements of one output section place one above the other (with the pads
   in between).  2. the input statements of a generated script enumerated by their document positions;
   document order implies address order. *)
From Slinky Require Import Model.Types Model.Generated Model.Runtime Model.Style Model.Script Model.Writer Model.LdSem.
From Slinky Require Import Spec.C17 Spec.C18 Spec.C04 Spec.C09 Spec.C01 Spec.DocLevel Spec.C01Doc Spec.C01Listed
  Spec.C02Order.
From Slinky Require Import Proofs.C06 Proofs.C18 Proofs.C17 Proofs.LdLemmas Proofs.C04 Proofs.C02 Proofs.C01
  Proofs.C18Link Proofs.DocLevel Proofs.C01Doc Proofs.C06More Proofs.C01Listed.
From Coq Require Import Lia ZArith Sorted.
Local Open Scope Z_scope.

(* ====================================================================== *)
(* 1. the blocks of the claims                                             *)
(* ====================================================================== *)

(* the executable reading: each claim filters what the previous ones left *)
Fixpoint run_claims (cs : list claim) (rem : list usec) : list (claim * list usec) :=
  match cs with
  | [] => []
  | c :: r => (c, filter (claim_matches c) rem) ::
              run_claims r (filter (fun x => negb (claim_matches c x)) rem)
  end.

Fixpoint rem_after (cs : list claim) (rem : list usec) : list usec :=
  match cs with
  | [] => rem
  | c :: r => rem_after r (filter (fun x => negb (claim_matches c x)) rem)
  end.

Lemma filter_all {A} (l : list A) : filter (fun _ => true) l = l.
Proof. induction l as [|a l IH]; [reflexivity|]. cbn [filter]. rewrite IH. reflexivity. Qed.

Lemma filter_ext' {A} (f g : A -> bool) l : (forall x, f x = g x) -> filter f l = filter g l.
Proof. intro H. induction l as [|a l IH]; [reflexivity|]. cbn [filter]. rewrite H, IH. reflexivity. Qed.

Lemma unclaimed_app a b x : unclaimed (a ++ b) x = (unclaimed a x && unclaimed b x)%bool.
Proof. unfold unclaimed. apply forallb_app. Qed.

Lemma unclaimed_one c x : unclaimed [c] x = negb (claim_matches c x).
Proof. unfold unclaimed. cbn [forallb]. apply andb_true_r. Qed.

Lemma unclaimed_spec pre x : unclaimed pre x = true <-> forall c, In c pre -> claim_matches c x = false.
Proof.
  unfold unclaimed. rewrite forallb_forall. split; intros H c Hc.
  - apply negb_true_iff. apply H. exact Hc.
  - apply negb_true_iff. apply H. exact Hc.
Qed.

Lemma rem_after_filter cs : forall pre u,
  rem_after cs (filter (unclaimed pre) u) = filter (unclaimed (pre ++ cs)) u.
Proof.
  induction cs as [|c r IH]; intros pre u; [rewrite app_nil_r; reflexivity|]. cbn [rem_after].
  rewrite filter_filter.
  rewrite (filter_ext' _ (unclaimed (pre ++ [c])) u)
    by (intro x; rewrite unclaimed_app, unclaimed_one; reflexivity).
  rewrite IH, <- app_assoc. reflexivity.
Qed.

Lemma rem_after_spec cs u : rem_after cs u = filter (unclaimed cs) u.
Proof.
  rewrite <- (filter_all u) at 1.
  rewrite (filter_ext' (fun _ => true) (unclaimed []) u) by reflexivity.
  rewrite rem_after_filter. reflexivity.
Qed.

Lemma run_claims_blocks cs : forall pre u,
  run_claims cs (filter (unclaimed pre) u) = claim_blocks pre cs u.
Proof.
  induction cs as [|c r IH]; intros pre u; [reflexivity|]. cbn [run_claims claim_blocks]. f_equal.
  - f_equal. unfold taken_by. rewrite filter_filter. reflexivity.
  - rewrite filter_filter.
    rewrite (filter_ext' _ (unclaimed (pre ++ [c])) u)
      by (intro x; rewrite unclaimed_app, unclaimed_one; reflexivity).
    apply IH.
Qed.

Lemma run_claims_blocks0 cs u : run_claims cs u = claim_blocks [] cs u.
Proof.
  rewrite <- (filter_all u) at 1.
  rewrite (filter_ext' (fun _ => true) (unclaimed []) u) by reflexivity.
  apply run_claims_blocks.
Qed.

Lemma run_claims_app a : forall b rem,
  run_claims (a ++ b) rem = (run_claims a rem ++ run_claims b (rem_after a rem))%list.
Proof.
  induction a as [|c a IH]; intros b rem; [reflexivity|]. cbn [app run_claims rem_after]. rewrite IH. reflexivity.
Qed.

Lemma rem_after_app a : forall b rem, rem_after (a ++ b) rem = rem_after b (rem_after a rem).
Proof. induction a as [|c a IH]; intros b rem; [reflexivity|]. cbn [app rem_after]. apply IH. Qed.

(* membership in a block, in the vocabulary of C01_first_claim_some *)
Lemma taken_by_spec pre c u x :
  In x (taken_by pre c u) <->
  In x u /\ (forall c', In c' pre -> claim_matches c' x = false) /\ claim_matches c x = true.
Proof.
  unfold taken_by. rewrite filter_In, andb_true_iff, unclaimed_spec. tauto.
Qed.

Lemma claim_blocks_app a : forall pre b u,
  claim_blocks pre (a ++ b) u = (claim_blocks pre a u ++ claim_blocks (pre ++ a) b u)%list.
Proof.
  induction a as [|c a IH]; intros pre b u; [rewrite app_nil_r; reflexivity|].
  cbn [app claim_blocks]. rewrite IH, <- app_assoc. reflexivity.
Qed.

Lemma claim_blocks_claims cs : forall pre u, map fst (claim_blocks pre cs u) = cs.
Proof. induction cs as [|c r IH]; intros pre u; [reflexivity|]. cbn [claim_blocks map fst]. rewrite IH. reflexivity. Qed.

(* the keys of the placements made for a selection *)
Lemma keys_of_new (new : list placement) : forall (l : list usec) o,
  map pl_marker new = map u_marker l -> Forall (fun p => pl_outsec p = o) new ->
  map placement_key new = map (fun x => (u_marker x, o)) l.
Proof.
  induction new as [|p new IH]; intros l o M F; destruct l as [|x l]; try discriminate; [reflexivity|].
  cbn [map] in *. inversion M as [[M1 M2]].
  pose proof (Forall_inv F) as F1. pose proof (Forall_inv_tail F) as F2. cbv beta in F1.
  unfold placement_key at 1. rewrite M1, F1. f_equal. apply IH; assumption.
Qed.

Section Blocks.
  Variables (env : list (string * Z)) (senv : list osec) (ext : list (string * Z)) (final : bool).
  Notation top := (exec_top_stmt env senv ext final).
  Notation runl := (run env senv ext final).
  Notation secs vma sub name := (exec_sec_stmt env senv ext final vma sub name).

  (* ---------- the body of an output section ---------- *)

  Lemma body_blocks vma sub name body : forall ss,
    let ss' := fold_left (secs vma sub name) body ss in
    map placement_key (l_placed (s_st ss')) =
      (map placement_key (l_placed (s_st ss)) ++
       flat_map block_placements (run_claims (body_claims name body) (l_remaining (s_st ss))))%list /\
    l_remaining (s_st ss') = rem_after (body_claims name body) (l_remaining (s_st ss)) /\
    l_discarded (s_st ss') = l_discarded (s_st ss).
  Proof.
    induction body as [|s body IH]; intro ss.
    - cbn [fold_left body_claims flat_map run_claims rem_after]. rewrite app_nil_r. auto.
    - cbn [fold_left]. cbv zeta in IH |- *.
      rewrite (body_claims_app name [s] body : body_claims name (s :: body) = _).
      rewrite run_claims_app, rem_after_app, flat_map_app.
      destruct (IH (secs vma sub name ss s)) as [I1 [I2 I3]]. rewrite I1, I2, I3. clear I1 I2 I3 IH.
      destruct (sec_stmt_cases env senv ext final vma sub name ss s)
        as [[p [h [r [sym [e [Es E]]]]]] | [[k [path [member [sect [wild [off' [pls [c [Es [Ep E]]]]]]]]]] | [E [N1 N2]]]].
      + subst s. rewrite E. cbn [s_st body_claims flat_map run_claims rem_after app].
        rewrite Proofs.C04.assign_placed, Proofs.C04.assign_remaining, Proofs.C04.assign_discarded. auto.
      + subst s. clear E Ep.
        destruct (input_moves env ext senv final vma sub name ss k path member sect wild)
          as [Hr [Hd [new [Hp [M F]]]]].
        rewrite Hr, Hd, Hp. cbn [body_claims flat_map app run_claims rem_after claim_matches block_placements fst snd
                                 claim_outsec].
        rewrite map_app, (keys_of_new new _ name M F), app_nil_r, <- app_assoc. auto.
      + assert (Eb : body_claims name [s] = []) by (destruct s; try reflexivity; exfalso; eapply N2; reflexivity).
        rewrite Eb, E. cbn [run_claims rem_after flat_map app]. auto.
  Qed.

  (* ---------- one top-level statement ---------- *)

  (* an output section that contains input statements has an address *)
  Definition ok_here (st : lstate) (s : stmt) : Prop :=
    match s with
    | SOutSec name addr _ _ sub body =>
        body_claims name body = [] \/ exists vma, outsec_vma env senv ext addr sub body st = Ok vma
    | _ => True
    end.

  Lemma top_blocks st s :
    ok_here st s ->
    map placement_key (l_placed (top st s)) =
      (map placement_key (l_placed st) ++
       flat_map block_placements (run_claims (top_claims s) (l_remaining st)))%list /\
    l_remaining (top st s) = rem_after (top_claims s) (l_remaining st) /\
    l_discarded (top st s) =
      (l_discarded st ++ flat_map block_discards (run_claims (top_claims s) (l_remaining st)))%list.
  Proof.
    intro Hok.
    assert (Hsame : top_claims s = [] ->
                    l_placed (top st s) = l_placed st -> l_remaining (top st s) = l_remaining st ->
                    l_discarded (top st s) = l_discarded st ->
                    map placement_key (l_placed (top st s)) =
                      (map placement_key (l_placed st) ++
                       flat_map block_placements (run_claims (top_claims s) (l_remaining st)))%list /\
                    l_remaining (top st s) = rem_after (top_claims s) (l_remaining st) /\
                    l_discarded (top st s) =
                      (l_discarded st ++ flat_map block_discards (run_claims (top_claims s) (l_remaining st)))%list).
    { intros E0 E1 E2 E3. rewrite E0, E1, E2, E3. cbn [run_claims rem_after flat_map]. rewrite !app_nil_r. auto. }
    destruct s; try (apply Hsame; reflexivity).
    - apply Hsame; try reflexivity; cbn [exec_top_stmt]; destruct (String.eqb sym ".");
        try (destruct (eval_expr env senv ext st (l_dot st) e); reflexivity).
      + apply Proofs.C04.assign_placed.
      + apply Proofs.C04.assign_remaining.
      + apply Proofs.C04.assign_discarded.
    - apply Hsame; try reflexivity; cbn [exec_top_stmt]; (destruct (String.eqb sym "."); [reflexivity|]);
        destruct (sym_lookup sym st env ext); reflexivity.
    - apply Hsame; try reflexivity; cbn [exec_top_stmt];
        (destruct (sym_lookup sym st env ext); [destruct (sym_lookup other st env ext)|]);
        try (destruct final; reflexivity); reflexivity.
    - apply Hsame; try reflexivity; cbn [exec_top_stmt];
        (destruct (sym_lookup "__romPos" st env ext); [destruct (sec_lookup sec st senv)|]);
        try (destruct final; reflexivity); reflexivity.
    - (* an output section *)
      cbn [top_claims exec_top_stmt].
      destruct (outsec_vma env senv ext addr sub body st) as [vma|e] eqn:E.
      + destruct (exec_outsec_ok env senv ext final name addr at_ noload sub body st vma E)
          as [_ [_ [_ [_ [Hp [Hr [Hd _]]]]]]].
        destruct (body_blocks vma (option_map Z.of_N sub) name body (SState 0 false st)) as [B1 [B2 B3]].
        cbn [s_st] in B1, B2, B3. fold (outsec_body env senv ext final name sub body vma st) in B1, B2, B3.
        rewrite Hp, Hr, Hd, B1, B2, B3. split; [reflexivity|]. split; [reflexivity|].
        assert (Hnd : forall cs rem, (forall c, In c cs -> claim_outsec c <> None) ->
                                     flat_map block_discards (run_claims cs rem) = []).
        { induction cs as [|c cs IHc]; intros rem Hc; [reflexivity|]. cbn [run_claims flat_map].
          rewrite IHc by (intros c0 H0; apply Hc; right; exact H0).
          unfold block_discards. cbn [fst snd]. destruct (claim_outsec c) eqn:Eo; [reflexivity|].
          exfalso. apply (Hc c); [left; reflexivity | exact Eo]. }
        rewrite Hnd; [rewrite app_nil_r; reflexivity|].
        intros c Hc. apply body_claims_inv in Hc. destruct Hc as [kp [path [member [sect [wild [Ec _]]]]]].
        subst c. discriminate.
      + rewrite (exec_outsec_err _ _ _ _ _ _ _ _ _ _ _ _ E).
        destruct Hok as [Hok|[vma Hok]]; [|congruence]. rewrite Hok.
        cbn [add_err l_placed l_remaining l_discarded run_claims rem_after flat_map]. rewrite !app_nil_r. auto.
    - (* an allow-list entry *)
      destruct (allow_placed env senv ext final st sect) as [Hr [[pls [Hp [M F]]] [_ [Hd _]]]].
      rewrite Hr, Hp, Hd. cbn [top_claims run_claims rem_after flat_map block_placements block_discards fst snd
                                claim_outsec claim_matches].
      rewrite map_app, (keys_of_new pls _ sect M F), !app_nil_r.
      repeat split; reflexivity.
    - (* DISCARD *)
      destruct (discard env senv ext final st pats wild) as [Hd [Hr [Hp _]]].
      rewrite Hr, Hp, Hd. cbn [top_claims run_claims rem_after flat_map block_placements block_discards fst snd
                                claim_outsec]. rewrite !app_nil_r. auto.
    - apply Hsame; try reflexivity; cbn [exec_top_stmt];
        (destruct (eval_raw env ext st cond) as [v|e]; [destruct (v =? 0); reflexivity|]);
        destruct e; destruct final; reflexivity.
  Qed.

  (* ---------- a list of statements ---------- *)

  Definition no_failed (cs : list claim) (st' : lstate) : Prop := forall c, In c cs -> ~ claim_failed st' c.

  Lemma ok_here_of_final st s l :
    no_failed (top_claims s) (runl l (top st s)) -> ok_here st s.
  Proof.
    intro H. destruct s; try exact I. cbn [ok_here].
    destruct (body_claims name body) as [|c cs] eqn:Eb; [left; reflexivity|]. right.
    destruct (outsec_vma env senv ext addr sub body st) as [vma|e] eqn:E; [eauto|]. exfalso.
    assert (Hc : In c (body_claims name body)) by (rewrite Eb; left; reflexivity).
    pose proof Hc as Hc'. apply body_claims_inv in Hc'. destruct Hc' as [kp [path [member [sect [wild [Ec _]]]]]].
    apply (H c); [exact Hc|]. subst c. cbn [claim_failed]. apply run_errors_in.
    cbn [exec_top_stmt]. rewrite (exec_outsec_err _ _ _ _ _ _ _ _ _ _ _ _ E).
    cbn [add_err l_errors]. apply in_or_app. right. left. reflexivity.
  Qed.

  Lemma run_blocks l : forall st,
    no_failed (flat_map top_claims l) (runl l st) ->
    map placement_key (l_placed (runl l st)) =
      (map placement_key (l_placed st) ++
       flat_map block_placements (run_claims (flat_map top_claims l) (l_remaining st)))%list /\
    l_remaining (runl l st) = rem_after (flat_map top_claims l) (l_remaining st) /\
    l_discarded (runl l st) =
      (l_discarded st ++ flat_map block_discards (run_claims (flat_map top_claims l) (l_remaining st)))%list.
  Proof.
    induction l as [|s l IH]; intros st Hf.
    - cbn [flat_map run_claims rem_after]. rewrite !app_nil_r. auto.
    - rewrite run_cons in *. cbn [flat_map] in *. rewrite run_claims_app, rem_after_app, !flat_map_app.
      assert (H1 : no_failed (top_claims s) (runl l (top st s)))
        by (intros c Hc; apply Hf; apply in_or_app; left; exact Hc).
      assert (H2 : no_failed (flat_map top_claims l) (runl l (top st s)))
        by (intros c Hc; apply Hf; apply in_or_app; right; exact Hc).
      destruct (top_blocks st s (ok_here_of_final st s l H1)) as [T1 [T2 T3]].
      destruct (IH (top st s) H2) as [I1 [I2 I3]].
      rewrite I1, I2, I3, T1, T2, T3, <- !app_assoc. auto.
  Qed.
End Blocks.

(* C02_placements_follow_claims *)
Theorem placements_follow_claims env senv ext final script u :
  let st' := exec_script env senv ext final script (init_state u) in
  (forall c, In c (script_claims script) -> ~ claim_failed st' c) ->
  let blocks := claim_blocks [] (script_claims script) u in
  map placement_key (l_placed st') = flat_map block_placements blocks /\
  l_discarded st' = flat_map block_discards blocks /\
  l_remaining st' = filter (unclaimed (script_claims script)) u.
Proof.
  intros st' Hf blocks. unfold st' in *. rewrite exec_script_flat in *.
  destruct (run_blocks env senv ext final (flat_stmts script) (init_state u) Hf) as [B1 [B2 B3]].
  cbn [init_state l_placed l_remaining l_discarded map app] in B1, B2, B3.
  fold (script_claims script) in B1, B2, B3. rewrite run_claims_blocks0 in B1, B3.
  rewrite rem_after_spec in B2. auto.
Qed.

Theorem placements_follow_claims_layout script u ext0 :
  let st' := layout script u ext0 in
  (forall c, In c (script_claims script) -> ~ claim_failed st' c) ->
  let blocks := claim_blocks [] (script_claims script) u in
  map placement_key (l_placed st') = flat_map block_placements blocks /\
  l_discarded st' = flat_map block_discards blocks /\
  l_remaining st' = filter (unclaimed (script_claims script)) u.
Proof. unfold layout. apply placements_follow_claims. Qed.

(* ====================================================================== *)
(* 2. order of two placements                                              *)
(* ====================================================================== *)

Lemma map_split_one {A B} (f : A -> B) l : forall a b c,
  map f l = (a ++ b :: c)%list ->
  exists la x lc, l = (la ++ x :: lc)%list /\ map f la = a /\ f x = b /\ map f lc = c.
Proof.
  induction l as [|y l IH]; intros a b c E.
  - destruct a; discriminate.
  - destruct a as [|a0 a]; cbn [map app] in E; inversion E as [[E1 E2]].
    + exists [], y, l. auto.
    + destruct (IH _ _ _ E2) as [la [x [lc [H1 [H2 [H3 H4]]]]]]. exists (y :: la), x, lc. subst. auto.
Qed.

Lemma map_split_two {A B} (f : A -> B) l a b c d e :
  map f l = (a ++ b :: c ++ d :: e)%list ->
  exists l1 x l2 y l3, l = (l1 ++ x :: l2 ++ y :: l3)%list /\ f x = b /\ f y = d.
Proof.
  intro E. apply map_split_one in E. destruct E as [l1 [x [r [E1 [_ [Ex Er]]]]]].
  apply map_split_one in Er. destruct Er as [l2 [y [l3 [E2 [_ [Ey _]]]]]]. subst.
  exists l1, x, l2, y, l3. auto.
Qed.

Lemma in_block_placements c b x o :
  claim_outsec c = Some o -> In x b -> exists a1 a2, block_placements (c, b) = (a1 ++ (u_marker x, o) :: a2)%list.
Proof.
  intros Eo Hx. unfold block_placements. cbn [fst snd]. rewrite Eo.
  apply in_split in Hx. destruct Hx as [b1 [b2 Eb]]. subst b. rewrite map_app. cbn [map]. eauto.
Qed.

Lemma claim_blocks_two pre c1 mid c2 post : forall pre0 u,
  exists B1 B2 B3,
    claim_blocks pre0 (pre ++ c1 :: mid ++ c2 :: post) u =
    (B1 ++ (c1, taken_by (pre0 ++ pre) c1 u) :: B2 ++
     (c2, taken_by (pre0 ++ pre ++ c1 :: mid) c2 u) :: B3)%list.
Proof.
  intros pre0 u. rewrite claim_blocks_app. cbn [claim_blocks].
  rewrite claim_blocks_app. cbn [claim_blocks].
  exists (claim_blocks pre0 pre u), (claim_blocks ((pre0 ++ pre) ++ [c1]) mid u),
         (claim_blocks ((((pre0 ++ pre) ++ [c1]) ++ mid) ++ [c2]) post u).
  replace (((pre0 ++ pre) ++ [c1]) ++ mid)%list with (pre0 ++ pre ++ c1 :: mid)%list
    by (repeat rewrite <- app_assoc; reflexivity).
  reflexivity.
Qed.

(* C02_claims_order_placed *)
Theorem claims_order_placed env senv ext final script u pre c1 mid c2 post x y o1 o2 :
  let st' := exec_script env senv ext final script (init_state u) in
  (forall c, In c (script_claims script) -> ~ claim_failed st' c) ->
  script_claims script = (pre ++ c1 :: mid ++ c2 :: post)%list ->
  In x u -> (forall c, In c pre -> claim_matches c x = false) -> claim_matches c1 x = true ->
  In y u -> (forall c, In c (pre ++ c1 :: mid) -> claim_matches c y = false) -> claim_matches c2 y = true ->
  claim_outsec c1 = Some o1 -> claim_outsec c2 = Some o2 ->
  exists px py l1 l2 l3,
    l_placed st' = (l1 ++ px :: l2 ++ py :: l3)%list /\
    pl_marker px = u_marker x /\ pl_outsec px = o1 /\ pl_marker py = u_marker y /\ pl_outsec py = o2.
Proof.
  intros st' Hf Ec Hx Hx1 Hx2 Hy Hy1 Hy2 Eo1 Eo2.
  destruct (placements_follow_claims env senv ext final script u Hf) as [P _]. fold st' in P.
  rewrite Ec in P. destruct (claim_blocks_two pre c1 mid c2 post [] u) as [B1 [B2 [B3 EB]]].
  rewrite EB in P. clear EB. cbn [app] in P.
  assert (Tx : In x (taken_by pre c1 u)) by (apply taken_by_spec; auto).
  assert (Ty : In y (taken_by (pre ++ c1 :: mid) c2 u)) by (apply taken_by_spec; auto).
  destruct (in_block_placements c1 _ x o1 Eo1 Tx) as [a1 [a2 E1]].
  destruct (in_block_placements c2 _ y o2 Eo2 Ty) as [b1 [b2 E2]].
  assert (P' : map placement_key (l_placed st') =
               ((flat_map block_placements B1 ++ a1) ++ (u_marker x, o1) ::
                (a2 ++ flat_map block_placements B2 ++ b1) ++ (u_marker y, o2) ::
                (b2 ++ flat_map block_placements B3))%list).
  { rewrite P, flat_map_app. cbn [flat_map]. rewrite flat_map_app. cbn [flat_map]. rewrite E1, E2.
    repeat rewrite <- app_assoc. cbn [app]. repeat rewrite <- app_assoc. reflexivity. }
  apply map_split_two in P'. destruct P' as [l1 [px [l2 [py [l3 [E [Kx Ky]]]]]]].
  unfold placement_key in Kx, Ky. inversion Kx. inversion Ky.
  exists px, py, l1, l2, l3. auto.
Qed.

(* ====================================================================== *)
(* 3. two input statements of one output section: addresses, pads          *)
(* ====================================================================== *)

Lemma Forall2_in_split {A B} (P : A -> B -> Prop) l1 : forall l2 x,
  Forall2 P l1 l2 -> In x l1 -> exists a p b, l2 = (a ++ p :: b)%list /\ P x p.
Proof.
  induction l1 as [|y l1 IH]; intros l2 x F Hx; [contradiction|].
  inversion F as [|? p ? l2' Hp F']; subst. destruct Hx as [Hx|Hx].
  - subst y. exists [], p, l2'. auto.
  - destruct (IH _ _ F' Hx) as [a [q [b [E Hq]]]]. exists (p :: a), q, b. subst. auto.
Qed.

Lemma dot_adds_app a b : dot_adds (a ++ b) = dot_adds a + dot_adds b.
Proof.
  induction a as [|s a IH]; [reflexivity|]. cbn [app]. unfold dot_adds in *. cbn [fold_right].
  destruct s; rewrite IH; lia.
Qed.

Lemma dot_adds_nonneg l : 0 <= dot_adds l.
Proof. induction l as [|s l IH]; [cbn; lia|]. unfold dot_adds in *. cbn [fold_right]. destruct s; lia. Qed.

Section Pair.
  Variables (env : list (string * Z)) (senv : list osec) (ext : list (string * Z)) (final : bool).
  Notation top := (exec_top_stmt env senv ext final).
  Notation runl := (run env senv ext final).
  Notation secs vma sub name := (exec_sec_stmt env senv ext final vma sub name).

  (* one input statement: where a selected section goes *)
  Lemma input_places vma sub name ss kp path member sect wild x :
    sizes_ok (s_st ss) -> In x (l_remaining (s_st ss)) -> sel false path member sect wild x = true ->
    let ss' := secs vma sub name ss (SInput kp path member sect wild) in
    exists l1 px l2,
      l_placed (s_st ss') = (l_placed (s_st ss) ++ l1 ++ px :: l2)%list /\
      pl_marker px = u_marker x /\ pl_outsec px = name /\
      vma + s_off ss <= pl_addr px /\ pl_addr px + u_size x <= vma + s_off ss'.
  Proof.
    intros Hn Hx Hs. cbn [exec_sec_stmt].
    destruct (place vma sub name (filter (sel false path member sect wild) (l_remaining (s_st ss))) (s_off ss) []
                    (s_contents ss)) as [[off' pls] c] eqn:E.
    cbn [s_st s_off l_placed].
    apply place_range in E; [|apply Forall_filter; exact Hn].
    destruct E as [new [Enew F]]. cbn [app] in Enew. subst pls.
    destruct (Forall2_in_split _ _ _ x F) as [a [px [b [E [H1 [H2 [H3 H4]]]]]]];
      [apply filter_In; split; assumption|].
    exists a, px, b. subst new. auto.
  Qed.

  (* the offset goes up by at least the pads *)
  Lemma sec_fold_dot_adds vma sub name body : forall ss,
    sizes_ok (s_st ss) ->
    s_off ss + dot_adds body <= s_off (fold_left (secs vma sub name) body ss) /\
    sizes_ok (s_st (fold_left (secs vma sub name) body ss)).
  Proof.
    induction body as [|s body IH]; intros ss Hn; [cbn; split; [lia | exact Hn]|].
    cbn [fold_left]. destruct (sec_stmt_off env senv ext final vma sub name ss s Hn) as [H1 H2].
    destruct (IH _ H2) as [I1 I2]. split; [|exact I2].
    assert (Hs : s_off ss + (dot_adds [s]) <= s_off (secs vma sub name ss s)).
    { destruct s; try (unfold dot_adds; cbn [fold_right]; lia). unfold dot_adds. cbn [fold_right exec_sec_stmt s_off]. lia. }
    change (s :: body) with ([s] ++ body)%list. rewrite dot_adds_app. lia.
  Qed.

  Lemma sec_fold_keeps vma sub name body x ss :
    In x (l_remaining (s_st ss)) -> (forall c, In c (body_claims name body) -> claim_matches c x = false) ->
    In x (l_remaining (s_st (fold_left (secs vma sub name) body ss))).
  Proof.
    intros Hx Hn. pose proof (body_first env senv ext final vma sub name x body ss Hx) as B. cbv zeta in B.
    rewrite (proj2 (first_claim_none _ _) Hn) in B. exact B.
  Qed.

  Lemma run_keeps l x st :
    In x (l_remaining st) -> (forall c, In c (flat_map top_claims l) -> claim_matches c x = false) ->
    In x (l_remaining (runl l st)).
  Proof.
    intros Hx Hn. pose proof (run_first env senv ext final l x st Hx) as B.
    rewrite (proj2 (first_claim_none _ _) Hn) in B. exact B.
  Qed.

  (* inside one body *)
  Lemma body_pair vma sub name b1 k1 p1 m1 s1 w1 b2 k2 p2 m2 s2 w2 b3 x y ss :
    sizes_ok (s_st ss) ->
    In x (l_remaining (s_st ss)) -> In y (l_remaining (s_st ss)) ->
    (forall c, In c (body_claims name b1) -> claim_matches c x = false) ->
    sel false p1 m1 s1 w1 x = true ->
    (forall c, In c (body_claims name b1 ++ CInput name p1 m1 s1 w1 :: body_claims name b2) ->
               claim_matches c y = false) ->
    sel false p2 m2 s2 w2 y = true ->
    let body := (b1 ++ SInput k1 p1 m1 s1 w1 :: b2 ++ SInput k2 p2 m2 s2 w2 :: b3)%list in
    exists l1 px l2 py l3,
      l_placed (s_st (fold_left (secs vma sub name) body ss)) =
        (l_placed (s_st ss) ++ l1 ++ px :: l2 ++ py :: l3)%list /\
      pl_marker px = u_marker x /\ pl_outsec px = name /\
      pl_marker py = u_marker y /\ pl_outsec py = name /\
      pl_addr px + u_size x + dot_adds b2 <= pl_addr py.
  Proof.
    intros Hn Hx Hy Hx1 Hx2 Hy1 Hy2 body. unfold body.
    rewrite fold_left_app. cbn [fold_left]. rewrite fold_left_app. cbn [fold_left].
    set (ssa := fold_left (secs vma sub name) b1 ss).
    set (ssb := secs vma sub name ssa (SInput k1 p1 m1 s1 w1)).
    set (ssc := fold_left (secs vma sub name) b2 ssb).
    set (ssd := secs vma sub name ssc (SInput k2 p2 m2 s2 w2)).
    destruct (sec_fold_dot_adds vma sub name b1 ss Hn) as [_ Hna]. fold ssa in Hna.
    destruct (sec_stmt_off env senv ext final vma sub name ssa (SInput k1 p1 m1 s1 w1) Hna) as [_ Hnb]. fold ssb in Hnb.
    destruct (sec_fold_dot_adds vma sub name b2 ssb Hnb) as [Hoff Hnc]. fold ssc in Hoff, Hnc.
    assert (Hxa : In x (l_remaining (s_st ssa))) by (apply sec_fold_keeps; assumption).
    assert (Hya : In y (l_remaining (s_st ssa))).
    { apply sec_fold_keeps; [exact Hy|]. intros c Hc. apply Hy1. apply in_or_app. left. exact Hc. }
    assert (Hyb : In y (l_remaining (s_st ssb))).
    { destruct (input_captures env senv ext final vma sub name ssa k1 p1 m1 s1 w1) as [_ [C2 _]].
      apply C2; [exact Hya|]. intro Hm. apply input_matches_sel in Hm.
      assert (Hf : claim_matches (CInput name p1 m1 s1 w1) y = false)
        by (apply Hy1; apply in_or_app; right; left; reflexivity).
      cbn [claim_matches] in Hf. congruence. }
    assert (Hyc : In y (l_remaining (s_st ssc))).
    { apply sec_fold_keeps; [exact Hyb|]. intros c Hc. apply Hy1. apply in_or_app. right. right. exact Hc. }
    destruct (input_places vma sub name ssa k1 p1 m1 s1 w1 x Hna Hxa Hx2) as [a1 [px [a2 [Ep1 [Mx [Ox [_ Ax]]]]]]].
    fold ssb in Ep1, Ax.
    destruct (input_places vma sub name ssc k2 p2 m2 s2 w2 y Hnc Hyc Hy2) as [c1 [py [c2 [Ep2 [My [Oy [Ay _]]]]]]].
    fold ssd in Ep2.
    destruct (sec_fold_placed env senv ext final vma sub name b1 ss) as [na Ea]. fold ssa in Ea.
    destruct (sec_fold_placed env senv ext final vma sub name b2 ssb) as [nc Ec]. fold ssc in Ec.
    destruct (sec_fold_placed env senv ext final vma sub name b3 ssd) as [ne Ee].
    exists (na ++ a1)%list, px, (a2 ++ nc ++ c1)%list, py, (c2 ++ ne)%list.
    split; [rewrite Ee, Ep2, Ec, Ep1, Ea; repeat rewrite <- app_assoc; cbn [app]; repeat rewrite <- app_assoc; reflexivity|].
    repeat (split; [assumption|]). lia.
  Qed.

  (* in a list of statements *)
  Lemma run_pair A name addr at_ noload sub b1 k1 p1 m1 s1 w1 b2 k2 p2 m2 s2 w2 b3 B x y st0 :
    let body := (b1 ++ SInput k1 p1 m1 s1 w1 :: b2 ++ SInput k2 p2 m2 s2 w2 :: b3)%list in
    let L := (A ++ SOutSec name addr at_ noload sub body :: B)%list in
    let pre := (flat_map top_claims A ++ body_claims name b1)%list in
    sizes_ok st0 -> In x (l_remaining st0) -> In y (l_remaining st0) ->
    (forall c, In c pre -> claim_matches c x = false) -> sel false p1 m1 s1 w1 x = true ->
    (forall c, In c (pre ++ CInput name p1 m1 s1 w1 :: body_claims name b2) -> claim_matches c y = false) ->
    sel false p2 m2 s2 w2 y = true ->
    ~ In (LForwardRef name) (l_errors (runl L st0)) ->
    exists l0, l_placed (runl L st0) = (l_placed st0 ++ l0)%list /\
               placed_in_order l0 name x y (dot_adds b2).
  Proof.
    intros body L pre Hn Hx Hy Hx1 Hx2 Hy1 Hy2 Herr.
    set (stA := runl A st0).
    assert (HnA : sizes_ok stA) by (apply run_remaining_Forall; exact Hn).
    assert (HxA : In x (l_remaining stA)).
    { apply run_keeps; [exact Hx|]. intros c Hc. apply Hx1. apply in_or_app. left. exact Hc. }
    assert (HyA : In y (l_remaining stA)).
    { apply run_keeps; [exact Hy|]. intros c Hc. apply Hy1. apply in_or_app. left. apply in_or_app. left. exact Hc. }
    assert (EL : runl L st0 = runl B (top stA (SOutSec name addr at_ noload sub body)))
      by (unfold L, stA; rewrite run_app, run_cons; reflexivity).
    destruct (outsec_vma env senv ext addr sub body stA) as [vma|e] eqn:Ev.
    2:{ exfalso. apply Herr. rewrite EL. apply run_errors_in. cbn [exec_top_stmt].
        rewrite (exec_outsec_err _ _ _ _ _ _ _ _ _ _ _ _ Ev). cbn [add_err l_errors].
        apply in_or_app. right. left. reflexivity. }
    destruct (exec_outsec_ok env senv ext final name addr at_ noload sub body stA vma Ev) as [_ [_ [_ [_ [Hp _]]]]].
    unfold outsec_body in Hp.
    destruct (body_pair vma (option_map Z.of_N sub) name b1 k1 p1 m1 s1 w1 b2 k2 p2 m2 s2 w2 b3 x y (SState 0 false stA))
      as [l1 [px [l2 [py [l3 [Ep [Mx [Ox [My [Oy Hle]]]]]]]]]]; try assumption.
    { intros c Hc. apply Hx1. apply in_or_app. right. exact Hc. }
    { intros c Hc. apply Hy1. unfold pre. rewrite <- app_assoc. apply in_or_app. right. exact Hc. }
    cbn [s_st] in Ep. fold body in Ep. rewrite <- Hp in Ep.
    destruct (run_placed env senv ext final A st0) as [nA EA]. fold stA in EA.
    destruct (run_placed env senv ext final B (top stA (SOutSec name addr at_ noload sub body))) as [nB EB].
    exists (nA ++ l1 ++ px :: l2 ++ py :: l3 ++ nB)%list. split.
    - rewrite EL, EB. cbn [exec_top_stmt]. rewrite Ep, EA. repeat rewrite <- app_assoc. cbn [app].
      repeat rewrite <- app_assoc. reflexivity.
    - exists px, py, (nA ++ l1)%list, l2, (l3 ++ nB)%list. split; [repeat rewrite <- app_assoc; reflexivity|]. auto.
  Qed.
End Pair.

(* C02_same_outsec_addresses *)
Theorem same_outsec_addresses env senv ext final script u A name addr at_ noload sub
        b1 k1 p1 m1 s1 w1 b2 k2 p2 m2 s2 w2 b3 B x y :
  let body := (b1 ++ SInput k1 p1 m1 s1 w1 :: b2 ++ SInput k2 p2 m2 s2 w2 :: b3)%list in
  let pre := (flat_map top_claims A ++ body_claims name b1)%list in
  let st' := exec_script env senv ext final script (init_state u) in
  flat_stmts script = (A ++ SOutSec name addr at_ noload sub body :: B)%list ->
  Forall (fun z => 0 <= u_size z) u -> In x u -> In y u ->
  (forall c, In c pre -> claim_matches c x = false) -> sel false p1 m1 s1 w1 x = true ->
  (forall c, In c (pre ++ CInput name p1 m1 s1 w1 :: body_claims name b2) -> claim_matches c y = false) ->
  sel false p2 m2 s2 w2 y = true ->
  ~ In (LForwardRef name) (l_errors st') ->
  placed_in_order (l_placed st') name x y (dot_adds b2).
Proof.
  intros body pre st' Ef Hu Hx Hy Hx1 Hx2 Hy1 Hy2 Herr. unfold st' in *. rewrite exec_script_flat, Ef in *.
  destruct (run_pair env senv ext final A name addr at_ noload sub b1 k1 p1 m1 s1 w1 b2 k2 p2 m2 s2 w2 b3 B x y
                     (init_state u)) as [l0 [E H]]; try assumption.
  cbn [init_state l_placed app] in E. fold body in E. rewrite E. exact H.
Qed.

Theorem same_outsec_addresses_layout script u ext0 A name addr at_ noload sub
        b1 k1 p1 m1 s1 w1 b2 k2 p2 m2 s2 w2 b3 B x y :
  let body := (b1 ++ SInput k1 p1 m1 s1 w1 :: b2 ++ SInput k2 p2 m2 s2 w2 :: b3)%list in
  let pre := (flat_map top_claims A ++ body_claims name b1)%list in
  let st' := layout script u ext0 in
  flat_stmts script = (A ++ SOutSec name addr at_ noload sub body :: B)%list ->
  Forall (fun z => 0 <= u_size z) u -> In x u -> In y u ->
  (forall c, In c pre -> claim_matches c x = false) -> sel false p1 m1 s1 w1 x = true ->
  (forall c, In c (pre ++ CInput name p1 m1 s1 w1 :: body_claims name b2) -> claim_matches c y = false) ->
  sel false p2 m2 s2 w2 y = true ->
  ~ In (LForwardRef name) (l_errors st') ->
  placed_in_order (l_placed st') name x y (dot_adds b2).
Proof. unfold layout. apply same_outsec_addresses. Qed.

(* ====================================================================== *)
(* 4. enumerations                                                         *)
(* ====================================================================== *)

Local Close Scope Z_scope.

Lemma lex_lt_trans a : forall b c, lex_lt a b -> lex_lt b c -> lex_lt a c.
Proof.
  induction a as [|m a IH]; intros b c H1 H2.
  - inversion H1; subst. inversion H2; subst; constructor.
  - inversion H1; subst.
    + inversion H2; subst; [apply lex_head; lia | apply lex_head; assumption].
    + inversion H2; subst; [apply lex_head; assumption | apply lex_tail; eapply IH; eassumption].
Qed.

Lemma lex_lt_irrefl a : ~ lex_lt a a.
Proof. induction a as [|m a IH]; intro H; inversion H; subst; [lia | auto]. Qed.

Lemma lex_lt_app p a b : lex_lt a b -> lex_lt (p ++ a) (p ++ b).
Proof. intro H. induction p as [|n p IH]; [exact H | apply lex_tail; exact IH]. Qed.

Lemma lex_lt_app_inv p a b : lex_lt (p ++ a) (p ++ b) -> lex_lt a b.
Proof. induction p as [|n p IH]; intro H; [exact H|]. inversion H; subst; [lia | auto]. Qed.

Definition on_pos {A} (f : list nat -> list nat) (q : option (list nat) * A) : option (list nat) * A :=
  (option_map f (fst q), snd q).

Definition bump (p : list nat) : list nat := match p with [] => [] | m :: r => S m :: r end.

Lemma posns_app {A} (L1 L2 : list (option (list nat) * A)) : posns (L1 ++ L2) = (posns L1 ++ posns L2)%list.
Proof. apply flat_map_app. Qed.

Lemma posns_on_pos {A} f (L : list (option (list nat) * A)) : posns (map (on_pos f) L) = map f (posns L).
Proof.
  induction L as [|[o s] L IH]; [reflexivity|]. unfold posns in *. cbn [map flat_map fst on_pos].
  rewrite map_app, IH. destruct o; reflexivity.
Qed.

Lemma snd_on_pos {A} f (L : list (option (list nat) * A)) : map snd (map (on_pos f) L) = map snd L.
Proof. induction L as [|q L IH]; [reflexivity|]. cbn [map on_pos snd]. rewrite IH. reflexivity. Qed.

Lemma snd_fillers {A} (l : list A) : map snd (map (fun s => (@None (list nat), s)) l) = l.
Proof. induction l as [|a l IH]; [reflexivity|]. cbn [map snd]. rewrite IH. reflexivity. Qed.

Lemma in_posns {A} (L : list (option (list nat) * A)) p : In p (posns L) <-> exists s, In (Some p, s) L.
Proof.
  unfold posns. rewrite in_flat_map. split.
  - intros [[o s] [Hin Hp]]. cbn [fst] in Hp. destruct o as [p'|]; [|contradiction]. destruct Hp as [Hp|[]]. subst. eauto.
  - intros [s Hin]. exists (Some p, s). split; [exact Hin | left; reflexivity].
Qed.

Lemma posns_fillers {A} (l : list A) : posns (map (fun s => (None, s)) l) = [].
Proof. induction l as [|a l IH]; [reflexivity | exact IH]. Qed.

Lemma in_on_pos {A} f (L : list (option (list nat) * A)) o s :
  In (o, s) (map (on_pos f) L) <-> exists o', In (o', s) L /\ o = option_map f o'.
Proof.
  rewrite in_map_iff. split.
  - intros [[o' s'] [E Hin]]. unfold on_pos in E. cbn [fst snd] in E. inversion E; subst. eauto.
  - intros [o' [Hin E]]. exists (o', s). subst. split; [reflexivity | exact Hin].
Qed.

Lemma SS_app {A} (R : A -> A -> Prop) l1 l2 :
  StronglySorted R l1 -> StronglySorted R l2 -> (forall a b, In a l1 -> In b l2 -> R a b) ->
  StronglySorted R (l1 ++ l2).
Proof.
  induction 1 as [|a l1 H1 IH F]; intros H2 Hc; [exact H2|]. cbn [app]. constructor.
  - apply IH; [exact H2|]. intros x y Hx Hy. apply Hc; [right; exact Hx | exact Hy].
  - apply Forall_app. split; [exact F|]. apply Forall_forall. intros y Hy. apply Hc; [left; reflexivity | exact Hy].
Qed.

Lemma SS_map {A B} (R : A -> A -> Prop) (R' : B -> B -> Prop) (f : A -> B) l :
  (forall a b, In a l -> In b l -> R a b -> R' (f a) (f b)) -> StronglySorted R l -> StronglySorted R' (map f l).
Proof.
  intros Hf H. induction H as [|a l H IH F]; [constructor|]. cbn [map]. constructor.
  - apply IH. intros x y Hx Hy. apply Hf; right; assumption.
  - rewrite Forall_forall in F. apply Forall_forall. intros y Hy. apply in_map_iff in Hy.
    destruct Hy as [x [E Hx]]. subst y. apply Hf; [left; reflexivity | right; exact Hx | apply F; exact Hx].
Qed.

Section Enum.
  Context {A : Type}.
  Variable F : A -> Prop.

  Lemma enum_nil (At : list nat -> A -> Prop) : (forall p s, ~ At p s) -> Enumerated F [] At.
  Proof.
    intro H. exists []. split; [reflexivity|]. split; [constructor|]. split; [|intros s []].
    intros p s. split; [intros [] | intro Hp; exfalso; eapply H; exact Hp].
  Qed.

  Lemma enum_ext l (At At' : list nat -> A -> Prop) :
    (forall p s, At p s <-> At' p s) -> Enumerated F l At -> Enumerated F l At'.
  Proof.
    intros H [L [E [S [I N]]]]. exists L. repeat split; try assumption.
    - intro Hin. apply H. apply I. exact Hin.
    - intro Hp. apply I. apply H. exact Hp.
  Qed.

  Lemma enum_fillers l0 l1 l (At : list nat -> A -> Prop) :
    Forall F l0 -> Forall F l1 -> Enumerated F l At -> Enumerated F (l0 ++ l ++ l1) At.
  Proof.
    intros H0 H1 [L [E [S [I N]]]].
    exists (map (fun s => (None, s)) l0 ++ L ++ map (fun s => (None, s)) l1)%list.
    split; [rewrite !map_app, !snd_fillers, E; reflexivity|].
    split; [rewrite !posns_app, !posns_fillers, app_nil_r; exact S|].
    split.
    - intros p s. rewrite <- I, !in_app_iff, !in_map_iff. split; [|tauto].
      intros [[x [Ex _]]|[H|[x [Ex _]]]]; try discriminate. exact H.
    - intros s Hin. rewrite !in_app_iff, !in_map_iff in Hin. rewrite Forall_forall in H0, H1.
      destruct Hin as [[x [Ex Hx]]|[H|[x [Ex Hx]]]].
      + inversion Ex; subst. auto.
      + auto.
      + inversion Ex; subst. auto.
  Qed.

  (* a first part with its own positions, then a part whose positions all start with an index: the
     first part gets index 0, the indices of the second go up by one *)
  Lemma enum_cons l1 l2 (At1 : list nat -> A -> Prop) (At2 : nat -> list nat -> A -> Prop) :
    Enumerated F l1 At1 -> Enumerated F l2 (fun p s => exists m r, p = m :: r /\ At2 m r s) ->
    Enumerated F (l1 ++ l2)
               (fun p s => exists m r, p = m :: r /\ match m with O => At1 r s | S m' => At2 m' r s end).
  Proof.
    intros [L1 [E1 [S1 [I1 N1]]]] [L2 [E2 [S2 [I2 N2]]]].
    exists (map (on_pos (cons 0)) L1 ++ map (on_pos bump) L2)%list.
    assert (Hne : forall p, In p (posns L2) -> exists m r, p = m :: r).
    { intros p Hp. apply in_posns in Hp. destruct Hp as [s Hs]. apply I2 in Hs.
      destruct Hs as [m [r [E _]]]. eauto. }
    split; [rewrite map_app, !snd_on_pos, E1, E2; reflexivity|].
    split.
    - rewrite posns_app, !posns_on_pos. apply SS_app.
      + eapply SS_map; [|exact S1]. intros a b _ _ H. apply lex_tail. exact H.
      + eapply SS_map; [|exact S2]. intros a b Ha Hb H.
        destruct (Hne a Ha) as [m [r Ea]]. destruct (Hne b Hb) as [n [q Eb]]. subst. cbn [bump].
        inversion H; subst; [apply lex_head; lia | apply lex_tail; assumption].
      + intros a b Ha Hb. apply in_map_iff in Ha. destruct Ha as [a0 [Ea _]].
        apply in_map_iff in Hb. destruct Hb as [b0 [Eb Hb0]]. destruct (Hne b0 Hb0) as [n [q Eq]]. subst.
        cbn [bump]. apply lex_head. lia.
    - split.
      + intros p s. rewrite in_app_iff, !in_on_pos. split.
        * intros [[o [Hin E]]|[o [Hin E]]]; destruct o as [p0|]; try discriminate; cbn [option_map] in E;
            inversion E; subst.
          -- exists 0%nat, p0. split; [reflexivity|]. apply I1. exact Hin.
          -- apply I2 in Hin. destruct Hin as [m [r [Ep Hm]]]. subst p0. cbn [bump]. exists (S m), r. auto.
        * intros [m [r [Ep H]]]. subst p. destruct m as [|m'].
          -- left. exists (Some r). split; [apply I1; exact H | reflexivity].
          -- right. exists (Some (m' :: r)). split; [apply I2; eauto | reflexivity].
      + intros s Hin. rewrite in_app_iff, !in_on_pos in Hin.
        destruct Hin as [[o [Hin E]]|[o [Hin E]]]; destruct o; try discriminate; auto.
  Qed.

  (* at most one element, at the empty position *)
  Lemma enum_short l : (l = [] \/ exists s0, l = [s0]) -> Enumerated F l (fun p s => p = [] /\ In s l).
  Proof.
    intros [E|[s0 E]]; subst.
    - apply enum_nil. intros p s [_ []].
    - exists [(Some [], s0)]. split; [reflexivity|]. split; [repeat constructor|]. split.
      + intros p s. cbn [In]. split.
        * intros [H|[]]. inversion H; subst. auto.
        * intros [Ep [Es|[]]]. subst. auto.
      + intros s [H|[]]. discriminate.
  Qed.

  (* the split at one position, at two positions *)
  Lemma enum_split1 l (At : list nat -> A -> Prop) q s :
    Enumerated F l At -> At q s ->
    exists a c, l = (a ++ s :: c)%list /\
      (forall s', In s' a -> F s' \/ exists q', At q' s' /\ lex_lt q' q) /\
      (forall s', In s' c -> F s' \/ exists q', At q' s' /\ lex_lt q q').
  Proof.
    intros [L [E [S [I N]]]] Hq. apply I in Hq. apply in_split in Hq. destruct Hq as [La [Lc EL]]. subst L.
    exists (map snd La), (map snd Lc). split; [rewrite <- E, map_app; reflexivity|].
    rewrite posns_app in S. change (posns ((Some q, s) :: Lc)) with (q :: posns Lc) in S.
    assert (Hbefore : forall p, In p (posns La) -> lex_lt p q).
    { clear -S. induction (posns La) as [|a P IH]; intros p Hp; [contradiction|]. cbn [app] in S.
      inversion S as [|? ? S' Fa]; subst. destruct Hp as [Hp|Hp].
      - subst a. rewrite Forall_forall in Fa. apply Fa. apply in_or_app. right. left. reflexivity.
      - apply IH; assumption. }
    assert (Hafter : forall p, In p (posns Lc) -> lex_lt q p).
    { assert (S' : StronglySorted lex_lt (q :: posns Lc)).
      { clear -S. induction (posns La) as [|a P IH]; [exact S|]. cbn [app] in S. inversion S; subst. auto. }
      inversion S' as [|? ? _ Fq]; subst. rewrite Forall_forall in Fq. exact Fq. }
    split; intros s' Hs'; apply in_map_iff in Hs'; destruct Hs' as [[o s0] [Es Hin]]; cbn [snd] in Es; subst s0.
    - destruct o as [p|].
      + right. exists p. split; [apply I; apply in_or_app; left; exact Hin|].
        apply Hbefore. apply in_posns. eauto.
      + left. apply N. apply in_or_app. left. exact Hin.
    - destruct o as [p|].
      + right. exists p. split; [apply I; apply in_or_app; right; right; exact Hin|].
        apply Hafter. apply in_posns. eauto.
      + left. apply N. apply in_or_app. right. right. exact Hin.
  Qed.

  Lemma enum_split2 l (At : list nat -> A -> Prop) q1 s1 q2 s2 :
    Enumerated F l At -> At q1 s1 -> At q2 s2 -> lex_lt q1 q2 ->
    exists a m c, l = (a ++ s1 :: m ++ s2 :: c)%list /\
      (forall s', In s' a -> F s' \/ exists q', At q' s' /\ lex_lt q' q1) /\
      (forall s', In s' m -> F s' \/ exists q', At q' s' /\ lex_lt q1 q' /\ lex_lt q' q2) /\
      (forall q' s', At q' s' -> lex_lt q1 q' -> lex_lt q' q2 -> In s' m).
  Proof.
    intros HE H1 H2 Hlt. pose proof HE as [L [E [S [I N]]]].
    apply I in H1. apply in_split in H1. destruct H1 as [La [Lr EL]]. subst L.
    assert (H2' : In (Some q2, s2) Lr).
    { apply I in H2. apply in_app_or in H2. destruct H2 as [H2|[H2|H2]]; [| |exact H2]; exfalso.
      - rewrite posns_app in S. change (posns ((Some q1, s1) :: Lr)) with (q1 :: posns Lr) in S.
        assert (Hb : lex_lt q2 q1).
        { assert (Hin : In q2 (posns La)) by (apply in_posns; eauto). clear -S Hin.
          induction (posns La) as [|a P IH]; [contradiction|]. cbn [app] in S. inversion S as [|? ? S' Fa]; subst.
          destruct Hin as [Hin|Hin]; [subst a; rewrite Forall_forall in Fa; apply Fa; apply in_or_app; right; left; reflexivity|].
          apply IH; assumption. }
        exact (lex_lt_irrefl _ (lex_lt_trans _ _ _ Hlt Hb)).
      - inversion H2; subst. exact (lex_lt_irrefl _ Hlt). }
    apply in_split in H2'. destruct H2' as [Lm [Lc ELr]]. subst Lr.
    exists (map snd La), (map snd Lm), (map snd Lc).
    split; [rewrite <- E, !map_app; cbn [map snd]; rewrite map_app; reflexivity|].
    rewrite posns_app in S. change (posns ((Some q1, s1) :: Lm ++ (Some q2, s2) :: Lc)) with (q1 :: posns (Lm ++ (Some q2, s2) :: Lc)) in S.
    rewrite posns_app in S. change (posns ((Some q2, s2) :: Lc)) with (q2 :: posns Lc) in S.
    assert (Sr : StronglySorted lex_lt (q1 :: posns Lm ++ q2 :: posns Lc)).
    { clear -S. induction (posns La) as [|a P IH]; [exact S|]. cbn [app] in S. inversion S; subst. auto. }
    assert (Hbefore : forall p, In p (posns La) -> lex_lt p q1).
    { clear -S. induction (posns La) as [|a P IH]; intros p Hp; [contradiction|]. cbn [app] in S.
      inversion S as [|? ? S' Fa]; subst. destruct Hp as [Hp|Hp].
      - subst a. rewrite Forall_forall in Fa. apply Fa. apply in_or_app. right. left. reflexivity.
      - apply IH; assumption. }
    inversion Sr as [|? ? Sm F1]; subst. rewrite Forall_forall in F1.
    assert (Hmid : forall p, In p (posns Lm) -> lex_lt p q2).
    { clear -Sm. induction (posns Lm) as [|a P IH]; intros p Hp; [contradiction|]. cbn [app] in Sm.
      inversion Sm as [|? ? S' Fa]; subst. destruct Hp as [Hp|Hp].
      - subst a. rewrite Forall_forall in Fa. apply Fa. apply in_or_app. right. left. reflexivity.
      - apply IH; assumption. }
    assert (Hafter : forall p, In p (posns Lc) -> lex_lt q2 p).
    { assert (S' : StronglySorted lex_lt (q2 :: posns Lc)).
      { clear -Sm. induction (posns Lm) as [|a P IH]; [exact Sm|]. cbn [app] in Sm. inversion Sm; subst. auto. }
      inversion S' as [|? ? _ Fq]; subst. rewrite Forall_forall in Fq. exact Fq. }
    split; [|split].
    - intros s' Hs'. apply in_map_iff in Hs'. destruct Hs' as [[o s0] [Es Hin]]. cbn [snd] in Es. subst s0.
      destruct o as [p|].
      + right. exists p. split; [apply I; apply in_or_app; left; exact Hin|]. apply Hbefore. apply in_posns. eauto.
      + left. apply N. apply in_or_app. left. exact Hin.
    - intros s' Hs'. apply in_map_iff in Hs'. destruct Hs' as [[o s0] [Es Hin]]. cbn [snd] in Es. subst s0.
      destruct o as [p|].
      + right. exists p. split; [apply I; apply in_or_app; right; right; apply in_or_app; left; exact Hin|].
        split; [apply F1; apply in_or_app; left; apply in_posns; eauto | apply Hmid; apply in_posns; eauto].
      + left. apply N. apply in_or_app. right. right. apply in_or_app. left. exact Hin.
    - intros q' s' Hq' Hl1 Hl2. apply I in Hq'. apply in_app_or in Hq'. destruct Hq' as [Hq'|[Hq'|Hq']].
      + exfalso. assert (Hb : lex_lt q' q1) by (apply Hbefore; apply in_posns; eauto).
        exact (lex_lt_irrefl _ (lex_lt_trans _ _ _ Hl1 Hb)).
      + inversion Hq'; subst. exfalso. exact (lex_lt_irrefl _ Hl1).
      + apply in_app_or in Hq'. destruct Hq' as [Hq'|[Hq'|Hq']].
        * apply in_map_iff. exists (Some q', s'). auto.
        * inversion Hq'; subst. exfalso. exact (lex_lt_irrefl _ Hl2).
        * exfalso. assert (Hb : lex_lt q2 q') by (apply Hafter; apply in_posns; eauto).
          exact (lex_lt_irrefl _ (lex_lt_trans _ _ _ Hl2 Hb)).
  Qed.
End Enum.

Lemma enum_filler_weaken {A} (F F' : A -> Prop) l (At : list nat -> A -> Prop) :
  (forall s, F s -> F' s) -> Enumerated F l At -> Enumerated F' l At.
Proof. intros H [L [E [S [I N]]]]. exists L. repeat split; try assumption; try apply I. intros s Hs. apply H, N, Hs. Qed.

(* ====================================================================== *)
(* 5. the statements of a file list, enumerated by their positions         *)
(* ====================================================================== *)

(* the expansion of an entry is a function of the entry and the section asked *)
Lemma expands_fun cfg seg sections f :
  (forall s l, Expands cfg seg sections f s l -> forall l', Expands cfg seg sections f s l' -> l = l') /\
  (forall ks l, ExpandsKeys cfg seg sections f ks l -> forall l', ExpandsKeys cfg seg sections f ks l' -> l = l') /\
  (forall ms l, ExpandsMembers cfg seg sections f ms l -> forall l', ExpandsMembers cfg seg sections f ms l' -> l = l').
Proof.
  apply Expands_mutind.
  - intros section l _ IH l' H'. inversion H'; subst. apply IH. assumption.
  - intros l' H'. inversion H'. reflexivity.
  - intros k ks l1 l2 _ IH1 _ IH2 l' H'. inversion H' as [|? ? m1 m2 Hm Hk]; subst.
    rewrite (IH1 _ Hm), (IH2 _ Hk). reflexivity.
  - intros l' H'. inversion H'. reflexivity.
  - intros s ss l1 l2 _ IH1 _ IH2 l' H'. inversion H' as [|? ? m1 m2 Hs Hss]; subst.
    rewrite (IH1 _ Hs), (IH2 _ Hss). reflexivity.
Qed.

Lemma own_stmts_short rt sty seg f k base :
  own_stmts rt sty seg f k base = [] \/ exists s0, own_stmts rt sty seg f k base = [s0].
Proof.
  unfold own_stmts. destruct (fi_kind f).
  - destruct (escape_path rt (fi_path f)); eauto.
  - destruct (escape_path rt (fi_path f)); eauto.
  - destruct (String.eqb (fi_section f) k); eauto.
  - destruct (String.eqb (fi_section f) k); eauto.
  - eauto.
Qed.

Section EnumFiles.
  Variables (rt : runtime) (sty : style) (cfg : wcfg) (seg : segment) (sections : list string).
  Local Notation EA := (EntryAt rt sty cfg seg sections).
  Local Notation FA := (FileAt rt sty cfg seg sections).
  Local Notation KA := (KidsAt rt sty cfg seg sections).
  Local Notation NoF := (@no_filler stmt).

  Lemma files_enumerated :
    (forall f section base l, EntryStmts rt sty cfg seg sections f section base l ->
                              Enumerated NoF l (EA f section base)) /\
    (forall f keys base l, KeysStmts rt sty cfg seg sections f keys base l ->
       Enumerated NoF l (fun p s => exists m r, p = m :: r /\ exists k, nth_error keys m = Some k /\ FA f k base r s)) /\
    (forall f k base l, FileStmts rt sty cfg seg sections f k base l -> Enumerated NoF l (FA f k base)) /\
    (forall files k base l, KidsStmts rt sty cfg seg sections files k base l -> Enumerated NoF l (KA files k base)).
  Proof.
    apply EntryStmts_mutind.
    - (* an entry: the sections of its expansion *)
      intros f section base keys l HX _ IH. eapply enum_ext; [|exact IH]. intros p s. split.
      + intros [m [r [Ep [k [Hk Hf]]]]]. subst p. econstructor; eassumption.
      + intro H. inversion H as [? ? ? keys' m k path ? HX' Hk Hf]; subst.
        rewrite (proj1 (expands_fun cfg seg sections f) _ _ HX _ HX'). eauto 8.
    - intros f base. apply enum_nil. intros p s [m [r [_ [k [Hk _]]]]]. destruct m; discriminate.
    - intros f k ks base l1 l2 _ IH1 _ IH2.
      pose proof (enum_cons NoF l1 l2 (FA f k base)
                            (fun m r s => exists k', nth_error ks m = Some k' /\ FA f k' base r s) IH1 IH2) as H.
      eapply enum_ext; [|exact H]. intros p s. split.
      + intros [m [r [Ep Hm]]]. exists m, r. split; [exact Ep|]. destruct m as [|m'].
        * exists k. split; [reflexivity | exact Hm].
        * exact Hm.
      + intros [m [r [Ep [k' [Hk Hf]]]]]. exists m, r. split; [exact Ep|]. destruct m as [|m'].
        * cbn [nth_error] in Hk. inversion Hk; subst. exact Hf.
        * exists k'. auto.
    - (* excluded *)
      intros f k base He. apply enum_nil. intros p s H. inversion H; subst; congruence.
    - (* an included entry that is not a group *)
      intros f k base He Hk _.
      pose proof (enum_short NoF (own_stmts rt sty seg f k base)) as H.
      eapply enum_ext; [|apply H]. 2:{ destruct (own_stmts_short rt sty seg f k base) as [E|E]; [left|right]; exact E. }
      intros p s. split.
      + intros [Ep Hin]. subst p. constructor; assumption.
      + intro Hf. inversion Hf; subst; [auto | contradiction].
    - (* an included group *)
      intros f k base d l He Hk Hd _ IH. eapply enum_ext; [|exact IH]. intros p s. split.
      + intros [j [c [path [Ep [Hj Hc]]]]]. subst p. econstructor; eassumption.
      + intro Hf. inversion Hf as [|? ? ? d' j c path ? _ _ Hd' Hj Hc]; subst; [congruence|].
        rewrite Hd in Hd'. inversion Hd'; subst d'. exists j, c, path. auto.
    - intros k base. apply enum_nil. intros p s [j [c [path [_ [Hj _]]]]]. destruct j; discriminate.
    - intros c r k base l1 l2 _ IH1 _ IH2.
      pose proof (enum_cons NoF l1 l2 (EA c k base)
                            (fun j path s => exists c', nth_error r j = Some c' /\ EA c' k base path s)) as H.
      eapply enum_ext; [|apply H; [exact IH1|]].
      + intros p s. split.
        * intros [m [path [Ep Hm]]]. exists m. destruct m as [|m'].
          -- exists c, path. auto.
          -- destruct Hm as [c' [Hc' Hm]]. exists c', path. auto.
        * intros [j [c' [path [Ep [Hj Hc']]]]]. exists j, path. split; [exact Ep|]. destruct j as [|j'].
          -- cbn [nth_error] in Hj. inversion Hj; subst. exact Hc'.
          -- exists c'. auto.
      + eapply enum_ext; [|exact IH2]. intros p s. split.
        * intros [j [c' [path [Ep [Hj Hc']]]]]. exists j, path. split; [exact Ep|]. exists c'. auto.
        * intros [j [path [Ep [c' [Hj Hc']]]]]. exists j, c', path. auto.
  Qed.

  Lemma kids_enumerated files k base l :
    KidsStmts rt sty cfg seg sections files k base l -> Enumerated NoF l (KA files k base).
  Proof. apply files_enumerated. Qed.
End EnumFiles.

(* ====================================================================== *)
(* 6. the body of a half, the claims of a segment, of the script           *)
(* ====================================================================== *)

Definition not_input (s : stmt) : Prop := is_input s = false.

(* what an enumerated list gives after a map that keeps at most one thing per element and nothing of
   the fillers *)
Lemma enum_flat_map {A B} (F : A -> Prop) (g : A -> list B) l (At : list nat -> A -> Prop) :
  Enumerated F l At -> (forall s, F s -> g s = []) -> (forall s, g s = [] \/ exists c, g s = [c]) ->
  Enumerated no_filler (flat_map g l) (fun p c => exists s, At p s /\ In c (g s)).
Proof.
  intros [L [E [S [I N]]]] HF Hg.
  set (h := fun q : option (list nat) * A => map (fun c => (fst q, c)) (g (snd q))).
  assert (K : forall L0 : list (option (list nat) * A),
             StronglySorted lex_lt (posns L0) -> (forall s, In (None, s) L0 -> g s = []) ->
             map snd (flat_map h L0) = flat_map g (map snd L0) /\
             StronglySorted lex_lt (posns (flat_map h L0)) /\
             (forall p c, In (Some p, c) (flat_map h L0) <-> exists s, In (Some p, s) L0 /\ In c (g s)) /\
             (forall c, ~ In (None, c) (flat_map h L0)) /\
             (forall p, In p (posns (flat_map h L0)) -> In p (posns L0))).
  { induction L0 as [|[o s] L0 IH]; intros S0 N0.
    - cbn. repeat split; try constructor; try tauto. intros [s [[] _]].
    - assert (S0' : StronglySorted lex_lt (posns L0)).
      { unfold posns in S0. cbn [flat_map fst] in S0. destruct o; [inversion S0; assumption | exact S0]. }
      destruct (IH S0' (fun s0 H0 => N0 s0 (or_intror H0))) as [I1 [I2 [I3 [I4 I5]]]].
      cbn [flat_map map snd]. unfold h at 1 3 5 7 9. cbn [fst snd].
      destruct (Hg s) as [Eg|[c0 Eg]]; rewrite Eg; cbn [map app].
      + split; [exact I1|]. split; [exact I2|]. split; [|split; [exact I4|]].
        * intros p c. rewrite I3. split.
          -- intros [s1 [H1 H2]]. exists s1. split; [right; exact H1 | exact H2].
          -- intros [s1 [[H1|H1] H2]]; [inversion H1; subst; rewrite Eg in H2; contradiction | eauto].
        * intros p Hp. apply I5 in Hp. unfold posns. cbn [flat_map]. apply in_or_app. right. exact Hp.
      + destruct o as [p0|].
        2:{ exfalso. rewrite (N0 s (or_introl eq_refl)) in Eg. discriminate. }
        split; [cbn [snd]; rewrite I1; reflexivity|].
        split.
        { unfold posns. cbn [flat_map fst app]. fold (posns (flat_map h L0)). constructor; [exact I2|].
          unfold posns in S0. cbn [flat_map fst app] in S0. inversion S0 as [|? ? _ Fp]; subst.
          rewrite Forall_forall in Fp. apply Forall_forall. intros p Hp. apply Fp. apply I5. exact Hp. }
        split; [|split].
        * intros p c. cbn [In]. rewrite I3. split.
          -- intros [H|[s1 [H1 H2]]].
             ++ inversion H; subst. exists s. split; [left; reflexivity | rewrite Eg; left; reflexivity].
             ++ exists s1. split; [right; exact H1 | exact H2].
          -- intros [s1 [[H1|H1] H2]].
             ++ inversion H1; subst. rewrite Eg in H2. destruct H2 as [H2|[]]. subst. left. reflexivity.
             ++ right. eauto.
        * intros c [H|H]; [discriminate | exact (I4 c H)].
        * intros p Hp. unfold posns in Hp |- *. cbn [flat_map fst app] in Hp |- *. destruct Hp as [Hp|Hp]; [left; exact Hp|].
          right. apply I5. exact Hp. }
  destruct (K L S (fun s H => HF s (N s H))) as [K1 [K2 [K3 [K4 _]]]].
  exists (flat_map h L). split; [rewrite K1, E; reflexivity|]. split; [exact K2|]. split.
  - intros p c. rewrite K3. split; intros [s [H1 H2]]; exists s; (split; [apply I; exact H1 | exact H2]).
  - intros c H. exact (K4 c H).
Qed.

Section DocEnum.
  Variables (rt : runtime) (d : document).
  Let stg := doc_settings d.
  Let sty := linker_symbols_style stg.
  Let classes := doc_vram_classes d.

  (* the positions in the body of half [nl] of [seg], the directory of the segment being whatever
     [doc_base] says *)
  Definition HalfAt (seg : segment) (nl : bool) (p : list nat) (s : stmt) : Prop :=
    exists b, doc_base rt d seg b /\ BodyAt rt stg seg nl b p s.

  Lemma part_groups_enumerated seg sections : forall rest ws body ws',
    part_groups rt stg cfg_normal seg sections rest ws = Ok (body, ws') ->
    Enumerated not_input body
      (fun p s => exists i r, p = i :: r /\ exists section b,
                    nth_error rest i = Some section /\ doc_base rt d seg b /\
                    KidsAt rt sty cfg_normal seg sections (sg_files seg) section b r s).
  Proof.
    induction rest as [|section rest IH]; intros ws body ws' H.
    - apply ok_inj in H. inversion H; subst. apply enum_nil.
      intros p s [i [r [_ [sec [b [Hn _]]]]]]. destruct i; discriminate.
    - apply part_groups_cons in H. destruct H as [s1 [ws1 [s2 [E1 [E2 E]]]]]. subst body.
      fold sty in E1.
      pose proof (IH _ _ _ E2) as I2. clear IH.
      apply emit_section_sound in E1. destruct E1 as [b0 [Hb0 HK]].
      change (seg_base rt cfg_normal seg (base_path stg) b0) in Hb0.
      apply kids_enumerated in HK.
      assert (I1 : Enumerated not_input
                     (section_symbol_start rt sty cfg_normal seg section ++ s1 ++
                      (section_symbol_end sty cfg_normal seg section ++
                       match rest with [] => [] | _ :: _ => [SBlank] end))%list
                     (fun r s => exists b, doc_base rt d seg b /\
                                           KidsAt rt sty cfg_normal seg sections (sg_files seg) section b r s)).
      { apply enum_fillers.
        - apply ni_section_symbol_start.
        - apply Forall_app. split; [apply ni_section_symbol_end | destruct rest; repeat constructor].
        - eapply enum_ext; [|eapply enum_filler_weaken; [|exact HK]]; [|intros s []].
          intros p s. split.
          + intro Hk. exists b0. split; [apply doc_base_seg_base; exact Hb0 | exact Hk].
          + intros [b [Hb Hk]]. apply doc_base_seg_base in Hb.
            rewrite (seg_base_fun _ _ _ _ _ _ Hb0 Hb). exact Hk. }
      pose proof (enum_cons not_input _ s2 _
                            (fun i r s => exists sec b, nth_error rest i = Some sec /\ doc_base rt d seg b /\
                                            KidsAt rt sty cfg_normal seg sections (sg_files seg) sec b r s) I1) as H.
      repeat rewrite <- app_assoc in H.
      eapply enum_ext; [|apply H].
      + intros p s. split.
        * intros [m [r [Ep Hm]]]. exists m, r. split; [exact Ep|]. destruct m as [|m'].
          -- destruct Hm as [b [Hb Hk]]. exists section, b. auto.
          -- exact Hm.
        * intros [i [r [Ep [sec [b [Hn [Hb Hk]]]]]]]. exists i, r. split; [exact Ep|]. destruct i as [|i'].
          -- cbn [nth_error] in Hn. inversion Hn; subst. eauto.
          -- exists sec, b. auto.
      + eapply enum_ext; [|exact I2]. intros p s. split.
        * intros [i [r [Ep Hm]]]. eauto.
        * intros [i [r [Ep Hm]]]. eauto.
  Qed.

  Lemma half_enumerated seg nl ws body ws' :
    part_groups rt stg cfg_normal seg (part_sections seg nl) (part_sections seg nl) ws = Ok (body, ws') ->
    Enumerated not_input body (HalfAt seg nl).
  Proof.
    intro H. apply part_groups_enumerated in H. eapply enum_ext; [|exact H]. intros p s. split.
    - intros [i [r [Ep [sec [b [Hn [Hb Hk]]]]]]]. exists b. split; [exact Hb|]. exists i, sec, r. auto.
    - intros [b [Hb [i [sec [r [Ep [Hn Hk]]]]]]]. exists i, r. split; [exact Ep|]. exists sec, b. auto.
  Qed.

  (* ---------- claims ---------- *)

  Definition input_claim (o : string) (s : stmt) : list claim :=
    match s with SInput _ path member sect wild => [CInput o path member sect wild] | _ => [] end.

  Lemma body_claims_flat o body : body_claims o body = flat_map (input_claim o) body.
  Proof. reflexivity. Qed.

  Definition HalfClaimAt (seg : segment) (nl : bool) (p : list nat) (c : claim) : Prop :=
    exists kp path member sect wild,
      HalfAt seg nl p (SInput kp path member sect wild) /\ c = CInput (part_name seg nl) path member sect wild.

  Lemma half_claims_enumerated seg nl ws body ws' :
    part_groups rt stg cfg_normal seg (part_sections seg nl) (part_sections seg nl) ws = Ok (body, ws') ->
    Enumerated no_filler (body_claims (part_name seg nl) body) (HalfClaimAt seg nl).
  Proof.
    intro H. apply half_enumerated in H. rewrite body_claims_flat.
    assert (K : Enumerated no_filler (flat_map (input_claim (part_name seg nl)) body)
                  (fun p c => exists s, HalfAt seg nl p s /\ In c (input_claim (part_name seg nl) s))).
    { apply (enum_flat_map not_input (input_claim (part_name seg nl)) body _ H).
      - intros s Hs. destruct s; try reflexivity. discriminate.
      - intro s. destruct s; try (left; reflexivity). right. eexists. reflexivity. }
    eapply enum_ext; [|exact K]. intros p c. split.
    - intros [s [Hs Hc]]. destruct s; try contradiction. destruct Hc as [Hc|[]]. subst c.
      exists keep, path, member, sect, wild. auto.
    - intros [kp [path [member [sect [wild [Hs Ec]]]]]]. subst c. eexists. split; [exact Hs|]. left. reflexivity.
  Qed.

  (* the claims of one segment: half 0, then half 1 *)
  Definition SegClaimAt (seg : segment) (p : list nat) (c : claim) : Prop :=
    exists nl q, p = half_index nl :: q /\ HalfClaimAt seg nl q c.

  Lemma segment_claims_enumerated seg ws s ws' :
    add_segment rt stg cfg_normal classes seg ws = Ok (s, ws') -> should_emit rt (sg_conds seg) = true ->
    Enumerated no_filler (flat_map top_claims s) (SegClaimAt seg).
  Proof.
    intros H Hc. destruct (add_segment_claims rt d seg ws s ws' H Hc) as [ws1 [body1 [ws2 [body2 [G1 [G2 E]]]]]].
    rewrite E.
    pose proof (half_claims_enumerated seg false _ _ _ G1) as K1.
    pose proof (half_claims_enumerated seg true _ _ _ G2) as K2.
    assert (K2' : Enumerated no_filler (body_claims (noload_name seg) body2)
                    (fun p c => exists m r, p = m :: r /\ (m = 0 /\ HalfClaimAt seg true r c))).
    { pose proof (enum_cons no_filler _ [] (HalfClaimAt seg true) (fun _ _ _ => False) K2) as K.
      rewrite app_nil_r in K. eapply enum_ext; [|apply K].
      - intros p c. split.
        + intros [m [r [Ep Hm]]]. destruct m; [eauto | contradiction].
        + intros [m [r [Ep [Em Hm]]]]. subst m. eauto.
      - apply enum_nil. intros p c [m [r [_ []]]]. }
    pose proof (enum_cons no_filler _ _ (HalfClaimAt seg false) _ K1 K2') as K.
    eapply enum_ext; [|exact K]. intros p c. split.
    - intros [m [r [Ep Hm]]]. destruct m as [|m'].
      + exists false, r. auto.
      + destruct Hm as [Em Hm]. subst m'. exists true, r. auto.
    - intros [nl [q [Ep Hq]]]. subst p. destruct nl; cbn [half_index].
      + exists 1, q. auto.
      + exists 0, q. auto.
  Qed.

  Lemma fold_claims_enumerated segs : forall ws body ws',
    fold_out (add_segment rt stg cfg_normal classes) segs ws = Ok (body, ws') ->
    Enumerated no_filler (flat_map top_claims body)
      (fun p c => exists g r, p = g :: r /\ exists seg, nth_error (included rt segs) g = Some seg /\ SegClaimAt seg r c).
  Proof.
    induction segs as [|seg r IH]; intros ws body ws' H.
    - apply fold_out_nil in H. destruct H; subst. apply enum_nil.
      intros p c [g [q [_ [s [Hn _]]]]]. destruct g; discriminate.
    - apply fold_out_cons in H. destruct H as [s1 [ws1 [s2 [E1 [E2 E]]]]]. subst body.
      pose proof (IH _ _ _ E2) as I2. unfold included. cbn [filter].
      destruct (should_emit rt (sg_conds seg)) eqn:Hc.
      + pose proof (segment_claims_enumerated seg ws s1 ws1 E1 Hc) as I1.
        rewrite flat_map_app.
        pose proof (enum_cons no_filler _ (flat_map top_claims s2) (SegClaimAt seg)
                              (fun g q c => exists s, nth_error (included rt r) g = Some s /\ SegClaimAt s q c) I1) as K.
        eapply enum_ext; [|apply K].
        * intros p c. split.
          -- intros [m [q [Ep Hm]]]. exists m, q. split; [exact Ep|]. destruct m as [|m'].
             ++ exists seg. auto.
             ++ exact Hm.
          -- intros [g [q [Ep [s [Hn Hs]]]]]. exists g, q. split; [exact Ep|]. destruct g as [|g'].
             ++ cbn [nth_error] in Hn. inversion Hn; subst. exact Hs.
             ++ exists s. auto.
        * eapply enum_ext; [|exact I2]. intros p c. split.
          -- intros [g [q [Ep Hm]]]. eauto.
          -- intros [g [q [Ep Hm]]]. eauto.
      + rewrite (add_segment_excluded _ _ _ _ _ _ Hc) in E1. apply ok_inj in E1. inversion E1; subst s1 ws1.
        cbn [app]. exact I2.
  Qed.

  Lemma ClaimAt_seg pos c :
    ClaimAt rt d pos c <->
    exists g r, pos = g :: r /\ exists seg, nth_error (included rt (doc_segments d)) g = Some seg /\ SegClaimAt seg r c.
  Proof.
    split.
    - intros [g [seg [nl [b [p [kp [path [member [sect [wild [Ep [Hn [Hb [Hp Ec]]]]]]]]]]]]]].
      exists g, (half_index nl :: p). split; [exact Ep|]. exists seg. split; [exact Hn|].
      exists nl, p. split; [reflexivity|]. exists kp, path, member, sect, wild. split; [|exact Ec].
      exists b. auto.
    - intros [g [r [Ep [seg [Hn [nl [q [Er [kp [path [member [sect [wild [[b [Hb Hq]] Ec]]]]]]]]]]]]]].
      subst. exists g, seg, nl, b, q, kp, path, member, sect, wild. auto.
  Qed.

  (* C02_document_claims_enumerated *)
  Theorem document_claims_enumerated w :
    gen_normal d rt = Ok w -> single_segment_mode stg = false ->
    exists A, script_claims (wo_script w) = (A ++ tail_claims stg)%list /\
              Enumerated no_filler A (ClaimAt rt d).
  Proof.
    intros H Hm. apply gen_normal_inv in H. destruct H as [s [ws' [E Hw]]].
    apply add_all_segments_inv in E. destruct E as [[Hs _] | [_ [body [E Es]]]]; [unfold stg in *; congruence|].
    subst s w. exists (flat_map top_claims body). split.
    - unfold script_claims. cbn [wo_script].
      rewrite !flat_app, (flat_plain _ (plain_version rt)), (flat_plain _ (plain_tail rt d)).
      change (flat_stmts [SSections (begin_sections_body (doc_settings d) ++ body ++
                                     end_sections_body (doc_settings d) (doc_vram_classes d) ws')])
        with ((begin_sections_body (doc_settings d) ++ body ++
               end_sections_body (doc_settings d) (doc_vram_classes d) ws') ++ [])%list.
      rewrite app_nil_r, !flat_map_app, (claimless_list _ (q_version rt)), (claimless_list _ (q_begin _)),
        (claimless_list _ (q_tail_stmts rt d)), claims_end_sections, app_nil_r. reflexivity.
    - eapply enum_ext; [|exact (fold_claims_enumerated _ _ _ _ E)].
      intros p c. symmetry. apply ClaimAt_seg.
  Qed.
End DocEnum.

(* ====================================================================== *)
(* 7. the output section of a half inside the script                       *)
(* ====================================================================== *)

Lemma enum_in {A} (F : A -> Prop) l (At : list nat -> A -> Prop) s :
  Enumerated F l At -> In s l -> F s \/ exists p, At p s.
Proof.
  intros [L [E [_ [I N]]]] Hin. rewrite <- E in Hin. apply in_map_iff in Hin. destruct Hin as [[o s0] [Es Hin]].
  cbn [snd] in Es. subst s0. destruct o as [p|]; [right; exists p; apply I; exact Hin | left; apply N; exact Hin].
Qed.

Lemma half_index_inj a b : half_index a = half_index b -> a = b.
Proof. destruct a, b; cbn; congruence. Qed.

Definition half_outsec (stg : settings) (seg : segment) (nl : bool) (body : list stmt) : stmt :=
  SOutSec (part_name seg nl)
          (if nl then None else segment_addr (linker_symbols_style stg) seg)
          (if nl then None else Some (segment_rom_start (linker_symbols_style stg) (sg_name seg)))
          nl (subalign seg) (opt_fill seg ++ body).

Lemma half_outsec_of stg seg nl body : outsec_of stg seg nl body = half_outsec stg seg nl body.
Proof. destruct nl; [reflexivity | apply alloc_name_outsec]. Qed.

Section DocSplit.
  Variables (rt : runtime) (d : document).
  Let stg := doc_settings d.
  Let sty := linker_symbols_style stg.
  Let classes := doc_vram_classes d.

  Lemma fold_nth_split segs : forall ws body ws' g seg,
    fold_out (add_segment rt stg cfg_normal classes) segs ws = Ok (body, ws') ->
    nth_error (included rt segs) g = Some seg ->
    exists b1 wsa s1 wsb b2,
      add_segment rt stg cfg_normal classes seg wsa = Ok (s1, wsb) /\ body = (b1 ++ s1 ++ b2)%list /\
      forall c, In c (flat_map top_claims b1) ->
        exists g' r seg', g' < g /\ nth_error (included rt segs) g' = Some seg' /\ SegClaimAt rt d seg' r c.
  Proof.
    induction segs as [|x r IH]; intros ws body ws' g seg H Hn.
    - destruct g; discriminate.
    - apply fold_out_cons in H. destruct H as [s1 [ws1 [s2 [E1 [E2 E]]]]]. subst body.
      unfold included in Hn |- *. cbn [filter] in Hn |- *.
      destruct (should_emit rt (sg_conds x)) eqn:Hc.
      + destruct g as [|g'].
        * cbn [nth_error] in Hn. inversion Hn; subst x. exists [], ws, s1, ws1, s2.
          split; [exact E1|]. split; [reflexivity|]. intros c [].
        * cbn [nth_error] in Hn. destruct (IH _ _ _ _ _ E2 Hn) as (b1 & wsa & s0 & wsb & b2 & Ea & Eb & Hb).
          exists (s1 ++ b1)%list, wsa, s0, wsb, b2. split; [exact Ea|].
          split; [rewrite Eb, <- app_assoc; reflexivity|].
          intros c Hin. rewrite flat_map_app in Hin. apply in_app_or in Hin. destruct Hin as [Hin|Hin].
          -- pose proof (segment_claims_enumerated rt d x ws s1 ws1 E1 Hc) as K.
             destruct (enum_in _ _ _ c K Hin) as [[]|[p Hp]].
             exists 0, p, x. split; [lia|]. split; [reflexivity | exact Hp].
          -- destruct (Hb c Hin) as [g0 [q [s' [Hlt [Hn' Hs']]]]]. exists (S g0), q, s'.
             split; [lia|]. split; [exact Hn' | exact Hs'].
      + rewrite (add_segment_excluded _ _ _ _ _ _ Hc) in E1. apply ok_inj in E1. inversion E1; subst s1 ws1.
        destruct (IH _ _ _ _ _ E2 Hn) as (b1 & wsa & s0 & wsb & b2 & Ea & Eb & Hb).
        exists b1, wsa, s0, wsb, b2. split; [exact Ea|]. split; [exact Eb | exact Hb].
  Qed.

  (* the output section of half [nl] of the [g]-th included segment: where it is in the statements
     LdSem executes, what its body is, and that every claim before it has an earlier position *)
  Lemma outsec_split w g seg nl :
    gen_normal d rt = Ok w -> single_segment_mode stg = false ->
    nth_error (included rt (doc_segments d)) g = Some seg ->
    exists A body B ws ws',
      flat_stmts (wo_script w) = (A ++ half_outsec stg seg nl body :: B)%list /\
      part_groups rt stg cfg_normal seg (part_sections seg nl) (part_sections seg nl) ws = Ok (body, ws') /\
      forall c, In c (flat_map top_claims A) ->
        exists pos, ClaimAt rt d pos c /\ forall q, lex_lt pos (g :: half_index nl :: q).
  Proof.
    intros H Hm Hn. apply gen_normal_inv in H. destruct H as [s [ws' [E Hw]]].
    apply add_all_segments_inv in E. destruct E as [[Hs _] | [_ [body [E Es]]]]; [unfold stg in *; congruence|].
    subst s w. fold stg classes in E.
    assert (Ef : flat_stmts (wo_script (WriterOut (version_stmts rt ++
                    [SSections (begin_sections_body stg ++ body ++ end_sections_body stg classes ws')] ++
                    tail_stmts rt d) (ws_paths ws'))) =
                 (version_stmts rt ++ (begin_sections_body stg ++ body ++ end_sections_body stg classes ws') ++
                  tail_stmts rt d)%list).
    { cbn [wo_script]. rewrite !flat_app, (flat_plain _ (plain_version rt)), (flat_plain _ (plain_tail rt d)).
      change (flat_stmts [SSections (begin_sections_body stg ++ body ++ end_sections_body stg classes ws')])
        with ((begin_sections_body stg ++ body ++ end_sections_body stg classes ws') ++ [])%list.
      rewrite app_nil_r. reflexivity. }
    fold stg classes. rewrite Ef. clear Ef.
    destruct (fold_nth_split _ _ _ _ _ _ E Hn) as (b1 & wsa & s1 & wsb & b2 & Ea & Eb & Hb1).
    assert (Hc : should_emit rt (sg_conds seg) = true).
    { apply nth_error_In in Hn. apply filter_In in Hn. tauto. }
    apply add_segment_inv in Ea.
    destruct Ea as [[Hc' _] | [_ [cls [ws1 [s1a [ws2 [s2a [Ec [E1 [E2 Es1]]]]]]]]]]; [congruence|].
    pose proof E1 as E1'. pose proof E2 as E2'.
    apply write_segment_inv in E1. destruct E1 as [body1 [G1 E1]].
    apply write_segment_inv in E2. destruct E2 as [body2 [G2 E2]].
    rewrite half_outsec_of in E1, E2. fold sty in E1, E2.
    set (ks := sections_kind_start sty cfg_normal seg false) in *.
    set (ke := sections_kind_end sty cfg_normal seg false) in *.
    set (ks2 := sections_kind_start sty cfg_normal seg true) in *.
    set (ke2 := sections_kind_end sty cfg_normal seg true) in *.
    set (fin := (end_sections_body stg classes ws' ++ tail_stmts rt d)%list).
    assert (Hb1' : forall c, In c (flat_map top_claims b1) ->
                     exists pos, ClaimAt rt d pos c /\ forall q, lex_lt pos (g :: half_index nl :: q)).
    { intros c Hin. destruct (Hb1 c Hin) as [g' [r [seg' [Hlt [Hn' Hs']]]]].
      exists (g' :: r). split; [apply ClaimAt_seg; eauto 6|]. intro q. apply lex_head. exact Hlt. }
    destruct nl.
    - (* the noload half *)
      exists (version_stmts rt ++ begin_sections_body stg ++ b1 ++ cls ++ seg_head stg seg ++ s1a ++ [SBlank] ++ ks2)%list,
             body2, (ke2 ++ [SBlank] ++ seg_foot stg seg ++ b2 ++ fin)%list, ws2, wsb.
      split; [|split; [exact G2|]].
      + unfold fin. rewrite Eb, Es1, E2. repeat (rewrite <- app_assoc; cbn [app]). reflexivity.
      + intros c Hin. rewrite !flat_map_app in Hin.
        rewrite (claimless_list _ (q_version rt)), (claimless_list _ (q_begin _)),
          (claimless_list _ (q_class_part _ _ _ _ _ _ Ec)), (claimless_list _ (q_seg_head _ _)),
          (claimless_list ks2 (q_kind_start _ _ _ _)) in Hin.
        cbn [flat_map top_claims app] in Hin. rewrite !app_nil_r in Hin.
        apply in_app_or in Hin. destruct Hin as [Hin|Hin]; [apply Hb1'; exact Hin|].
        destruct (write_segment_claims rt d seg false _ _ _ E1') as [body1' [G1' C1]].
        rewrite C1 in Hin. pose proof (half_claims_enumerated rt d seg false _ _ _ G1') as K.
        destruct (enum_in _ _ _ c K Hin) as [[]|[p Hp]].
        exists (g :: half_index false :: p). split.
        * apply ClaimAt_seg. exists g, (half_index false :: p). split; [reflexivity|]. exists seg.
          split; [exact Hn|]. exists false, p. auto.
        * intro q. apply lex_tail. apply lex_head. cbn. lia.
    - (* the allocatable half *)
      exists (version_stmts rt ++ begin_sections_body stg ++ b1 ++ cls ++ seg_head stg seg ++ ks)%list,
             body1, (ke ++ [SBlank] ++ s2a ++ [SBlank] ++ seg_foot stg seg ++ b2 ++ fin)%list, ws1, ws2.
      split; [|split; [exact G1|]].
      + unfold fin. rewrite Eb, Es1, E1. repeat (rewrite <- app_assoc; cbn [app]). reflexivity.
      + intros c Hin. rewrite !flat_map_app in Hin.
        rewrite (claimless_list _ (q_version rt)), (claimless_list _ (q_begin _)),
          (claimless_list _ (q_class_part _ _ _ _ _ _ Ec)), (claimless_list _ (q_seg_head _ _)),
          (claimless_list ks (q_kind_start _ _ _ _)) in Hin.
        cbn [app] in Hin. rewrite !app_nil_r in Hin. apply Hb1'. exact Hin.
  Qed.
End DocSplit.

(* ====================================================================== *)
(* 8. document order implies address order                                 *)
(* ====================================================================== *)

Local Open Scope Z_scope.

Lemma placed_in_order_weaken placed o x y g g' :
  g' <= g -> placed_in_order placed o x y g -> placed_in_order placed o x y g'.
Proof.
  intros Hg (px & py & l1 & l2 & l3 & E & H1 & H2 & H3 & H4 & H5).
  exists px, py, l1, l2, l3. repeat (split; [assumption|]). lia.
Qed.

Lemma dot_adds_in n l : In (SDotAdd n) l -> Z.of_N n <= dot_adds l.
Proof.
  intro H. apply in_split in H. destruct H as [a [b E]]. subst l. rewrite dot_adds_app.
  change (SDotAdd n :: b) with ([SDotAdd n] ++ b)%list. rewrite dot_adds_app.
  pose proof (dot_adds_nonneg a). pose proof (dot_adds_nonneg b). unfold dot_adds at 2. cbn [fold_right]. lia.
Qed.

Lemma claim_at_unpack rt d g seg nl q c :
  nth_error (included rt (doc_segments d)) g = Some seg -> ClaimAt rt d (g :: half_index nl :: q) c ->
  exists kp path member sect wild,
    HalfAt rt d seg nl q (SInput kp path member sect wild) /\ c = CInput (part_name seg nl) path member sect wild.
Proof.
  intros Hn (g' & seg' & nl' & b & p & kp & path & member & sect & wild & Ep & Hn' & Hb & Hp & Ec).
  inversion Ep as [[Eg Eh Eq]]. subst g' p. apply half_index_inj in Eh. subst nl'.
  rewrite Hn in Hn'. inversion Hn'; subst seg'. exists kp, path, member, sect, wild. split; [|exact Ec].
  exists b. auto.
Qed.

Lemma claim_at_pack rt d g seg nl q kp path member sect wild :
  nth_error (included rt (doc_segments d)) g = Some seg ->
  HalfAt rt d seg nl q (SInput kp path member sect wild) ->
  ClaimAt rt d (g :: half_index nl :: q) (CInput (part_name seg nl) path member sect wild).
Proof. intros Hn [b [Hb Hq]]. exists g, seg, nl, b, q, kp, path, member, sect, wild. auto. Qed.

Section DocOrder.
  Variables (env : list (string * Z)) (senv : list osec) (ext : list (string * Z)) (final : bool).
  Notation runl := (run env senv ext final).

  Lemma document_order_core d rt w u g seg nl q1 q2 c1 c2 x y :
    gen_normal d rt = Ok w -> single_segment_mode (doc_settings d) = false ->
    Forall (fun z => 0 <= u_size z) u -> In x u -> In y u ->
    nth_error (included rt (doc_segments d)) g = Some seg ->
    lex_lt q1 q2 ->
    first_matched_at rt d (g :: half_index nl :: q1) c1 x ->
    first_matched_at rt d (g :: half_index nl :: q2) c2 y ->
    let st' := exec_script env senv ext final (wo_script w) (init_state u) in
    ~ In (LForwardRef (part_name seg nl)) (l_errors st') ->
    exists m, placed_in_order (l_placed st') (part_name seg nl) x y (dot_adds m) /\
              forall q s, HalfAt rt d seg nl q s -> lex_lt q1 q -> lex_lt q q2 -> In s m.
  Proof.
    intros Hg Hm Hu Hx Hy Hn Hlt [C1 [M1 N1]] [C2 [M2 N2]] st' Herr.
    destruct (claim_at_unpack _ _ _ _ _ _ _ Hn C1) as (k1 & p1 & m1 & s1 & w1 & H1 & Ec1).
    destruct (claim_at_unpack _ _ _ _ _ _ _ Hn C2) as (k2 & p2 & m2 & s2 & w2 & H2 & Ec2).
    subst c1 c2. cbn [claim_matches] in M1, M2.
    destruct (outsec_split rt d w g seg nl Hg Hm Hn) as (A & body & B & ws & ws' & Ef & G & HA).
    pose proof (half_enumerated rt d seg nl _ _ _ G) as K.
    destruct (enum_split2 _ _ _ _ _ _ _ K H1 H2 Hlt) as (a & m & c & Eb & Ha & Hmid & Hin).
    exists m. split; [|exact Hin].
    assert (Hpos : forall q kp path member sect wild,
               HalfAt rt d seg nl q (SInput kp path member sect wild) ->
               ClaimAt rt d (g :: half_index nl :: q) (CInput (part_name seg nl) path member sect wild))
      by (intros q kp path member sect wild H; exact (claim_at_pack rt d g seg nl q kp path member sect wild Hn H)).
    assert (Hbody : forall l c0 (P : list nat -> Prop),
               (forall s', In s' l -> not_input s' \/ exists q', HalfAt rt d seg nl q' s' /\ P q') ->
               In c0 (body_claims (part_name seg nl) l) ->
               exists q', ClaimAt rt d (g :: half_index nl :: q') c0 /\ P q').
    { intros l c0 P Hl Hc. apply body_claims_inv in Hc. destruct Hc as [kp [path [member [sect [wild [Ec Hs]]]]]].
      destruct (Hl _ Hs) as [Hni|[q' [Hq' HP]]]; [discriminate Hni|]. exists q'. subst c0. split; [exact (Hpos _ _ _ _ _ _ Hq') | exact HP]. }
    unfold half_outsec in Ef. rewrite Eb in Ef. rewrite app_assoc in Ef.
    apply (same_outsec_addresses env senv ext final (wo_script w) u A (part_name seg nl) _ _ nl (subalign seg)
             (opt_fill seg ++ a)%list k1 p1 m1 s1 w1 m k2 p2 m2 s2 w2 c B x y Ef Hu Hx Hy); try assumption.
    - intros c0 Hc. apply in_app_or in Hc. destruct Hc as [Hc|Hc].
      + destruct (HA c0 Hc) as [pos [Hp Hl]]. exact (N1 pos c0 Hp (Hl q1)).
      + rewrite body_claims_app, (noinput_list _ _ (ni_opt_fill seg)) in Hc. cbn [app] in Hc.
        destruct (Hbody a c0 (fun q' => lex_lt q' q1) Ha Hc) as [q' [Hq' Hl]].
        apply (N1 _ _ Hq'). apply lex_tail, lex_tail. exact Hl.
    - intros c0 Hc. apply in_app_or in Hc. destruct Hc as [Hc|[Hc|Hc]].
      + apply in_app_or in Hc. destruct Hc as [Hc|Hc].
        * destruct (HA c0 Hc) as [pos [Hp Hl]]. exact (N2 pos c0 Hp (Hl q2)).
        * rewrite body_claims_app, (noinput_list _ _ (ni_opt_fill seg)) in Hc. cbn [app] in Hc.
          destruct (Hbody a c0 (fun q' => lex_lt q' q1) Ha Hc) as [q' [Hq' Hl]].
          apply (N2 _ _ Hq'). apply lex_tail, lex_tail. eapply lex_lt_trans; eassumption.
      + subst c0. apply (N2 _ _ (Hpos _ _ _ _ _ _ H1)). apply lex_tail, lex_tail. exact Hlt.
      + destruct (Hbody m c0 (fun q' => lex_lt q1 q' /\ lex_lt q' q2) Hmid Hc) as [q' [Hq' [_ Hl]]].
        apply (N2 _ _ Hq'). apply lex_tail, lex_tail. exact Hl.
  Qed.

  (* C02_document_order *)
  Theorem document_order d rt w u g seg nl q1 q2 c1 c2 x y :
    gen_normal d rt = Ok w -> single_segment_mode (doc_settings d) = false ->
    Forall (fun z => 0 <= u_size z) u -> In x u -> In y u ->
    nth_error (included rt (doc_segments d)) g = Some seg ->
    lex_lt q1 q2 ->
    first_matched_at rt d (g :: half_index nl :: q1) c1 x ->
    first_matched_at rt d (g :: half_index nl :: q2) c2 y ->
    let st' := exec_script env senv ext final (wo_script w) (init_state u) in
    ~ In (LForwardRef (part_name seg nl)) (l_errors st') ->
    placed_in_order (l_placed st') (part_name seg nl) x y 0.
  Proof.
    intros Hg Hm Hu Hx Hy Hn Hlt F1 F2 st' Herr.
    destruct (document_order_core d rt w u g seg nl q1 q2 c1 c2 x y Hg Hm Hu Hx Hy Hn Hlt F1 F2 Herr) as [m [H _]].
    eapply placed_in_order_weaken; [|exact H]. apply dot_adds_nonneg.
  Qed.

  (* C02_document_order_pad *)
  Theorem document_order_pad d rt w u g seg nl q1 qp q2 c1 c2 x y n :
    gen_normal d rt = Ok w -> single_segment_mode (doc_settings d) = false ->
    Forall (fun z => 0 <= u_size z) u -> In x u -> In y u ->
    nth_error (included rt (doc_segments d)) g = Some seg ->
    lex_lt q1 qp -> lex_lt qp q2 ->
    (exists b, doc_base rt d seg b /\ BodyAt rt (doc_settings d) seg nl b qp (SDotAdd n)) ->
    first_matched_at rt d (g :: half_index nl :: q1) c1 x ->
    first_matched_at rt d (g :: half_index nl :: q2) c2 y ->
    let st' := exec_script env senv ext final (wo_script w) (init_state u) in
    ~ In (LForwardRef (part_name seg nl)) (l_errors st') ->
    placed_in_order (l_placed st') (part_name seg nl) x y (Z.of_N n).
  Proof.
    intros Hg Hm Hu Hx Hy Hn Hl1 Hl2 Hp F1 F2 st' Herr.
    destruct (document_order_core d rt w u g seg nl q1 q2 c1 c2 x y Hg Hm Hu Hx Hy Hn
                                  (lex_lt_trans _ _ _ Hl1 Hl2) F1 F2 Herr) as [m [H Hin]].
    eapply placed_in_order_weaken; [|exact H]. apply dot_adds_in. exact (Hin qp _ Hp Hl1 Hl2).
  Qed.

  (* ---------- one statement ---------- *)

  Lemma run_single A name addr at_ noload sub b1 k p m s w b3 B x st0 :
    let body := (b1 ++ SInput k p m s w :: b3)%list in
    let L := (A ++ SOutSec name addr at_ noload sub body :: B)%list in
    In x (l_remaining st0) ->
    (forall c, In c (flat_map top_claims A ++ body_claims name b1) -> claim_matches c x = false) ->
    sel false p m s w x = true ->
    ~ In (LForwardRef name) (l_errors (runl L st0)) ->
    placed_at (runl L st0) x name.
  Proof.
    intros body L Hx Hx1 Hx2 Herr.
    set (stA := runl A st0).
    assert (HxA : In x (l_remaining stA)).
    { apply run_keeps; [exact Hx|]. intros c Hc. apply Hx1. apply in_or_app. left. exact Hc. }
    assert (EL : runl L st0 = runl B (exec_top_stmt env senv ext final stA (SOutSec name addr at_ noload sub body)))
      by (unfold L, stA; rewrite run_app, run_cons; reflexivity).
    destruct (outsec_vma env senv ext addr sub body stA) as [vma|e] eqn:Ev.
    2:{ exfalso. apply Herr. rewrite EL. apply run_errors_in. cbn [exec_top_stmt].
        rewrite (exec_outsec_err _ _ _ _ _ _ _ _ _ _ _ _ Ev). cbn [add_err l_errors].
        apply in_or_app. right. left. reflexivity. }
    destruct (exec_outsec_ok env senv ext final name addr at_ noload sub body stA vma Ev) as [_ [_ [_ [_ [Hp _]]]]].
    unfold outsec_body in Hp. unfold body in Hp. rewrite fold_left_app in Hp. cbn [fold_left] in Hp.
    set (ssa := fold_left (exec_sec_stmt env senv ext final vma (option_map Z.of_N sub) name) b1 (SState 0 false stA)) in *.
    assert (Hxa : In x (l_remaining (s_st ssa))).
    { apply sec_fold_keeps; [exact HxA|]. intros c Hc. apply Hx1. apply in_or_app. right. exact Hc. }
    destruct (input_captures env senv ext final vma (option_map Z.of_N sub) name ssa k p m s w) as [C1 _].
    destruct (C1 x Hxa (proj1 (input_matches_sel _ _ _ _ _) Hx2)) as [[px [Hin [Mx Ox]]] _].
    set (ssb := exec_sec_stmt env senv ext final vma (option_map Z.of_N sub) name ssa (SInput k p m s w)) in *.
    destruct (sec_fold_placed env senv ext final vma (option_map Z.of_N sub) name b3 ssb) as [n3 E3].
    destruct (run_placed env senv ext final B (exec_top_stmt env senv ext final stA (SOutSec name addr at_ noload sub body)))
      as [nB EB].
    exists px. split; [|auto]. rewrite EL, EB. cbn [exec_top_stmt]. unfold body. rewrite Hp, E3.
    apply in_or_app. left. apply in_or_app. left. exact Hin.
  Qed.

  (* where the first-matched input section of a position is placed *)
  Lemma document_first_matched_placed d rt w u g seg nl q c x :
    gen_normal d rt = Ok w -> single_segment_mode (doc_settings d) = false -> In x u ->
    nth_error (included rt (doc_segments d)) g = Some seg ->
    first_matched_at rt d (g :: half_index nl :: q) c x ->
    let st' := exec_script env senv ext final (wo_script w) (init_state u) in
    ~ In (LForwardRef (part_name seg nl)) (l_errors st') ->
    placed_at st' x (part_name seg nl).
  Proof.
    intros Hg Hm Hx Hn [C1 [M1 N1]] st' Herr.
    destruct (claim_at_unpack _ _ _ _ _ _ _ Hn C1) as (k1 & p1 & m1 & s1 & w1 & H1 & Ec1).
    subst c. cbn [claim_matches] in M1.
    destruct (outsec_split rt d w g seg nl Hg Hm Hn) as (A & body & B & ws & ws' & Ef & G & HA).
    pose proof (half_enumerated rt d seg nl _ _ _ G) as K.
    destruct (enum_split1 _ _ _ _ _ K H1) as (a & c & Eb & Ha & _).
    unfold half_outsec in Ef. rewrite Eb in Ef. rewrite app_assoc in Ef.
    unfold st' in *. rewrite exec_script_flat, Ef in *.
    apply run_single; try assumption.
    intros c0 Hc. apply in_app_or in Hc. destruct Hc as [Hc|Hc].
    - destruct (HA c0 Hc) as [pos [Hp Hl]]. exact (N1 pos c0 Hp (Hl q)).
    - rewrite body_claims_app, (noinput_list _ _ (ni_opt_fill seg)) in Hc. cbn [app] in Hc.
      apply body_claims_inv in Hc. destruct Hc as [kp [path [member [sect [wild [Ec Hs]]]]]].
      destruct (Ha _ Hs) as [Hni|[q' [Hq' Hl]]]; [discriminate Hni|]. subst c0.
      apply (N1 _ _ (claim_at_pack _ _ _ _ _ _ _ _ _ _ _ Hn Hq')). apply lex_tail, lex_tail. exact Hl.
  Qed.

  (* C02_document_order_halves *)
  Theorem document_order_halves d rt w u g seg q1 q2 c1 c2 x y :
    gen_normal d rt = Ok w -> doc_link_wf d rt = true -> doc_outsecs_fresh d rt = true ->
    Forall (fun z => 0 <= u_size z) u -> NoDup (map u_marker u) -> In x u -> In y u ->
    nth_error (included rt (doc_segments d)) g = Some seg ->
    first_matched_at rt d (g :: 0%nat :: q1) c1 x ->
    first_matched_at rt d (g :: 1%nat :: q2) c2 y ->
    let st' := exec_script env senv ext final (wo_script w) (init_state u) in
    (forall s, In s (included rt (doc_segments d)) -> ~ In (LForwardRef (alloc_name s)) (l_errors st')) ->
    exists px py,
      In px (l_placed st') /\ pl_marker px = u_marker x /\ pl_outsec px = alloc_name seg /\
      In py (l_placed st') /\ pl_marker py = u_marker y /\ pl_outsec py = noload_name seg /\
      pl_addr px + u_size x <= pl_addr py.
  Proof.
    intros Hg Hwf Hfresh Hu Hnd Hx Hy Hn F1 F2 st' Herr.
    assert (Hm : single_segment_mode (doc_settings d) = false).
    { destruct (doc_link_wf_inv d rt Hwf) as (_ & _ & _ & Hm & _). exact Hm. }
    assert (Hin : In seg (included rt (doc_segments d))) by (eapply nth_error_In; exact Hn).
    destruct (document_first_matched_placed d rt w u g seg false q1 c1 x Hg Hm Hx Hn F1 (Herr seg Hin))
      as [px [Hpx [Mx Ox]]].
    assert (Hnl : ~ In (LForwardRef (noload_name seg)) (l_errors st'))
      by (apply (noload_never_fails env senv ext final d rt w u seg Hg Hwf Hin)).
    destruct (document_first_matched_placed d rt w u g seg true q2 c2 y Hg Hm Hy Hn F2 Hnl)
      as [py [Hpy [My Oy]]].
    fold st' in Hpx, Hpy. cbn [part_name] in Ox, Oy.
    destruct (document_in_segment_range env senv ext final d rt w u seg Hg Hwf Hfresh Hu Hin Herr)
      as (o1 & o2 & ve & _ & _ & _ & _ & _ & L1 & _ & R1 & R2 & _).
    fold st' in R1, R2. rewrite Forall_forall in R1, R2.
    assert (Ipx : In px (placed_in (alloc_name seg) st')).
    { unfold placed_in. apply filter_In. split; [exact Hpx | apply String.eqb_eq; exact Ox]. }
    assert (Ipy : In py (placed_in (noload_name seg) st')).
    { unfold placed_in. apply filter_In. split; [exact Hpy | apply String.eqb_eq; exact Oy]. }
    destruct (R1 px Ipx) as [x' [Hx' [Mx' [_ Bx]]]]. destruct (R2 py Ipy) as [y' [_ [_ [Ay _]]]].
    assert (x' = x) by (eapply nodup_map_inj; [exact Hnd | exact Hx' | exact Hx | congruence]). subst x'.
    exists px, py. repeat (split; [assumption|]). lia.
  Qed.
End DocOrder.

Theorem document_order_layout d rt w u ext0 g seg nl q1 q2 c1 c2 x y :
  gen_normal d rt = Ok w -> single_segment_mode (doc_settings d) = false ->
  Forall (fun z => 0 <= u_size z) u -> In x u -> In y u ->
  nth_error (included rt (doc_segments d)) g = Some seg ->
  lex_lt q1 q2 ->
  first_matched_at rt d (g :: half_index nl :: q1) c1 x ->
  first_matched_at rt d (g :: half_index nl :: q2) c2 y ->
  let st' := layout (wo_script w) u ext0 in
  ~ In (LForwardRef (part_name seg nl)) (l_errors st') ->
  placed_in_order (l_placed st') (part_name seg nl) x y 0.
Proof. unfold layout. apply document_order. Qed.

Theorem document_order_pad_layout d rt w u ext0 g seg nl q1 qp q2 c1 c2 x y n :
  gen_normal d rt = Ok w -> single_segment_mode (doc_settings d) = false ->
  Forall (fun z => 0 <= u_size z) u -> In x u -> In y u ->
  nth_error (included rt (doc_segments d)) g = Some seg ->
  lex_lt q1 qp -> lex_lt qp q2 ->
  (exists b, doc_base rt d seg b /\ BodyAt rt (doc_settings d) seg nl b qp (SDotAdd n)) ->
  first_matched_at rt d (g :: half_index nl :: q1) c1 x ->
  first_matched_at rt d (g :: half_index nl :: q2) c2 y ->
  let st' := layout (wo_script w) u ext0 in
  ~ In (LForwardRef (part_name seg nl)) (l_errors st') ->
  placed_in_order (l_placed st') (part_name seg nl) x y (Z.of_N n).
Proof. unfold layout. apply document_order_pad. Qed.

Theorem document_order_halves_layout d rt w u ext0 g seg q1 q2 c1 c2 x y :
  gen_normal d rt = Ok w -> doc_link_wf d rt = true -> doc_outsecs_fresh d rt = true ->
  Forall (fun z => 0 <= u_size z) u -> NoDup (map u_marker u) -> In x u -> In y u ->
  nth_error (included rt (doc_segments d)) g = Some seg ->
  first_matched_at rt d (g :: 0%nat :: q1) c1 x ->
  first_matched_at rt d (g :: 1%nat :: q2) c2 y ->
  let st' := layout (wo_script w) u ext0 in
  (forall s, In s (included rt (doc_segments d)) -> ~ In (LForwardRef (alloc_name s)) (l_errors st')) ->
  exists px py,
    In px (l_placed st') /\ pl_marker px = u_marker x /\ pl_outsec px = alloc_name seg /\
    In py (l_placed st') /\ pl_marker py = u_marker y /\ pl_outsec py = noload_name seg /\
    pl_addr px + u_size x <= pl_addr py.
Proof. unfold layout. apply document_order_halves. Qed.

(* ====================================================================== *)
(* 9. ways to establish [first_matched_at]; positions of plain entries     *)
(* ====================================================================== *)

Local Close Scope Z_scope.

Lemma unique_prefix {A} (c : A) pre post l1 l2 :
  (pre ++ c :: post = l1 ++ c :: l2)%list -> ~ In c pre -> ~ In c post -> pre = l1.
Proof.
  intros E Hpre Hpost. apply app_eq_app in E. destruct E as [l [[E1 E2]|[E1 E2]]].
  - destruct l as [|c0 l]; cbn [app] in E2; inversion E2; subst.
    + rewrite app_nil_r. reflexivity.
    + exfalso. apply Hpre. apply in_or_app. right. left. reflexivity.
  - destruct l as [|c0 l]; cbn [app] in E2; inversion E2; subst.
    + rewrite app_nil_r. reflexivity.
    + exfalso. apply Hpost. apply in_or_app. right. left. reflexivity.
Qed.

(* the statement [c] is not written again later in the script, and no statement before it matches [x]
   (both read off the script); then [x] is first matched at any document position of [c] *)
Lemma first_matched_once rt d w pos c x pre post :
  gen_normal d rt = Ok w -> single_segment_mode (doc_settings d) = false ->
  ClaimAt rt d pos c -> claim_matches c x = true ->
  script_claims (wo_script w) = (pre ++ c :: post)%list -> unclaimed pre x = true -> ~ In c post ->
  first_matched_at rt d pos c x.
Proof.
  intros Hg Hm Hc Hx Es Hu Hnpost. split; [exact Hc|]. split; [exact Hx|]. intros pos' c' Hc' Hlt.
  destruct (claim_matches c' x) eqn:Em; [exfalso | reflexivity].
  destruct (document_claims_enumerated rt d w Hg Hm) as [A [EA K]].
  rewrite unclaimed_spec in Hu.
  assert (Hnpre : ~ In c pre) by (intro H; rewrite (Hu c H) in Hx; discriminate).
  destruct (enum_split2 _ _ _ _ _ _ _ K Hc' Hc Hlt) as (a & m & b & Eb & _).
  rewrite EA, Eb in Es.
  assert (Es' : (pre ++ c :: post = (a ++ c' :: m) ++ c :: (b ++ tail_claims (doc_settings d)))%list).
  { rewrite <- Es. repeat rewrite <- app_assoc. cbn [app]. repeat rewrite <- app_assoc. reflexivity. }
  pose proof (unique_prefix c pre post _ _ Es' Hnpre Hnpost) as Ep.
  rewrite (Hu c') in Em; [discriminate|]. rewrite Ep. apply in_or_app. right. left. reflexivity.
Qed.

(* every position of a claim has at least five indices: segment, half, section, entry, section of
   the entry's expansion *)
Lemma claim_at_shape rt d pos c :
  ClaimAt rt d pos c -> exists g h i j m r, pos = g :: h :: i :: j :: m :: r.
Proof.
  intros (g & seg & nl & b & p & kp & path & member & sect & wild & Ep & _ & _ & Hp & _).
  unfold BodyAt, KidsAt in Hp. destruct Hp as (i & section & p1 & Ep1 & _ & Hk).
  destruct Hk as (j & f & p2 & Ep2 & _ & He).
  inversion He; subst. eauto 10.
Qed.

(* an entry without section_order, asked for a section that has no sub-group (or being a group):
   its expansion is that section alone *)
Lemma expands_plain cfg seg sections f section :
  fi_section_order f = [] -> entry_members cfg seg f section = [] ->
  Expands cfg seg sections f section [section].
Proof.
  intros Hso Hm. constructor. unfold here, sections_here. rewrite Hso.
  change [section] with (section :: [] ++ [])%list. constructor; [rewrite Hm; constructor | constructor].
Qed.

(* the statement of a leaf at the top level of the file list, and one level down in a group *)
Lemma claim_at_top rt d g seg nl b i section j f kp path member wild :
  nth_error (included rt (doc_segments d)) g = Some seg -> doc_base rt d seg b ->
  nth_error (part_sections seg nl) i = Some section -> nth_error (sg_files seg) j = Some f ->
  fi_section_order f = [] -> entry_members cfg_normal seg f section = [] ->
  should_emit rt (fi_conds f) = true -> fi_kind f <> KGroup ->
  In (SInput kp path member section wild)
     (own_stmts rt (linker_symbols_style (doc_settings d)) seg f section b) ->
  ClaimAt rt d [g; half_index nl; i; j; 0] (CInput (part_name seg nl) path member section wild).
Proof.
  intros Hn Hb Hi Hj Hso Hem He Hk Hin.
  exists g, seg, nl, b, [i; j; 0], kp, path, member, section, wild.
  split; [reflexivity|]. split; [exact Hn|]. split; [exact Hb|]. split; [|reflexivity].
  exists i, section, [j; 0]. split; [reflexivity|]. split; [exact Hi|].
  exists j, f, [0]. split; [reflexivity|]. split; [exact Hj|].
  eapply EA_key; [apply expands_plain; assumption | reflexivity|]. apply FA_leaf; assumption.
Qed.

Lemma claim_at_in_group rt d g seg nl b i section j grp dd j2 f kp path member wild :
  nth_error (included rt (doc_segments d)) g = Some seg -> doc_base rt d seg b ->
  nth_error (part_sections seg nl) i = Some section -> nth_error (sg_files seg) j = Some grp ->
  fi_section_order grp = [] -> should_emit rt (fi_conds grp) = true -> fi_kind grp = KGroup ->
  escape_path rt (fi_dir grp) = Ok dd -> nth_error (fi_files grp) j2 = Some f ->
  fi_section_order f = [] -> entry_members cfg_normal seg f section = [] ->
  should_emit rt (fi_conds f) = true -> fi_kind f <> KGroup ->
  In (SInput kp path member section wild)
     (own_stmts rt (linker_symbols_style (doc_settings d)) seg f section (push b dd)) ->
  ClaimAt rt d [g; half_index nl; i; j; 0; j2; 0] (CInput (part_name seg nl) path member section wild).
Proof.
  intros Hn Hb Hi Hj Hsog Heg Hkg Hd Hj2 Hso Hem He Hk Hin.
  exists g, seg, nl, b, [i; j; 0; j2; 0], kp, path, member, section, wild.
  split; [reflexivity|]. split; [exact Hn|]. split; [exact Hb|]. split; [|reflexivity].
  exists i, section, [j; 0; j2; 0]. split; [reflexivity|]. split; [exact Hi|].
  exists j, grp, [0; j2; 0]. split; [reflexivity|]. split; [exact Hj|].
  eapply EA_key; [apply expands_plain; [exact Hsog | unfold entry_members; rewrite Hkg; reflexivity] | reflexivity|].
  eapply FA_group; [exact Heg | exact Hkg | exact Hd | exact Hj2|].
  eapply EA_key; [apply expands_plain; assumption | reflexivity|]. apply FA_leaf; assumption.
Qed.

(* ====================================================================== *)
(* 10. examples: segment boot of dl_doc; the naive reading refuted         *)
(* ====================================================================== *)

Local Open Scope string_scope.

Lemma ex_boot_base : doc_base ex_rt dl_doc dl_seg_boot "build/src".
Proof. exists "build", "src". repeat split; vm_compute; reflexivity. Qed.

Lemma ex_gen : exists w, gen_normal dl_doc ex_rt = Ok w /\ wo_script w = dl_script.
Proof. eexists. split; [vm_compute; reflexivity|]. vm_compute. reflexivity. Qed.

Lemma ex_positions :
  ClaimAt ex_rt dl_doc [0; 0; 0; 0; 0] (CInput ".boot" "build/src/boot.o" None ".text" true) /\
  ClaimAt ex_rt dl_doc [0; 0; 0; 4; 0] (CInput ".boot" "build/src/boot.o" None ".text" true) /\
  ClaimAt ex_rt dl_doc [0; 0; 0; 1; 0; 1; 0] (CInput ".boot" "build/src/lib/util.o" None ".text" true) /\
  ClaimAt ex_rt dl_doc [0; 0; 1; 1; 0; 1; 0] (CInput ".boot" "build/src/lib/util.o" None ".data" true) /\
  ClaimAt ex_rt dl_doc [0; 0; 2; 1; 0; 1; 0] (CInput ".boot" "build/src/lib/util.o" None ".sdata" true) /\
  ClaimAt ex_rt dl_doc [0; 1; 0; 1; 0; 1; 0] (CInput ".boot.noload" "build/src/lib/util.o" None ".bss" true) /\
  BodyAt ex_rt (doc_settings dl_doc) dl_seg_boot false "build/src" [1; 2; 0] (SDotAdd 16).
Proof.
  split; [|split; [|split; [|split; [|split; [|split]]]]].
  - apply (claim_at_top ex_rt dl_doc 0 dl_seg_boot false "build/src" 0 ".text" 0 (ex_obj "boot.o") false
                        "build/src/boot.o" None true); try reflexivity;
      [exact ex_boot_base | discriminate | vm_compute; left; reflexivity].
  - apply (claim_at_top ex_rt dl_doc 0 dl_seg_boot false "build/src" 0 ".text" 4 (ex_obj "boot.o") false
                        "build/src/boot.o" None true); try reflexivity;
      [exact ex_boot_base | discriminate | vm_compute; left; reflexivity].
  - apply (claim_at_in_group ex_rt dl_doc 0 dl_seg_boot false "build/src" 0 ".text" 1 ex_lib "lib" 1 (ex_obj "util.o")
                             false "build/src/lib/util.o" None true); try reflexivity;
      [exact ex_boot_base | discriminate | vm_compute; left; reflexivity].
  - apply (claim_at_in_group ex_rt dl_doc 0 dl_seg_boot false "build/src" 1 ".data" 1 ex_lib "lib" 1 (ex_obj "util.o")
                             false "build/src/lib/util.o" None true); try reflexivity;
      [exact ex_boot_base | discriminate | vm_compute; left; reflexivity].
  - apply (claim_at_in_group ex_rt dl_doc 0 dl_seg_boot false "build/src" 2 ".sdata" 1 ex_lib "lib" 1 (ex_obj "util.o")
                             false "build/src/lib/util.o" None true); try reflexivity;
      [exact ex_boot_base | discriminate | vm_compute; left; reflexivity].
  - apply (claim_at_in_group ex_rt dl_doc 0 dl_seg_boot true "build/src" 0 ".bss" 1 ex_lib "lib" 1 (ex_obj "util.o")
                             false "build/src/lib/util.o" None true); try reflexivity;
      [exact ex_boot_base | discriminate | vm_compute; left; reflexivity].
  - exists 1, ".data", [2; 0]. split; [reflexivity|]. split; [reflexivity|].
    exists 2, (ex_pad ".data" 16), [0]. split; [reflexivity|]. split; [reflexivity|].
    eapply EA_key; [apply expands_plain; reflexivity | reflexivity|].
    apply FA_leaf; [reflexivity | discriminate | vm_compute; left; reflexivity].
Qed.

Lemma ex_first_boot_text :
  first_matched_at ex_rt dl_doc [0; 0; 0; 0; 0] (CInput ".boot" "build/src/boot.o" None ".text" true) ord_boot_text.
Proof.
  split; [exact (proj1 ex_positions)|]. split; [reflexivity|]. intros pos' c' Hc Hlt. exfalso.
  destruct (claim_at_shape _ _ _ _ Hc) as (g & h & i & j & m & r & E). subst pos'.
  repeat match goal with H : lex_lt _ _ |- _ => inversion H; clear H; subst end; lia.
Qed.

Ltac written_once n :=
  destruct ex_gen as [w [Hg Ew]];
  apply (first_matched_once ex_rt dl_doc w _ _ _
           (firstn n (script_claims dl_script)) (skipn (S n) (script_claims dl_script)) Hg);
  [reflexivity | apply ex_positions | reflexivity | rewrite Ew; vm_compute; reflexivity
  | vm_compute; reflexivity
  | let H := fresh in
    let post := eval vm_compute in (skipn (S n) (script_claims dl_script)) in
    assert (E : skipn (S n) (script_claims dl_script) = post) by (vm_compute; reflexivity);
    rewrite E; intro H; cbn [In] in H; repeat (destruct H as [H|H]; [discriminate H|]); exact H].

Lemma ex_first_util :
  first_matched_at ex_rt dl_doc [0; 0; 0; 1; 0; 1; 0] (CInput ".boot" "build/src/lib/util.o" None ".text" true) ord_util_text /\
  first_matched_at ex_rt dl_doc [0; 0; 1; 1; 0; 1; 0] (CInput ".boot" "build/src/lib/util.o" None ".data" true) ord_util_data /\
  first_matched_at ex_rt dl_doc [0; 0; 2; 1; 0; 1; 0] (CInput ".boot" "build/src/lib/util.o" None ".sdata" true) ord_util_sdata /\
  first_matched_at ex_rt dl_doc [0; 1; 0; 1; 0; 1; 0] (CInput ".boot.noload" "build/src/lib/util.o" None ".bss" true) ord_util_bss.
Proof. split; [written_once 2%nat|split; [written_once 6%nat|split; [written_once 10%nat|written_once 14%nat]]]. Qed.

Local Open Scope Z_scope.

Lemma ex_sizes : Forall (fun z => 0 <= u_size z) ord_universe.
Proof. repeat constructor; vm_compute; discriminate. Qed.

Lemma ex_markers : NoDup (map u_marker ord_universe).
Proof. apply nodup_str_NoDup. vm_compute. reflexivity. Qed.

Lemma ex_order :
  exists w, gen_normal dl_doc ex_rt = Ok w /\
    placed_in_order (l_placed (layout (wo_script w) ord_universe [("main", 5)])) ".boot" ord_boot_text ord_util_text 0.
Proof.
  eexists. split; [vm_compute; reflexivity|].
  apply (document_order_layout dl_doc ex_rt _ ord_universe [("main", 5)] 0%nat dl_seg_boot false
           [0; 0; 0]%nat [0; 1; 0; 1; 0]%nat (CInput ".boot" "build/src/boot.o" None ".text" true)
           (CInput ".boot" "build/src/lib/util.o" None ".text" true) ord_boot_text ord_util_text).
  - vm_compute. reflexivity.
  - reflexivity.
  - exact ex_sizes.
  - vm_compute. tauto.
  - vm_compute. tauto.
  - reflexivity.
  - apply lex_tail. apply lex_head. lia.
  - exact ex_first_boot_text.
  - exact (proj1 ex_first_util).
  - vm_compute. tauto.
Qed.

Lemma ex_order_pad :
  exists w, gen_normal dl_doc ex_rt = Ok w /\
    placed_in_order (l_placed (layout (wo_script w) ord_universe [("main", 5)])) ".boot" ord_util_data ord_util_sdata 16.
Proof.
  eexists. split; [vm_compute; reflexivity|].
  apply (document_order_pad_layout dl_doc ex_rt _ ord_universe [("main", 5)] 0%nat dl_seg_boot false
           [1; 1; 0; 1; 0]%nat [1; 2; 0]%nat [2; 1; 0; 1; 0]%nat
           (CInput ".boot" "build/src/lib/util.o" None ".data" true)
           (CInput ".boot" "build/src/lib/util.o" None ".sdata" true) ord_util_data ord_util_sdata 16%N).
  - vm_compute. reflexivity.
  - reflexivity.
  - exact ex_sizes.
  - vm_compute. tauto.
  - vm_compute. tauto.
  - reflexivity.
  - apply lex_tail. apply lex_head. lia.
  - apply lex_head. lia.
  - exists "build/src". split; [exact ex_boot_base | apply ex_positions].
  - apply ex_first_util.
  - apply ex_first_util.
  - vm_compute. tauto.
Qed.

Lemma ex_order_halves :
  exists w, gen_normal dl_doc ex_rt = Ok w /\
    exists px py, let st' := layout (wo_script w) ord_universe [("main", 5)] in
      In px (l_placed st') /\ pl_marker px = "util_sdata" /\ pl_outsec px = ".boot" /\
      In py (l_placed st') /\ pl_marker py = "util_bss" /\ pl_outsec py = ".boot.noload" /\
      pl_addr px + 4 <= pl_addr py.
Proof.
  eexists. split; [vm_compute; reflexivity|].
  apply (document_order_halves_layout dl_doc ex_rt _ ord_universe [("main", 5)] 0%nat dl_seg_boot
           [2; 1; 0; 1; 0]%nat [0; 1; 0; 1; 0]%nat
           (CInput ".boot" "build/src/lib/util.o" None ".sdata" true)
           (CInput ".boot.noload" "build/src/lib/util.o" None ".bss" true) ord_util_sdata ord_util_bss).
  - vm_compute. reflexivity.
  - vm_compute. reflexivity.
  - vm_compute. reflexivity.
  - exact ex_sizes.
  - exact ex_markers.
  - vm_compute. tauto.
  - vm_compute. tauto.
  - reflexivity.
  - apply ex_first_util.
  - apply ex_first_util.
  - intros s _. vm_compute. tauto.
Qed.

(* C02_refuted_naive_order *)
Lemma refuted_naive_order : ~ document_order_naive.
Proof.
  intro H. destruct ex_gen as [w [Hg Ew]].
  specialize (H dl_doc ex_rt w ord_universe [("main", 5)] 0%nat dl_seg_boot false
                [0; 1; 0; 1; 0]%nat [0; 4; 0]%nat
                (CInput ".boot" "build/src/lib/util.o" None ".text" true)
                (CInput ".boot" "build/src/boot.o" None ".text" true) ord_util_text ord_boot_text
                Hg eq_refl ex_sizes ex_markers).
  assert (Hx : In ord_util_text ord_universe) by (vm_compute; tauto).
  assert (Hy : In ord_boot_text ord_universe) by (vm_compute; tauto).
  assert (Hlt : lex_lt [0; 1; 0; 1; 0]%nat [0; 4; 0]%nat) by (apply lex_tail; apply lex_head; lia).
  specialize (H Hx Hy eq_refl Hlt (proj1 (proj2 (proj2 ex_positions))) eq_refl (proj1 (proj2 ex_positions)) eq_refl).
  cbv zeta in H. rewrite Ew in H.
  assert (EP : map (fun p => (pl_marker p, pl_addr p)) (l_placed (layout dl_script ord_universe [("main", 5)])) =
               [("boot_text", 0); ("mem_text", 40); ("util_text", 52); ("boot_data", 72); ("util_data", 84);
                ("util_sdata", 108); ("boot_bss", 112); ("util_bss", 212); ("a_text", 2148532224);
                ("a_bss", 2148532248); ("b_text", 2148532224); ("b_data", 2148532272); ("b_bss", 2148532288)])
    by (vm_compute; reflexivity).
  assert (EE : l_errors (layout dl_script ord_universe [("main", 5)]) = []%list) by (vm_compute; reflexivity).
  destruct (H EE) as (px & py & l1 & l2 & l3 & E & Mx & _ & My & _ & Hle).
  assert (Hpx : In px (l_placed (layout dl_script ord_universe [("main", 5)])))
    by (rewrite E; apply in_or_app; right; left; reflexivity).
  assert (Hpy : In py (l_placed (layout dl_script ord_universe [("main", 5)])))
    by (rewrite E; apply in_or_app; right; right; apply in_or_app; right; left; reflexivity).
  apply (in_map (fun p => (pl_marker p, pl_addr p))) in Hpx. apply (in_map (fun p => (pl_marker p, pl_addr p))) in Hpy.
  rewrite EP in Hpx, Hpy. cbn [u_marker ord_util_text ord_boot_text] in Mx, My. rewrite Mx in Hpx. rewrite My in Hpy.
  cbn [u_size ord_util_text] in Hle.
  assert (Ax : pl_addr px = 52) by (repeat (destruct Hpx as [Hpx|Hpx]; [inversion Hpx; lia|]); destruct Hpx).
  assert (Ay : pl_addr py = 0) by (repeat (destruct Hpy as [Hpy|Hpy]; [inversion Hpy; lia|]); destruct Hpy).
  lia.
Qed.

Lemma ex_pad_script :
  placed_in_order (l_placed (layout pad_script [pad_b; pad_a] [])) ".o" pad_a pad_b 16.
Proof.
  apply (same_outsec_addresses_layout pad_script [pad_b; pad_a] [] [] ".o" None None false None
           [] false "a.o" None ".text" true [SDotAdd 16] false "b.o" None ".text" true [] [] pad_a pad_b).
  - reflexivity.
  - repeat constructor; vm_compute; discriminate.
  - right. left. reflexivity.
  - left. reflexivity.
  - intros c [].
  - reflexivity.
  - intros c [H|[]]. subst c. reflexivity.
  - reflexivity.
  - vm_compute. tauto.
Qed.

Lemma ex_no_failed :
  forall c, In c (script_claims dl_script) -> ~ claim_failed (layout dl_script ord_universe [("main", 5)]) c.
Proof.
  intros c _ H.
  assert (E : l_errors (layout dl_script ord_universe [("main", 5)]) = []%list) by (vm_compute; reflexivity).
  destruct c; cbn [claim_failed] in H; [rewrite E in H|..]; exact H.
Qed.
