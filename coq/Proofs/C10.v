(* C10 - to be filled *)
