(* C10: lemmas about vram classes: when the class statements are emitted (script level) and what LdSem
   computes for the class symbols (link level). *)
From Slinky Require Import Model.Types Model.Generated Model.Runtime Model.Style Model.Script Model.Writer Model.LdSem.
From Slinky Require Import Spec.C17 Spec.C04 Spec.C03 Spec.C10 Proofs.C06 Proofs.C18 Proofs.C17 Proofs.LdLemmas
  Proofs.C04 Proofs.C03.
From Coq Require Import Lia ZArith.

(* ====================================================================== *)
(* script level                                                            *)
(* ====================================================================== *)

(* only add_segment touches the `emitted` flags *)
Lemma add_path_emitted p ws : ws_emitted (add_path p ws) = ws_emitted ws.
Proof. unfold add_path. destruct (comps_mem _ _); reflexivity. Qed.

Lemma emitter_emitted sty wild offs g : emitter sty wild offs g ->
  forall ws s ws', g ws = Ok (s, ws') -> ws_emitted ws' = ws_emitted ws.
Proof.
  apply (emitter_rel sty wild offs (fun ws _ ws' => ws_emitted ws' = ws_emitted ws)); intros; try reflexivity.
  - congruence.
  - apply add_path_emitted.
Qed.

Lemma part_groups_emitted rt st cfg seg sections rest : forall ws s ws',
  part_groups rt st cfg seg sections rest ws = Ok (s, ws') -> ws_emitted ws' = ws_emitted ws.
Proof.
  induction rest as [|section rest IH]; intros ws s ws' H.
  - apply ok_inj in H. inversion H; subst. reflexivity.
  - apply part_groups_cons in H. destruct H as [s1 [ws1 [s2 [E1 [E2 E]]]]].
    rewrite (IH _ _ _ E2).
    eapply (emitter_emitted (linker_symbols_style st) (wildcard_sections seg) (offs_of_segment rt seg));
      [apply emit_section_emitter | exact E1].
Qed.

Lemma write_segment_emitted rt st cfg seg sections noload ws s ws' :
  write_segment rt st cfg seg sections noload ws = Ok (s, ws') -> ws_emitted ws' = ws_emitted ws.
Proof.
  intro H. apply write_segment_inv in H. destruct H as [body [E _]]. eapply part_groups_emitted; eassumption.
Qed.

(* what an included segment is preceded by, and the flags afterwards *)
Theorem segment_class rt stg cfg classes seg ws s ws' :
  add_segment rt stg cfg classes seg ws = Ok (s, ws') ->
  should_emit rt (sg_conds seg) = true ->
  exists rest,
    s = class_prefix stg classes seg (ws_emitted ws) ++ seg_head stg seg ++ rest /\
    ws_emitted ws' = emitted_after seg (ws_emitted ws) /\
    (forall cn, sg_vram_class seg = Some cn -> exists c, class_get classes cn = Some c).
Proof.
  intros H Hc. apply add_segment_inv in H.
  destruct H as [[Hc' _] | [_ [cls [ws1 [s1 [ws2 [s2 [Ec [E1 [E2 E]]]]]]]]]]; [congruence|].
  exists (s1 ++ [SBlank] ++ s2 ++ [SBlank] ++ seg_foot stg seg).
  rewrite (write_segment_emitted _ _ _ _ _ _ _ _ _ E2), (write_segment_emitted _ _ _ _ _ _ _ _ _ E1).
  unfold class_prefix, emitted_after. unfold class_part in Ec.
  destruct (sg_vram_class seg) as [cn|].
  - destruct (class_get classes cn) as [c|] eqn:Eg; [|discriminate].
    destruct (mem_str cn (ws_emitted ws)); apply ok_inj in Ec; inversion Ec; subst cls ws1;
      (split; [exact E|]); (split; [reflexivity|]); intros cn' Ecn; inversion Ecn; subst; eauto.
  - apply ok_inj in Ec. inversion Ec; subst cls ws1. split; [exact E|]. split; [reflexivity|]. discriminate.
Qed.

Lemma segment_class_excluded rt stg cfg classes seg ws s ws' :
  add_segment rt stg cfg classes seg ws = Ok (s, ws') ->
  should_emit rt (sg_conds seg) = false -> s = [] /\ ws' = ws.
Proof.
  intros H Hc. rewrite (add_segment_excluded _ _ _ _ _ _ Hc) in H. apply ok_inj in H. inversion H; auto.
Qed.

(* C10_missing_class *)
Theorem missing_class rt stg cfg classes seg ws cn :
  sg_vram_class seg = Some cn -> class_get classes cn = None ->
  add_segment rt stg cfg classes seg ws =
  if should_emit rt (sg_conds seg) then Err (EMissingVramClassForSegment (sg_name seg) cn) else Ok ([], ws).
Proof.
  intros Hcn Hg. unfold add_segment. destruct (should_emit rt (sg_conds seg)); [|reflexivity].
  cbn [negb]. rewrite Hcn, Hg. reflexivity.
Qed.

(* the flags of one class through one segment and through the fold *)
Lemma mem_emitted_after cn seg e :
  mem_str cn (emitted_after seg e) = mem_str cn e || opt_eqb_str (sg_vram_class seg) (Some cn).
Proof.
  unfold emitted_after. destruct (sg_vram_class seg) as [cn'|]; cbn [opt_eqb_str]; [|rewrite orb_false_r; reflexivity].
  destruct (mem_str cn' e) eqn:Em.
  - destruct (String.eqb cn' cn) eqn:E; [|rewrite orb_false_r; reflexivity].
    apply String.eqb_eq in E. subst. rewrite Em. reflexivity.
  - cbn [mem_str]. rewrite (String.eqb_sym cn cn'). destruct (String.eqb cn' cn); [rewrite orb_true_r|rewrite orb_false_r];
      reflexivity.
Qed.

Theorem emitted_fold rt stg cfg classes cn segs : forall ws s ws',
  fold_out (add_segment rt stg cfg classes) segs ws = Ok (s, ws') ->
  mem_str cn (ws_emitted ws') = mem_str cn (ws_emitted ws) || names_class rt cn segs.
Proof.
  induction segs as [|seg r IH]; intros ws s ws' H.
  - apply fold_out_nil in H. destruct H; subst. cbn. rewrite orb_false_r. reflexivity.
  - apply fold_out_cons in H. destruct H as [s1 [ws1 [s2 [E1 [E2 E]]]]].
    rewrite (IH _ _ _ E2). cbn [names_class existsb]. fold (names_class rt cn r).
    destruct (should_emit rt (sg_conds seg)) eqn:Hc.
    + destruct (segment_class _ _ _ _ _ _ _ _ E1 Hc) as [rest [_ [Ee _]]]. rewrite Ee, mem_emitted_after.
      cbn [andb]. rewrite orb_assoc. reflexivity.
    + destruct (segment_class_excluded _ _ _ _ _ _ _ _ E1 Hc) as [_ Ew]. subst ws1. reflexivity.
Qed.

Theorem emitted_monotone rt stg cfg classes cn segs ws s ws' :
  fold_out (add_segment rt stg cfg classes) segs ws = Ok (s, ws') ->
  mem_str cn (ws_emitted ws) = true -> mem_str cn (ws_emitted ws') = true.
Proof. intros H Hm. rewrite (emitted_fold _ _ _ _ cn _ _ _ _ H), Hm. reflexivity. Qed.

(* C10_once_before: the start statements of class [cn] appear exactly in front of the first included
   segment that names it (and never when it was already emitted) *)
Theorem once_before rt stg cfg classes l1 seg l2 ws body ws' cn c :
  fold_out (add_segment rt stg cfg classes) (l1 ++ seg :: l2) ws = Ok (body, ws') ->
  should_emit rt (sg_conds seg) = true -> sg_vram_class seg = Some cn -> class_get classes cn = Some c ->
  mem_str cn (ws_emitted ws) = false -> names_class rt cn l1 = false ->
  exists b1 wsa rest wsb b2,
    fold_out (add_segment rt stg cfg classes) l1 ws = Ok (b1, wsa) /\
    add_segment rt stg cfg classes seg wsa = Ok (class_start_stmts stg c cn ++ seg_head stg seg ++ rest, wsb) /\
    fold_out (add_segment rt stg cfg classes) l2 wsb = Ok (b2, ws') /\
    body = b1 ++ (class_start_stmts stg c cn ++ seg_head stg seg ++ rest) ++ b2 /\
    mem_str cn (ws_emitted wsa) = false /\ mem_str cn (ws_emitted wsb) = true /\ mem_str cn (ws_emitted ws') = true.
Proof.
  intros H Hc Hcn Hg Hm Hn. rewrite fold_out_app in H.
  apply bind_ok_out in H. destruct H as [b1 [wsa [E1 H]]]. cbn [fst snd] in H.
  apply bind_ok_out in H. destruct H as [b23 [ws3 [E23 H]]]. cbn [fst snd] in H.
  apply ok_inj in H. inversion H; subst body ws3. clear H.
  apply fold_out_cons in E23. destruct E23 as [s [wsb [b2 [Es [E2 E]]]]]. subst b23.
  assert (Ma : mem_str cn (ws_emitted wsa) = false) by (rewrite (emitted_fold _ _ _ _ cn _ _ _ _ E1), Hm, Hn; reflexivity).
  destruct (segment_class _ _ _ _ _ _ _ _ Es Hc) as [rest [Eshape [Ee _]]].
  unfold class_prefix in Eshape. rewrite Hcn, Ma, Hg in Eshape.
  assert (Mb : mem_str cn (ws_emitted wsb) = true).
  { rewrite Ee, mem_emitted_after, Hcn. cbn [opt_eqb_str]. rewrite String.eqb_refl, orb_true_r. reflexivity. }
  exists b1, wsa, rest, wsb, b2. rewrite <- Eshape. repeat split; try assumption.
  eapply emitted_monotone; eassumption.
Qed.

(* ... and no later segment repeats them: once the flag is set the prefix of every segment naming
   the class is empty *)
Theorem never_again stg classes seg emitted cn :
  sg_vram_class seg = Some cn -> mem_str cn emitted = true -> class_prefix stg classes seg emitted = [].
Proof. intros Hcn Hm. unfold class_prefix. rewrite Hcn, Hm. reflexivity. Qed.

(* a class no included segment names is never marked, hence gets no statement at all *)
Theorem unused_class rt stg cfg classes cn segs ws s ws' :
  fold_out (add_segment rt stg cfg classes) segs ws = Ok (s, ws') ->
  mem_str cn (ws_emitted ws) = false -> names_class rt cn segs = false ->
  mem_str cn (ws_emitted ws') = false.
Proof. intros H Hm Hn. rewrite (emitted_fold _ _ _ _ cn _ _ _ _ H), Hm, Hn. reflexivity. Qed.

(* the size statements: one per emitted class, in declaration order (from C18) *)
Theorem class_sizes st classes ws :
  end_sections_body st classes ws =
  sep_concat [map (class_size_stmt (linker_symbols_style st)) (emitted_classes classes ws);
              tail_allow st; tail_extra st; tail_discard st].
Proof. apply end_sections_layout. Qed.

(* ====================================================================== *)
(* names                                                                   *)
(* ====================================================================== *)

Lemma fmt2_last sty tpl x c :
  In tpl all_templates -> last_char (last (pick sty tpl) "") = Some c -> last_char (fmt (pick sty tpl) [x]) = Some c.
Proof.
  intros Hin Hl.
  assert (Hne : pick sty tpl <> []) by (intro E; rewrite E in Hl; discriminate).
  destruct (fmt_ends (pick sty tpl) [x] Hne) as [pre E]. rewrite E, last_char_app; [assumption|].
  intro E0. rewrite E0 in Hl. discriminate.
Qed.

Lemma class_start_last sty a :
  last_char (vram_class_start sty a) = Some (match sty with Splat => "T" | Makerom => "t" end)%char.
Proof. unfold vram_class_start. apply fmt2_last; [simpl; tauto | destruct sty; reflexivity]. Qed.

Lemma class_end_last sty a :
  last_char (vram_class_end sty a) = Some (match sty with Splat => "D" | Makerom => "d" end)%char.
Proof. unfold vram_class_end. apply fmt2_last; [simpl; tauto | destruct sty; reflexivity]. Qed.

(* a class start symbol is never a class end symbol, whatever the class names *)
Lemma class_start_not_end sty a b : vram_class_end sty b <> vram_class_start sty a.
Proof.
  intro E. pose proof (class_start_last sty a) as H1. rewrite <- E, class_end_last in H1. destruct sty; discriminate.
Qed.

Lemma class_start_not_dot sty a : vram_class_start sty a <> "."%string.
Proof. apply (style_name_neq sty); [sn|reflexivity]. Qed.

Lemma class_end_not_dot sty a : vram_class_end sty a <> "."%string.
Proof. apply (style_name_neq sty); [sn|reflexivity]. Qed.

Lemma class_size_not_dot sty a : vram_class_size sty a <> "."%string.
Proof. apply (style_name_neq sty); [sn|reflexivity]. Qed.

(* ====================================================================== *)
(* link level                                                              *)
(* ====================================================================== *)

Local Open Scope Z_scope.

Lemma Forall2_impl' {A B} (P Q : A -> B -> Prop) l1 l2 :
  (forall a b, P a b -> Q a b) -> Forall2 P l1 l2 -> Forall2 Q l1 l2.
Proof. intros H F. induction F; constructor; auto. Qed.

Section Link.
  Variables (env : list (string * Z)) (senv : list osec) (ext : list (string * Z)) (final : bool).

  Notation top := (exec_top_stmt env senv ext final).
  Notation runl := (run env senv ext final).

  (* sym = MAX(sym, other) *)
  Theorem top_maxself st sym other a b :
    val st sym = Some a -> sym_lookup other st env ext = Some b ->
    top st (SMaxSelf sym other) = set_sym sym (Z.max a b) false st.
  Proof.
    intros Ha Hb. cbn [exec_top_stmt]. rewrite (sym_lookup_defined _ _ _ _ _ Ha), Hb. reflexivity.
  Qed.

  Lemma sym_lookup_set_other s v p st x :
    s <> x -> sym_lookup x (set_sym s v p st) env ext = sym_lookup x st env ext.
  Proof. intro H. unfold sym_lookup. rewrite lookup_set_sym_other by assumption. reflexivity. Qed.

  Lemma top_literal st x v :
    x <> "."%string -> top st (linker_symbol x (EHex8 v)) = set_sym x (Z.of_N v) false st.
  Proof.
    intro Hd. unfold linker_symbol. cbn [exec_top_stmt]. apply String.eqb_neq in Hd. rewrite Hd. reflexivity.
  Qed.

  (* START = MAX(START, END_o) for every followed class o *)
  Lemma max_fold sty START os : forall es st a,
    (forall o, vram_class_end sty o <> START) ->
    val st START = Some a ->
    Forall2 (fun o e => sym_lookup (vram_class_end sty o) st env ext = Some e) os es ->
    let st' := runl (map (fun o => SMaxSelf START (vram_class_end sty o)) os) st in
    val st' START = Some (fold_left Z.max es a) /\
    (forall x, x <> START -> sym_lookup x st' env ext = sym_lookup x st env ext).
  Proof.
    induction os as [|o os IH]; intros es st a Hne Ha Hes; inversion Hes as [|? e ? es' He Hes']; subst.
    - cbn. auto.
    - cbn [map]. rewrite run_cons, (top_maxself st START _ a e Ha He).
      set (st1 := set_sym START (Z.max a e) false st).
      assert (Hes1 : Forall2 (fun o e => sym_lookup (vram_class_end sty o) st1 env ext = Some e) os es').
      { eapply Forall2_impl'; [|exact Hes']. intros o' e' H. unfold st1. rewrite sym_lookup_set_other; [exact H|].
        intro E. apply (Hne o'). symmetry. exact E. }
      destruct (IH es' st1 (Z.max a e) Hne (lookup_set_sym_same _ _ _ _) Hes1) as [V F].
      split; [exact V|]. intros x Hx. rewrite (F x Hx). unfold st1. apply sym_lookup_set_other. congruence.
  Qed.

  (* C10_start_value *)
  Theorem class_start_value stg c name st :
    let sty := linker_symbols_style stg in
    let START := vram_class_start sty name in
    let END := vram_class_end sty name in
    let st' := runl (class_start_stmts stg c name) st in
    val st' END = Some 0 /\
    (forall v, vc_fixed_vram c = Some v -> val st' START = Some (Z.of_N v)) /\
    (forall s v, vc_fixed_vram c = None -> vc_fixed_symbol c = Some s ->
                 eval_raw env ext st s = Ok v -> val st' START = Some v) /\
    (forall es, vc_fixed_vram c = None -> vc_fixed_symbol c = None ->
                Forall2 (fun o e => sym_lookup (vram_class_end sty o) st env ext = Some e) (vc_follows_classes c) es ->
                val st' START = Some (fold_left Z.max es 0)).
  Proof.
    intros sty START END st'.
    assert (NS : START <> "."%string) by apply class_start_not_dot.
    assert (NE : END <> "."%string) by apply class_end_not_dot.
    assert (NSE : END <> START) by apply class_start_not_end.
    unfold st', class_start_stmts. rewrite run_app. fold sty START END.
    set (first := match vc_fixed_vram c with
                  | Some v => [linker_symbol START (EHex8 v)]
                  | None => match vc_fixed_symbol c with
                            | Some s => [linker_symbol START (ERaw s)]
                            | None => linker_symbol START (EHex8 0) ::
                                      map (fun o => SMaxSelf START (vram_class_end sty o)) (vc_follows_classes c)
                            end
                  end).
    set (st1 := runl first st).
    assert (Efin : forall x, val (runl [linker_symbol END (EHex8 0); SBlank] st1) x =
                             if String.eqb x END then Some 0 else val st1 x).
    { intro x. rewrite run_cons, run_one, top_literal by assumption. cbn [exec_top_stmt]. unfold val.
      cbn [set_sym l_syms lookup]. reflexivity. }
    split; [rewrite Efin, String.eqb_refl; reflexivity|].
    assert (ES : forall v, val st1 START = Some v ->
                           val (runl [linker_symbol END (EHex8 0); SBlank] st1) START = Some v).
    { intros v Hv. rewrite Efin. destruct (String.eqb START END) eqn:E; [|exact Hv].
      apply String.eqb_eq in E. exfalso. apply NSE. symmetry. exact E. }
    repeat split.
    - intros v Hv. apply ES. unfold st1, first. rewrite Hv, run_one, top_literal by assumption.
      apply lookup_set_sym_same.
    - intros s v Hv Hs He. apply ES. unfold st1, first. rewrite Hv, Hs, run_one.
      unfold linker_symbol. cbn [exec_top_stmt]. apply String.eqb_neq in NS. rewrite NS. cbn [eval_expr].
      rewrite He, assign_ok. apply lookup_set_sym_same.
    - intros es Hv Hs Hes. apply ES. unfold st1, first. rewrite Hv, Hs, run_cons, top_literal by assumption.
      set (st0 := set_sym START (Z.of_N 0) false st).
      assert (Hes0 : Forall2 (fun o e => sym_lookup (vram_class_end sty o) st0 env ext = Some e)
                             (vc_follows_classes c) es).
      { eapply Forall2_impl'; [|exact Hes]. intros o e H. unfold st0. rewrite sym_lookup_set_other; [exact H|].
        intro E. apply (class_start_not_end sty name o). symmetry. exact E. }
      destruct (max_fold sty START (vc_follows_classes c) es st0 0) as [V _]; try assumption.
      + intro o. apply class_start_not_end.
      + apply lookup_set_sym_same.
  Qed.

  (* C10_end_running_max, one step: see top_maxself; over a whole run *)
  Inductive MaxRun (END : string) : lstate -> list Z -> lstate -> Prop :=
  | mr_nil st : MaxRun END st [] st
  | mr_step st G x v vs st'' :
      existsb (assigns END) G = false ->
      sym_lookup x (runl G st) env ext = Some v ->
      MaxRun END (top (runl G st) (SMaxSelf END x)) vs st'' ->
      MaxRun END st (v :: vs) st''.

  Theorem max_run END st vs st' : MaxRun END st vs st' ->
    forall a, val st END = Some a -> val st' END = Some (fold_left Z.max vs a).
  Proof.
    induction 1 as [st | st G x v vs st'' HG Hx Hrun IH]; intros a Ha; [exact Ha|].
    cbn [fold_left]. apply IH.
    assert (Ha' : val (runl G st) END = Some a) by (unfold val; rewrite run_syms; assumption).
    rewrite (top_maxself _ END x a v Ha' Hx). apply lookup_set_sym_same.
  Qed.

  (* a member segment raises the end of its class to its own VRAM end *)
  Theorem member_raises_end END VE pre st0 a ve :
    val (runl pre st0) END = Some a ->
    sym_lookup VE (runl pre st0) env ext = Some ve ->
    val (runl (pre ++ [SBlank; SMaxSelf END VE; SBlank]) st0) END = Some (Z.max a ve).
  Proof.
    intros Ha Hv. rewrite run_app.
    change (runl [SBlank; SMaxSelf END VE; SBlank] (runl pre st0)) with (top (runl pre st0) (SMaxSelf END VE)).
    rewrite (top_maxself _ END VE a ve Ha Hv). apply lookup_set_sym_same.
  Qed.

  (* C10_member_starts_at_class: the address expression of a member evaluates to the class start *)
  Theorem member_addr_value st here START v :
    sym_lookup START st env ext = Some v -> eval_expr env senv ext st here (ESym START) = Ok v.
  Proof. intro H. cbn [eval_expr]. rewrite H. reflexivity. Qed.

  (* C10_size *)
  Theorem class_size_value sty cn st e s :
    val st (vram_class_end sty cn) = Some e -> val st (vram_class_start sty cn) = Some s ->
    top st (class_size_stmt sty cn) = set_sym (vram_class_size sty cn) (e - s) false st.
  Proof. intros He Hs. unfold class_size_stmt. apply top_sub; try assumption. apply class_size_not_dot. Qed.

  (* ---------- what add_segment emits for a member segment ---------- *)

  Lemma seg_foot_member stg seg cn :
    sg_vram_class seg = Some cn ->
    seg_foot stg seg =
    (seg_foot_main stg seg ++ [SBlank; class_end_max (linker_symbols_style stg) cn seg; SBlank])%list.
  Proof.
    intro H. unfold seg_foot, seg_foot_main. cbv zeta. rewrite H. unfold class_end_max.
    repeat (rewrite <- app_assoc; cbn [app]). reflexivity.
  Qed.

  Theorem member_shape rt stg cfg classes seg ws s ws' cn :
    add_segment rt stg cfg classes seg ws = Ok (s, ws') ->
    should_emit rt (sg_conds seg) = true -> sg_vram_class seg = Some cn ->
    exists rest,
      s = (class_prefix stg classes seg (ws_emitted ws) ++
           (seg_head stg seg ++ rest ++ seg_foot_main stg seg) ++
           [SBlank; class_end_max (linker_symbols_style stg) cn seg; SBlank])%list.
  Proof.
    intros H Hc Hcn. pose proof (segment_class _ _ _ _ _ _ _ _ H Hc) as [rest0 [E0 _]].
    apply add_segment_inv in H.
    destruct H as [[Hc' _] | [_ [cls [ws1 [s1 [ws2 [s2 [Ec [E1 [E2 E]]]]]]]]]]; [congruence|].
    exists (s1 ++ [SBlank] ++ s2 ++ [SBlank])%list.
    assert (Ecls : cls = class_prefix stg classes seg (ws_emitted ws)).
    { unfold class_part in Ec. unfold class_prefix. rewrite Hcn in *.
      destruct (class_get classes cn); [|discriminate].
      destruct (mem_str cn (ws_emitted ws)); apply ok_inj in Ec; inversion Ec; reflexivity. }
    rewrite E, Ecls, (seg_foot_member stg seg cn Hcn). repeat (rewrite <- app_assoc; cbn [app]). reflexivity.
  Qed.

  (* the end of the class after a member: MAX(what it was - 0 when the class has just been started -,
     the member's VRAM end); the middle of the segment must not assign the class end symbol
     (it assigns only symbols named after the segment, its sections and its linker offsets) *)
  Theorem member_class_end rt stg cfg classes seg ws s ws' cn st0 a ve :
    add_segment rt stg cfg classes seg ws = Ok (s, ws') ->
    should_emit rt (sg_conds seg) = true -> sg_vram_class seg = Some cn ->
    let sty := linker_symbols_style stg in
    let END := vram_class_end sty cn in
    let VE := segment_vram_end sty (sg_name seg) in
    forall rest,
      s = (class_prefix stg classes seg (ws_emitted ws) ++
           (seg_head stg seg ++ rest ++ seg_foot_main stg seg) ++
           [SBlank; class_end_max sty cn seg; SBlank])%list ->
      existsb (assigns END) (seg_head stg seg ++ rest ++ seg_foot_main stg seg) = false ->
      (mem_str cn (ws_emitted ws) = true -> val st0 END = Some a) ->
      (mem_str cn (ws_emitted ws) = false -> a = 0) ->
      sym_lookup VE (runl (class_prefix stg classes seg (ws_emitted ws) ++
                           seg_head stg seg ++ rest ++ seg_foot_main stg seg) st0) env ext = Some ve ->
      val (runl s st0) END = Some (Z.max a ve).
  Proof.
    intros H Hc Hcn sty END VE rest Es Hmid Ha1 Ha0 Hve.
    pose proof (segment_class _ _ _ _ _ _ _ _ H Hc) as [_ [_ [_ Hget]]]. destruct (Hget cn Hcn) as [c Hg].
    rewrite Es, app_assoc. unfold class_end_max. fold sty END VE. apply member_raises_end; [|exact Hve].
    rewrite run_app. unfold val. rewrite run_syms by assumption.
    unfold class_prefix. rewrite Hcn, Hg. destruct (mem_str cn (ws_emitted ws)) eqn:Em.
    - apply Ha1. reflexivity.
    - rewrite (Ha0 eq_refl). apply (class_start_value stg c cn st0).
  Qed.

  (* C10_member_starts_at_class for what add_segment emits: the allocatable section of a member is
     placed at the value the class start symbol has once the class statements (if any) have run *)
  Theorem member_starts_at_class rt stg cfg classes seg ws s ws' cn st0 :
    add_segment rt stg cfg classes seg ws = Ok (s, ws') ->
    should_emit rt (sg_conds seg) = true -> sg_vram_class seg = Some cn -> at_most_one_addr seg ->
    let sty := linker_symbols_style stg in
    let START := vram_class_start sty cn in
    let st' := runl s st0 in
    vram_names_distinct sty (sg_name seg) s = true ->
    ~ In (LForwardRef (alloc_name seg)) (l_errors st') ->
    sizes_ok st0 ->
    existsb (assigns START) (seg_head stg seg ++ sections_kind_start sty cfg seg false) = false ->
    exists o1 o2,
      l_secs st' = (l_secs st0 ++ [o1; o2])%list /\ os_name o1 = alloc_name seg /\
      sym_lookup START (runl (class_prefix stg classes seg (ws_emitted ws)) st0) env ext = Some (os_vma o1).
  Proof.
    intros H Hc Hcn Hone sty START st' Hd He Hsz Hfree.
    destruct (segment_vram env senv ext final rt stg cfg classes seg ws s ws' st0 H Hc Hd He Hsz)
      as (cls & ws1 & b1 & o1 & o2 & A2 & Ec & _ & V & S & N1 & _).
    exists o1, o2. split; [exact S|]. split; [exact N1|].
    cbv zeta in V. destruct (requested_start env senv ext sty seg _ _ _ _ Hone V) as [_ [_ [_ [Hcls _]]]].
    specialize (Hcls cn Hcn). fold START in Hcls. rewrite run_app in Hcls.
    rewrite (sym_lookup_frame env senv ext final _ _ START Hfree) in Hcls.
    assert (Ecls : cls = class_prefix stg classes seg (ws_emitted ws)).
    { unfold class_part in Ec. unfold class_prefix. rewrite Hcn in *.
      destruct (class_get classes cn); [|discriminate].
      destruct (mem_str cn (ws_emitted ws)); apply ok_inj in Ec; inversion Ec; reflexivity. }
    rewrite <- Ecls. exact Hcls.
  Qed.
End Link.

(* ====================================================================== *)
(* the end of a class is the largest VRAM end among its emitted members    *)
(* ====================================================================== *)

Lemma append_inj_r x : forall y s, (x ++ s)%string = (y ++ s)%string -> x = y.
Proof.
  induction x as [|a x IH]; intros [|b y] s H; cbn [append] in H.
  - reflexivity.
  - exfalso. apply (f_equal String.length) in H. cbn [String.length] in H. rewrite slen_app in H. lia.
  - exfalso. apply (f_equal String.length) in H. cbn [String.length] in H. rewrite slen_app in H. lia.
  - inversion H as [[Ea Er]]. f_equal. eapply IH. exact Er.
Qed.

Lemma vram_class_end_inj sty a b : vram_class_end sty a = vram_class_end sty b -> a = b.
Proof.
  unfold vram_class_end. destruct sty; cbn.
  - apply append_inj_r.
  - intro H. inversion H as [E]. eapply append_inj_r. exact E.
Qed.

Definition nes (END : string) (s : stmt) : Prop := end_shape END s = false.

Lemma nes_kind_start END sty cfg seg noload : Forall (nes END) (sections_kind_start sty cfg seg noload).
Proof. unfold sections_kind_start. destruct (kind_syms cfg); repeat constructor. Qed.

Lemma nes_kind_end END sty cfg seg noload : Forall (nes END) (sections_kind_end sty cfg seg noload).
Proof. unfold sections_kind_end, sym_end_size. destruct (kind_syms cfg); repeat constructor. Qed.

Lemma nes_write_segment END rt st cfg seg sections noload ws s ws' :
  write_segment rt st cfg seg sections noload ws = Ok (s, ws') -> Forall (nes END) s.
Proof.
  intro H. apply write_segment_inv in H. destruct H as [body [_ E]]. subst s.
  fa; [apply nes_kind_start | repeat constructor | apply nes_kind_end].
Qed.

Lemma nes_seg_head END st seg : Forall (nes END) (seg_head st seg).
Proof. unfold seg_head. destruct (segment_start_align seg); repeat constructor. Qed.

Lemma nes_seg_foot_main END st seg : Forall (nes END) (seg_foot_main st seg).
Proof. unfold seg_foot_main, sym_end_size. cbv zeta. destruct (segment_end_align seg); repeat constructor. Qed.

Lemma nes_class_start END stg c cn' :
  END <> vram_class_end (linker_symbols_style stg) cn' ->
  (exists cn, END = vram_class_end (linker_symbols_style stg) cn) ->
  Forall (nes END) (class_start_stmts stg c cn').
Proof.
  intros Hne [cn Hcn]. 
  assert (N1 : String.eqb (vram_class_start (linker_symbols_style stg) cn') END = false).
  { apply String.eqb_neq. intro E. subst END. apply (class_start_not_end (linker_symbols_style stg) cn' cn). symmetry. exact E. }
  assert (N2 : String.eqb (vram_class_end (linker_symbols_style stg) cn') END = false).
  { apply String.eqb_neq. intro E. apply Hne. symmetry. exact E. }
  unfold class_start_stmts. apply Forall_app; split.
  - destruct (vc_fixed_vram c) as [v|]; [|destruct (vc_fixed_symbol c)].
    + constructor; [|constructor]. unfold nes, linker_symbol. cbn [end_shape]. destruct v; [exact N1|reflexivity].
    + repeat constructor.
    + constructor; [unfold nes, linker_symbol; cbn [end_shape]; exact N1|].
      apply Forall_map_intro. intro o. unfold nes. cbn [end_shape]. exact N1.
  - constructor; [unfold nes, linker_symbol; cbn [end_shape]; exact N2|]. repeat constructor.
Qed.

Lemma clean_no_shape END l :
  end_clean END l = true -> Forall (nes END) l -> existsb (assigns END) l = false.
Proof.
  intros Hc Hn. apply existsb_false_Forall. unfold end_clean in Hc. rewrite forallb_forall in Hc.
  rewrite Forall_forall in *. intros s Hs. specialize (Hc s Hs). specialize (Hn s Hs). unfold nes in Hn.
  rewrite Hn, orb_false_r in Hc. apply negb_true_iff in Hc. exact Hc.
Qed.

Lemma end_clean_app END a b : end_clean END (a ++ b) = true -> end_clean END a = true /\ end_clean END b = true.
Proof. unfold end_clean. rewrite forallb_app. apply andb_true_iff. Qed.

(* a segment that is not a member of the class never touches the class end *)
Lemma nonmember_untouched rt stg cfg classes seg ws s ws' cn :
  add_segment rt stg cfg classes seg ws = Ok (s, ws') ->
  sg_vram_class seg <> Some cn ->
  end_clean (vram_class_end (linker_symbols_style stg) cn) s = true ->
  existsb (assigns (vram_class_end (linker_symbols_style stg) cn)) s = false.
Proof.
  intros H Hcn Hclean. apply clean_no_shape; [exact Hclean|]. apply add_segment_inv in H.
  destruct H as [[_ [E _]] | [_ [cls [ws1 [s1 [ws2 [s2 [Ec [E1 [E2 E]]]]]]]]]]; subst s; [constructor|].
  set (END := vram_class_end (linker_symbols_style stg) cn) in *.
  fa.
  - apply class_part_inv in Ec. destruct Ec as [[Ecls _] | [cn' [c [Hcn' [_ [_ [Ecls _]]]]]]]; subst cls; [constructor|].
    apply nes_class_start; [|exists cn; reflexivity]. intro E. apply vram_class_end_inj in E. congruence.
  - apply nes_seg_head.
  - eapply nes_write_segment; eassumption.
  - repeat constructor.
  - eapply nes_write_segment; eassumption.
  - repeat constructor.
  - unfold seg_foot, sym_end_size. cbv zeta. fa.
    all: try solve [repeat constructor].
    all: try solve [destruct (segment_end_align seg); repeat constructor].
    destruct (sg_vram_class seg) as [cn'|] eqn:Ecn; [|constructor]. constructor; [reflexivity|]. constructor; [|constructor].
    unfold nes. cbn [end_shape]. apply String.eqb_neq. intro E. apply vram_class_end_inj in E. congruence.
Qed.

(* every emitted segment defines its VRAM end *)
Lemma vend_assigned rt stg cfg classes seg ws s ws' :
  add_segment rt stg cfg classes seg ws = Ok (s, ws') -> should_emit rt (sg_conds seg) = true ->
  existsb (assigns (segment_vram_end (linker_symbols_style stg) (sg_name seg))) s = true.
Proof.
  intros H Hc. apply add_segment_inv in H.
  destruct H as [[Hc' _] | [_ [cls [ws1 [s1 [ws2 [s2 [Ec [E1 [E2 E]]]]]]]]]]; [congruence|]. subst s.
  apply existsb_in_true with (s := linker_symbol (segment_vram_end (linker_symbols_style stg) (sg_name seg)) EDot);
    [|apply String.eqb_refl].
  do 6 (apply in_or_app; right). unfold seg_foot, sym_end_size. cbv zeta.
  apply in_or_app; right. apply in_or_app; right. apply in_or_app; left. left. reflexivity.
Qed.

Lemma vend_assigned_fold rt stg cfg classes segs : forall ws body ws' seg,
  fold_out (add_segment rt stg cfg classes) segs ws = Ok (body, ws') ->
  In seg segs -> should_emit rt (sg_conds seg) = true ->
  existsb (assigns (segment_vram_end (linker_symbols_style stg) (sg_name seg))) body = true.
Proof.
  induction segs as [|x r IH]; intros ws body ws' seg H Hin Hc; [contradiction|].
  apply fold_out_cons in H. destruct H as [s1 [ws1 [s2 [E1 [E2 E]]]]]. subst body. rewrite existsb_app.
  destruct Hin as [Hin|Hin].
  - subst x. rewrite (vend_assigned _ _ _ _ _ _ _ _ E1 Hc). reflexivity.
  - rewrite (IH _ _ _ _ E2 Hin Hc). apply orb_true_r.
Qed.

Section ClassEnd.
  Variables (env : list (string * Z)) (senv : list osec) (ext : list (string * Z)) (final : bool).
  Notation top := (exec_top_stmt env senv ext final).
  Notation runl := (run env senv ext final).

  Theorem class_end_is_max rt stg cfg classes cn segs : forall ws body ws' st0 a,
    fold_out (add_segment rt stg cfg classes) segs ws = Ok (body, ws') ->
    let sty := linker_symbols_style stg in
    let END := vram_class_end sty cn in
    let st' := runl body st0 in
    end_clean END body = true ->
    (forall seg, In seg (members rt cn segs) -> defined_once (segment_vram_end sty (sg_name seg)) body = true) ->
    (mem_str cn (ws_emitted ws) = true -> val st0 END = Some a) ->
    (mem_str cn (ws_emitted ws) = false -> a = 0) ->
    exists vs,
      Forall2 (fun seg v => val st' (segment_vram_end sty (sg_name seg)) = Some v) (members rt cn segs) vs /\
      (mem_str cn (ws_emitted ws') = true -> val st' END = Some (fold_left Z.max vs a)).
  Proof.
    induction segs as [|seg r IH]; intros ws body ws' st0 a H sty END st' Hclean Hve Ha1 Ha0.
    - apply fold_out_nil in H. destruct H; subst. exists []. split; [constructor|]. exact Ha1.
    - apply fold_out_cons in H. destruct H as [s1 [ws1 [body_r [E1 [E2 E]]]]]. subst body.
      apply end_clean_app in Hclean. destruct Hclean as [Hc1 Hcr].
      unfold st'. rewrite run_app. set (st1 := runl s1 st0).
      unfold members in *. cbn [filter] in *. unfold is_member at 1 in Hve. unfold is_member at 1.
      destruct (should_emit rt (sg_conds seg)) eqn:Hc; cbn [andb] in *.
      2:{ (* excluded *)
          destruct (segment_class_excluded _ _ _ _ _ _ _ _ E1 Hc) as [Es Ew]. subst s1 ws1.
          apply (IH ws body_r ws' st0 a E2); assumption. }
      destruct (opt_eqb_str (sg_vram_class seg) (Some cn)) eqn:Em.
      + (* a member *)
        assert (Hcn : sg_vram_class seg = Some cn).
        { destruct (sg_vram_class seg) as [c'|]; [|discriminate]. cbn [opt_eqb_str] in Em.
          apply String.eqb_eq in Em. subst. reflexivity. }
        set (VE := segment_vram_end sty (sg_name seg)).
        destruct (member_shape rt stg cfg classes seg ws s1 ws1 cn E1 Hc Hcn) as [rest Es].
        set (prefix := class_prefix stg classes seg (ws_emitted ws)) in *.
        set (mid := (seg_head stg seg ++ rest ++ seg_foot_main stg seg)%list) in *.
        (* the middle does not assign END *)
        assert (Hmid : existsb (assigns END) mid = false).
        { apply clean_no_shape.
          - rewrite Es in Hc1. apply end_clean_app in Hc1. destruct Hc1 as [_ Hc1].
            apply end_clean_app in Hc1. tauto.
          - pose proof E1 as E1'. apply add_segment_inv in E1'.
            destruct E1' as [[Hc' _] | [_ [cls [wsx [sa [wsy [sb [Ec [Ea [Eb Eshape]]]]]]]]]]; [congruence|].
            assert (Erest : rest = (sa ++ [SBlank] ++ sb ++ [SBlank])%list).
            { assert (Ecls : cls = prefix).
              { unfold class_part in Ec. unfold prefix, class_prefix. rewrite Hcn in *.
                destruct (class_get classes cn); [|discriminate].
                destruct (mem_str cn (ws_emitted ws)); apply ok_inj in Ec; inversion Ec; reflexivity. }
              rewrite Es, Ecls, (seg_foot_member stg seg cn Hcn) in Eshape. unfold mid in Eshape.
              repeat (rewrite <- app_assoc in Eshape; cbn [app] in Eshape).
              apply app_inv_head in Eshape. apply app_inv_head in Eshape.
              assert (Et : forall (x y : list stmt) t, (x ++ t = y ++ t -> x = y)%list)
                by (intros x y t Hxy; eapply app_inv_tail; exact Hxy).
              apply (Et rest (sa ++ SBlank :: sb ++ [SBlank])%list
                        (seg_foot_main stg seg ++ [SBlank; class_end_max (linker_symbols_style stg) cn seg; SBlank])%list).
              rewrite Eshape. repeat (rewrite <- app_assoc; cbn [app]). reflexivity. }
            unfold mid. rewrite Erest. fa.
            + apply nes_seg_head.
            + eapply nes_write_segment; eassumption.
            + repeat constructor.
            + eapply nes_write_segment; eassumption.
            + repeat constructor.
            + apply nes_seg_foot_main. }
        (* the VRAM end: assigned by "VE = ." in the foot, by nothing afterwards *)
        assert (Hin : In seg (seg :: filter (fun s => should_emit rt (sg_conds s) && opt_eqb_str (sg_vram_class s) (Some cn)) r))
          by (left; reflexivity).
        pose proof (Hve seg Hin) as Hdef. fold VE in Hdef.
        set (sVE := linker_symbol VE EDot).
        assert (Efm : exists fa fb, seg_foot_main stg seg = (fa ++ sVE :: fb)%list).
        { exists ([SRomAdd ("." ++ sg_name seg)] ++
                  match segment_end_align seg with
                  | Some a => [SAlign "__romPos" a; SAlign "." a] | None => [] end)%list.
          exists [linker_symbol (segment_vram_size sty (sg_name seg)) (EAbsSub VE (segment_vram_start sty (sg_name seg)));
                  linker_symbol (segment_rom_end sty (sg_name seg)) (ESym "__romPos");
                  linker_symbol (segment_rom_size sty (sg_name seg))
                                (EAbsSub (segment_rom_end sty (sg_name seg)) (segment_rom_start sty (sg_name seg)))].
          unfold seg_foot_main, sym_end_size. cbv zeta. fold sty VE. unfold sVE.
          repeat (rewrite <- app_assoc; cbn [app]). reflexivity. }
        destruct Efm as [fa [fb Efm]].
        set (P := (prefix ++ seg_head stg seg ++ rest ++ fa)%list).
        set (tailm := [SBlank; class_end_max sty cn seg; SBlank]).
        assert (Es1 : s1 = (P ++ sVE :: fb ++ tailm)%list).
        { rewrite Es. unfold mid, P, tailm. rewrite Efm. repeat (rewrite <- app_assoc; cbn [app]). reflexivity. }
        assert (Ebody : (s1 ++ body_r = P ++ sVE :: (fb ++ tailm ++ body_r))%list).
        { rewrite Es1. repeat (rewrite <- app_assoc; cbn [app]). reflexivity. }
        rewrite Ebody in Hdef. apply defined_once_split in Hdef; [|apply String.eqb_refl].
        destruct Hdef as [_ Hafter]. rewrite !existsb_app in Hafter.
        apply orb_false_iff in Hafter. destruct Hafter as [Hfb Hafter].
        apply orb_false_iff in Hafter. destruct Hafter as [Htm Hbr].
        assert (NVE : VE <> "."%string) by (apply (style_name_neq sty); [sn|reflexivity]).
        set (stP := runl P st0).
        assert (VE1 : val (top stP sVE) VE = Some (l_dot stP)).
        { unfold sVE. rewrite top_sym_dot by assumption. apply lookup_set_sym_same. }
        assert (Epm : (prefix ++ mid = P ++ sVE :: fb)%list).
        { unfold mid, P. rewrite Efm. repeat (rewrite <- app_assoc; cbn [app]). reflexivity. }
        assert (VE2 : val (runl (prefix ++ mid) st0) VE = Some (l_dot stP)).
        { rewrite Epm, run_app, run_cons. fold stP. unfold val. rewrite run_syms by assumption. exact VE1. }
        set (ve := l_dot stP) in *.
        assert (VE3 : val st1 VE = Some ve).
        { unfold st1. rewrite Es1, run_app, run_cons. fold stP. unfold val.
          rewrite run_syms; [exact VE1|]. rewrite existsb_app, Hfb, Htm. reflexivity. }
        (* END after this segment *)
        assert (Hend : val st1 END = Some (Z.max a ve)).
        { unfold st1. apply (member_class_end env senv ext final rt stg cfg classes seg ws s1 ws1 cn st0 a ve E1 Hc Hcn rest Es);
            try assumption.
          fold mid. apply sym_lookup_defined. exact VE2. }
        assert (Hm1 : mem_str cn (ws_emitted ws1) = true).
        { destruct (segment_class _ _ _ _ _ _ _ _ E1 Hc) as [_ [_ [Ee _]]]. rewrite Ee, mem_emitted_after, Hcn.
          cbn [opt_eqb_str]. rewrite String.eqb_refl. apply orb_true_r. }
        destruct (IH ws1 body_r ws' st1 (Z.max a ve) E2 Hcr) as [vs [Hvs Hfin]].
        * intros seg' Hin'. pose proof (Hve seg' (or_intror Hin')) as Hd'.
          apply filter_In in Hin'. destruct Hin' as [Hin' Hmem]. apply andb_true_iff in Hmem. destruct Hmem as [Hc' _].
          apply (defined_once_app_r _ _ _ Hd'). eapply vend_assigned_fold; eassumption.
        * intros _. exact Hend.
        * intro Hf. rewrite Hm1 in Hf. discriminate.
        * exists (ve :: vs). split.
          -- constructor; [|exact Hvs]. fold VE. unfold val. rewrite run_syms by assumption. exact VE3.
          -- intro Hm'. cbn [fold_left]. apply Hfin. exact Hm'.
      + (* an emitted segment of another class, or of none *)
        assert (Hcn : sg_vram_class seg <> Some cn).
        { intro E. rewrite E in Em. cbn [opt_eqb_str] in Em. rewrite String.eqb_refl in Em. discriminate. }
        pose proof (nonmember_untouched _ _ _ _ _ _ _ _ cn E1 Hcn Hc1) as Hun. fold sty END in Hun.
        assert (Hm1 : mem_str cn (ws_emitted ws1) = mem_str cn (ws_emitted ws)).
        { destruct (segment_class _ _ _ _ _ _ _ _ E1 Hc) as [_ [_ [Ee _]]]. rewrite Ee, mem_emitted_after, Em.
          apply orb_false_r. }
        apply (IH ws1 body_r ws' st1 a E2 Hcr).
        * intros seg' Hin'. pose proof (Hve seg' Hin') as Hd'.
          apply filter_In in Hin'. destruct Hin' as [Hin' Hmem]. apply andb_true_iff in Hmem. destruct Hmem as [Hc' _].
          apply (defined_once_app_r _ _ _ Hd'). eapply vend_assigned_fold; eassumption.
        * rewrite Hm1. intro Hm. unfold st1, val. rewrite run_syms by assumption. apply Ha1. exact Hm.
        * rewrite Hm1. exact Ha0.
  Qed.
End ClassEnd.
