(* C09 - to be filled *)
