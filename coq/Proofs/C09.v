(* C09: lemmas.  The first half is infrastructure about LdSem's execution inside an output section
   and at the top level, and about the symbol names, reused by C05, C02 and C01. *)
From Slinky Require Import Model.Types Model.Generated Model.Runtime Model.Style Model.Script Model.Writer Model.LdSem.
From Slinky Require Import Proofs.LdLemmas Proofs.C18 Spec.C09.
From Coq Require Import Lia ZArith Sorted.
Local Open Scope Z_scope.

(* ====================================================================== *)
(* strings and symbol names                                                *)
(* ====================================================================== *)

Lemma str_length_app a b : String.length (a ++ b)%string = (String.length a + String.length b)%nat.
Proof. induction a as [|c a IH]; simpl; [reflexivity | rewrite IH; reflexivity]. Qed.

Lemma str_app_nil_r a : (a ++ "")%string = a.
Proof. induction a as [|c a IH]; simpl; [reflexivity | rewrite IH; reflexivity]. Qed.

Lemma str_app_inv_head a b c : (a ++ b)%string = (a ++ c)%string -> b = c.
Proof. induction a as [|x a IH]; simpl; intro H; [assumption | injection H as H; auto]. Qed.

Lemma str_app_assoc a b c : ((a ++ b) ++ c)%string = (a ++ b ++ c)%string.
Proof. induction a as [|x a IH]; simpl; [reflexivity | rewrite IH; reflexivity]. Qed.

Lemma fmt2 p0 p1 a : fmt [p0; p1] [a] = (p0 ++ a ++ p1)%string.
Proof. simpl. rewrite str_app_nil_r. reflexivity. Qed.

Lemma fmt3 p0 p1 p2 a b : fmt [p0; p1; p2] [a; b] = (p0 ++ a ++ p1 ++ b ++ p2)%string.
Proof. simpl. rewrite str_app_nil_r. reflexivity. Qed.

Ltac unfold_names :=
  unfold segment_rom_start, segment_rom_end, segment_rom_size, segment_vram_start, segment_vram_end,
    segment_vram_size, segment_section_start, segment_section_end, segment_section_size, linker_offset,
    vram_class_start, vram_class_end, vram_class_size,
    tpl_segment_rom_start, tpl_segment_rom_end, tpl_segment_rom_size, tpl_segment_vram_start,
    tpl_segment_vram_end, tpl_segment_vram_size, tpl_segment_section_start, tpl_segment_section_end,
    tpl_segment_section_size, tpl_linker_offset, tpl_vram_class_start, tpl_vram_class_end,
    tpl_vram_class_size in *.

(* two names built from the same arguments with different templates are different *)
Ltac name_neq :=
  let H := fresh "H" in
  unfold_names; intro H;
  match goal with sty : style |- _ => destruct sty end;
  cbn [pick fst snd] in H; rewrite ?fmt2, ?fmt3 in H;
  repeat first [ apply str_app_inv_head in H | progress (simpl in H; injection H as H) ];
  discriminate.

Lemma sec_start_neq_end sty n s : segment_section_start sty n s <> segment_section_end sty n s.
Proof. name_neq. Qed.
Lemma sec_start_neq_size sty n s : segment_section_start sty n s <> segment_section_size sty n s.
Proof. name_neq. Qed.
Lemma sec_end_neq_size sty n s : segment_section_end sty n s <> segment_section_size sty n s.
Proof. name_neq. Qed.

Lemma vram_start_neq_end sty n : segment_vram_start sty n <> segment_vram_end sty n.
Proof. name_neq. Qed.
Lemma vram_start_neq_size sty n : segment_vram_start sty n <> segment_vram_size sty n.
Proof. name_neq. Qed.
Lemma vram_end_neq_size sty n : segment_vram_end sty n <> segment_vram_size sty n.
Proof. name_neq. Qed.
Lemma rom_start_neq_end sty n : segment_rom_start sty n <> segment_rom_end sty n.
Proof. name_neq. Qed.
Lemma rom_start_neq_size sty n : segment_rom_start sty n <> segment_rom_size sty n.
Proof. name_neq. Qed.
Lemma rom_end_neq_size sty n : segment_rom_end sty n <> segment_rom_size sty n.
Proof. name_neq. Qed.
Lemma vram_end_neq_rom_end sty n : segment_vram_end sty n <> segment_rom_end sty n.
Proof. name_neq. Qed.
Lemma vram_end_neq_rom_size sty n : segment_vram_end sty n <> segment_rom_size sty n.
Proof. name_neq. Qed.
Lemma vram_end_neq_rom_start sty n : segment_vram_end sty n <> segment_rom_start sty n.
Proof. name_neq. Qed.
Lemma vram_size_neq_rom_end sty n : segment_vram_size sty n <> segment_rom_end sty n.
Proof. name_neq. Qed.
Lemma vram_size_neq_rom_size sty n : segment_vram_size sty n <> segment_rom_size sty n.
Proof. name_neq. Qed.
Lemma vram_size_neq_rom_start sty n : segment_vram_size sty n <> segment_rom_start sty n.
Proof. name_neq. Qed.
Lemma vram_start_neq_rom_start sty n : segment_vram_start sty n <> segment_rom_start sty n.
Proof. name_neq. Qed.
Lemma vram_start_neq_rom_end sty n : segment_vram_start sty n <> segment_rom_end sty n.
Proof. name_neq. Qed.
Lemma vram_start_neq_rom_size sty n : segment_vram_start sty n <> segment_rom_size sty n.
Proof. name_neq. Qed.

(* every segment-level name is longer than "." and "__romPos" *)
Ltac name_len :=
  unfold_names;
  match goal with sty : style |- _ => destruct sty end;
  cbn [pick fst snd]; rewrite ?fmt2, ?fmt3, ?str_length_app; simpl String.length; lia.

Lemma len_rom_start sty n : (9 <= String.length (segment_rom_start sty n))%nat. Proof. name_len. Qed.
Lemma len_rom_end sty n : (8 <= String.length (segment_rom_end sty n))%nat. Proof. name_len. Qed.
Lemma len_rom_size sty n : (9 <= String.length (segment_rom_size sty n))%nat. Proof. name_len. Qed.
Lemma len_vram_start sty n : (5 <= String.length (segment_vram_start sty n))%nat. Proof. name_len. Qed.
Lemma len_vram_end sty n : (9 <= String.length (segment_vram_end sty n))%nat. Proof. name_len. Qed.
Lemma len_vram_size sty n : (10 <= String.length (segment_vram_size sty n))%nat. Proof. name_len. Qed.
Lemma len_sec_start sty n s : (6 <= String.length (segment_section_start sty n s))%nat. Proof. name_len. Qed.
Lemma len_sec_end sty n s : (4 <= String.length (segment_section_end sty n s))%nat. Proof. name_len. Qed.
Lemma len_sec_size sty n s : (5 <= String.length (segment_section_size sty n s))%nat. Proof. name_len. Qed.
Lemma len_offset sty n : (7 <= String.length (linker_offset sty n))%nat. Proof. name_len. Qed.

Lemma long_not_dot s : (2 <= String.length s)%nat -> String.eqb s "." = false.
Proof. intro H. apply String.eqb_neq. intro E. subst. simpl in H. lia. Qed.

Lemma long_not_rompos s : (9 <= String.length s)%nat -> s <> "__romPos".
Proof. intros H E. subst. simpl in H. lia. Qed.

Lemma eqb_dot_rom_start sty n : String.eqb (segment_rom_start sty n) "." = false.
Proof. apply long_not_dot. pose proof (len_rom_start sty n). lia. Qed.
Lemma eqb_dot_rom_end sty n : String.eqb (segment_rom_end sty n) "." = false.
Proof. apply long_not_dot. pose proof (len_rom_end sty n). lia. Qed.
Lemma eqb_dot_rom_size sty n : String.eqb (segment_rom_size sty n) "." = false.
Proof. apply long_not_dot. pose proof (len_rom_size sty n). lia. Qed.
Lemma eqb_dot_vram_start sty n : String.eqb (segment_vram_start sty n) "." = false.
Proof. apply long_not_dot. pose proof (len_vram_start sty n). lia. Qed.
Lemma eqb_dot_vram_end sty n : String.eqb (segment_vram_end sty n) "." = false.
Proof. apply long_not_dot. pose proof (len_vram_end sty n). lia. Qed.
Lemma eqb_dot_vram_size sty n : String.eqb (segment_vram_size sty n) "." = false.
Proof. apply long_not_dot. pose proof (len_vram_size sty n). lia. Qed.
Lemma eqb_dot_sec_start sty n s : String.eqb (segment_section_start sty n s) "." = false.
Proof. apply long_not_dot. pose proof (len_sec_start sty n s). lia. Qed.
Lemma eqb_dot_sec_end sty n s : String.eqb (segment_section_end sty n s) "." = false.
Proof. apply long_not_dot. pose proof (len_sec_end sty n s). lia. Qed.
Lemma eqb_dot_sec_size sty n s : String.eqb (segment_section_size sty n s) "." = false.
Proof. apply long_not_dot. pose proof (len_sec_size sty n s). lia. Qed.
Lemma eqb_dot_offset sty n : String.eqb (linker_offset sty n) "." = false.
Proof. apply long_not_dot. pose proof (len_offset sty n). lia. Qed.

Lemma vram_end_neq_rompos sty n : segment_vram_end sty n <> "__romPos".
Proof. apply long_not_rompos. apply len_vram_end. Qed.
Lemma vram_size_neq_rompos sty n : segment_vram_size sty n <> "__romPos".
Proof. apply long_not_rompos. pose proof (len_vram_size sty n). lia. Qed.
Lemma rom_start_neq_rompos sty n : segment_rom_start sty n <> "__romPos".
Proof. apply long_not_rompos. apply len_rom_start. Qed.

Lemma vram_start_neq_rompos sty n : segment_vram_start sty n <> "__romPos".
Proof.
  destruct sty.
  - unfold segment_vram_start, tpl_segment_vram_start. cbn [pick fst snd]. rewrite fmt2. simpl. intro H.
    assert (L : String.length n = 3%nat).
    { apply (f_equal String.length) in H. rewrite str_length_app in H. simpl in H. lia. }
    destruct n as [|c1 [|c2 [|c3 [|c4 n]]]]; simpl in L; try lia. simpl in H. discriminate.
  - apply long_not_rompos. unfold segment_vram_start, tpl_segment_vram_start. cbn [pick fst snd].
    rewrite fmt2, !str_length_app. simpl. lia.
Qed.

(* ====================================================================== *)
(* small list facts                                                        *)
(* ====================================================================== *)

Lemma Forall_filter {A} (P : A -> Prop) f l : Forall P l -> Forall P (filter f l).
Proof.
  induction 1 as [|x r Hx Hr IH]; simpl; [constructor|]. destruct (f x); [constructor|]; assumption.
Qed.

Lemma sorted_app l1 l2 m :
  StronglySorted Z.le l1 -> StronglySorted Z.le l2 ->
  Forall (fun x => x <= m) l1 -> Forall (fun x => m <= x) l2 ->
  StronglySorted Z.le (l1 ++ l2).
Proof.
  intros S1 S2 H1 H2. induction S1 as [|x r Sr IH Hx]; simpl; [assumption|].
  inversion H1 as [|? ? Hxm Hr]; subst. constructor; [apply IH; assumption|].
  apply Forall_app; split; [assumption|]. eapply Forall_impl; [|exact H2]. simpl. intros; lia.
Qed.

(* ====================================================================== *)
(* assignments                                                             *)
(* ====================================================================== *)

Lemma assign_dot ext final p sym r t st : l_dot (assign ext final p sym r t st) = l_dot st.
Proof.
  unfold assign. destruct r as [v|e].
  - destruct (p && is_some (lookup sym ext))%bool; reflexivity.
  - destruct e; try (destruct (final && negb p)%bool; reflexivity); reflexivity.
Qed.

Lemma assign_placed ext final p sym r t st : l_placed (assign ext final p sym r t st) = l_placed st.
Proof.
  unfold assign. destruct r as [v|e].
  - destruct (p && is_some (lookup sym ext))%bool; reflexivity.
  - destruct e; try (destruct (final && negb p)%bool; reflexivity); reflexivity.
Qed.

Lemma assign_remaining ext final p sym r t st : l_remaining (assign ext final p sym r t st) = l_remaining st.
Proof.
  unfold assign. destruct r as [v|e].
  - destruct (p && is_some (lookup sym ext))%bool; reflexivity.
  - destruct e; try (destruct (final && negb p)%bool; reflexivity); reflexivity.
Qed.

Lemma assign_secs ext final p sym r t st : l_secs (assign ext final p sym r t st) = l_secs st.
Proof.
  unfold assign. destruct r as [v|e].
  - destruct (p && is_some (lookup sym ext))%bool; reflexivity.
  - destruct e; try (destruct (final && negb p)%bool; reflexivity); reflexivity.
Qed.

Lemma assign_discarded ext final p sym r t st : l_discarded (assign ext final p sym r t st) = l_discarded st.
Proof.
  unfold assign. destruct r as [v|e].
  - destruct (p && is_some (lookup sym ext))%bool; reflexivity.
  - destruct e; try (destruct (final && negb p)%bool; reflexivity); reflexivity.
Qed.

(* a plain (not PROVIDE) assignment of a computable value always defines the symbol *)
Lemma assign_ok ext final sym v t st : assign ext final false sym (Ok v) t st = set_sym sym v false st.
Proof. reflexivity. Qed.

Lemma lookup_assign_other ext final p sym r t st x :
  sym <> x -> lookup x (l_syms (assign ext final p sym r t st)) = lookup x (l_syms st).
Proof.
  intro H. unfold assign. destruct r as [v|e].
  - destruct (p && is_some (lookup sym ext))%bool; [reflexivity|]. apply lookup_set_sym_other. assumption.
  - destruct e; try (destruct (final && negb p)%bool; reflexivity); reflexivity.
Qed.

Lemma sym_lookup_set_sym_other s x v p st env ext :
  s <> x -> sym_lookup x (set_sym s v p st) env ext = sym_lookup x st env ext.
Proof. intro H. unfold sym_lookup. rewrite lookup_set_sym_other by assumption. reflexivity. Qed.

Lemma sym_lookup_assign_other ext final p sym r t st x env :
  sym <> x -> sym_lookup x (assign ext final p sym r t st) env ext = sym_lookup x st env ext.
Proof. intro H. unfold sym_lookup. rewrite lookup_assign_other by assumption. reflexivity. Qed.

Lemma sym_lookup_set_sym_same s v p st env ext : sym_lookup s (set_sym s v p st) env ext = Some v.
Proof. apply sym_lookup_defined. apply lookup_set_sym_same. Qed.

(* ====================================================================== *)
(* optional alignments                                                     *)
(* ====================================================================== *)

Lemma opt_aligned_le a x : x <= opt_aligned a x.
Proof. destruct a; simpl; [apply align_up_le | lia]. Qed.

Lemma align_up_0 x : align_up x 0 = x.
Proof. reflexivity. Qed.

(* aligning to a then to b: a multiple of b, and of a as well when the two are compatible *)
Lemma opt_aligned_second a b x : forall n, b = Some n -> (0 < n)%N -> (Z.of_N n | opt_aligned b (opt_aligned a x)).
Proof. intros n E Hn. subst. simpl. apply align_up_divide. lia. Qed.

Lemma opt_aligned_first a b x : forall n,
  a = Some n -> (0 < n)%N ->
  (forall m, b = Some m -> compatible (Z.of_N n) (Z.of_N m)) ->
  (Z.of_N n | opt_aligned b (opt_aligned a x)).
Proof.
  intros n E Hn Hc. subst. cbn [opt_aligned]. destruct b as [m|]; cbn [opt_aligned]; [|apply align_up_divide; lia].
  destruct (N.eq_dec m 0) as [E0|E0].
  - subst. change (Z.of_N 0) with 0. rewrite align_up_0. apply align_up_divide. lia.
  - apply (align_up_twice_divides x (Z.of_N n) (Z.of_N m)); try lia. apply Hc. reflexivity.
Qed.

(* ====================================================================== *)
(* execution inside an output section                                      *)
(* ====================================================================== *)

Section InSection.
  Variables env ext : list (string * Z).
  Variable senv : list osec.
  Variable final : bool.
  Variable vma : Z.
  Variable sub : option Z.
  Variable outsec : string.

  Let X := exec_sec_stmt env senv ext final vma sub outsec.

  Lemma fold_X_app a b ss : fold_left X (a ++ b) ss = fold_left X b (fold_left X a ss).
  Proof. apply fold_left_app. Qed.

  Lemma exec_opt_align a ss :
    fold_left X (opt_align a) ss = SState (opt_aligned a (s_off ss)) (s_contents ss) (s_st ss).
  Proof. destruct ss, a; reflexivity. Qed.

  Lemma exec_linker_symbol_dot sym ss :
    X ss (linker_symbol sym EDot) =
    SState (s_off ss) (s_contents ss) (set_sym sym (vma + s_off ss) false (s_st ss)).
  Proof. reflexivity. Qed.

  Lemma exec_gp rt seg section ss :
    exists st', fold_left X (gp_stmt rt seg section) ss = SState (s_off ss) (s_contents ss) st' /\
                l_placed st' = l_placed (s_st ss) /\ l_remaining st' = l_remaining (s_st ss) /\
                forall x, x <> "_gp" -> lookup x (l_syms st') = lookup x (l_syms (s_st ss)).
  Proof.
    unfold gp_stmt. destruct (sg_gp_info seg) as [g|].
    - destruct (should_emit rt (gp_conds g) && String.eqb (gp_section g) section)%bool.
      + cbn [fold_left]. unfold X. cbn [exec_sec_stmt s_off s_contents s_st]. eexists. split; [reflexivity|].
        rewrite assign_placed, assign_remaining.
        repeat split. intros x Hx. apply lookup_assign_other. congruence.
      + destruct ss. simpl. eexists. split; [reflexivity|]. auto.
    - destruct ss. simpl. eexists. split; [reflexivity|]. auto.
  Qed.

  (* ---------- the frame: what a statement inside a section never touches ---------- *)

  Lemma X_secs ss s : l_secs (s_st (X ss s)) = l_secs (s_st ss).
  Proof.
    destruct s; try reflexivity; simpl.
    - apply assign_secs.
    - destruct (String.eqb sym "."); reflexivity.
    - destruct (place vma sub outsec _ _ _ _) as [[o p] c]. reflexivity.
  Qed.

  Lemma X_dot ss s : l_dot (s_st (X ss s)) = l_dot (s_st ss).
  Proof.
    destruct s; try reflexivity; simpl.
    - apply assign_dot.
    - destruct (String.eqb sym "."); reflexivity.
    - destruct (place vma sub outsec _ _ _ _) as [[o p] c]. reflexivity.
  Qed.

  Lemma X_discarded ss s : l_discarded (s_st (X ss s)) = l_discarded (s_st ss).
  Proof.
    destruct s; try reflexivity; simpl.
    - apply assign_discarded.
    - destruct (String.eqb sym "."); reflexivity.
    - destruct (place vma sub outsec _ _ _ _) as [[o p] c]. reflexivity.
  Qed.

  Lemma fold_X_secs body : forall ss, l_secs (s_st (fold_left X body ss)) = l_secs (s_st ss).
  Proof. induction body as [|s r IH]; intro ss; simpl; [reflexivity|]. rewrite IH. apply X_secs. Qed.

  Lemma fold_X_dot body : forall ss, l_dot (s_st (fold_left X body ss)) = l_dot (s_st ss).
  Proof. induction body as [|s r IH]; intro ss; simpl; [reflexivity|]. rewrite IH. apply X_dot. Qed.

  Lemma fold_X_discarded body : forall ss, l_discarded (s_st (fold_left X body ss)) = l_discarded (s_st ss).
  Proof. induction body as [|s r IH]; intro ss; simpl; [reflexivity|]. rewrite IH. apply X_discarded. Qed.

  (* ---------- placing ---------- *)

  (* the placements made by one input statement: in link order, at non-decreasing addresses between
     the offset before and the offset after, one per selected section *)
  Lemma place_sorted l : forall off acc c off' acc' c',
    nonneg_sizes l ->
    place vma sub outsec l off acc c = (off', acc', c') ->
    off <= off' /\
    exists new, acc' = acc ++ new /\ map pl_marker new = map u_marker l /\
      Forall (fun p => vma + off <= pl_addr p /\ pl_addr p <= vma + off' /\ pl_outsec p = outsec) new /\
      StronglySorted Z.le (map pl_addr new).
  Proof.
    induction l as [|u r IH]; intros off acc c off' acc' c' Hs H; simpl in H.
    - inversion H; subst. split; [lia|]. exists []. rewrite app_nil_r. repeat split; constructor.
    - inversion Hs as [|? ? Hu Hr]; subst.
      set (a := match sub with Some s => s | None => u_align u end) in *.
      set (addr := align_up (vma + off) a) in *.
      assert (Ha : vma + off <= addr) by apply align_up_le.
      specialize (IH _ _ _ _ _ _ Hr H). destruct IH as [Hle [new [Hacc [Hmk [Hall Hsorted]]]]].
      split; [lia|].
      exists (Placement (u_marker u) addr outsec :: new). rewrite Hacc, <- app_assoc. simpl.
      split; [reflexivity|]. split; [rewrite Hmk; reflexivity|]. split.
      + constructor.
        * simpl. repeat split; lia.
        * eapply Forall_impl; [|exact Hall]. intros p [H1 [H2 H3]]. simpl in *. repeat split; try lia; assumption.
      + constructor; [assumption|]. apply Forall_forall. intros x Hx. apply in_map_iff in Hx.
        destruct Hx as [p [Ep Hp]]. subst x. rewrite Forall_forall in Hall. specialize (Hall p Hp). lia.
  Qed.

  (* what one statement does to the offset, the universe and the placements *)
  Definition sec_post (ss ss' : sstate) : Prop :=
    s_off ss <= s_off ss' /\
    nonneg_sizes (l_remaining (s_st ss')) /\
    exists new, l_placed (s_st ss') = l_placed (s_st ss) ++ new /\
      Forall (fun p => vma + s_off ss <= pl_addr p /\ pl_addr p <= vma + s_off ss' /\ pl_outsec p = outsec) new /\
      StronglySorted Z.le (map pl_addr new).

  Lemma sec_post_refl_gen ss ss' :
    s_off ss <= s_off ss' -> l_placed (s_st ss') = l_placed (s_st ss) ->
    nonneg_sizes (l_remaining (s_st ss')) -> sec_post ss ss'.
  Proof.
    intros H1 H2 H3. split; [assumption|]. split; [assumption|]. exists []. rewrite app_nil_r.
    repeat split; try assumption; constructor.
  Qed.

  Lemma sec_step ss s : nonneg_sizes (l_remaining (s_st ss)) -> sec_post ss (X ss s).
  Proof.
    intro Hn.
    destruct s as [t| |p h rc sym e|sym n|sym other|sec|n|n|kp path member sect wild|nm addr at_ nl sb body
                   |sect|pats wild|body|e|e|c m];
      try (apply sec_post_refl_gen; simpl; [lia | reflexivity | assumption]).
    - (* SAssign *)
      apply sec_post_refl_gen; simpl; [lia | apply assign_placed | rewrite assign_remaining; assumption].
    - (* SAlign *)
      unfold X. simpl. destruct (String.eqb sym ".").
      + apply sec_post_refl_gen; simpl; [apply align_up_le | reflexivity | assumption].
      + apply sec_post_refl_gen; [lia | reflexivity | assumption].
    - (* SInput *)
      unfold X. simpl.
      destruct (place vma sub outsec (filter (sel false path member sect wild) (l_remaining (s_st ss)))
                      (s_off ss) [] (s_contents ss)) as [[off' pls] c] eqn:E.
      apply place_sorted in E; [|apply Forall_filter; assumption].
      destruct E as [Hle [new [Hacc [_ [Hall Hsorted]]]]]. simpl in Hacc. subst pls.
      split; [exact Hle|]. split; [simpl; apply Forall_filter; assumption|].
      exists new. simpl. repeat split; assumption.
  Qed.

  Lemma sec_post_trans a b c : sec_post a b -> sec_post b c -> sec_post a c.
  Proof.
    intros [L1 [N1 [new1 [P1 [R1 S1]]]]] [L2 [N2 [new2 [P2 [R2 S2]]]]].
    split; [lia|]. split; [assumption|]. exists (new1 ++ new2). rewrite P2, P1, app_assoc.
    split; [reflexivity|]. split.
    - apply Forall_app; split; (eapply Forall_impl; [|eassumption]); intros p [H1 [H2 H3]]; repeat split;
        try lia; assumption.
    - rewrite map_app. apply (sorted_app _ _ (vma + s_off b)); try assumption.
      + apply Forall_forall. intros x Hx. apply in_map_iff in Hx. destruct Hx as [p [Ep Hp]]. subst.
        rewrite Forall_forall in R1. specialize (R1 p Hp). lia.
      + apply Forall_forall. intros x Hx. apply in_map_iff in Hx. destruct Hx as [p [Ep Hp]]. subst.
        rewrite Forall_forall in R2. specialize (R2 p Hp). lia.
  Qed.

  Lemma sec_fold body : forall ss,
    nonneg_sizes (l_remaining (s_st ss)) -> sec_post ss (fold_left X body ss).
  Proof.
    induction body as [|s r IH]; intros ss Hn; simpl.
    - apply sec_post_refl_gen; [lia | reflexivity | assumption].
    - pose proof (sec_step ss s Hn) as H1. eapply sec_post_trans; [exact H1|].
      apply IH. destruct H1 as [_ [H1 _]]. exact H1.
  Qed.
End InSection.

(* ====================================================================== *)
(* end / size pairs                                                        *)
(* ====================================================================== *)

(* the two assignments of sym_end_size, on the layout state: `end_ = value; size = ABSOLUTE(end_ - start)` *)
Lemma sym_end_size_lstate env senv ext final start end_ size value st here here' s v :
  eval_expr env senv ext st here value = Ok v ->
  sym_lookup start st env ext = Some s ->
  assign ext final false size
         (eval_expr env senv ext
                    (assign ext final false end_ (eval_expr env senv ext st here value) (render_expr value) st)
                    here' (EAbsSub end_ start))
         (render_expr (EAbsSub end_ start))
         (assign ext final false end_ (eval_expr env senv ext st here value) (render_expr value) st) =
  set_sym size (v - (if String.eqb start end_ then v else s)) false (set_sym end_ v false st).
Proof.
  intros Hv Hs. rewrite Hv, assign_ok. cbn [eval_expr].
  rewrite sym_lookup_set_sym_same.
  destruct (String.eqb start end_) eqn:E.
  - apply String.eqb_eq in E. subst. rewrite sym_lookup_set_sym_same. apply assign_ok.
  - apply String.eqb_neq in E. rewrite sym_lookup_set_sym_other by congruence. rewrite Hs. apply assign_ok.
Qed.

Lemma lookup_two_same size end_ vs ve st : lookup size (l_syms (set_sym size vs false (set_sym end_ ve false st))) = Some vs.
Proof. apply lookup_set_sym_same. Qed.

Lemma lookup_two_end size end_ vs ve st :
  size <> end_ -> lookup end_ (l_syms (set_sym size vs false (set_sym end_ ve false st))) = Some ve.
Proof. intro H. rewrite lookup_set_sym_other by assumption. apply lookup_set_sym_same. Qed.

Lemma lookup_two_other size end_ vs ve st x :
  x <> end_ -> x <> size ->
  lookup x (l_syms (set_sym size vs false (set_sym end_ ve false st))) = lookup x (l_syms st).
Proof. intros H1 H2. rewrite !lookup_set_sym_other by congruence. reflexivity. Qed.

(* ====================================================================== *)
(* group symbols inside an output section                                  *)
(* ====================================================================== *)

Section GroupSyms.
  Variables env ext : list (string * Z).
  Variable senv : list osec.
  Variable final : bool.
  Variable vma : Z.
  Variable sub : option Z.
  Variable outsec : string.

  Local Notation X := (exec_sec_stmt env senv ext final vma sub outsec).

  (* C05: size = end - start, inside a section *)
  Lemma sec_sym_end_size start end_ size value ss s v :
    eval_expr env senv ext (s_st ss) (vma + s_off ss) value = Ok v ->
    sym_lookup start (s_st ss) env ext = Some s ->
    fold_left X (sym_end_size start end_ size value) ss =
    SState (s_off ss) (s_contents ss)
           (set_sym size (v - (if String.eqb start end_ then v else s)) false (set_sym end_ v false (s_st ss))).
  Proof.
    intros Hv Hs. unfold sym_end_size, linker_symbol. cbn [fold_left exec_sec_stmt s_off s_contents s_st].
    f_equal. apply sym_end_size_lstate; assumption.
  Qed.

  Lemma group_start_exec rt sty cfg seg section ss :
    section_syms cfg = true ->
    exists st',
      fold_left X (section_symbol_start rt sty cfg seg section) ss =
      SState (opt_aligned (lookup section (sections_start_alignment seg))
                          (opt_aligned (section_start_align seg) (s_off ss))) (s_contents ss) st' /\
      lookup (segment_section_start sty (sg_name seg) section) (l_syms st') =
      Some (vma + opt_aligned (lookup section (sections_start_alignment seg))
                              (opt_aligned (section_start_align seg) (s_off ss))) /\
      l_placed st' = l_placed (s_st ss) /\ l_remaining st' = l_remaining (s_st ss).
  Proof.
    intro Hc. unfold section_symbol_start. rewrite Hc. rewrite !fold_X_app, !exec_opt_align.
    cbn [s_off s_contents s_st].
    destruct (exec_gp env ext senv final vma sub outsec rt seg section
                (SState (opt_aligned (lookup section (sections_start_alignment seg))
                                     (opt_aligned (section_start_align seg) (s_off ss))) (s_contents ss) (s_st ss)))
      as [st1 [E [Hp [Hr _]]]].
    rewrite E. cbn [fold_left]. rewrite exec_linker_symbol_dot. cbn [s_off s_contents s_st] in *.
    eexists. split; [reflexivity|]. split; [apply lookup_set_sym_same|]. simpl. auto.
  Qed.

  Lemma group_end_exec sty cfg seg section ss :
    section_syms cfg = true ->
    exists st',
      fold_left X (section_symbol_end sty cfg seg section) ss =
      SState (opt_aligned (lookup section (sections_end_alignment seg))
                          (opt_aligned (section_end_align seg) (s_off ss))) (s_contents ss) st' /\
      lookup (segment_section_end sty (sg_name seg) section) (l_syms st') =
      Some (vma + opt_aligned (lookup section (sections_end_alignment seg))
                              (opt_aligned (section_end_align seg) (s_off ss))) /\
      (forall s, sym_lookup (segment_section_start sty (sg_name seg) section) (s_st ss) env ext = Some s ->
                 lookup (segment_section_size sty (sg_name seg) section) (l_syms st') =
                 Some (vma + opt_aligned (lookup section (sections_end_alignment seg))
                                         (opt_aligned (section_end_align seg) (s_off ss)) - s)) /\
      (forall x, x <> segment_section_end sty (sg_name seg) section ->
                 x <> segment_section_size sty (sg_name seg) section ->
                 lookup x (l_syms st') = lookup x (l_syms (s_st ss)) \/
                 sym_lookup (segment_section_start sty (sg_name seg) section) (s_st ss) env ext = None) /\
      l_placed st' = l_placed (s_st ss) /\ l_remaining st' = l_remaining (s_st ss).
  Proof.
    intro Hc. unfold section_symbol_end. rewrite Hc. rewrite !fold_X_app, !exec_opt_align.
    cbn [s_off s_contents s_st].
    set (off' := opt_aligned (lookup section (sections_end_alignment seg))
                             (opt_aligned (section_end_align seg) (s_off ss))).
    set (START := segment_section_start sty (sg_name seg) section).
    set (END_ := segment_section_end sty (sg_name seg) section).
    set (SIZE := segment_section_size sty (sg_name seg) section).
    destruct (sym_lookup START (s_st ss) env ext) as [s|] eqn:Es.
    - rewrite (sec_sym_end_size START END_ SIZE EDot (SState off' (s_contents ss) (s_st ss)) s (vma + off'));
        [|reflexivity|exact Es].
      cbn [s_off s_contents s_st]. eexists. split; [reflexivity|].
      assert (Hse : String.eqb START END_ = false) by (apply String.eqb_neq; apply sec_start_neq_end).
      rewrite Hse. split; [|split; [|split]].
      + apply lookup_two_end. intro E. symmetry in E. revert E. apply sec_end_neq_size.
      + intros s0 E0. inversion E0; subst. apply lookup_two_same.
      + intros x H1 H2. left. apply lookup_two_other; assumption.
      + simpl. auto.
    - unfold sym_end_size, linker_symbol. cbn [fold_left exec_sec_stmt s_off s_contents s_st].
      change (eval_expr env senv ext (s_st ss) (vma + off') EDot) with (@Ok Z (vma + off')).
      rewrite assign_ok. eexists. split; [reflexivity|]. split; [|split; [|split]].
      + rewrite lookup_assign_other; [apply lookup_set_sym_same|].
        intro E. symmetry in E. revert E. apply sec_end_neq_size.
      + intros s0 E0. discriminate.
      + intros x H1 H2. right. reflexivity.
      + rewrite assign_placed, assign_remaining. simpl. auto.
  Qed.
End GroupSyms.

(* the conclusions about the offset reached, shared by start and end, relative and absolute *)
Lemma opt_aligned_facts (A B : option N) x :
  x <= opt_aligned B (opt_aligned A x) /\
  (forall b, B = Some b -> (0 < b)%N -> (Z.of_N b | opt_aligned B (opt_aligned A x))) /\
  (forall a, A = Some a -> (0 < a)%N ->
             (forall b, B = Some b -> compatible (Z.of_N a) (Z.of_N b)) ->
             (Z.of_N a | opt_aligned B (opt_aligned A x))).
Proof.
  split; [|split].
  - pose proof (opt_aligned_le A x). pose proof (opt_aligned_le B (opt_aligned A x)). lia.
  - intros b E Hb. apply opt_aligned_second; assumption.
  - intros a E Ha Hc. apply opt_aligned_first; assumption.
Qed.

Lemma group_start_aligned env senv ext final vma sub outsec rt sty cfg seg section ss :
  section_syms cfg = true ->
  let ss' := fold_left (exec_sec_stmt env senv ext final vma sub outsec)
                       (section_symbol_start rt sty cfg seg section) ss in
  lookup (segment_section_start sty (sg_name seg) section) (l_syms (s_st ss')) = Some (vma + s_off ss') /\
  s_off ss <= s_off ss' /\
  (forall b, lookup section (sections_start_alignment seg) = Some b -> (0 < b)%N -> (Z.of_N b | s_off ss')) /\
  (forall a, section_start_align seg = Some a -> (0 < a)%N ->
             (forall b, lookup section (sections_start_alignment seg) = Some b ->
                        compatible (Z.of_N a) (Z.of_N b)) ->
             (Z.of_N a | s_off ss')).
Proof.
  intros Hc ss'.
  destruct (group_start_exec env ext senv final vma sub outsec rt sty cfg seg section ss Hc)
    as [st' [E [Hl _]]].
  subst ss'. rewrite E. cbn [s_off s_st]. split; [exact Hl|]. apply opt_aligned_facts.
Qed.

Lemma group_end_aligned env senv ext final vma sub outsec sty cfg seg section ss :
  section_syms cfg = true ->
  let ss' := fold_left (exec_sec_stmt env senv ext final vma sub outsec)
                       (section_symbol_end sty cfg seg section) ss in
  lookup (segment_section_end sty (sg_name seg) section) (l_syms (s_st ss')) = Some (vma + s_off ss') /\
  s_off ss <= s_off ss' /\
  (forall b, lookup section (sections_end_alignment seg) = Some b -> (0 < b)%N -> (Z.of_N b | s_off ss')) /\
  (forall a, section_end_align seg = Some a -> (0 < a)%N ->
             (forall b, lookup section (sections_end_alignment seg) = Some b ->
                        compatible (Z.of_N a) (Z.of_N b)) ->
             (Z.of_N a | s_off ss')) /\
  (forall s, sym_lookup (segment_section_start sty (sg_name seg) section) (s_st ss) env ext = Some s ->
             lookup (segment_section_size sty (sg_name seg) section) (l_syms (s_st ss')) =
             Some (vma + s_off ss' - s)).
Proof.
  intros Hc ss'.
  destruct (group_end_exec env ext senv final vma sub outsec sty cfg seg section ss Hc)
    as [st' [E [Hl [Hsz _]]]].
  subst ss'. rewrite E. cbn [s_off s_st]. split; [exact Hl|].
  pose proof (opt_aligned_facts (section_end_align seg) (lookup section (sections_end_alignment seg)) (s_off ss))
    as [F1 [F2 F3]].
  repeat split; assumption.
Qed.

(* ====================================================================== *)
(* the same statements at the top level (single-segment mode, segment symbols) *)
(* ====================================================================== *)

Section TopLevelExec.
  Variables env ext : list (string * Z).
  Variable senv : list osec.
  Variable final : bool.

  Local Notation T := (exec_top_stmt env senv ext final).

  Lemma fold_T_app a b st : fold_left T (a ++ b) st = fold_left T b (fold_left T a st).
  Proof. apply fold_left_app. Qed.

  Lemma top_opt_align a st : fold_left T (opt_align a) st = set_dot (opt_aligned a (l_dot st)) st.
  Proof. destruct st, a; reflexivity. Qed.

  Lemma top_linker_symbol sym e st :
    String.eqb sym "." = false ->
    T st (linker_symbol sym e) = assign ext final false sym (eval_expr env senv ext st (l_dot st) e) (render_expr e) st.
  Proof. intro H. unfold linker_symbol. cbn [exec_top_stmt]. rewrite H. reflexivity. Qed.

  Lemma top_gp rt seg section st :
    exists st', fold_left T (gp_stmt rt seg section) st = st' /\ l_dot st' = l_dot st /\
                l_placed st' = l_placed st /\ l_remaining st' = l_remaining st /\
                forall x, x <> "_gp" -> lookup x (l_syms st') = lookup x (l_syms st).
  Proof.
    unfold gp_stmt. destruct (sg_gp_info seg) as [g|].
    - destruct (should_emit rt (gp_conds g) && String.eqb (gp_section g) section)%bool.
      + cbn [fold_left exec_top_stmt]. change (String.eqb "_gp" ".") with false. cbv iota.
        eexists. split; [reflexivity|]. rewrite assign_dot, assign_placed, assign_remaining.
        repeat split. intros x Hx. apply lookup_assign_other. congruence.
      + eexists. split; [reflexivity|]. auto.
    - eexists. split; [reflexivity|]. auto.
  Qed.

  (* C05: size = end - start, at the top level *)
  Lemma top_sym_end_size start end_ size value st s v :
    String.eqb end_ "." = false -> String.eqb size "." = false ->
    eval_expr env senv ext st (l_dot st) value = Ok v ->
    sym_lookup start st env ext = Some s ->
    fold_left T (sym_end_size start end_ size value) st =
    set_sym size (v - (if String.eqb start end_ then v else s)) false (set_sym end_ v false st).
  Proof.
    intros He Hz Hv Hs. unfold sym_end_size. cbn [fold_left].
    rewrite (top_linker_symbol end_ value st He).
    rewrite top_linker_symbol by exact Hz.
    apply sym_end_size_lstate; assumption.
  Qed.

  Lemma top_group_start rt sty cfg seg section st :
    section_syms cfg = true ->
    exists st',
      fold_left T (section_symbol_start rt sty cfg seg section) st = st' /\
      l_dot st' = opt_aligned (lookup section (sections_start_alignment seg))
                              (opt_aligned (section_start_align seg) (l_dot st)) /\
      lookup (segment_section_start sty (sg_name seg) section) (l_syms st') = Some (l_dot st') /\
      l_placed st' = l_placed st /\ l_remaining st' = l_remaining st.
  Proof.
    intro Hc. unfold section_symbol_start. rewrite Hc. rewrite !fold_T_app, !top_opt_align.
    destruct (top_gp rt seg section
                (set_dot (opt_aligned (lookup section (sections_start_alignment seg))
                                      (l_dot (set_dot (opt_aligned (section_start_align seg) (l_dot st)) st)))
                         (set_dot (opt_aligned (section_start_align seg) (l_dot st)) st)))
      as [st1 [E [Hd [Hp [Hr _]]]]].
    rewrite E. cbn [fold_left]. rewrite top_linker_symbol by apply eqb_dot_sec_start.
    cbn [eval_expr]. rewrite assign_ok. eexists. split; [reflexivity|].
    rewrite set_sym_dot, lookup_set_sym_same, Hd. simpl. auto.
  Qed.

  Lemma top_group_end sty cfg seg section st s :
    section_syms cfg = true ->
    sym_lookup (segment_section_start sty (sg_name seg) section) st env ext = Some s ->
    exists st',
      fold_left T (section_symbol_end sty cfg seg section) st = st' /\
      l_dot st' = opt_aligned (lookup section (sections_end_alignment seg))
                              (opt_aligned (section_end_align seg) (l_dot st)) /\
      lookup (segment_section_end sty (sg_name seg) section) (l_syms st') = Some (l_dot st') /\
      lookup (segment_section_size sty (sg_name seg) section) (l_syms st') = Some (l_dot st' - s) /\
      l_placed st' = l_placed st /\ l_remaining st' = l_remaining st.
  Proof.
    intros Hc Hs. unfold section_symbol_end. rewrite Hc. rewrite !fold_T_app, !top_opt_align.
    set (d' := opt_aligned (lookup section (sections_end_alignment seg))
                           (l_dot (set_dot (opt_aligned (section_end_align seg) (l_dot st)) st))).
    rewrite (top_sym_end_size _ _ _ EDot _ s d');
      [| apply eqb_dot_sec_end | apply eqb_dot_sec_size | reflexivity | exact Hs].
    assert (Hse : String.eqb (segment_section_start sty (sg_name seg) section)
                             (segment_section_end sty (sg_name seg) section) = false)
      by (apply String.eqb_neq; apply sec_start_neq_end).
    rewrite Hse. eexists. split; [reflexivity|]. split; [reflexivity|]. split; [|split].
    - apply lookup_two_end. intro E. symmetry in E. revert E. apply sec_end_neq_size.
    - apply lookup_two_same.
    - simpl. auto.
  Qed.

  (* ---------- segment start: ROM and "." ---------- *)

  Lemma top_segment_align_start sty name a st v :
    sym_lookup "__romPos" st env ext = Some v ->
    exists st',
      fold_left T (segment_align_stmts (Some a) ++
                   [linker_symbol (segment_rom_start sty name) (ESym "__romPos")]) st = st' /\
      lookup (segment_rom_start sty name) (l_syms st') = Some (align_up v (Z.of_N a)) /\
      lookup "__romPos" (l_syms st') = Some (align_up v (Z.of_N a)) /\
      l_dot st' = align_up (l_dot st) (Z.of_N a).
  Proof.
    intro Hv. cbn [segment_align_stmts app fold_left].
    assert (E1 : T st (SAlign "__romPos" a) = set_sym "__romPos" (align_up v (Z.of_N a)) false st).
    { cbn [exec_top_stmt]. change (String.eqb "__romPos" ".") with false. cbv iota. rewrite Hv. reflexivity. }
    rewrite E1.
    assert (E2 : forall st0, T st0 (SAlign "." a) = set_dot (align_up (l_dot st0) (Z.of_N a)) st0) by reflexivity.
    rewrite E2. rewrite top_linker_symbol by apply eqb_dot_rom_start.
    cbn [eval_expr]. unfold sym_lookup at 1. cbn [l_syms set_dot set_sym lookup].
    change (String.eqb "__romPos" "__romPos") with true. cbv iota. rewrite assign_ok.
    eexists. split; [reflexivity|]. split; [apply lookup_set_sym_same|]. split; [|reflexivity].
    rewrite lookup_set_sym_other by apply rom_start_neq_rompos. cbn [l_syms set_dot set_sym lookup].
    reflexivity.
  Qed.

  (* ---------- segment end: VRAM_END, ROM_END ---------- *)

  Lemma top_segment_align_end sty name (a : option N) st v sv sr :
    sym_lookup "__romPos" st env ext = Some v ->
    sym_lookup (segment_vram_start sty name) st env ext = Some sv ->
    sym_lookup (segment_rom_start sty name) st env ext = Some sr ->
    exists st',
      fold_left T (segment_align_stmts a ++
                   sym_end_size (segment_vram_start sty name) (segment_vram_end sty name)
                                (segment_vram_size sty name) EDot ++
                   sym_end_size (segment_rom_start sty name) (segment_rom_end sty name)
                                (segment_rom_size sty name) (ESym "__romPos")) st = st' /\
      l_dot st' = opt_aligned a (l_dot st) /\
      lookup (segment_vram_end sty name) (l_syms st') = Some (opt_aligned a (l_dot st)) /\
      lookup (segment_vram_size sty name) (l_syms st') = Some (opt_aligned a (l_dot st) - sv) /\
      lookup (segment_rom_end sty name) (l_syms st') = Some (opt_aligned a v) /\
      lookup (segment_rom_size sty name) (l_syms st') = Some (opt_aligned a v - sr).
  Proof.
    intros Hv Hsv Hsr. rewrite !fold_T_app.
    assert (Hpre : exists st1, fold_left T (segment_align_stmts a) st = st1 /\
                     l_dot st1 = opt_aligned a (l_dot st) /\
                     sym_lookup "__romPos" st1 env ext = Some (opt_aligned a v) /\
                     (forall x, x <> "__romPos" -> sym_lookup x st1 env ext = sym_lookup x st env ext)).
    { destruct a as [n|]; cbn [segment_align_stmts fold_left opt_aligned].
      - assert (E1 : T st (SAlign "__romPos" n) = set_sym "__romPos" (align_up v (Z.of_N n)) false st).
        { cbn [exec_top_stmt]. change (String.eqb "__romPos" ".") with false. cbv iota. rewrite Hv. reflexivity. }
        rewrite E1. eexists. split; [reflexivity|]. split; [reflexivity|]. split.
        + reflexivity.
        + intros x Hx. unfold sym_lookup. cbn [l_syms set_dot set_sym lookup exec_top_stmt].
          change (String.eqb "." ".") with true. cbv iota. cbn [l_syms set_dot set_sym lookup].
          destruct (String.eqb x "__romPos") eqn:E; [apply String.eqb_eq in E; contradiction | reflexivity].
      - eexists. split; [reflexivity|]. auto. }
    destruct Hpre as [st1 [E1 [Hd1 [Hr1 Ho1]]]]. rewrite E1.
    assert (Hsv1 : sym_lookup (segment_vram_start sty name) st1 env ext = Some sv).
    { rewrite Ho1 by apply vram_start_neq_rompos. exact Hsv. }
    assert (Hsr1 : sym_lookup (segment_rom_start sty name) st1 env ext = Some sr).
    { rewrite Ho1 by apply rom_start_neq_rompos. exact Hsr. }
    rewrite (top_sym_end_size _ _ _ EDot st1 sv (l_dot st1));
      [| apply eqb_dot_vram_end | apply eqb_dot_vram_size | reflexivity | exact Hsv1 ].
    assert (Hse : String.eqb (segment_vram_start sty name) (segment_vram_end sty name) = false)
      by (apply String.eqb_neq; apply vram_start_neq_end).
    rewrite Hse.
    set (st2 := set_sym (segment_vram_size sty name) (l_dot st1 - sv) false
                        (set_sym (segment_vram_end sty name) (l_dot st1) false st1)).
    assert (Hr2 : sym_lookup "__romPos" st2 env ext = Some (opt_aligned a v)).
    { unfold st2. rewrite !sym_lookup_set_sym_other; [exact Hr1 | apply vram_end_neq_rompos | apply vram_size_neq_rompos]. }
    assert (Hsr2 : sym_lookup (segment_rom_start sty name) st2 env ext = Some sr).
    { unfold st2. rewrite !sym_lookup_set_sym_other; [exact Hsr1 | apply vram_end_neq_rom_start | apply vram_size_neq_rom_start]. }
    rewrite (top_sym_end_size _ _ _ (ESym "__romPos") st2 sr (opt_aligned a v));
      [| apply eqb_dot_rom_end | apply eqb_dot_rom_size | cbn [eval_expr]; rewrite Hr2; reflexivity | exact Hsr2 ].
    assert (Hse2 : String.eqb (segment_rom_start sty name) (segment_rom_end sty name) = false)
      by (apply String.eqb_neq; apply rom_start_neq_end).
    rewrite Hse2. eexists. split; [reflexivity|]. rewrite <- Hd1.
    split; [reflexivity|]. split; [|split; [|split]].
    - rewrite lookup_two_other; [unfold st2; apply lookup_two_end | apply vram_end_neq_rom_end | apply vram_end_neq_rom_size].
      intro E. symmetry in E. revert E. apply vram_end_neq_size.
    - rewrite lookup_two_other; [unfold st2; apply lookup_two_same | apply vram_size_neq_rom_end | apply vram_size_neq_rom_size].
    - apply lookup_two_end. intro E. symmetry in E. revert E. apply rom_end_neq_size.
    - apply lookup_two_same.
  Qed.
End TopLevelExec.

(* ====================================================================== *)
(* output sections                                                         *)
(* ====================================================================== *)

Lemma fold_max_ge (sub : option Z) chosen : forall acc,
  acc <= fold_left (fun m u => Z.max (Z.max m (u_align u)) (match sub with Some s => s | None => 1 end)) chosen acc.
Proof.
  induction chosen as [|u r IH]; intro acc; simpl; [lia|].
  eapply Z.le_trans; [|apply IH]. lia.
Qed.

Lemma body_align_ge sub body : forall rem acc, acc <= body_align sub body rem acc.
Proof.
  induction body as [|s r IH]; intros rem acc; [simpl; lia|].
  destruct s; try (simpl; apply IH).
  simpl. eapply Z.le_trans; [|apply IH]. apply fold_max_ge.
Qed.

(* the start address ld gives to the output section *)
Definition outsec_vma env senv ext (addr : option expr) (sub : option N) (body : list stmt) (st : lstate) : res Z :=
  match addr with
  | Some e => eval_expr env senv ext st (l_dot st) e
  | None => Ok (align_up (l_dot st) (body_align (option_map Z.of_N sub) body (l_remaining st) 1))
  end.

Lemma exec_outsec_err env senv ext final name addr at_ noload sub body st e :
  outsec_vma env senv ext addr sub body st = Err e ->
  exec_outsec env senv ext final name addr at_ noload sub body st = add_err (LForwardRef name) st.
Proof. unfold outsec_vma, exec_outsec. cbv zeta. intro H. rewrite H. reflexivity. Qed.

Lemma exec_outsec_ok env senv ext final name addr at_ noload sub body st vma :
  outsec_vma env senv ext addr sub body st = Ok vma ->
  let ss := fold_left (exec_sec_stmt env senv ext final vma (option_map Z.of_N sub) name) body (SState 0 false st) in
  let st' := exec_outsec env senv ext final name addr at_ noload sub body st in
  l_dot st' = vma + s_off ss /\ l_placed st' = l_placed (s_st ss) /\ l_remaining st' = l_remaining (s_st ss) /\
  l_syms st' = l_syms (s_st ss) /\ l_discarded st' = l_discarded st /\
  exists lma, l_secs st' = l_secs st ++ [OSec name vma (s_off ss) lma noload (s_contents ss && negb noload)].
Proof.
  unfold outsec_vma, exec_outsec. cbv zeta. intro H. rewrite H.
  set (ss := fold_left (exec_sec_stmt env senv ext final vma (option_map Z.of_N sub) name) body (SState 0 false st)).
  destruct ((is_some addr && Nat.eqb (List.length (l_placed (s_st ss))) (List.length (l_placed st)) &&
             negb (existsb (fun s => match s with SAssign _ _ _ _ _ => true | _ => false end) body)
             || match addr with Some e => negb (addr_strict ext st e) | None => false end)%bool);
    cbn [l_dot l_placed l_remaining l_syms l_discarded l_secs add_err];
    (repeat split; try reflexivity;
     [ unfold ss; rewrite fold_X_discarded; reflexivity
     | eexists; unfold ss at 1; rewrite fold_X_secs; reflexivity ]).
Qed.

(* C09: an output section without address expression starts at the location counter aligned to the
   strictest alignment among its input sections (and SUBALIGN) *)
Lemma default_vram env senv ext final name at_ noload sub body st sa :
  let A := body_align (option_map Z.of_N sub) body (l_remaining st) 1 in
  let st' := exec_outsec env senv ext final name None at_ noload sub body st in
  exists o, l_secs st' = l_secs st ++ [o] /\ os_name o = name /\ os_vma o = align_up (l_dot st) A /\
            1 <= A /\ l_dot st <= os_vma o /\
            (0 < sa -> (sa | l_dot st) -> compatible sa A -> (sa | os_vma o)).
Proof.
  intros A st'.
  destruct (exec_outsec_ok env senv ext final name None at_ noload sub body st (align_up (l_dot st) A) eq_refl)
    as [_ [_ [_ [_ [_ [lma E]]]]]].
  eexists. split; [exact E|]. split; [reflexivity|]. split; [reflexivity|].
  assert (HA : 1 <= A) by apply body_align_ge.
  split; [exact HA|]. split; [apply align_up_le|]. cbn [os_vma].
  intros Hsa Hd [Hc|Hc].
  - eapply Z.divide_trans; [exact Hc|]. apply align_up_divide. lia.
  - rewrite align_up_fix; [exact Hd | lia |]. eapply Z.divide_trans; [exact Hc | exact Hd].
Qed.

(* ---------- SUBALIGN ---------- *)

Section SubAlign.
  Variables env ext : list (string * Z).
  Variable senv : list osec.
  Variable final : bool.
  Variable vma : Z.
  Variable s : Z.
  Variable outsec : string.
  Hypothesis Hs : 0 < s.

  Local Notation X := (exec_sec_stmt env senv ext final vma (Some s) outsec).

  Lemma sub_step ss stm :
    exists new, l_placed (s_st (X ss stm)) = l_placed (s_st ss) ++ new /\ Forall (fun p => (s | pl_addr p)) new.
  Proof.
    destruct stm as [t| |p h rc sym e|sym n|sym other|sec|n|n|kp path member sect wild|nm addr at_ nl sb body
                     |sect|pats wild|body|e|e|c m];
      try (exists []; rewrite app_nil_r; split; [reflexivity | constructor]).
    - exists []. rewrite app_nil_r. split; [apply assign_placed | constructor].
    - exists []. rewrite app_nil_r. split; [|constructor]. simpl. destruct (String.eqb sym "."); reflexivity.
    - simpl.
      destruct (place vma (Some s) outsec (filter (sel false path member sect wild) (l_remaining (s_st ss)))
                      (s_off ss) [] (s_contents ss)) as [[off' pls] c] eqn:E.
      apply place_subalign in E; [|exact Hs]. destruct E as [new [Hacc Hall]]. simpl in Hacc. subst pls.
      exists new. split; [reflexivity | assumption].
  Qed.

  Lemma sub_fold body : forall ss,
    exists new, l_placed (s_st (fold_left X body ss)) = l_placed (s_st ss) ++ new /\
                Forall (fun p => (s | pl_addr p)) new.
  Proof.
    induction body as [|stm r IH]; intro ss; simpl.
    - exists []. rewrite app_nil_r. split; [reflexivity | constructor].
    - destruct (IH (X ss stm)) as [new2 [E2 H2]]. destruct (sub_step ss stm) as [new1 [E1 H1]].
      exists (new1 ++ new2). rewrite E2, E1, app_assoc. split; [reflexivity|]. apply Forall_app; split; assumption.
  Qed.
End SubAlign.

Lemma subalign_outsec env senv ext final name addr at_ noload s body st :
  (0 < s)%N ->
  exists new, l_placed (exec_outsec env senv ext final name addr at_ noload (Some s) body st) = l_placed st ++ new /\
              Forall (fun p => (Z.of_N s | pl_addr p)) new.
Proof.
  intro Hs. destruct (outsec_vma env senv ext addr (Some s) body st) as [vma|e] eqn:E.
  - destruct (exec_outsec_ok env senv ext final name addr at_ noload (Some s) body st vma E) as [_ [Hp _]].
    rewrite Hp. cbn [option_map].
    apply (sub_fold env ext senv final vma (Z.of_N s) name ltac:(lia) body (SState 0 false st)).
  - rewrite (exec_outsec_err _ _ _ _ _ _ _ _ _ _ _ e E). exists []. rewrite app_nil_r.
    split; [reflexivity | constructor].
Qed.

(* ====================================================================== *)
(* no spurious alignment (script level)                                    *)
(* ====================================================================== *)

(* neither an ALIGN statement nor an output section *)
Definition plain_top (s : stmt) : Prop :=
  match s with SAlign _ _ | SOutSec _ _ _ _ _ _ => False | _ => True end.

Lemma plain_top_none l : Forall plain_top l -> aligns_of l = [] /\ outsec_subaligns l = [].
Proof.
  induction 1 as [|x r Hx Hr [IH1 IH2]]; [split; reflexivity|].
  unfold aligns_of, outsec_subaligns in *. simpl. rewrite IH1, IH2.
  destruct x; simpl in *; try contradiction; split; reflexivity.
Qed.

Lemma aligns_app a b : aligns_of (a ++ b) = aligns_of a ++ aligns_of b.
Proof. apply filter_app. Qed.

Lemma subaligns_app a b : outsec_subaligns (a ++ b) = outsec_subaligns a ++ outsec_subaligns b.
Proof. apply flat_map_app. Qed.

Ltac pt_leaf :=
  repeat match goal with
         | |- Forall _ (_ ++ _) => apply Forall_app; split
         | |- Forall _ (match ?x with _ => _ end) => destruct x
         | |- Forall _ (if ?x then _ else _) => destruct x
         | |- Forall _ (_ :: _) => constructor
         | |- Forall _ [] => constructor
         | |- plain_top _ => exact I
         end.

Lemma pt_gp rt seg section : Forall plain_top (gp_stmt rt seg section).
Proof. unfold gp_stmt. pt_leaf. Qed.

Lemma pt_kind_start sty cfg seg noload : Forall plain_top (sections_kind_start sty cfg seg noload).
Proof. unfold sections_kind_start. pt_leaf. Qed.

Lemma pt_kind_end sty cfg seg noload : Forall plain_top (sections_kind_end sty cfg seg noload).
Proof. unfold sections_kind_end, sym_end_size. pt_leaf. Qed.

Lemma pt_class_start st c cn : Forall plain_top (class_start_stmts st c cn).
Proof.
  unfold class_start_stmts. apply Forall_app; split; [|pt_leaf].
  destruct (vc_fixed_vram c); [pt_leaf|]. destruct (vc_fixed_symbol c); [pt_leaf|].
  constructor; [exact I|]. apply Forall_map_intro. intro x. exact I.
Qed.

Lemma aligns_opt_align a : aligns_of (opt_align a) = opt_align a.
Proof. destruct a; reflexivity. Qed.

Lemma aligns_section_start rt sty cfg seg section :
  aligns_of (section_symbol_start rt sty cfg seg section) =
  if section_syms cfg
  then opt_align (section_start_align seg) ++ opt_align (lookup section (sections_start_alignment seg))
  else [].
Proof.
  unfold section_symbol_start. destruct (section_syms cfg); [|reflexivity].
  rewrite !aligns_app, !aligns_opt_align.
  destruct (plain_top_none _ (pt_gp rt seg section)) as [E _]. rewrite E. simpl. rewrite app_nil_r. reflexivity.
Qed.

Lemma aligns_section_end sty cfg seg section :
  aligns_of (section_symbol_end sty cfg seg section) =
  if section_syms cfg
  then opt_align (section_end_align seg) ++ opt_align (lookup section (sections_end_alignment seg))
  else [].
Proof.
  unfold section_symbol_end. destruct (section_syms cfg); [|reflexivity].
  rewrite !aligns_app, !aligns_opt_align. simpl. rewrite app_nil_r. reflexivity.
Qed.

Lemma pt_emitter sty wild offs g : emitter sty wild offs g ->
  forall ws s ws', g ws = Ok (s, ws') -> Forall plain_top s.
Proof.
  apply (emitter_rel sty wild offs (fun _ s _ => Forall plain_top s)); intros; try (repeat constructor).
  apply Forall_app; split; assumption.
Qed.

Lemma pt_emit_section rt sty cfg seg sections base section ws s ws' :
  emit_section rt sty cfg seg sections base section ws = Ok (s, ws') -> Forall plain_top s.
Proof. apply (pt_emitter sty (wildcard_sections seg) (offs_of_segment rt seg)). apply emit_section_emitter. Qed.

Lemma write_segment_aligns rt st cfg seg sections noload ws s ws' :
  write_segment rt st cfg seg sections noload ws = Ok (s, ws') ->
  aligns_of s = [] /\ outsec_subaligns s = [subalign seg].
Proof.
  intro H. apply write_segment_inv in H. destruct H as [body [_ E]]. subst.
  rewrite !aligns_app, !subaligns_app.
  destruct (plain_top_none _ (pt_kind_start (linker_symbols_style st) cfg seg noload)) as [E1 E2].
  destruct (plain_top_none _ (pt_kind_end (linker_symbols_style st) cfg seg noload)) as [E3 E4].
  rewrite E1, E2, E3, E4. split; reflexivity.
Qed.

Lemma seg_head_aligns st seg :
  aligns_of (seg_head st seg) = segment_align_stmts (segment_start_align seg) /\ outsec_subaligns (seg_head st seg) = [].
Proof. unfold seg_head. destruct (segment_start_align seg); split; reflexivity. Qed.

Lemma seg_foot_aligns st seg :
  aligns_of (seg_foot st seg) = segment_align_stmts (segment_end_align seg) /\ outsec_subaligns (seg_foot st seg) = [].
Proof.
  unfold seg_foot. cbv zeta. destruct (segment_end_align seg); destruct (sg_vram_class seg); split; reflexivity.
Qed.

(* the ALIGN statements and SUBALIGN attributes of an emitted segment are exactly those requested *)
Lemma add_segment_aligns rt st cfg classes seg ws s ws' :
  add_segment rt st cfg classes seg ws = Ok (s, ws') ->
  should_emit rt (sg_conds seg) = true ->
  aligns_of s = segment_align_stmts (segment_start_align seg) ++ segment_align_stmts (segment_end_align seg) /\
  outsec_subaligns s = [subalign seg; subalign seg].
Proof.
  intros H Hinc. apply add_segment_inv in H.
  destruct H as [[Hex _] | [_ [cls [ws1 [s1 [ws2 [s2 [Ec [E1 [E2 E]]]]]]]]]]; [congruence|]. subst.
  assert (Hcls : aligns_of cls = [] /\ outsec_subaligns cls = []).
  { apply plain_top_none. apply class_part_inv in Ec.
    destruct Ec as [[E _] | [cn [c [_ [_ [_ [E _]]]]]]]; subst; [constructor | apply pt_class_start]. }
  destruct Hcls as [C1 C2].
  apply write_segment_aligns in E1. destruct E1 as [A1 B1].
  apply write_segment_aligns in E2. destruct E2 as [A2 B2].
  destruct (seg_head_aligns st seg) as [H1 H2]. destruct (seg_foot_aligns st seg) as [F1 F2].
  rewrite !aligns_app, !subaligns_app, C1, C2, A1, B1, A2, B2, H1, H2, F1, F2. split; reflexivity.
Qed.

Lemma opt_align_none : opt_align None = [].
Proof. reflexivity. Qed.

Lemma section_start_no_spurious rt sty cfg seg section :
  section_start_align seg = None -> lookup section (sections_start_alignment seg) = None ->
  aligns_of (section_symbol_start rt sty cfg seg section) = [].
Proof. intros H1 H2. rewrite aligns_section_start, H1, H2. destruct (section_syms cfg); reflexivity. Qed.

Lemma section_end_no_spurious sty cfg seg section :
  section_end_align seg = None -> lookup section (sections_end_alignment seg) = None ->
  aligns_of (section_symbol_end sty cfg seg section) = [].
Proof. intros H1 H2. rewrite aligns_section_end, H1, H2. destruct (section_syms cfg); reflexivity. Qed.

Lemma emit_section_no_align rt sty cfg seg sections base section ws s ws' :
  emit_section rt sty cfg seg sections base section ws = Ok (s, ws') -> aligns_of s = [].
Proof. intro H. apply pt_emit_section in H. apply plain_top_none in H. apply H. Qed.

Lemma no_spurious_opt : opt_align None = [] /\ segment_align_stmts None = [].
Proof. split; reflexivity. Qed.

Lemma no_spurious_group rt sty cfg seg section :
  aligns_of (section_symbol_start rt sty cfg seg section) =
  (if section_syms cfg
   then opt_align (section_start_align seg) ++ opt_align (lookup section (sections_start_alignment seg))
   else []) /\
  aligns_of (section_symbol_end sty cfg seg section) =
  (if section_syms cfg
   then opt_align (section_end_align seg) ++ opt_align (lookup section (sections_end_alignment seg))
   else []).
Proof. split; [apply aligns_section_start | apply aligns_section_end]. Qed.

Lemma no_spurious_group_none rt sty cfg seg section :
  (section_start_align seg = None -> lookup section (sections_start_alignment seg) = None ->
   aligns_of (section_symbol_start rt sty cfg seg section) = []) /\
  (section_end_align seg = None -> lookup section (sections_end_alignment seg) = None ->
   aligns_of (section_symbol_end sty cfg seg section) = []).
Proof. split; [apply section_start_no_spurious | apply section_end_no_spurious]. Qed.

(* ====================================================================== *)
(* the statements of Properties/C09.v                                      *)
(* ====================================================================== *)

Lemma top_group_start_aligned env senv ext final rt sty cfg seg section st :
  section_syms cfg = true ->
  let st' := fold_left (exec_top_stmt env senv ext final) (section_symbol_start rt sty cfg seg section) st in
  lookup (segment_section_start sty (sg_name seg) section) (l_syms st') = Some (l_dot st') /\
  l_dot st <= l_dot st' /\
  (forall b, lookup section (sections_start_alignment seg) = Some b -> (0 < b)%N -> (Z.of_N b | l_dot st')) /\
  (forall a, section_start_align seg = Some a -> (0 < a)%N ->
             (forall b, lookup section (sections_start_alignment seg) = Some b ->
                        compatible (Z.of_N a) (Z.of_N b)) ->
             (Z.of_N a | l_dot st')).
Proof.
  intros Hc st'.
  destruct (top_group_start env ext senv final rt sty cfg seg section st Hc) as [st1 [E [Hd [Hl _]]]].
  subst st'. rewrite E. split; [exact Hl|]. rewrite Hd. apply opt_aligned_facts.
Qed.

Lemma top_group_end_aligned env senv ext final sty cfg seg section st s :
  section_syms cfg = true ->
  sym_lookup (segment_section_start sty (sg_name seg) section) st env ext = Some s ->
  let st' := fold_left (exec_top_stmt env senv ext final) (section_symbol_end sty cfg seg section) st in
  lookup (segment_section_end sty (sg_name seg) section) (l_syms st') = Some (l_dot st') /\
  lookup (segment_section_size sty (sg_name seg) section) (l_syms st') = Some (l_dot st' - s) /\
  l_dot st <= l_dot st' /\
  (forall b, lookup section (sections_end_alignment seg) = Some b -> (0 < b)%N -> (Z.of_N b | l_dot st')) /\
  (forall a, section_end_align seg = Some a -> (0 < a)%N ->
             (forall b, lookup section (sections_end_alignment seg) = Some b ->
                        compatible (Z.of_N a) (Z.of_N b)) ->
             (Z.of_N a | l_dot st')).
Proof.
  intros Hc Hs st'.
  destruct (top_group_end env ext senv final sty cfg seg section st s Hc Hs) as [st1 [E [Hd [Hl [Hz _]]]]].
  subst st'. rewrite E. split; [exact Hl|]. split; [exact Hz|]. rewrite Hd. apply opt_aligned_facts.
Qed.

Lemma segment_start_aligned env senv ext final sty name a st v :
  (0 < a)%N ->
  sym_lookup "__romPos" st env ext = Some v ->
  let st' := fold_left (exec_top_stmt env senv ext final)
                       (segment_align_stmts (Some a) ++
                        [linker_symbol (segment_rom_start sty name) (ESym "__romPos")]) st in
  lookup (segment_rom_start sty name) (l_syms st') = Some (align_up v (Z.of_N a)) /\
  lookup "__romPos" (l_syms st') = Some (align_up v (Z.of_N a)) /\
  (Z.of_N a | align_up v (Z.of_N a)) /\
  l_dot st' = align_up (l_dot st) (Z.of_N a) /\ (Z.of_N a | l_dot st').
Proof.
  intros Ha Hv st'.
  destruct (top_segment_align_start env ext senv final sty name a st v Hv) as [st1 [E [H1 [H2 H3]]]].
  subst st'. rewrite E. split; [exact H1|]. split; [exact H2|]. split; [apply align_up_divide; lia|].
  split; [exact H3|]. rewrite H3. apply align_up_divide. lia.
Qed.

Lemma segment_end_aligned env senv ext final sty name a st v sv sr :
  sym_lookup "__romPos" st env ext = Some v ->
  sym_lookup (segment_vram_start sty name) st env ext = Some sv ->
  sym_lookup (segment_rom_start sty name) st env ext = Some sr ->
  let st' := fold_left (exec_top_stmt env senv ext final)
                       (segment_align_stmts a ++
                        sym_end_size (segment_vram_start sty name) (segment_vram_end sty name)
                                     (segment_vram_size sty name) EDot ++
                        sym_end_size (segment_rom_start sty name) (segment_rom_end sty name)
                                     (segment_rom_size sty name) (ESym "__romPos")) st in
  exists vend rend,
    lookup (segment_vram_end sty name) (l_syms st') = Some vend /\
    lookup (segment_rom_end sty name) (l_syms st') = Some rend /\
    lookup (segment_vram_size sty name) (l_syms st') = Some (vend - sv) /\
    lookup (segment_rom_size sty name) (l_syms st') = Some (rend - sr) /\
    l_dot st <= vend /\ v <= rend /\ l_dot st' = vend /\
    (forall n, a = Some n -> (0 < n)%N -> (Z.of_N n | vend) /\ (Z.of_N n | rend)) /\
    (a = None -> vend = l_dot st /\ rend = v).
Proof.
  intros Hv Hsv Hsr st'.
  destruct (top_segment_align_end env ext senv final sty name a st v sv sr Hv Hsv Hsr)
    as [st1 [E [Hd [H1 [H2 [H3 H4]]]]]].
  subst st'. rewrite E. exists (opt_aligned a (l_dot st)), (opt_aligned a v).
  repeat (split; [assumption|]). split; [apply opt_aligned_le|]. split; [apply opt_aligned_le|].
  split; [exact Hd|]. split.
  - intros n En Hn. subst a. cbn [opt_aligned]. split; apply align_up_divide; lia.
  - intro En. subst a. split; reflexivity.
Qed.
