(* C16 - to be filled *)
