(* C16 - proofs.  For every record kind: [serde_ok_X x && is_ok (parse_X x) = valid_X x] (the structural checks
   of serde followed by `unserialize` succeed exactly on the documented-valid inputs), assembled into
   [is_ok (parse d) = valid d] outside the two known classes.  For file entries the code is first characterised by
   the table as it applies it ([valid_file_lax], a null on a forbidden field passes); [valid_file] is that minus
   [file_null_forbidden] ([valid_file_split]).  [parse_strip]: the code reads a document exactly as it reads the
   document with those nulls left out.  The monadic chains are turned into the conjunction of their steps' conditions
   by [okb]/[ok_norm]; the remaining goal is a boolean tautology over opaque atoms ([btauto]). *)
From Slinky Require Import Model.Types Model.Generated Model.Parse Spec.C08 Spec.C16 Proofs.C08.
From Coq Require Import Btauto Lia.

(* ---------- values and success of the elementary steps ---------- *)

Definition an_opt {A} (x : an A) : option A := match x with Value v => Some v | _ => None end.
Definition an_or {A} (x : an A) (d : A) : A := match x with Value v => v | _ => d end.

Lemma val_gnn {A} (x : an A) n d a : get_non_null x n d = Ok a -> a = an_or x d.
Proof. destruct x; cbn; intro H; inversion H; reflexivity. Qed.
Lemma val_gnnnd {A} (x : an A) n a : get_non_null_no_default x n = Ok a -> a = an_opt x.
Proof. destruct x; cbn; intro H; inversion H; reflexivity. Qed.
Lemma val_gon {A} (x : an A) d a : get_optional_nullable x d = Ok a -> a = resolve_nullable x d.
Proof. destruct x; cbn; intro H; inversion H; reflexivity. Qed.
Lemma is_some_an_opt {A} (x : an A) : is_some (an_opt x) = has_value x.
Proof. destruct x; reflexivity. Qed.

Lemma ok_gnn {A} (x : an A) n d : is_ok (get_non_null x n d) = not_null x.
Proof. destruct x; reflexivity. Qed.
Lemma ok_gnnnd {A} (x : an A) n : is_ok (get_non_null_no_default x n) = not_null x.
Proof. destruct x; reflexivity. Qed.
Lemma ok_gon {A} (x : an A) d : is_ok (get_optional_nullable x d) = true.
Proof. destruct x; reflexivity. Qed.
Lemma ok_req {A} (x : an A) n : is_ok (get_required x n) = has_value x.
Proof. destruct x; reflexivity. Qed.
Lemma ok_nel (x : an pairs) n : is_ok (get_non_null_not_empty_list x n) = valid_cond_list x.
Proof. destruct x as [| |[|p l]]; reflexivity. Qed.
Lemma ok_forbid {A B} (x : an A) a b (v : B) : is_ok (do _ <- forbid x a b; Ok v) = negb (has_value x).
Proof. unfold forbid. destruct (has_value x); reflexivity. Qed.
Lemma ok_combo a b f1 f2 : is_ok (combo a b f1 f2) = negb (a && b).
Proof. unfold combo. destruct (a && b); reflexivity. Qed.
Lemma ok_if_err (c : bool) e : is_ok (if c then Err e else Ok tt) = negb c.
Proof. destruct c; reflexivity. Qed.

Lemma is_ok_bind_split {A B} (r : res A) (f : A -> res B) b1 b2 :
  is_ok r = b1 -> (forall a, r = Ok a -> is_ok (f a) = b2) -> is_ok (bind r f) = b1 && b2.
Proof. intros <- H. destruct r; cbn; [apply (H a eq_refl) | reflexivity]. Qed.

Ltac step_ok :=
  first [ apply ok_gnn | apply ok_gnnnd | apply ok_gon | apply ok_req | apply ok_nel | apply ok_forbid
        | apply ok_combo | apply ok_if_err | reflexivity ].

Ltac use_eq a E :=
  first [ apply val_gnn in E; subst a | apply val_gnnnd in E; subst a | apply val_gon in E; subst a | clear E ].

(* turns [is_ok (do x <- e1; do y <- e2; ... Ok _) = ?b] into the conjunction of the steps' conditions;
   a bound value is replaced by its expression in terms of the serial field when it has one *)
Ltac okb :=
  cbn [bind];
  lazymatch goal with
  | |- is_ok (bind ?r ?f) = _ =>
      apply is_ok_bind_split; [ step_ok | let a := fresh "a" in let E := fresh "E" in intros a E; use_eq a E; okb ]
  | |- is_ok (Ok _) = _ => cbn [is_ok]; reflexivity
  | |- _ => reflexivity
  end.

Ltac ok_norm :=
  match goal with
  | |- context [is_ok ?e] =>
      lazymatch e with
      | bind _ _ =>
          let Hb := fresh "Hb" in
          eassert (Hb : is_ok e = _) by okb; rewrite Hb; clear Hb; cbv beta
      end
  end.

Lemma conds_ok c : is_ok (parse_conds c) = valid_conds c.
Proof. destruct c as [c1 c2 c3 c4]. unfold parse_conds, valid_conds. cbn [cs_inc_any cs_inc_all cs_exc_any cs_exc_all].
  ok_norm. btauto. Qed.


Ltac step_ok ::=
  first [ apply ok_gnn | apply ok_gnnnd | apply ok_gon | apply ok_req | apply ok_nel | apply ok_forbid
        | apply ok_combo | apply ok_if_err | apply conds_ok | reflexivity ].

(* ---------- gp_info ---------- *)
Lemma gp_ok g : serde_ok_gp g && is_ok (parse_gp g) = valid_gp g.
Proof.
  destruct g as [u se off pr hi c]. unfold serde_ok_gp, parse_gp, valid_gp, no_unknown, no_unknown_keys.
  cbn [gs_unknown gs_section gs_offset gs_provide gs_hidden gs_conds].
  destruct se as [| |s]; cbn [get_non_null bind not_null is_null negb if_given andb].
  - change (is_empty gp_info_default_section) with false. cbn iota. ok_norm. btauto.
  - cbn. btauto.
  - unfold nonempty_str. destruct (is_empty s); cbn [negb bind is_ok].
    + btauto.
    + ok_norm. btauto.
Qed.

Lemma gp_section_val g g' : parse_gp g = Ok g' -> gp_section g' = gp_effective_section g.
Proof.
  destruct g as [u se off pr hi c]. unfold parse_gp, gp_effective_section.
  cbn [gs_unknown gs_section gs_offset gs_provide gs_hidden gs_conds]. intro H.
  inv_bind H. injection H as <-. cbn [gp_section].
  destruct se as [| |s]; cbn in E; try discriminate; injection E as <-;
  cbn in E0; [ injection E0 as <-; reflexivity | destruct (is_empty s); [discriminate | injection E0 as <-; reflexivity] ].
Qed.

(* ---------- vram classes ---------- *)
Lemma class_ok c : is_null (vs_name c) = false -> serde_ok_class c && is_ok (parse_class c) = valid_class c.
Proof.
  destruct c as [u n fv fs fo k]. unfold serde_ok_class, parse_class, valid_class, no_unknown, no_unknown_keys, skeep_ok, keep_well_typed.
  cbn [vs_unknown vs_name vs_fixed_vram vs_fixed_symbol vs_follows_classes vs_keep]. intro Hn.
  ok_norm.
  destruct n as [| |n]; [ cbn; btauto | discriminate Hn | ].
  destruct fv, fs, fo as [| |[|x l]]; cbn; unfold nonempty_str; btauto.
Qed.

(* ---------- symbol assignments, required symbols, asserts ---------- *)
Lemma assign_ok a : is_null (as_name a) = false -> is_null (as_value a) = false ->
  serde_ok_assign a && is_ok (parse_assign a) = valid_assign a.
Proof.
  destruct a as [u n v pr hi c]. unfold serde_ok_assign, parse_assign, valid_assign, no_unknown, no_unknown_keys.
  cbn [as_unknown as_name as_value as_provide as_hidden as_conds]. intros Hn Hv.
  ok_norm.
  destruct n as [| |n]; [ cbn; btauto | discriminate Hn | ].
  destruct v as [| |v]; [ cbn; btauto | discriminate Hv | ].
  cbn; unfold nonempty_str; btauto.
Qed.

Lemma required_ok r : is_null (rs_name r) = false -> serde_ok_required r && is_ok (parse_required r) = valid_required r.
Proof.
  destruct r as [u n c]. unfold serde_ok_required, parse_required, valid_required, no_unknown, no_unknown_keys.
  cbn [rs_unknown rs_name rs_conds]. intros Hn.
  ok_norm.
  destruct n as [| |n]; [ cbn; btauto | discriminate Hn | ].
  cbn; unfold nonempty_str; btauto.
Qed.

Lemma assert_ok a : is_null (ats_check a) = false -> is_null (ats_error_message a) = false ->
  serde_ok_assert a && is_ok (parse_assert a) = valid_assert a.
Proof.
  destruct a as [u n v c]. unfold serde_ok_assert, parse_assert, valid_assert, no_unknown, no_unknown_keys.
  cbn [ats_unknown ats_check ats_error_message ats_conds]. intros Hn Hv.
  ok_norm.
  destruct n as [| |n]; [ cbn; btauto | discriminate Hn | ].
  destruct v as [| |v]; [ cbn; btauto | discriminate Hv | ].
  cbn; unfold nonempty_str; btauto.
Qed.

(* ---------- settings ---------- *)
Lemma settings_ok s : serde_ok_settings s && is_ok (parse_settings s) = valid_settings s.
Proof.
  destruct s. unfold serde_ok_settings, parse_settings, valid_settings, no_unknown, no_unknown_keys.
  proj_goal.
  ok_norm. unfold an_ok, if_given.
  destruct sts_d_path, sts_target_path;
    cbn [resolve_nullable is_some settings_default_d_path settings_default_target_path implb has_value negb andb]; btauto.
Qed.

(* ---------- file entries ---------- *)

Definition all_sub (P : file_serial -> Prop) (files : an (list file_serial)) : Prop :=
  match files with Value l => Forall P l | _ => True end.

Section FileInd.
  Variable P : file_serial -> Prop.
  Hypothesis step : forall u p k sf pa se lon so files d c kp,
    all_sub P files ->
    P (FileSerial u p k sf pa se lon so files d c kp).
  Fixpoint file_serial_ind' (f : file_serial) : P f :=
    match f with
    | FileSerial u p k sf pa se lon so files d c kp =>
        step u p k sf pa se lon so files d c kp
          (match files as fl return all_sub P fl with
           | Value l =>
               (fix go (l : list file_serial) : Forall P l :=
                  match l with
                  | [] => Forall_nil P
                  | x :: r => Forall_cons x (file_serial_ind' x) (go r)
                  end) l
           | Absent => I
           | Null => I
           end)
    end.
End FileInd.

Lemma is_ok_map_res {A B} (f : A -> res B) l : is_ok (map_res f l) = forallb (fun x => is_ok (f x)) l.
Proof.
  induction l as [|x l IH]; [reflexivity|]. cbn [map_res forallb].
  destruct (f x); cbn [bind is_ok andb]; [|reflexivity].
  rewrite <- IH. destruct (map_res f l); reflexivity.
Qed.

Lemma forallb_and {A} (f g : A -> bool) l : forallb (fun x => f x && g x) l = forallb f l && forallb g l.
Proof. induction l as [|x l IH]; [reflexivity|]. cbn [forallb]. rewrite IH. btauto. Qed.

Lemma forallb_ext_Forall {A} (f g : A -> bool) l : Forall (fun x => f x = g x) l -> forallb f l = forallb g l.
Proof. induction 1; [reflexivity|]. cbn [forallb]. congruence. Qed.

Lemma list_ok {A B} (serde : A -> bool) (p : A -> res B) (v : A -> bool) l :
  Forall (fun x => serde x && is_ok (p x) = v x) l ->
  forallb serde l && is_ok (map_res p l) = forallb v l.
Proof.
  intro H. rewrite is_ok_map_res, <- forallb_and. apply forallb_ext_Forall. exact H.
Qed.

Lemma inner_fix l :
  (fix go (l : list file_serial) : res (list file_info) :=
     match l with
     | [] => Ok []
     | x :: r => do y <- parse_file x; do ys <- go r; Ok (y :: ys)
     end) l = map_res parse_file l.
Proof. induction l as [|x l IH]; [reflexivity|]. cbn [map_res]. rewrite IH. reflexivity. Qed.

Lemma kind_from_path_cases p : kind_from_path p = KObject \/ kind_from_path p = KArchive.
Proof. unfold kind_from_path. destruct (extension_of p) as [e|]; [destruct (String.eqb e "a")|]; auto. Qed.

(* the table as the code applies it: a null on a forbidden field passes ([forbid] only asks [has_value]) *)
Definition meets_lax {A} (r : rule) (x : an A) : bool :=
  match r, x with Forbidden, Null => true | _, _ => meets r x end.

Definition kind_table_lax (k : file_kind) (f : file_serial) : bool :=
  meets_lax (rule_path k) (fs_path f) &&
  meets_lax (rule_subfile k) (fs_subfile f) &&
  meets_lax (rule_pad_amount k) (fs_pad_amount f) &&
  meets_lax (rule_section k) (fs_section f) &&
  meets_lax (rule_linker_offset_name k) (fs_linker_offset_name f) &&
  meets_lax (rule_section_order k) (fs_section_order f) &&
  meets_lax (rule_files k) (fs_files f) &&
  meets_lax (rule_dir k) (fs_dir f).

Fixpoint valid_file_lax (f : file_serial) : bool :=
  no_unknown_keys (fs_unknown f) &&
  keep_well_typed (fs_keep f) &&
  valid_conds (fs_conds f) &&
  if_given nonempty_str (fs_path f) &&
  if_given nodup_keys (fs_section_order f) &&
  match effective_kind f with Some k => kind_table_lax k f | None => false end &&
  match fs_files f with
  | Value l => (fix all (l : list file_serial) : bool :=
                  match l with [] => true | x :: r => valid_file_lax x && all r end) l
  | _ => true
  end.

Lemma meets_required {A} (x : an A) : meets_lax Required x = has_value x. Proof. destruct x; reflexivity. Qed.
Lemma meets_optional {A} (x : an A) : meets_lax Optional x = not_null x. Proof. destruct x; reflexivity. Qed.
Lemma meets_forbidden {A} (x : an A) : meets_lax Forbidden x = negb (has_value x). Proof. destruct x; reflexivity. Qed.

Ltac fold_all :=
  change ((fix all (l : list file_serial) {struct l} : bool :=
             match l with [] => true | x :: r => valid_file_lax x && all r end)) with (forallb valid_file_lax) in *;
  change ((fix all (l : list file_serial) {struct l} : bool :=
             match l with [] => true | x :: r => valid_file x && all r end)) with (forallb valid_file) in *;
  change ((fix all (l : list file_serial) {struct l} : bool :=
             match l with [] => true | x :: r => serde_ok_file x && all r end)) with (forallb serde_ok_file) in *;
  change ((fix any (l : list file_serial) {struct l} : bool :=
             match l with [] => false | x :: r => file_null_forbidden x || any r end)) with (existsb file_null_forbidden) in *.

(* the kind is known: the rest of the entry, field by field *)
Ltac file_case files IH :=
  cbn [is_archive is_pad is_offset is_group is_objlike file_kind_eqb orb
       rule_path rule_subfile rule_pad_amount rule_section rule_linker_offset_name rule_section_order
       rule_files rule_dir];
  destruct files as [| |l]; try rewrite inner_fix;
  ok_norm; rewrite ?meets_required, ?meets_optional, ?meets_forbidden;
  unfold an_ok, if_given, no_unknown, no_unknown_keys, skeep_ok, keep_well_typed;
  try (rewrite <- (list_ok _ _ _ l IH));
  cbn [has_value not_null is_null negb is_ok]; btauto.

(* serde's checks followed by `unserialize` succeed exactly on the entries that meet the table as the code applies it *)
Lemma file_ok_lax : forall f, serde_ok_file f && is_ok (parse_file f) = valid_file_lax f.
Proof.
  apply file_serial_ind'. intros u p k sf pa se lon so files d c kp IH. unfold all_sub in IH.
  cbn [parse_file serde_ok_file valid_file_lax]. unfold effective_kind, kind_table_lax.
  cbn [fs_unknown fs_path fs_kind fs_subfile fs_pad_amount fs_section fs_linker_offset_name fs_section_order fs_files fs_dir fs_conds fs_keep].
  fold_all.
  destruct k as [| |k].
  - (* kind omitted: path required, kind guessed *)
    cbn [get_non_null_no_default bind].
    destruct p as [| |p]; cbn [get_required bind is_ok]; [btauto | btauto |].
    cbn [if_given]. unfold nonempty_str. destruct (is_empty p) eqn:Ep; cbn [bind is_ok negb]; [btauto|].
    destruct (kind_from_path_cases p) as [Ek|Ek]; rewrite Ek; file_case files IH.
  - cbn [get_non_null_no_default bind is_ok]. btauto.
  - cbn [get_non_null_no_default bind].
    destruct k; cbn [is_objlike file_kind_eqb orb].
    + destruct p as [| |p]; cbn [get_required bind is_ok rule_path meets_lax meets]; [btauto | btauto |].
      cbn [if_given]. unfold nonempty_str. destruct (is_empty p) eqn:Ep; cbn [bind is_ok negb]; [btauto|].
      file_case files IH.
    + destruct p as [| |p]; cbn [get_required bind is_ok rule_path meets_lax meets]; [btauto | btauto |].
      cbn [if_given]. unfold nonempty_str. destruct (is_empty p) eqn:Ep; cbn [bind is_ok negb]; [btauto|].
      file_case files IH.
    + destruct p as [| |p]; cbn [has_value bind is_ok rule_path meets_lax meets]; [ | | btauto]; file_case files IH.
    + destruct p as [| |p]; cbn [has_value bind is_ok rule_path meets_lax meets]; [ | | btauto]; file_case files IH.
    + destruct p as [| |p]; cbn [has_value bind is_ok rule_path meets_lax meets]; [ | | btauto]; file_case files IH.
Qed.

(* the documented table = the table of the code, minus the nulls on forbidden fields *)
Lemma meets_split {A} (r : rule) (x : an A) : meets r x = meets_lax r x && negb (null_on_forbidden r x).
Proof. destruct r, x; reflexivity. Qed.

Lemma kind_table_split k f : kind_table k f = kind_table_lax k f && negb (kind_null_forbidden k f).
Proof. unfold kind_table, kind_table_lax, kind_null_forbidden. rewrite !meets_split. btauto. Qed.

Lemma forallb_split {A} (v w : A -> bool) (n : A -> bool) l :
  Forall (fun x => v x = w x && negb (n x)) l -> forallb v l = forallb w l && negb (existsb n l).
Proof. induction 1 as [|x l Hx _ IH]; [reflexivity|]. cbn [forallb existsb]. rewrite Hx, IH. btauto. Qed.

Lemma valid_file_split : forall f, valid_file f = valid_file_lax f && negb (file_null_forbidden f).
Proof.
  apply file_serial_ind'. intros u p k sf pa se lon so files d c kp IH. unfold all_sub in IH.
  cbn [valid_file valid_file_lax file_null_forbidden]. fold_all.
  destruct (effective_kind (FileSerial u p k sf pa se lon so files d c kp)) as [ek|].
  - rewrite kind_table_split. cbn [fs_files]. destruct files as [| |l]; [btauto | btauto |].
    rewrite (forallb_split _ _ _ l IH). btauto.
  - btauto.
Qed.

Lemma file_ok : forall f, file_null_forbidden f = false -> serde_ok_file f && is_ok (parse_file f) = valid_file f.
Proof. intros f H. rewrite file_ok_lax, valid_file_split, H. btauto. Qed.

Lemma valid_file_is_lax f : valid_file f = true -> valid_file_lax f = true.
Proof. rewrite valid_file_split. intro H. apply andb_true_iff in H. apply H. Qed.

Lemma valid_file_no_null_forbidden f : valid_file f = true -> file_null_forbidden f = false.
Proof. rewrite valid_file_split. intro H. apply andb_true_iff in H. apply negb_true_iff. apply H. Qed.

(* ---------- segments ---------- *)

Lemma ok_nonempty {A} (l : list A) e : is_ok (match l with [] => Err e | _ => Ok tt end) = nonempty_list l.
Proof. destruct l; reflexivity. Qed.
Lemma ok_if_ok (c : bool) e : is_ok (if c then Ok tt else Err e) = c.
Proof. destruct c; reflexivity. Qed.

Ltac step_ok ::=
  first [ apply ok_gnn | apply ok_gnnnd | apply ok_gon | apply ok_req | apply ok_nel | apply ok_forbid
        | apply ok_combo | apply ok_if_err | apply ok_if_ok | apply ok_nonempty | apply conds_ok | reflexivity ].

Ltac okb ::=
  cbn [bind an_opt an_or];
  try (match goal with E : ?t = _ |- context [?t] => rewrite E end; cbn [bind]);
  lazymatch goal with
  | |- is_ok (bind ?r ?f) = _ =>
      apply is_ok_bind_split; [ step_ok | let a := fresh "a" in let E := fresh "E" in intros a E; use_eq a E; okb ]
  | |- is_ok (Ok _) = _ => cbn [is_ok]; reflexivity
  | |- is_ok (Err _) = _ => cbn [is_ok]; reflexivity
  | |- _ => reflexivity
  end.

Lemma link_hgp gs st : settings_link gs st ->
  is_some (hardcoded_gp_value st) = has_value (global_field gs sts_hardcoded_gp_value).
Proof.
  destruct gs as [| |g]; cbn; [intros ->; reflexivity | contradiction | ].
  intro H. rewrite (global_hardcoded_gp_value _ _ H). destruct (sts_hardcoded_gp_value g); reflexivity.
Qed.
Lemma link_alloc gs st : settings_link gs st ->
  st_alloc_sections st = an_or (global_field gs sts_alloc_sections) doc_default_alloc_sections.
Proof.
  destruct gs as [| |g]; cbn; [intros ->; reflexivity | contradiction | ].
  intro H. apply global_alloc_sections in H. destruct (sts_alloc_sections g); cbn in *; congruence.
Qed.
Lemma link_noload gs st : settings_link gs st ->
  st_noload_sections st = an_or (global_field gs sts_noload_sections) doc_default_noload_sections.
Proof.
  destruct gs as [| |g]; cbn; [intros ->; reflexivity | contradiction | ].
  intro H. apply global_noload_sections in H. destruct (sts_noload_sections g); cbn in *; congruence.
Qed.

Lemma mem_str_app x l1 l2 : mem_str x (l1 ++ l2) = mem_str x l1 || mem_str x l2.
Proof. induction l1 as [|y l1 IH]; [reflexivity|]. cbn. destruct (String.eqb x y); [reflexivity | exact IH]. Qed.

Lemma at_most_one a b c d :
  Nat.leb (count_true [a; b; c; d]) 1 =
  negb (a && b) && negb (a && c) && negb (a && d) && negb (b && c) && negb (b && d) && negb (c && d).
Proof. destruct a, b, c, d; reflexivity. Qed.

Lemma files_ok_lax l : forallb serde_ok_file l && is_ok (map_res parse_file l) = forallb valid_file_lax l.
Proof. apply list_ok. apply Forall_forall. intros x _. apply file_ok_lax. Qed.

Lemma files_split l : forallb valid_file l = forallb valid_file_lax l && negb (existsb file_null_forbidden l).
Proof. apply forallb_split. apply Forall_forall. intros x _. apply valid_file_split. Qed.

Lemma files_ok l : existsb file_null_forbidden l = false ->
  forallb serde_ok_file l && is_ok (map_res parse_file l) = forallb valid_file l.
Proof. intro H. rewrite files_ok_lax, files_split, H. btauto. Qed.

Ltac seg_finish n Hn :=
  rewrite ?is_some_an_opt;
  unfold an_ok, if_given, no_unknown, no_unknown_keys, skeep_ok, keep_well_typed, serde_ok_gp;
  destruct n as [| |n]; [ | discriminate Hn | ];
  cbn [plain_str opt_str is_some required_str not_null is_null negb andb is_ok]; unfold nonempty_str; btauto.

Lemma segment_ok gs st s : settings_link gs st -> is_null (ss_name s) = false -> segment_null_forbidden s = false ->
  serde_ok_segment s && is_ok (parse_segment st s) = valid_segment gs s.
Proof.
  intros L Hn Hf. unfold segment_null_forbidden in Hf.
  destruct s as [u n fl fv fs fo vc dir gp c al nl sa ssa sea csa cea sssa ssea w fill sg kp].
  unfold serde_ok_segment, parse_segment, valid_segment. proj_goal. cbn [ss_name] in Hn. cbn [ss_files] in Hf.
  destruct fl as [l|]; [| cbn; btauto ]. cbn [opt_ok opt_list] in *.
  rewrite <- (files_ok l Hf), at_most_one.
  destruct gp as [| |g]; cbn [an_ok if_given].
  - ok_norm. seg_finish n Hn.
  - ok_norm. seg_finish n Hn.
  - rewrite <- gp_ok. destruct (parse_gp g) as [g'|e] eqn:Eg.
    + ok_norm. rewrite (gp_section_val _ _ Eg), (link_hgp _ _ L), (link_alloc _ _ L), (link_noload _ _ L), mem_str_app.
      unfold effective_sections, an_or. seg_finish n Hn.
    + ok_norm. seg_finish n Hn.
Qed.

(* ---------- the document ---------- *)

Lemma list_ok_if {A B} (Q : A -> Prop) (serde : A -> bool) (p : A -> res B) (v : A -> bool) l :
  (forall x, Q x -> serde x && is_ok (p x) = v x) -> Forall Q l ->
  forallb serde l && is_ok (map_res p l) = forallb v l.
Proof. intros H F. apply list_ok. induction F; constructor; auto. Qed.

Lemma existsb_false_Forall {A} (f : A -> bool) l : existsb f l = false -> Forall (fun x => f x = false) l.
Proof.
  induction l as [|x l IH]; [constructor|]. cbn [existsb]. intro H.
  apply orb_false_iff in H. destruct H as [H1 H2]. constructor; auto.
Qed.

Lemma an_ok_forallb {A} (f : A -> bool) (x : an (list A)) : an_ok (forallb f) x = forallb f (an_list x).
Proof. destruct x; reflexivity. Qed.

Lemma an_or_nil {A} (x : an (list A)) : an_or x [] = an_list x.
Proof. reflexivity. Qed.

Lemma is_ok_parse d : is_ok (parse d) = serde_ok d && is_ok (unserialize_document d).
Proof. unfold parse. destruct (serde_ok d); reflexivity. Qed.

Ltac proj_ds := cbn [ds_unknown ds_settings ds_vram_classes ds_segments ds_entry ds_symbol_assignments
                     ds_required_symbols ds_asserts] in *.

Lemma Forall_and {A} (P Q : A -> Prop) l : Forall P l -> Forall Q l -> Forall (fun x => P x /\ Q x) l.
Proof. induction 1 as [|x l Hp _ IH]; intro H; inversion H; subst; constructor; auto. Qed.

Lemma doc_ok d : Known_C16_null_plain_string d = false -> Known_C16_null_forbidden_field d = false ->
  is_ok (parse d) = valid d.
Proof.
  intros K F. unfold Known_C16_null_plain_string in K. unfold Known_C16_null_forbidden_field in F.
  repeat (apply orb_false_iff in K; let K' := fresh "K" in destruct K as [K K']).
  rewrite is_ok_parse.
  destruct d as [u gs cl sg en asg rq ats]. unfold serde_ok, unserialize_document, valid. proj_ds.
  destruct sg as [sl|]; [ | cbn; btauto]. cbn [opt_ok opt_list] in *.
  rewrite !an_ok_forallb.
  apply existsb_false_Forall in K, K0, K1, K2, K3, F.
  pose proof (Forall_and _ _ _ K F) as KF.
  rewrite <- (list_ok_if _ _ _ _ _ class_ok K3).
  rewrite <- (list_ok_if _ _ parse_assign _ _ (fun a H => assign_ok a (proj1 (proj1 (orb_false_iff _ _) H)) (proj2 (proj1 (orb_false_iff _ _) H))) K2).
  rewrite <- (list_ok_if _ _ _ _ _ required_ok K1).
  rewrite <- (list_ok_if _ _ parse_assert _ _ (fun a H => assert_ok a (proj1 (proj1 (orb_false_iff _ _) H)) (proj2 (proj1 (orb_false_iff _ _) H))) K0).
  destruct gs as [| |g]; cbn [get_non_null_no_default bind an_ok if_given].
  - rewrite <- (list_ok_if _ _ _ _ _ (fun s H => segment_ok Absent default_settings s eq_refl (proj1 H) (proj2 H)) KF).
    ok_norm. rewrite !an_or_nil. unfold no_unknown, no_unknown_keys. cbn [not_null is_null negb]. btauto.
  - cbn. btauto.
  - rewrite <- settings_ok. destruct (parse_settings g) as [st|e] eqn:Eg; cbn [bind is_ok].
    + rewrite <- (list_ok_if _ _ _ _ _ (fun s H => segment_ok (Value g) st s Eg (proj1 H) (proj2 H)) KF).
      ok_norm. rewrite !an_or_nil. unfold no_unknown, no_unknown_keys. cbn [not_null is_null negb]. btauto.
    + btauto.
Qed.

(* ---------- consequences ---------- *)

Lemma forallb_existsb {A} (f g : A -> bool) l :
  (forall x, f x = true -> g x = false) -> forallb f l = true -> existsb g l = false.
Proof.
  intro H. induction l as [|x l IH]; [reflexivity|]. cbn [forallb existsb]. intro E.
  apply andb_true_iff in E. destruct E as [E1 E2]. rewrite (H _ E1), (IH E2). reflexivity.
Qed.

Lemma required_str_not_null x : required_str x = true -> is_null x = false.
Proof. destruct x; cbn; congruence. Qed.

Ltac split_and H :=
  repeat match type of H with
  | _ && _ = true => let H' := fresh "V" in apply andb_true_iff in H; destruct H as [H H']
  end.

(* a valid document has no null plain string: acceptance of valid documents is unconditional *)
Lemma valid_no_known d : valid d = true -> Known_C16_null_plain_string d = false.
Proof.
  unfold valid, Known_C16_null_plain_string. intro H. split_and H.
  repeat (apply orb_false_iff; split).
  - eapply forallb_existsb; [|eassumption]. intros s Hs. unfold valid_segment in Hs. split_and Hs.
    apply required_str_not_null. assumption.
  - eapply forallb_existsb; [|eassumption]. intros s Hs. unfold valid_class in Hs. split_and Hs.
    apply required_str_not_null. assumption.
  - eapply forallb_existsb; [|eassumption]. intros s Hs. unfold valid_assign in Hs. split_and Hs.
    apply orb_false_iff. split; apply required_str_not_null; assumption.
  - eapply forallb_existsb; [|eassumption]. intros s Hs. unfold valid_required in Hs. split_and Hs.
    apply required_str_not_null. assumption.
  - eapply forallb_existsb; [|eassumption]. intros s Hs. unfold valid_assert in Hs. split_and Hs.
    apply orb_false_iff. split; apply required_str_not_null; assumption.
Qed.

(* ... and no null on a forbidden file-entry field *)
Lemma forallb_valid_file_no_null l : forallb valid_file l = true -> existsb file_null_forbidden l = false.
Proof. apply forallb_existsb. exact valid_file_no_null_forbidden. Qed.

Lemma valid_no_known_forbidden d : valid d = true -> Known_C16_null_forbidden_field d = false.
Proof.
  unfold valid, Known_C16_null_forbidden_field. intro H. split_and H.
  eapply forallb_existsb; [|eassumption]. intros s Hs. unfold valid_segment in Hs. split_and Hs.
  unfold segment_null_forbidden. apply forallb_valid_file_no_null. assumption.
Qed.

Lemma valid_is_accepted d : valid d = true -> exists doc, parse d = Ok doc.
Proof.
  intro H. pose proof (doc_ok d (valid_no_known d H) (valid_no_known_forbidden d H)) as E. rewrite H in E.
  destruct (parse d) as [doc|e]; [exists doc; reflexivity | discriminate E].
Qed.

Lemma invalid_is_error d : valid d = false ->
  Known_C16_null_plain_string d = false -> Known_C16_null_forbidden_field d = false -> exists e, parse d = Err e.
Proof.
  intros H K F. pose proof (doc_ok d K F) as E. rewrite H in E.
  destruct (parse d) as [doc|e]; [discriminate E | exists e; reflexivity].
Qed.

Lemma accepted_is_valid d doc : parse d = Ok doc ->
  Known_C16_null_plain_string d = false -> Known_C16_null_forbidden_field d = false -> valid d = true.
Proof. intros H K F. rewrite <- (doc_ok d K F), H. reflexivity. Qed.

(* ---------- the second known deviation: the code reads the document without the forbidden nulls ---------- *)

Lemma drop_required {A} (x : an A) : drop_null Required x = x. Proof. reflexivity. Qed.
Lemma drop_optional {A} (x : an A) : drop_null Optional x = x. Proof. reflexivity. Qed.
Lemma has_value_drop {A} r (x : an A) : has_value (drop_null r x) = has_value x.
Proof. destruct r, x; reflexivity. Qed.
Lemma forbid_drop {A} r (x : an A) a b : forbid (drop_null r x) a b = forbid x a b.
Proof. unfold forbid. rewrite has_value_drop. reflexivity. Qed.

Lemma map_res_map_ext {A B} (g : A -> A) (p : A -> res B) l :
  Forall (fun x => p (g x) = p x) l -> map_res p (map g l) = map_res p l.
Proof. induction 1 as [|x l Hx _ IH]; [reflexivity|]. cbn [map map_res]. rewrite Hx, IH. reflexivity. Qed.

Ltac fold_strip :=
  change ((fix go (l : list file_serial) {struct l} : list file_serial :=
             match l with [] => [] | x :: r => file_without_forbidden_nulls x :: go r end))
    with (map file_without_forbidden_nulls) in *.

Ltac proj_fs := cbn [fs_unknown fs_path fs_kind fs_subfile fs_pad_amount fs_section fs_linker_offset_name
                     fs_section_order fs_files fs_dir fs_conds fs_keep].

Ltac strip_rest files IH :=
  cbn [is_archive is_pad is_offset is_group is_objlike file_kind_eqb orb];
  rewrite ?has_value_drop, ?forbid_drop;
  destruct files as [| |l]; try reflexivity;
  rewrite !inner_fix, (map_res_map_ext _ _ l IH); reflexivity.

Ltac strip_start :=
  cbn [rule_path rule_subfile rule_pad_amount rule_section rule_linker_offset_name rule_section_order
       rule_files rule_dir];
  rewrite ?drop_required, ?drop_optional;
  cbn [parse_file]; proj_fs; cbn [get_non_null_no_default bind is_objlike file_kind_eqb orb].

Lemma parse_file_strip : forall f, parse_file (file_without_forbidden_nulls f) = parse_file f.
Proof.
  apply file_serial_ind'. intros u p k sf pa se lon so files d c kp IH. unfold all_sub in IH.
  cbn [file_without_forbidden_nulls]. unfold effective_kind. proj_fs. fold_strip.
  destruct k as [| |k].
  - destruct p as [| |p]; [reflexivity | reflexivity |].
    destruct (kind_from_path_cases p) as [Ek|Ek]; rewrite Ek; strip_start; cbn [get_required bind];
      (destruct (is_empty p); [reflexivity|]); cbn [bind]; rewrite Ek; strip_rest files IH.
  - reflexivity.
  - destruct k; strip_start.
    + destruct p as [| |p]; [reflexivity | reflexivity |]. cbn [get_required bind].
      destruct (is_empty p); [reflexivity|]. cbn [bind]. strip_rest files IH.
    + destruct p as [| |p]; [reflexivity | reflexivity |]. cbn [get_required bind].
      destruct (is_empty p); [reflexivity|]. cbn [bind]. strip_rest files IH.
    + rewrite has_value_drop. destruct (has_value p); [reflexivity|]. cbn [bind]. strip_rest files IH.
    + rewrite has_value_drop. destruct (has_value p); [reflexivity|]. cbn [bind]. strip_rest files IH.
    + rewrite has_value_drop. destruct (has_value p); [reflexivity|]. cbn [bind]. strip_rest files IH.
Qed.

Lemma an_ok_drop {A} (g : A -> bool) r (x : an A) : an_ok g (drop_null r x) = an_ok g x.
Proof. destruct r, x; reflexivity. Qed.

Lemma forallb_map_ext {A} (g : A -> A) (v : A -> bool) l :
  Forall (fun x => v (g x) = v x) l -> forallb v (map g l) = forallb v l.
Proof. induction 1 as [|x l Hx _ IH]; [reflexivity|]. cbn [map forallb]. rewrite Hx, IH. reflexivity. Qed.

Lemma existsb_map_false {A} (g : A -> A) (v : A -> bool) l :
  Forall (fun x => v (g x) = false) l -> existsb v (map g l) = false.
Proof. induction 1 as [|x l Hx _ IH]; [reflexivity|]. cbn [map existsb]. rewrite Hx, IH. reflexivity. Qed.

Lemma map_id_Forall {A} (g : A -> A) l : Forall (fun x => g x = x) l -> map g l = l.
Proof. induction 1 as [|x l Hx _ IH]; [reflexivity|]. cbn [map]. rewrite Hx, IH. reflexivity. Qed.

Lemma drop_value {A} r (v : A) : drop_null r (Value v) = Value v.
Proof. destruct r; reflexivity. Qed.
Lemma drop_absent {A} r : drop_null r (@Absent A) = Absent.
Proof. destruct r; reflexivity. Qed.
Lemma drop_null_cases {A} r : drop_null r (@Null A) = Null \/ drop_null r (@Null A) = Absent.
Proof. destruct r; auto. Qed.

Lemma serde_ok_file_strip : forall f, serde_ok_file (file_without_forbidden_nulls f) = serde_ok_file f.
Proof.
  apply file_serial_ind'. intros u p k sf pa se lon so files d c kp IH. unfold all_sub in IH.
  cbn [file_without_forbidden_nulls]. fold_strip.
  destruct (effective_kind (FileSerial u p k sf pa se lon so files d c kp)) as [ek|];
    cbn [serde_ok_file]; proj_fs; fold_all; rewrite ?an_ok_drop;
    (destruct files as [| |l];
     [ rewrite ?drop_absent; reflexivity
     | try (destruct (drop_null_cases (A:=list file_serial) (rule_files ek)) as [E|E]; rewrite E); reflexivity
     | rewrite ?drop_value, (forallb_map_ext _ _ l IH); reflexivity ]).
Qed.

Lemma null_on_forbidden_drop {A} r (x : an A) : null_on_forbidden r (drop_null r x) = false.
Proof. destruct r, x; reflexivity. Qed.

Lemma effective_kind_strip f : effective_kind (file_without_forbidden_nulls f) = effective_kind f.
Proof.
  destruct f as [u p k sf pa se lon so files d c kp]. cbn [file_without_forbidden_nulls].
  unfold effective_kind at 2 3. proj_fs.
  destruct k as [| |k]; [ destruct p as [| |p] | | ]; try reflexivity.
  unfold effective_kind. proj_fs. rewrite drop_value. reflexivity.
Qed.

Lemma file_null_forbidden_strip : forall f, file_null_forbidden (file_without_forbidden_nulls f) = false.
Proof.
  apply file_serial_ind'. intros u p k sf pa se lon so files d c kp IH. unfold all_sub in IH.
  remember (FileSerial u p k sf pa se lon so files d c kp) as f eqn:Ef.
  destruct (file_without_forbidden_nulls f) as [u' p' k' sf' pa' se' lon' so' files' d' c' kp'] eqn:Es.
  cbn [file_null_forbidden]. rewrite <- Es, effective_kind_strip, Es. proj_fs. fold_all.
  subst f. cbn [file_without_forbidden_nulls] in Es. fold_strip.
  destruct (effective_kind (FileSerial u p k sf pa se lon so files d c kp)) as [ek|]; injection Es as <- <- <- <- <- <- <- <- <- <- <- <-; proj_fs.
  - unfold kind_null_forbidden. proj_fs. rewrite !null_on_forbidden_drop. cbn [orb].
    destruct files as [| |l].
    + rewrite drop_absent. reflexivity.
    + destruct (drop_null_cases (A:=list file_serial) (rule_files ek)) as [E|E]; rewrite E; reflexivity.
    + rewrite drop_value. apply existsb_map_false. exact IH.
  - cbn [orb]. destruct files as [| |l]; try reflexivity. apply existsb_map_false. exact IH.
Qed.

Lemma drop_null_id {A} r (x : an A) : null_on_forbidden r x = false -> drop_null r x = x.
Proof. destruct r, x; cbn; congruence. Qed.

Lemma existsb_false_Forall_imp {A} (f : A -> bool) (P : A -> Prop) l :
  Forall (fun x => f x = false -> P x) l -> existsb f l = false -> Forall P l.
Proof.
  induction 1 as [|x l Hx _ IH]; [constructor|]. cbn [existsb]. intro H.
  apply orb_false_iff in H. destruct H as [H1 H2]. constructor; auto.
Qed.

Lemma file_strip_id : forall f, file_null_forbidden f = false -> file_without_forbidden_nulls f = f.
Proof.
  apply (file_serial_ind' (fun f => file_null_forbidden f = false -> file_without_forbidden_nulls f = f)).
  intros u p k sf pa se lon so files d c kp IH. unfold all_sub in IH.
  cbn [file_null_forbidden file_without_forbidden_nulls]. fold_all. fold_strip. intro H.
  apply orb_false_iff in H. destruct H as [Hk Hl].
  assert (S : match fs_files (FileSerial u p k sf pa se lon so files d c kp) with
              | Value l => Value (map file_without_forbidden_nulls l) | Null => Null | Absent => Absent end = files).
  { proj_fs. cbn [fs_files] in Hl. destruct files as [| |l]; try reflexivity.
    rewrite (map_id_Forall _ l (existsb_false_Forall_imp _ _ l IH Hl)). reflexivity. }
  rewrite S.
  destruct (effective_kind (FileSerial u p k sf pa se lon so files d c kp)) as [ek|]; proj_fs; [|reflexivity].
  unfold kind_null_forbidden in Hk. cbn [fs_path fs_subfile fs_pad_amount fs_section fs_linker_offset_name fs_section_order fs_files fs_dir] in Hk.
  repeat (apply orb_false_iff in Hk; let Hk' := fresh "Hk" in destruct Hk as [Hk Hk']).
  rewrite !drop_null_id by assumption. reflexivity.
Qed.

Lemma file_ok_stripped f : serde_ok_file f && is_ok (parse_file f) = valid_file (file_without_forbidden_nulls f).
Proof.
  rewrite <- (file_ok _ (file_null_forbidden_strip f)), serde_ok_file_strip, parse_file_strip. reflexivity.
Qed.

Lemma map_res_strip l : map_res parse_file (map file_without_forbidden_nulls l) = map_res parse_file l.
Proof. apply map_res_map_ext. apply Forall_forall. intros x _. apply parse_file_strip. Qed.

Lemma parse_segment_strip st s : parse_segment st (segment_without_forbidden_nulls s) = parse_segment st s.
Proof.
  destruct s as [u n fl fv fs fo vc dir gp c al nl sa ssa sea csa cea sssa ssea w fill sg kp].
  unfold parse_segment, segment_without_forbidden_nulls, ss_with_files. proj_goal.
  destruct fl as [l|]; [|reflexivity]. cbn [option_map]. rewrite map_res_strip.
  destruct l; reflexivity.
Qed.

Lemma serde_ok_segment_strip s : serde_ok_segment (segment_without_forbidden_nulls s) = serde_ok_segment s.
Proof.
  destruct s as [u n fl fv fs fo vc dir gp c al nl sa ssa sea csa cea sssa ssea w fill sg kp].
  unfold serde_ok_segment, segment_without_forbidden_nulls, ss_with_files. proj_goal.
  destruct fl as [l|]; [|reflexivity]. cbn [option_map opt_ok].
  rewrite (forallb_map_ext file_without_forbidden_nulls serde_ok_file l); [reflexivity|].
  apply Forall_forall. intros x _. apply serde_ok_file_strip.
Qed.

Lemma segment_null_forbidden_strip s : segment_null_forbidden (segment_without_forbidden_nulls s) = false.
Proof.
  destruct s as [u n fl fv fs fo vc dir gp c al nl sa ssa sea csa cea sssa ssea w fill sg kp].
  unfold segment_null_forbidden, segment_without_forbidden_nulls, ss_with_files. proj_goal.
  destruct fl as [l|]; [|reflexivity]. cbn [option_map opt_list].
  apply existsb_map_false. apply Forall_forall. intros x _. apply file_null_forbidden_strip.
Qed.

Lemma segment_strip_id s : segment_null_forbidden s = false -> segment_without_forbidden_nulls s = s.
Proof.
  destruct s as [u n fl fv fs fo vc dir gp c al nl sa ssa sea csa cea sssa ssea w fill sg kp].
  unfold segment_null_forbidden, segment_without_forbidden_nulls, ss_with_files. proj_goal.
  destruct fl as [l|]; [|reflexivity]. cbn [option_map opt_list]. intro H.
  rewrite (map_id_Forall file_without_forbidden_nulls l); [reflexivity|].
  eapply existsb_false_Forall_imp; [|exact H]. apply Forall_forall. intros x _. apply file_strip_id.
Qed.

Lemma map_res_ext_map {A B} (g : A -> A) (p : A -> res B) l :
  (forall x, p (g x) = p x) -> map_res p (map g l) = map_res p l.
Proof. intro H. apply map_res_map_ext. apply Forall_forall. intros x _. apply H. Qed.

Lemma forallb_ext_map {A} (g : A -> A) (v : A -> bool) l :
  (forall x, v (g x) = v x) -> forallb v (map g l) = forallb v l.
Proof. intro H. apply forallb_map_ext. apply Forall_forall. intros x _. apply H. Qed.

Lemma existsb_ext_map {A} (g : A -> A) (v : A -> bool) l :
  (forall x, v (g x) = v x) -> existsb v (map g l) = existsb v l.
Proof. intro H. induction l as [|x l IH]; [reflexivity|]. cbn [map existsb]. rewrite H, IH. reflexivity. Qed.

(* the code reads a document as if the nulls on forbidden file-entry fields were not written *)
Lemma parse_strip d : parse (without_forbidden_nulls d) = parse d.
Proof.
  destruct d as [u gs cl sg en asg rq ats].
  unfold parse, serde_ok, unserialize_document, without_forbidden_nulls. proj_ds.
  destruct sg as [sl|]; [|reflexivity]. cbn [option_map opt_ok].
  rewrite (forallb_ext_map _ _ sl serde_ok_segment_strip).
  assert (E : forall st, map_res (parse_segment st) (map segment_without_forbidden_nulls sl) = map_res (parse_segment st) sl).
  { intro st. apply map_res_ext_map. apply parse_segment_strip. }
  assert (M : forall (a b : res unit), match map segment_without_forbidden_nulls sl with [] => a | _ :: _ => b end =
                                       match sl with [] => a | _ :: _ => b end) by (intros; destruct sl; reflexivity).
  rewrite M. clear M.
  match goal with |- (if ?b then _ else _) = _ => destruct b; [|reflexivity] end.
  destruct gs as [| |g]; cbn [get_non_null_no_default bind].
  - rewrite E. reflexivity.
  - reflexivity.
  - destruct (parse_settings g) as [st|e]; cbn [bind]; [rewrite E|]; reflexivity.
Qed.

Lemma known_plain_strip d : Known_C16_null_plain_string (without_forbidden_nulls d) = Known_C16_null_plain_string d.
Proof.
  destruct d as [u gs cl sg en asg rq ats]. unfold Known_C16_null_plain_string, without_forbidden_nulls. proj_ds.
  destruct sg as [sl|]; [|reflexivity]. cbn [option_map opt_list].
  rewrite (existsb_ext_map segment_without_forbidden_nulls (fun s => is_null (ss_name s)) sl); [reflexivity|].
  intros [? ? ? ? ? ? ? ? ? ? ? ? ? ? ? ? ? ? ? ? ? ? ?]. reflexivity.
Qed.

Lemma known_forbidden_strip d : Known_C16_null_forbidden_field (without_forbidden_nulls d) = false.
Proof.
  destruct d as [u gs cl sg en asg rq ats]. unfold Known_C16_null_forbidden_field, without_forbidden_nulls. proj_ds.
  destruct sg as [sl|]; [|reflexivity]. cbn [option_map opt_list].
  apply existsb_map_false. apply Forall_forall. intros x _. apply segment_null_forbidden_strip.
Qed.

Lemma doc_strip_id d : Known_C16_null_forbidden_field d = false -> without_forbidden_nulls d = d.
Proof.
  destruct d as [u gs cl sg en asg rq ats]. unfold Known_C16_null_forbidden_field, without_forbidden_nulls. proj_ds.
  destruct sg as [sl|]; [|reflexivity]. cbn [option_map opt_list]. intro H.
  rewrite (map_id_Forall segment_without_forbidden_nulls sl); [reflexivity|].
  eapply existsb_false_Forall_imp; [|exact H]. apply Forall_forall. intros x _. apply segment_strip_id.
Qed.

(* the complete picture outside the first class: accepted iff valid once the forbidden nulls are left out *)
Lemma doc_ok_stripped d : Known_C16_null_plain_string d = false -> is_ok (parse d) = valid (without_forbidden_nulls d).
Proof.
  intro K. rewrite <- parse_strip. apply doc_ok; [rewrite known_plain_strip; exact K | apply known_forbidden_strip].
Qed.

Lemma parse_like_absent d : parse d = parse (without_forbidden_nulls d).
Proof. symmetry. apply parse_strip. Qed.

Lemma strip_leaves_class d :
  Known_C16_null_forbidden_field (without_forbidden_nulls d) = false /\
  Known_C16_null_plain_string (without_forbidden_nulls d) = Known_C16_null_plain_string d.
Proof. exact (conj (known_forbidden_strip d) (known_plain_strip d)). Qed.

Lemma valid_split_doc d :
  valid d = valid (without_forbidden_nulls d) && negb (Known_C16_null_forbidden_field d).
Proof.
  destruct (Known_C16_null_forbidden_field d) eqn:F.
  - destruct (valid d) eqn:V; [|btauto]. apply valid_no_known_forbidden in V. congruence.
  - rewrite (doc_strip_id d F). btauto.
Qed.

(* ---------- the known deviations, witnessed ---------- *)

Definition wit_conds : conds_serial := mkCondsSerial Absent Absent Absent Absent.
Definition wit_file : file_serial :=
  FileSerial [] (Value "a.o") Absent Absent Absent Absent Absent Absent Absent Absent wit_conds SKAbsent.
Definition wit_segment_of (name : an string) (files : list file_serial) : segment_serial :=
  SegmentSerial [] name (Some files) Absent Absent Absent Absent Absent Absent wit_conds
    Absent Absent Absent Absent Absent Absent Absent Absent Absent Absent Absent Absent SKAbsent.
Definition wit_segment (name : an string) : segment_serial := wit_segment_of name [wit_file].
(* segments: [ { name: null, files: [ { path: a.o } ] } ] *)
Definition wit_null_name : document_serial :=
  DocumentSerial [] Absent Absent (Some [wit_segment Null]) Absent Absent Absent Absent.

Lemma refuted_null_plain_string :
  exists sd, Known_C16_null_plain_string sd = true /\ valid sd = false /\ is_ok (parse sd) = true.
Proof. exists wit_null_name. vm_compute. repeat split. Qed.

(* segments: [ { name: boot, files: [ { path: a.o, kind: object, pad_amount: null, subfile: null } ] } ] *)
Definition wit_file_null_forbidden : file_serial :=
  FileSerial [] (Value "a.o") (Value KObject) Null Null Absent Absent Absent Absent Absent wit_conds SKAbsent.
Definition wit_null_forbidden : document_serial :=
  DocumentSerial [] Absent Absent (Some [wit_segment_of (Value "boot") [wit_file_null_forbidden]])
    Absent Absent Absent Absent.

Lemma refuted_null_forbidden_field :
  exists sd, Known_C16_null_forbidden_field sd = true /\ valid sd = false /\ is_ok (parse sd) = true.
Proof. exists wit_null_forbidden. vm_compute. repeat split. Qed.

(* the same two levels down, on the other kinds:
   segments: [ { name: boot, files: [ { kind: group, path: null, files:
       [ { kind: pad, pad_amount: 16, section: .text, path: null, dir: null },
         { path: lib.a, pad_amount: null, files: null } ] } ] } ]        (kind guessed: archive) *)
Definition wit_nested_null_forbidden : document_serial :=
  DocumentSerial [] Absent Absent
    (Some [wit_segment_of (Value "boot")
       [FileSerial [] Null (Value KGroup) Absent Absent Absent Absent Absent
          (Value [FileSerial [] Null (Value KPad) Absent (Value 16%N) (Value ".text") Absent Absent Absent Null wit_conds SKAbsent;
                  FileSerial [] (Value "lib.a") Absent Absent Null Absent Absent Absent Null Absent wit_conds SKAbsent])
          Absent wit_conds SKAbsent]])
    Absent Absent Absent Absent.

(* ---------- which error: an unknown key at any of the nine levels is serde's error ---------- *)

Lemma no_unknown_has_keys u : no_unknown u = true -> has_keys u = false.
Proof. destruct u; cbn; congruence. Qed.

Lemma serde_file_no_unknown : forall f, serde_ok_file f = true -> file_has_unknown f = false.
Proof.
  apply (file_serial_ind' (fun f => serde_ok_file f = true -> file_has_unknown f = false)).
  intros u p k sf pa se lon so files d c kp IH. unfold all_sub in IH.
  cbn [serde_ok_file file_has_unknown fs_unknown fs_keep fs_section_order fs_files]. intro H. split_and H.
  rewrite (no_unknown_has_keys _ H). cbn [orb].
  destruct files as [| |l]; try reflexivity. clear H V1 V0.
  induction IH as [|x l Hx Hl IHl]; [reflexivity|].
  apply andb_true_iff in V. destruct V as [Va Vb]. rewrite (Hx Va), (IHl Vb). reflexivity.
Qed.

Ltac use_forallb :=
  erewrite forallb_existsb; [ | | eassumption ]; cbn [orb].

Ltac no_unknown_from H := split_and H; apply no_unknown_has_keys; assumption.

Lemma serde_segment_no_unknown s : serde_ok_segment s = true -> segment_has_unknown s = false.
Proof.
  unfold serde_ok_segment, segment_has_unknown. intro H. split_and H.
  rewrite (no_unknown_has_keys _ H). cbn [orb].
  destruct (ss_files s) as [l|]; [|discriminate]. cbn [opt_ok opt_list] in *.
  use_forallb; [ | exact serde_file_no_unknown ].
  destruct (ss_gp_info s) as [| |g]; try reflexivity.
  match goal with V : an_ok serde_ok_gp _ = true |- _ => cbn [an_ok] in V; unfold serde_ok_gp in V;
    apply no_unknown_has_keys; exact V end.
Qed.

Lemma serde_no_unknown d : serde_ok d = true -> has_unknown_key d = false.
Proof.
  unfold serde_ok, has_unknown_key. intro H. split_and H.
  rewrite (no_unknown_has_keys _ H). cbn [orb].
  repeat match goal with V : an_ok (forallb _) _ = true |- _ => rewrite an_ok_forallb in V end.
  destruct (ds_segments d) as [l|]; [|discriminate]. cbn [opt_ok opt_list] in *.
  assert (S : match ds_settings d with Value s => has_keys (sts_unknown s) | _ => false end = false).
  { destruct (ds_settings d) as [| |g]; try reflexivity.
    match goal with V : an_ok serde_ok_settings _ = true |- _ => cbn [an_ok] in V; unfold serde_ok_settings in V;
      no_unknown_from V end. }
  rewrite S. cbn [orb].
  use_forallb; [ | intros c Hc; unfold serde_ok_class in Hc; no_unknown_from Hc ].
  use_forallb; [ | exact serde_segment_no_unknown ].
  use_forallb; [ | intros c Hc; unfold serde_ok_assign in Hc; no_unknown_from Hc ].
  use_forallb; [ | intros c Hc; unfold serde_ok_required in Hc; no_unknown_from Hc ].
  use_forallb; [ | intros c Hc; unfold serde_ok_assert in Hc; no_unknown_from Hc ].
  reflexivity.
Qed.

Lemma unknown_key_is_yaml_error d : has_unknown_key d = true -> parse d = Err EYaml.
Proof.
  intro H. unfold parse. destruct (serde_ok d) eqn:E; [|reflexivity].
  apply serde_no_unknown in E. congruence.
Qed.

(* ---------- which error: single-fault cases ---------- *)

Lemma gnn_ok_val {A} (x : an A) n d : not_null x = true -> get_non_null x n d = Ok (an_or x d).
Proof. destruct x; cbn; congruence. Qed.
Lemma gnnnd_ok_val {A} (x : an A) n : not_null x = true -> get_non_null_no_default x n = Ok (an_opt x).
Proof. destruct x; cbn; congruence. Qed.
Lemma gon_val {A} (x : an A) d : get_optional_nullable x d = Ok (resolve_nullable x d).
Proof. destruct x; reflexivity. Qed.
Lemma combo_ok a b f1 f2 : negb (a && b) = true -> combo a b f1 f2 = Ok tt.
Proof. unfold combo. destruct (a && b); cbn; congruence. Qed.

(* every step whose condition is among the hypotheses is replaced by its value *)
Ltac run_steps :=
  repeat first
    [ rewrite gon_val
    | rewrite gnn_ok_val by assumption
    | rewrite gnnnd_ok_val by assumption ];
  cbn [bind];
  repeat rewrite is_some_an_opt;
  repeat (rewrite combo_ok by assumption);
  cbn [bind get_non_null_no_default an_opt].

(* d_path without target_path, everything else in `settings:` being fine *)
Lemma d_path_without_target s :
  valid_settings (sts_with_d_path s Absent) = true ->
  has_value (sts_d_path s) = true -> has_value (sts_target_path s) = false ->
  parse_settings s = Err (EMissingRequiredFieldCombo "target_path" "d_path").
Proof.
  destruct s. unfold valid_settings, sts_with_d_path, parse_settings. proj_goal. intros H Hd Ht. split_and H.
  run_steps.
  destruct sts_d_path; try discriminate Hd. destruct sts_target_path; try discriminate Ht; reflexivity.
Qed.

Lemma valid_files_parse l : forallb valid_file l = true -> exists files, map_res parse_file l = Ok files.
Proof.
  intro H. assert (L : forallb valid_file_lax l = true).
  { rewrite files_split in H. apply andb_true_iff in H. apply H. }
  rewrite <- files_ok_lax in L. apply andb_true_iff in L. destruct L as [_ H'].
  destruct (map_res parse_file l) as [v|e]; [exists v; reflexivity | discriminate H'].
Qed.

Ltac split_all :=
  repeat match goal with H : _ && _ = true |- _ => apply andb_true_iff in H; destruct H end.

(* the common beginning of the segment cases: name, files *)
Ltac segment_start H n fl :=
  unfold valid_segment, ss_with_address, ss_with_gp_info in H; proj_ss H; rewrite at_most_one in H; split_all;
  unfold parse_segment; proj_goal;
  match goal with V : required_str n = true |- _ =>
    destruct n as [| |n]; try discriminate V; unfold required_str, nonempty_str in V;
    cbn [plain_str opt_str]; destruct (is_empty n); [discriminate V|]; cbn [bind] end;
  destruct fl as [[|? ?]|]; try discriminate; cbn [opt_list] in *; cbn [bind];
  match goal with V : forallb valid_file _ = true |- _ =>
    let files := fresh "files" in let E := fresh "E" in
    destruct (valid_files_parse _ V) as [files E]; rewrite E; cbn [bind] end.

Ltac two_addresses H H1 H2 n fl fv fs fo vc :=
  segment_start H n fl; proj_ss H1; proj_ss H2;
  destruct fv, fs, fo, vc; cbn [has_value not_null is_null negb andb] in *; try congruence; reflexivity.

Lemma two_addresses_vram_symbol st gs s :
  valid_segment gs (ss_with_address s (ss_fixed_vram s) Absent (ss_follows_segment s) (ss_vram_class s)) = true ->
  has_value (ss_fixed_vram s) = true -> has_value (ss_fixed_symbol s) = true ->
  parse_segment st s = Err (EInvalidFieldCombo "fixed_vram" "fixed_symbol").
Proof.
  intros H H1 H2. destruct s as [u n fl fv fs fo vc dir gp c al nl sa ssa sea csa cea sssa ssea w fill sg kp].
  two_addresses H H1 H2 n fl fv fs fo vc.
Qed.

Lemma two_addresses_vram_follows st gs s :
  valid_segment gs (ss_with_address s (ss_fixed_vram s) (ss_fixed_symbol s) Absent (ss_vram_class s)) = true ->
  has_value (ss_fixed_vram s) = true -> has_value (ss_follows_segment s) = true ->
  parse_segment st s = Err (EInvalidFieldCombo "fixed_vram" "follows_segment").
Proof.
  intros H H1 H2. destruct s as [u n fl fv fs fo vc dir gp c al nl sa ssa sea csa cea sssa ssea w fill sg kp].
  two_addresses H H1 H2 n fl fv fs fo vc.
Qed.

Lemma two_addresses_vram_class st gs s :
  valid_segment gs (ss_with_address s (ss_fixed_vram s) (ss_fixed_symbol s) (ss_follows_segment s) Absent) = true ->
  has_value (ss_fixed_vram s) = true -> has_value (ss_vram_class s) = true ->
  parse_segment st s = Err (EInvalidFieldCombo "fixed_vram" "vram_class").
Proof.
  intros H H1 H2. destruct s as [u n fl fv fs fo vc dir gp c al nl sa ssa sea csa cea sssa ssea w fill sg kp].
  two_addresses H H1 H2 n fl fv fs fo vc.
Qed.

Lemma two_addresses_symbol_follows st gs s :
  valid_segment gs (ss_with_address s (ss_fixed_vram s) (ss_fixed_symbol s) Absent (ss_vram_class s)) = true ->
  has_value (ss_fixed_symbol s) = true -> has_value (ss_follows_segment s) = true ->
  parse_segment st s = Err (EInvalidFieldCombo "fixed_symbol" "follows_segment").
Proof.
  intros H H1 H2. destruct s as [u n fl fv fs fo vc dir gp c al nl sa ssa sea csa cea sssa ssea w fill sg kp].
  two_addresses H H1 H2 n fl fv fs fo vc.
Qed.

Lemma two_addresses_symbol_class st gs s :
  valid_segment gs (ss_with_address s (ss_fixed_vram s) (ss_fixed_symbol s) (ss_follows_segment s) Absent) = true ->
  has_value (ss_fixed_symbol s) = true -> has_value (ss_vram_class s) = true ->
  parse_segment st s = Err (EInvalidFieldCombo "fixed_symbol" "vram_class").
Proof.
  intros H H1 H2. destruct s as [u n fl fv fs fo vc dir gp c al nl sa ssa sea csa cea sssa ssea w fill sg kp].
  two_addresses H H1 H2 n fl fv fs fo vc.
Qed.

Lemma two_addresses_follows_class st gs s :
  valid_segment gs (ss_with_address s (ss_fixed_vram s) (ss_fixed_symbol s) (ss_follows_segment s) Absent) = true ->
  has_value (ss_follows_segment s) = true -> has_value (ss_vram_class s) = true ->
  parse_segment st s = Err (EInvalidFieldCombo "follows_segment" "vram_class").
Proof.
  intros H H1 H2. destruct s as [u n fl fv fs fo vc dir gp c al nl sa ssa sea csa cea sssa ssea w fill sg kp].
  two_addresses H H1 H2 n fl fv fs fo vc.
Qed.

(* empty name, empty files list, empty segments list *)
Lemma segment_empty_name st s : ss_name s = Value "" -> parse_segment st s = Err (EEmptyValue "name").
Proof. intro E. unfold parse_segment. rewrite E. reflexivity. Qed.

Lemma segment_empty_files st s :
  required_str (ss_name s) = true -> ss_files s = Some [] -> parse_segment st s = Err (EEmptyValue "files").
Proof.
  intros Hn E. unfold parse_segment. rewrite E. destruct (ss_name s) as [| |n]; try discriminate Hn.
  unfold required_str, nonempty_str in Hn. cbn [plain_str opt_str]. destruct (is_empty n); [discriminate Hn | reflexivity].
Qed.

Lemma empty_segments d :
  serde_ok d = true -> not_null (ds_settings d) = true -> if_given valid_settings (ds_settings d) = true ->
  ds_segments d = Some [] -> parse d = Err (EEmptyValue "segments").
Proof.
  intros S N V E. unfold parse. rewrite S. unfold unserialize_document. rewrite E.
  destruct (ds_settings d) as [| |g]; [reflexivity | discriminate N | ].
  cbn [if_given] in V. rewrite <- settings_ok in V. apply andb_true_iff in V. destruct V as [_ V].
  cbn [get_non_null_no_default bind]. destruct (parse_settings g); [reflexivity | discriminate V].
Qed.

(* a vram class without any placement field *)
Lemma class_without_placement c :
  required_str (vs_name c) = true ->
  not_null (vs_fixed_vram c) = true -> not_null (vs_fixed_symbol c) = true -> not_null (vs_follows_classes c) = true ->
  count_true [has_value (vs_fixed_vram c); has_value (vs_fixed_symbol c); nonempty_list (an_list (vs_follows_classes c))] = 0 ->
  parse_class c = Err (EMissingAnyOfOptionalFields "'fixed_vram', 'fixed_symbol', 'follows_classes'").
Proof.
  destruct c as [u n fv fs fo k]. cbn [vs_name vs_fixed_vram vs_fixed_symbol vs_follows_classes]. intros Hn H1 H2 H3 H0.
  unfold parse_class. cbn [vs_name vs_fixed_vram vs_fixed_symbol vs_follows_classes vs_keep].
  destruct n as [| |n]; try discriminate Hn. unfold required_str, nonempty_str in Hn. cbn [plain_str opt_str].
  destruct (is_empty n); [discriminate Hn|]. cbn [bind].
  destruct fv, fs, fo as [| |[|x l]]; cbn in *; try congruence; try discriminate.
Qed.

(* gp_info on a segment while the settings hardcode _gp *)
Lemma gp_info_with_hardcoded st gs s g :
  valid_segment gs (ss_with_gp_info s Absent) = true -> ss_gp_info s = Value g -> valid_gp g = true ->
  is_some (hardcoded_gp_value st) = true ->
  parse_segment st s = Err (EInvalidFieldCombo "segment.gp_info" "settings.hardcoded_gp_value").
Proof.
  intros H Eg Vg Hh. destruct s as [u n fl fv fs fo vc dir gp c al nl sa ssa sea csa cea sssa ssea w fill sg kp].
  cbn [ss_gp_info] in Eg. subst gp.
  segment_start H n fl. run_steps.
  rewrite <- gp_ok in Vg. apply andb_true_iff in Vg. destruct Vg as [_ Vg].
  destruct (parse_gp g) as [g'|e]; [|discriminate Vg]. cbn [bind is_some]. rewrite Hh. reflexivity.
Qed.

(* ---------- example inputs (used by the Examples of Properties/C16.v) ---------- *)

Definition ex_conds (inc_any : an pairs) : conds_serial := mkCondsSerial inc_any Absent Absent Absent.
Definition ex_object (unk : list string) (path : string) (section : an string) (inc_any : an pairs) : file_serial :=
  FileSerial unk (Value path) Absent Absent Absent section Absent Absent Absent Absent (ex_conds inc_any) SKAbsent.
Definition ex_pad (amount : an N) : file_serial :=
  FileSerial [] Absent (Value KPad) Absent amount (Value ".text") Absent Absent Absent Absent (ex_conds Absent) SKAbsent.
Definition ex_offset : file_serial :=
  FileSerial [] Absent (Value KLinkerOffset) Absent Absent (Value ".data") (Value "libs_start") Absent Absent Absent
    (ex_conds Absent) SKAbsent.
Definition ex_archive : file_serial :=
  FileSerial [] (Value "lib/libmus.a") Absent (Value "aud_samples.o") Absent Absent Absent
    (Value [(".data", ".rodata")]) Absent Absent (ex_conds Absent) (SKList [".text"]).
Definition ex_group (unk : list string) : file_serial :=
  FileSerial [] Absent (Value KGroup) Absent Absent Absent Absent Absent
    (Value [ex_offset; ex_archive; ex_object unk "player.o" Absent Absent]) (Value "src/libmus")
    (ex_conds Absent) (SKBool true).

(* a rich document with ten places where a single fault can be injected:
   settings:  { base_path: build, hardcoded_gp_value: <hgp>, d_path: game.d, target_path: <target>, alloc_sections: <alloc>,
                sections_start_alignment: { .bss: 8 } }
   vram_classes: [ { name: overlays, fixed_vram: 0x80200000, fixed_symbol: <class_symbol> } ]
   segments:
     - name: boot, fixed_vram: 0x80000400, fixed_symbol: <seg_symbol>, gp_info: { section: <gp_section> }
       files: [ { path: src/boot.o, section: <obj_section>, include_if_any: <inc_any> },
                { kind: pad, pad_amount: <pad_amount>, section: .text },
                { kind: group, dir: src/libmus, keep_sections: true,
                  files: [ linker_offset, archive with subfile and section_order, { path: player.o, <unk> } ] } ]
     - name: ovl, vram_class: overlays, subalign: null, files: [ { path: src/ovl.o } ]
   entry: start
   symbol_assignments: [ { name: stack_top, value: "0x80400000", provide: true } ]
   required_symbols: [ { name: main } ]
   asserts: [ { check: "boot_VRAM_END <= 0x80400000", error_message: "boot is too big" } ]                          *)
Definition ex_doc (unk : list string) (pad_amount : an N) (obj_section seg_symbol class_symbol : an string)
    (hgp : an N) (gp_section target : an string) (inc_any : an pairs) (alloc : an (list string))
    (segments_tail : bool) : document_serial :=
  let st := SettingsSerial [] (Value "build") Absent hgp (Value "game.d") target
              Absent Absent Absent Absent Absent Absent Absent Absent Absent Absent
              alloc Absent Absent Absent Absent Absent Absent
              (Value [(".bss", 8%N)]) Absent Absent Absent Absent in
  let boot := SegmentSerial [] (Value "boot")
                (Some [ex_object [] "src/boot.o" obj_section inc_any; ex_pad pad_amount; ex_group unk])
                (Value 2147484672%N) seg_symbol Absent Absent Absent
                (Value (GpSerial [] gp_section Absent Absent Absent (ex_conds Absent))) (ex_conds Absent)
                Absent Absent Absent Absent Absent Absent Absent Absent Absent Absent Absent Absent SKAbsent in
  let ovl := SegmentSerial [] (Value "ovl") (Some [ex_object [] "src/ovl.o" Absent Absent])
                Absent Absent Absent (Value "overlays") Absent Absent (ex_conds Absent)
                Absent Absent Null Absent Absent Absent Absent Absent Absent Absent Absent Absent SKAbsent in
  DocumentSerial []
    (Value st)
    (Value [ClassSerial [] (Value "overlays") (Value 2149580800%N) class_symbol Absent SKAbsent])
    (Some (if segments_tail then [boot; ovl] else []))
    (Value "start")
    (Value [AssignSerial [] (Value "stack_top") (Value "0x80400000") (Value true) Absent (ex_conds Absent)])
    (Value [RequiredSerial [] (Value "main") (ex_conds Absent)])
    (Value [AssertSerial [] (Value "boot_VRAM_END <= 0x80400000") (Value "boot is too big") (ex_conds Absent)]).

(* the fault-free instance *)
Definition ex_doc_ok : document_serial :=
  ex_doc [] (Value 16%N) Absent Absent Absent Absent (Value ".sdata") (Value "build/game.elf")
         (Value [("version", "us")]) Absent true.

(* a single-fault mutant: invalid, and rejected with the stated error *)
Definition is_mutant_rejected (sd : document_serial) (e : err) : Prop := valid sd = false /\ parse sd = Err e.
