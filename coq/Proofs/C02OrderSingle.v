(* C02OrderSingle: the analogue of document_order (Proofs/C02Order.v) for single-segment scripts (gen_normal in
   single-segment mode and the per-segment scripts of a partial build): inside the output section of a
   configured section, the addresses follow the order of the file list.  1. an output section without
   address expression never fails (same_outsec_addresses without error condition); 2. where the output
   section of the i-th section of a half is in the script, and that every claim before it has an earlier
   position; 3. the order theorem. *)
From Slinky Require Import Model.Types Model.Generated Model.Runtime Model.Style Model.Script Model.Writer Model.LdSem.
From Slinky Require Import Spec.C17 Spec.C18 Spec.C04 Spec.C09 Spec.C01 Spec.C11 Spec.DocLevel Spec.C01Doc Spec.C01Listed
                           Spec.DocSingle Spec.DocPartial Spec.C02Order Spec.ModesListed.
From Slinky Require Import Proofs.C06 Proofs.C18 Proofs.C17 Proofs.LdLemmas Proofs.C04 Proofs.C02 Proofs.C01 Proofs.C11
                           Proofs.C18Link Proofs.DocLevel Proofs.C01Doc Proofs.C06More Proofs.C01Listed Proofs.DocSingle
                           Proofs.C02Order Proofs.ModesListed.
From Coq Require Import Lia ZArith Sorted.
Local Open Scope Z_scope.

(* ====================================================================== *)
(* 1. two input statements of an output section without address            *)
(* ====================================================================== *)

Section PairNoAddr.
  Variables (env : list (string * Z)) (senv : list osec) (ext : list (string * Z)) (final : bool).
  Notation top := (exec_top_stmt env senv ext final).
  Notation runl := (run env senv ext final).

  Lemma run_pair_noaddr A name at_ noload sub b1 k1 p1 m1 s1 w1 b2 k2 p2 m2 s2 w2 b3 B x y st0 :
    let body := (b1 ++ SInput k1 p1 m1 s1 w1 :: b2 ++ SInput k2 p2 m2 s2 w2 :: b3)%list in
    let L := (A ++ SOutSec name None at_ noload sub body :: B)%list in
    let pre := (flat_map top_claims A ++ body_claims name b1)%list in
    sizes_ok st0 -> In x (l_remaining st0) -> In y (l_remaining st0) ->
    (forall c, In c pre -> claim_matches c x = false) -> sel false p1 m1 s1 w1 x = true ->
    (forall c, In c (pre ++ CInput name p1 m1 s1 w1 :: body_claims name b2) -> claim_matches c y = false) ->
    sel false p2 m2 s2 w2 y = true ->
    exists l0, l_placed (runl L st0) = (l_placed st0 ++ l0)%list /\
               placed_in_order l0 name x y (dot_adds b2).
  Proof.
    intros body L pre Hn Hx Hy Hx1 Hx2 Hy1 Hy2.
    set (stA := runl A st0).
    assert (HnA : sizes_ok stA) by (apply run_remaining_Forall; exact Hn).
    assert (HxA : In x (l_remaining stA)).
    { apply run_keeps; [exact Hx|]. intros c Hc. apply Hx1. apply in_or_app. left. exact Hc. }
    assert (HyA : In y (l_remaining stA)).
    { apply run_keeps; [exact Hy|]. intros c Hc. apply Hy1. apply in_or_app. left. apply in_or_app. left. exact Hc. }
    assert (EL : runl L st0 = runl B (top stA (SOutSec name None at_ noload sub body)))
      by (unfold L, stA; rewrite run_app, run_cons; reflexivity).
    set (vma := align_up (l_dot stA) (body_align (option_map Z.of_N sub) body (l_remaining stA) 1)).
    destruct (exec_outsec_ok env senv ext final name None at_ noload sub body stA vma eq_refl) as [_ [_ [_ [_ [Hp _]]]]].
    unfold outsec_body in Hp.
    destruct (body_pair env senv ext final vma (option_map Z.of_N sub) name b1 k1 p1 m1 s1 w1 b2 k2 p2 m2 s2 w2 b3 x y
                        (SState 0 false stA))
      as [l1 [px [l2 [py [l3 [Ep [Mx [Ox [My [Oy Hle]]]]]]]]]]; try assumption.
    { intros c Hc. apply Hx1. apply in_or_app. right. exact Hc. }
    { intros c Hc. apply Hy1. unfold pre. rewrite <- app_assoc. apply in_or_app. right. exact Hc. }
    cbn [s_st] in Ep. fold body in Ep. rewrite <- Hp in Ep.
    destruct (run_placed env senv ext final A st0) as [nA EA]. fold stA in EA.
    destruct (run_placed env senv ext final B (top stA (SOutSec name None at_ noload sub body))) as [nB EB].
    exists (nA ++ l1 ++ px :: l2 ++ py :: l3 ++ nB)%list. split.
    - rewrite EL, EB. cbn [exec_top_stmt]. rewrite Ep, EA. repeat rewrite <- app_assoc. cbn [app].
      repeat rewrite <- app_assoc. reflexivity.
    - exists px, py, (nA ++ l1)%list, l2, (l3 ++ nB)%list. split; [repeat rewrite <- app_assoc; reflexivity|]. auto.
  Qed.

  (* C02_same_outsec_addresses_noaddr *)
  Theorem same_outsec_addresses_noaddr script u A name at_ noload sub
          b1 k1 p1 m1 s1 w1 b2 k2 p2 m2 s2 w2 b3 B x y :
    let body := (b1 ++ SInput k1 p1 m1 s1 w1 :: b2 ++ SInput k2 p2 m2 s2 w2 :: b3)%list in
    let pre := (flat_map top_claims A ++ body_claims name b1)%list in
    let st' := exec_script env senv ext final script (init_state u) in
    flat_stmts script = (A ++ SOutSec name None at_ noload sub body :: B)%list ->
    Forall (fun z => 0 <= u_size z) u -> In x u -> In y u ->
    (forall c, In c pre -> claim_matches c x = false) -> sel false p1 m1 s1 w1 x = true ->
    (forall c, In c (pre ++ CInput name p1 m1 s1 w1 :: body_claims name b2) -> claim_matches c y = false) ->
    sel false p2 m2 s2 w2 y = true ->
    placed_in_order (l_placed st') name x y (dot_adds b2).
  Proof.
    intros body pre st' Ef Hu Hx Hy Hx1 Hx2 Hy1 Hy2. unfold st' in *. rewrite exec_script_flat, Ef in *.
    destruct (run_pair_noaddr A name at_ noload sub b1 k1 p1 m1 s1 w1 b2 k2 p2 m2 s2 w2 b3 B x y (init_state u))
      as [l0 [E H]]; try assumption.
    cbn [init_state l_placed app] in E. fold body in E. rewrite E. exact H.
  Qed.
End PairNoAddr.

(* ====================================================================== *)
(* 2. the output section of a configured section inside the script         *)
(* ====================================================================== *)

Lemma mode_base_fun rt cfg d seg b b' : mode_base rt cfg d seg b -> mode_base rt cfg d seg b' -> b = b'.
Proof.
  intros H H'. apply mode_base_seg_base in H. apply mode_base_seg_base in H'.
  exact (seg_base_fun _ _ _ _ _ _ H H').
Qed.

Section SingleSplit.
  Variables (rt : runtime) (d : document) (cfg : wcfg).
  Let stg := doc_settings d.
  Let sty := linker_symbols_style stg.
  Let classes := doc_vram_classes d.

  (* the claims of the group of the j-th section of a half have positions h :: j :: path *)
  Lemma group_claims_at seg nl j sec ws s1 ws1 c :
    nth_error (part_sections seg nl) j = Some sec ->
    emit_section rt sty cfg seg (part_sections seg nl) (base_path stg) sec ws = Ok (s1, ws1) ->
    In c (body_claims sec (opt_fill seg ++ s1)) ->
    exists path, SingleClaimAt rt cfg d seg (half_index nl :: j :: path) c.
  Proof.
    intros Hn E1 Hc. rewrite body_claims_app, (noinput_list _ _ (ni_opt_fill seg)) in Hc. cbn [app] in Hc.
    apply body_claims_inv in Hc. destruct Hc as [kp [pth [member [sect [wild [Ec Hin]]]]]].
    apply emit_section_sound in E1. destruct E1 as [b [Hb HK]].
    pose proof (kids_enumerated rt sty cfg seg (part_sections seg nl) _ _ _ _ HK) as K.
    destruct (enum_in _ _ _ _ K Hin) as [[]|[path Hp]].
    exists path. exists nl, j, sec, b, path, kp, pth, member, sect, wild.
    split; [reflexivity|]. split; [exact Hn|]. split; [apply mode_base_seg_base; exact Hb|]. split; [exact Hp | exact Ec].
  Qed.

  (* every claim of the groups [rest] (the sections from index [off] on) has a position *)
  Lemma single_groups_claims_at seg nl : forall rest off ws body ws',
    single_groups rt stg cfg seg (part_sections seg nl) nl rest ws = Ok (body, ws') ->
    (forall j, nth_error rest j = nth_error (part_sections seg nl) (off + j)) ->
    forall c, In c (flat_map top_claims body) ->
    exists j path, SingleClaimAt rt cfg d seg (half_index nl :: (off + j)%nat :: path) c.
  Proof.
    induction rest as [|sec0 rest IH]; intros off ws body ws' H Hoff c Hc.
    - apply single_groups_nil in H. destruct H; subst. destruct Hc.
    - apply single_groups_cons in H. destruct H as [s1 [ws1 [s2 [E1 [E2 E]]]]]. subst body.
      rewrite !flat_map_app in Hc.
      rewrite (claimless_list _ (q_section_symbol_start rt _ cfg seg sec0)) in Hc.
      rewrite (claimless_list _ (q_section_symbol_end _ cfg seg sec0)) in Hc.
      rewrite q_blank_if in Hc. cbn [app flat_map top_claims] in Hc. rewrite app_nil_r in Hc.
      apply in_app_or in Hc. destruct Hc as [Hc|Hc].
      + assert (Hn : nth_error (part_sections seg nl) (off + 0) = Some sec0) by (rewrite <- Hoff; reflexivity).
        destruct (group_claims_at seg nl _ sec0 ws s1 ws1 c Hn E1 Hc) as [path Hp]. exists 0%nat, path. exact Hp.
      + destruct (IH (S off) _ _ _ E2) with (c := c) as [j [path Hp]]; [|exact Hc|].
        * intro j. replace (S off + j)%nat with (off + S j)%nat by lia. rewrite <- Hoff. reflexivity.
        * exists (S j), path. rewrite <- Nat.add_succ_comm. exact Hp.
  Qed.

  (* the output section of the i-th section of [rest] *)
  Lemma single_groups_nth_split seg nl : forall rest off ws body ws' i section,
    single_groups rt stg cfg seg (part_sections seg nl) nl rest ws = Ok (body, ws') ->
    (forall j, nth_error rest j = nth_error (part_sections seg nl) (off + j)) ->
    nth_error rest i = Some section ->
    exists A files B b,
      body = (A ++ SOutSec section None None nl (subalign seg) (opt_fill seg ++ files) :: B)%list /\
      mode_base rt cfg d seg b /\
      KidsStmts rt sty cfg seg (part_sections seg nl) (sg_files seg) section b files /\
      forall c, In c (flat_map top_claims A) ->
        exists j path, (j < i)%nat /\ SingleClaimAt rt cfg d seg (half_index nl :: (off + j)%nat :: path) c.
  Proof.
    induction rest as [|sec0 rest IH]; intros off ws body ws' i section H Hoff Hn; [destruct i; discriminate|].
    apply single_groups_cons in H. destruct H as [s1 [ws1 [s2 [E1 [E2 E]]]]]. subst body.
    destruct i as [|i'].
    - cbn [nth_error] in Hn. inversion Hn; subst sec0.
      pose proof E1 as E1'. apply emit_section_sound in E1'. destruct E1' as [b [Hb HK]].
      exists (section_symbol_start rt sty cfg seg section), s1,
        (section_symbol_end sty cfg seg section ++ (match rest with [] => [] | _ :: _ => [SBlank] end) ++ s2)%list, b.
      split; [reflexivity|]. split; [apply mode_base_seg_base; exact Hb|]. split; [exact HK|].
      intros c Hc. rewrite (claimless_list _ (q_section_symbol_start rt _ cfg seg section)) in Hc. destruct Hc.
    - cbn [nth_error] in Hn.
      destruct (IH (S off) ws1 s2 ws' i' section E2) as (A & files & B & b & Eb & Hb & HK & HA); [|exact Hn|].
      { intro j. replace (S off + j)%nat with (off + S j)%nat by lia. rewrite <- Hoff. reflexivity. }
      exists (section_symbol_start rt sty cfg seg sec0 ++
              [SOutSec sec0 None None nl (subalign seg) (opt_fill seg ++ s1)] ++
              section_symbol_end sty cfg seg sec0 ++ (match rest with [] => [] | _ :: _ => [SBlank] end) ++ A)%list,
        files, B, b.
      split; [rewrite Eb; repeat rewrite <- app_assoc; reflexivity|]. split; [exact Hb|]. split; [exact HK|].
      intros c Hc. rewrite !flat_map_app in Hc.
      rewrite (claimless_list _ (q_section_symbol_start rt _ cfg seg sec0)) in Hc.
      rewrite (claimless_list _ (q_section_symbol_end _ cfg seg sec0)) in Hc.
      rewrite q_blank_if in Hc. cbn [app flat_map top_claims] in Hc. rewrite app_nil_r in Hc.
      apply in_app_or in Hc. destruct Hc as [Hc|Hc].
      + assert (Hn0 : nth_error (part_sections seg nl) (off + 0) = Some sec0) by (rewrite <- Hoff; reflexivity).
        destruct (group_claims_at seg nl _ sec0 ws s1 ws1 c Hn0 E1 Hc) as [path Hp].
        exists 0%nat, path. split; [lia | exact Hp].
      + destruct (HA c Hc) as [j [path [Hlt Hp]]]. exists (S j), path. split; [lia|].
        rewrite <- Nat.add_succ_comm. exact Hp.
  Qed.

  (* the whole SECTIONS block *)
  Lemma add_single_split seg ws s ws' nl i section :
    add_single_segment rt stg cfg classes seg ws = Ok (s, ws') ->
    nth_error (part_sections seg nl) i = Some section ->
    exists A files B b,
      flat_stmts s = (A ++ SOutSec section None None nl (subalign seg) (opt_fill seg ++ files) :: B)%list /\
      mode_base rt cfg d seg b /\
      KidsStmts rt sty cfg seg (part_sections seg nl) (sg_files seg) section b files /\
      forall c, In c (flat_map top_claims A) ->
        exists pos, SingleClaimAt rt cfg d seg pos c /\ forall q, lex_lt pos (half_index nl :: i :: q).
  Proof.
    intros H Hn. apply add_single_segment_inv in H. destruct H as [s1 [ws1 [s2 [E1 [E2 E]]]]]. subst s.
    match goal with |- context [flat_stmts [SSections ?X]] => change (flat_stmts [SSections X]) with (X ++ [])%list end.
    rewrite app_nil_r.
    apply write_single_segment_inv in E1. destruct E1 as [g1 [G1 Es1]].
    apply write_single_segment_inv in E2. destruct E2 as [g2 [G2 Es2]]. fold sty in Es1, Es2.
    set (ks := sections_kind_start sty cfg seg false) in *. set (ke := sections_kind_end sty cfg seg false) in *.
    set (ks2 := sections_kind_start sty cfg seg true) in *. set (ke2 := sections_kind_end sty cfg seg true) in *.
    destruct nl.
    - (* the noload half *)
      destruct (single_groups_nth_split seg true (noload_sections seg) 0 ws1 g2 ws' i section G2 (fun j => eq_refl) Hn)
        as (A & files & B & b & Eb & Hb & HK & HA).
      exists (single_head stg cfg seg ++ s1 ++ [SBlank] ++ ks2 ++ A)%list, files,
        (B ++ ke2 ++ [SBlank] ++ end_sections_body stg classes ws')%list, b.
      split; [rewrite Es2, Eb; repeat (rewrite <- app_assoc; cbn [app]); reflexivity|].
      split; [exact Hb|]. split; [exact HK|].
      intros c Hc. rewrite !flat_map_app in Hc.
      rewrite (claimless_list _ (q_single_head _ _ _)), (claimless_list ks2 (q_kind_start _ _ _ _)) in Hc.
      cbn [flat_map top_claims app] in Hc.
      apply in_app_or in Hc. destruct Hc as [Hc|Hc].
      + rewrite Es1, !flat_map_app, (claimless_list ks (q_kind_start _ _ _ _)),
          (claimless_list ke (q_kind_end _ _ _ _)), app_nil_r in Hc. cbn [app] in Hc.
        destruct (single_groups_claims_at seg false (alloc_sections seg) 0 ws g1 ws1 G1 (fun j => eq_refl) c Hc)
          as [j [path Hp]].
        exists (half_index false :: (0 + j)%nat :: path). split; [exact Hp|]. intro q. apply lex_head. cbn. lia.
      + destruct (HA c Hc) as [j [path [Hlt Hp]]].
        exists (half_index true :: (0 + j)%nat :: path). split; [exact Hp|]. intro q. apply lex_tail. apply lex_head. lia.
    - (* the allocatable half *)
      destruct (single_groups_nth_split seg false (alloc_sections seg) 0 ws g1 ws1 i section G1 (fun j => eq_refl) Hn)
        as (A & files & B & b & Eb & Hb & HK & HA).
      exists (single_head stg cfg seg ++ ks ++ A)%list, files,
        (B ++ ke ++ [SBlank] ++ s2 ++ [SBlank] ++ end_sections_body stg classes ws')%list, b.
      split; [rewrite Es1, Eb; repeat (rewrite <- app_assoc; cbn [app]); reflexivity|].
      split; [exact Hb|]. split; [exact HK|].
      intros c Hc. rewrite !flat_map_app in Hc.
      rewrite (claimless_list _ (q_single_head _ _ _)), (claimless_list ks (q_kind_start _ _ _ _)) in Hc.
      cbn [app] in Hc.
      destruct (HA c Hc) as [j [path [Hlt Hp]]].
      exists (half_index false :: (0 + j)%nat :: path). split; [exact Hp|]. intro q. apply lex_tail. apply lex_head. lia.
  Qed.
End SingleSplit.

(* ====================================================================== *)
(* 3. the order of the file list implies the order of the addresses        *)
(* ====================================================================== *)

Lemma single_claim_at_unpack rt cfg d seg nl i section b q c :
  nth_error (part_sections seg nl) i = Some section -> mode_base rt cfg d seg b ->
  SingleClaimAt rt cfg d seg (half_index nl :: i :: q) c ->
  exists kp pth member sect wild,
    KidsAt rt (linker_symbols_style (doc_settings d)) cfg seg (part_sections seg nl) (sg_files seg) section b q
           (SInput kp pth member sect wild) /\
    c = CInput section pth member sect wild.
Proof.
  intros Hn Hb (nl' & i' & section' & b' & path & kp & pth & member & sect & wild & Ep & Hn' & Hb' & Hk & Ec).
  inversion Ep as [[Eh Ei Eq]]. apply half_index_inj in Eh. subst nl' i' path.
  rewrite Hn in Hn'. inversion Hn'; subst section'. rewrite (mode_base_fun _ _ _ _ _ _ Hb Hb').
  exists kp, pth, member, sect, wild. auto.
Qed.

Section SingleOrder.
  Variables (env : list (string * Z)) (senv : list osec) (ext : list (string * Z)) (final : bool).

  (* any script "V; the SECTIONS block of add_single_segment; T" with V free of claims *)
  Lemma single_order_core rt d cfg seg ws s ws' script V T u nl i section q1 q2 c1 c2 x y :
    add_single_segment rt (doc_settings d) cfg (doc_vram_classes d) seg ws = Ok (s, ws') ->
    flat_stmts script = (V ++ flat_stmts s ++ T)%list -> Forall claimless V ->
    Forall (fun z => 0 <= u_size z) u -> In x u -> In y u ->
    nth_error (part_sections seg nl) i = Some section ->
    lex_lt q1 q2 ->
    single_first_matched_at rt cfg d seg (half_index nl :: i :: q1) c1 x ->
    single_first_matched_at rt cfg d seg (half_index nl :: i :: q2) c2 y ->
    let st' := exec_script env senv ext final script (init_state u) in
    exists m, placed_in_order (l_placed st') section x y (dot_adds m) /\
              forall b q s0, mode_base rt cfg d seg b ->
                KidsAt rt (linker_symbols_style (doc_settings d)) cfg seg (part_sections seg nl) (sg_files seg)
                       section b q s0 -> lex_lt q1 q -> lex_lt q q2 -> In s0 m.
  Proof.
    intros Ha Ef HV Hu Hx Hy Hn Hlt [C1 [M1 N1]] [C2 [M2 N2]] st'.
    destruct (add_single_split rt d cfg seg ws s ws' nl i section Ha Hn) as (A & files & B & b & Es & Hb & HK & HA).
    destruct (single_claim_at_unpack _ _ _ _ _ _ _ _ _ _ Hn Hb C1) as (k1 & p1 & m1 & s1 & w1 & H1 & Ec1).
    destruct (single_claim_at_unpack _ _ _ _ _ _ _ _ _ _ Hn Hb C2) as (k2 & p2 & m2 & s2 & w2 & H2 & Ec2).
    subst c1 c2. cbn [claim_matches] in M1, M2.
    pose proof (kids_enumerated rt (linker_symbols_style (doc_settings d)) cfg seg (part_sections seg nl) _ _ _ _ HK) as K.
    destruct (enum_split2 _ _ _ _ _ _ _ K H1 H2 Hlt) as (a & m & c & Eb & Hpre & Hmid & Hin).
    exists m. split.
    2:{ intros b' q s0 Hb' Hq L1 L2. rewrite <- (mode_base_fun _ _ _ _ _ _ Hb Hb') in Hq. exact (Hin q s0 Hq L1 L2). }
    assert (Hpos : forall q kp pth member sect wild,
               KidsAt rt (linker_symbols_style (doc_settings d)) cfg seg (part_sections seg nl) (sg_files seg)
                      section b q (SInput kp pth member sect wild) ->
               SingleClaimAt rt cfg d seg (half_index nl :: i :: q) (CInput section pth member sect wild)).
    { intros q kp pth member sect wild H. exists nl, i, section, b, q, kp, pth, member, sect, wild. auto. }
    assert (Hbody : forall l c0 (P : list nat -> Prop),
               (forall s', In s' l -> no_filler s' \/
                  exists q', KidsAt rt (linker_symbols_style (doc_settings d)) cfg seg (part_sections seg nl)
                                    (sg_files seg) section b q' s' /\ P q') ->
               In c0 (body_claims section l) ->
               exists q', SingleClaimAt rt cfg d seg (half_index nl :: i :: q') c0 /\ P q').
    { intros l c0 P Hl Hc. apply body_claims_inv in Hc. destruct Hc as [kp [pth [member [sect [wild [Ec Hs]]]]]].
      destruct (Hl _ Hs) as [[]|[q' [Hq' HP]]]. exists q'. subst c0. split; [exact (Hpos _ _ _ _ _ _ Hq') | exact HP]. }
    assert (HVA : forall c0, In c0 (flat_map top_claims (V ++ A)) ->
               exists pos, SingleClaimAt rt cfg d seg pos c0 /\ forall q, lex_lt pos (half_index nl :: i :: q)).
    { intros c0 Hc. rewrite flat_map_app, (claimless_list _ HV) in Hc. exact (HA c0 Hc). }
    assert (Ef' : flat_stmts script =
                  ((V ++ A) ++ SOutSec section None None nl (subalign seg)
                                       ((opt_fill seg ++ a) ++ SInput k1 p1 m1 s1 w1 :: m ++ SInput k2 p2 m2 s2 w2 :: c) ::
                   (B ++ T))%list).
    { rewrite Ef, Es, Eb. repeat (rewrite <- app_assoc; cbn [app]). reflexivity. }
    apply (same_outsec_addresses_noaddr env senv ext final script u (V ++ A)%list section None nl (subalign seg)
             (opt_fill seg ++ a)%list k1 p1 m1 s1 w1 m k2 p2 m2 s2 w2 c (B ++ T)%list x y Ef' Hu Hx Hy); try assumption.
    - intros c0 Hc. apply in_app_or in Hc. destruct Hc as [Hc|Hc].
      + destruct (HVA c0 Hc) as [pos [Hp Hl]]. exact (N1 pos c0 Hp (Hl q1)).
      + rewrite body_claims_app, (noinput_list _ _ (ni_opt_fill seg)) in Hc. cbn [app] in Hc.
        destruct (Hbody a c0 (fun q' => lex_lt q' q1) Hpre Hc) as [q' [Hq' Hl]].
        apply (N1 _ _ Hq'). apply lex_tail, lex_tail. exact Hl.
    - intros c0 Hc. apply in_app_or in Hc. destruct Hc as [Hc|[Hc|Hc]].
      + apply in_app_or in Hc. destruct Hc as [Hc|Hc].
        * destruct (HVA c0 Hc) as [pos [Hp Hl]]. exact (N2 pos c0 Hp (Hl q2)).
        * rewrite body_claims_app, (noinput_list _ _ (ni_opt_fill seg)) in Hc. cbn [app] in Hc.
          destruct (Hbody a c0 (fun q' => lex_lt q' q1) Hpre Hc) as [q' [Hq' Hl]].
          apply (N2 _ _ Hq'). apply lex_tail, lex_tail. eapply lex_lt_trans; eassumption.
      + subst c0. apply (N2 _ _ (Hpos _ _ _ _ _ _ H1)). apply lex_tail, lex_tail. exact Hlt.
      + destruct (Hbody m c0 (fun q' => lex_lt q1 q' /\ lex_lt q' q2) Hmid Hc) as [q' [Hq' [_ Hl]]].
        apply (N2 _ _ Hq'). apply lex_tail, lex_tail. exact Hl.
  Qed.

  (* C02_single_document_order *)
  Theorem single_document_order d rt w u seg nl i section q1 q2 c1 c2 x y :
    gen_normal d rt = Ok w -> single_segment_mode (doc_settings d) = true -> doc_segments d = [seg] ->
    Forall (fun z => 0 <= u_size z) u -> In x u -> In y u ->
    nth_error (part_sections seg nl) i = Some section ->
    lex_lt q1 q2 ->
    single_first_matched_at rt cfg_normal d seg (half_index nl :: i :: q1) c1 x ->
    single_first_matched_at rt cfg_normal d seg (half_index nl :: i :: q2) c2 y ->
    let st' := exec_script env senv ext final (wo_script w) (init_state u) in
    placed_in_order (l_placed st') section x y 0.
  Proof.
    intros Hg Hm Hs Hu Hx Hy Hn Hlt F1 F2 st'.
    apply gen_normal_inv in Hg. destruct Hg as [s [ws' [E Hw]]].
    apply add_all_segments_inv in E. destruct E as [[_ [seg' [Es E]]] | [Hm' _]]; [|congruence].
    rewrite Hs in Es. inversion Es; subst seg'.
    assert (Ef : flat_stmts (wo_script w) = (version_stmts rt ++ flat_stmts s ++ tail_stmts rt d)%list).
    { subst w. cbn [wo_script]. rewrite !flat_app, (flat_plain _ (plain_version rt)), (flat_plain _ (plain_tail rt d)).
      reflexivity. }
    destruct (single_order_core rt d cfg_normal seg ws0 s ws' (wo_script w) _ _ u nl i section q1 q2 c1 c2 x y
                                E Ef (q_version rt) Hu Hx Hy Hn Hlt F1 F2) as [m [H _]].
    eapply placed_in_order_weaken; [|exact H]. apply dot_adds_nonneg.
  Qed.

  (* with a pad between the two statements *)
  Theorem single_document_order_pad d rt w u seg nl i section b q1 qp q2 c1 c2 x y n :
    gen_normal d rt = Ok w -> single_segment_mode (doc_settings d) = true -> doc_segments d = [seg] ->
    Forall (fun z => 0 <= u_size z) u -> In x u -> In y u ->
    nth_error (part_sections seg nl) i = Some section ->
    lex_lt q1 qp -> lex_lt qp q2 ->
    mode_base rt cfg_normal d seg b ->
    KidsAt rt (linker_symbols_style (doc_settings d)) cfg_normal seg (part_sections seg nl) (sg_files seg) section b qp
           (SDotAdd n) ->
    single_first_matched_at rt cfg_normal d seg (half_index nl :: i :: q1) c1 x ->
    single_first_matched_at rt cfg_normal d seg (half_index nl :: i :: q2) c2 y ->
    let st' := exec_script env senv ext final (wo_script w) (init_state u) in
    placed_in_order (l_placed st') section x y (Z.of_N n).
  Proof.
    intros Hg Hm Hs Hu Hx Hy Hn L1 L2 Hb Hpad F1 F2 st'.
    apply gen_normal_inv in Hg. destruct Hg as [s [ws' [E Hw]]].
    apply add_all_segments_inv in E. destruct E as [[_ [seg' [Es E]]] | [Hm' _]]; [|congruence].
    rewrite Hs in Es. inversion Es; subst seg'.
    assert (Ef : flat_stmts (wo_script w) = (version_stmts rt ++ flat_stmts s ++ tail_stmts rt d)%list).
    { subst w. cbn [wo_script]. rewrite !flat_app, (flat_plain _ (plain_version rt)), (flat_plain _ (plain_tail rt d)).
      reflexivity. }
    destruct (single_order_core rt d cfg_normal seg ws0 s ws' (wo_script w) _ _ u nl i section q1 q2 c1 c2 x y
                                E Ef (q_version rt) Hu Hx Hy Hn (lex_lt_trans _ _ _ L1 L2) F1 F2) as [m [H Hin]].
    eapply placed_in_order_weaken; [|exact H]. apply dot_adds_in. exact (Hin b qp _ Hb Hpad L1 L2).
  Qed.

  (* a per-segment script of a partial build *)
  Theorem partial_sub_order d rt p name w u :
    gen_partial d rt = Ok p -> In (name, w) (po_subs p) ->
    exists seg, In seg (doc_segments d) /\ should_emit rt (sg_conds seg) = true /\ name = sg_name seg /\
      forall nl i section q1 q2 c1 c2 x y,
        Forall (fun z => 0 <= u_size z) u -> In x u -> In y u ->
        nth_error (part_sections seg nl) i = Some section ->
        lex_lt q1 q2 ->
        single_first_matched_at rt cfg_sub_partial d seg (half_index nl :: i :: q1) c1 x ->
        single_first_matched_at rt cfg_sub_partial d seg (half_index nl :: i :: q2) c2 y ->
        placed_in_order (l_placed (exec_script env senv ext final (wo_script w) (init_state u))) section x y 0.
  Proof.
    intros Hg Hin. pose proof (subs_are_single_scripts d rt p Hg) as HF. rewrite Forall_forall in HF.
    destruct (HF _ Hin) as (seg & stmts & wsub & Hseg & Hc & Hn & Ea & Ew). cbn [fst snd] in Hn, Ew.
    exists seg. repeat (split; [assumption|]).
    intros nl i section q1 q2 c1 c2 x y Hu Hx Hy Hnth Hlt F1 F2.
    assert (Ef : flat_stmts (wo_script w) = (version_stmts rt ++ flat_stmts stmts ++ [])%list).
    { rewrite Ew. cbn [wo_script]. rewrite flat_app, (flat_plain _ (plain_version rt)), app_nil_r. reflexivity. }
    destruct (single_order_core rt d cfg_sub_partial seg ws0 stmts wsub (wo_script w) _ _ u nl i section q1 q2 c1 c2 x y
                                Ea Ef (q_version rt) Hu Hx Hy Hnth Hlt F1 F2) as [m [H _]].
    eapply placed_in_order_weaken; [|exact H]. apply dot_adds_nonneg.
  Qed.
End SingleOrder.

Theorem single_document_order_layout d rt w u ext0 seg nl i section q1 q2 c1 c2 x y :
  gen_normal d rt = Ok w -> single_segment_mode (doc_settings d) = true -> doc_segments d = [seg] ->
  Forall (fun z => 0 <= u_size z) u -> In x u -> In y u ->
  nth_error (part_sections seg nl) i = Some section ->
  lex_lt q1 q2 ->
  single_first_matched_at rt cfg_normal d seg (half_index nl :: i :: q1) c1 x ->
  single_first_matched_at rt cfg_normal d seg (half_index nl :: i :: q2) c2 y ->
  let st' := layout (wo_script w) u ext0 in
  placed_in_order (l_placed st') section x y 0.
Proof.
  intros Hg Hm Hs Hu Hx Hy Hn Hlt F1 F2. unfold layout.
  apply (single_document_order _ _ _ _ d rt w u seg nl i section q1 q2 c1 c2 x y); assumption.
Qed.

(* ---------- the claims of the script are enumerated by the positions ---------- *)

(* every claim before the tail has a position, and a position determines ... (the easy half used by the
   examples): the statement at a position is among the claims of the script *)
Lemma single_claim_at_in rt d w seg pos c :
  gen_normal d rt = Ok w -> single_segment_mode (doc_settings d) = true -> doc_segments d = [seg] ->
  SingleClaimAt rt cfg_normal d seg pos c -> In c (script_claims (wo_script w)).
Proof.
  intros Hg Hm Hs (nl & i & section & b & path & kp & pth & member & sect & wild & Ep & Hn & Hb & Hk & Ec).
  pose proof Hg as Hg0. apply gen_normal_inv in Hg0. destruct Hg0 as [s [ws' [E Hw]]].
  apply add_all_segments_inv in E. destruct E as [[_ [seg' [Es E]]] | [Hm' _]]; [|congruence].
  rewrite Hs in Es. inversion Es; subst seg'.
  destruct (add_single_split rt d cfg_normal seg ws0 s ws' nl i section E Hn) as (A & files & B & b' & Es' & Hb' & HK & _).
  rewrite (mode_base_fun _ _ _ _ _ _ Hb Hb') in Hk.
  pose proof (kids_enumerated rt (linker_symbols_style (doc_settings d)) cfg_normal seg (part_sections seg nl) _ _ _ _ HK) as K.
  destruct K as [L [EL [_ [IL _]]]]. apply IL in Hk.
  assert (Hin : In (SInput kp pth member sect wild) files).
  { rewrite <- EL. apply (in_map snd) in Hk. exact Hk. }
  subst w c. unfold script_claims. cbn [wo_script].
  rewrite !flat_app, (flat_plain _ (plain_version rt)), (flat_plain _ (plain_tail rt d)), Es', !flat_map_app.
  apply in_or_app. right. apply in_or_app. left. apply in_or_app. right. cbn [flat_map top_claims].
  apply in_or_app. left. rewrite body_claims_app. apply in_or_app. right.
  exact (in_body_claims section kp pth member sect wild files Hin).
Qed.

(* ====================================================================== *)
(* 4. the claims of a single-segment script, enumerated by their positions *)
(* ====================================================================== *)

Local Close Scope Z_scope.

Section SingleEnum.
  Variables (rt : runtime) (d : document) (cfg : wcfg).
  Let stg := doc_settings d.
  Let sty := linker_symbols_style stg.
  Let classes := doc_vram_classes d.

  Lemma group_claims_enumerated seg nl j sec ws s1 ws1 :
    nth_error (part_sections seg nl) j = Some sec ->
    emit_section rt sty cfg seg (part_sections seg nl) (base_path stg) sec ws = Ok (s1, ws1) ->
    Enumerated no_filler (body_claims sec (opt_fill seg ++ s1))
               (fun r c => SingleClaimAt rt cfg d seg (half_index nl :: j :: r) c).
  Proof.
    intros Hn E1. rewrite body_claims_app, (noinput_list _ _ (ni_opt_fill seg)). cbn [app].
    apply emit_section_sound in E1. destruct E1 as [b [Hb HK]].
    assert (Hb' : mode_base rt cfg d seg b) by (apply mode_base_seg_base; exact Hb).
    pose proof (kids_enumerated rt sty cfg seg (part_sections seg nl) _ _ _ _ HK) as K.
    rewrite body_claims_flat.
    assert (K' : Enumerated no_filler (flat_map (input_claim sec) s1)
                   (fun p c => exists s, KidsAt rt sty cfg seg (part_sections seg nl) (sg_files seg) sec b p s /\
                                         In c (input_claim sec s))).
    { apply (enum_flat_map no_filler (input_claim sec) s1 _ K).
      - intros s [].
      - intro s. destruct s; try (left; reflexivity). right. eexists. reflexivity. }
    eapply enum_ext; [|exact K']. intros p c. split.
    - intros [s [Hs Hc]]. destruct s; try contradiction. destruct Hc as [Hc|[]]. subst c.
      exists nl, j, sec, b, p. do 5 eexists. split; [reflexivity|]. split; [exact Hn|]. split; [exact Hb'|].
      split; [exact Hs | reflexivity].
    - intro H. destruct (single_claim_at_unpack _ _ _ _ _ _ _ _ _ _ Hn Hb' H) as (kp & pth & member & sect & wild & Hk & Ec).
      eexists. split; [exact Hk|]. subst c. left. reflexivity.
  Qed.

  Lemma single_groups_claims_enumerated seg nl : forall rest off ws body ws',
    single_groups rt stg cfg seg (part_sections seg nl) nl rest ws = Ok (body, ws') ->
    (forall j, nth_error rest j = nth_error (part_sections seg nl) (off + j)) ->
    Enumerated no_filler (flat_map top_claims body)
      (fun p c => exists j r, p = j :: r /\ SingleClaimAt rt cfg d seg (half_index nl :: (off + j) :: r) c).
  Proof.
    induction rest as [|sec0 rest IH]; intros off ws body ws' H Hoff.
    - apply single_groups_nil in H. destruct H; subst. apply enum_nil.
      intros p c [j [r [_ (nl' & i' & section & b & path & kp & pth & member & sect & wild & Ep & Hn & _)]]].
      inversion Ep as [[Eh Ei Eq]]. apply half_index_inj in Eh. subst nl' i'.
      rewrite <- Hoff in Hn. destruct j; discriminate.
    - apply single_groups_cons in H. destruct H as [s1 [ws1 [s2 [E1 [E2 E]]]]].
      assert (Ec : flat_map top_claims body =
                   (body_claims sec0 (opt_fill seg ++ s1) ++ flat_map top_claims s2)%list).
      { subst body. rewrite !flat_map_app, (claimless_list _ (q_section_symbol_start rt _ cfg seg sec0)),
          (claimless_list _ (q_section_symbol_end _ cfg seg sec0)), q_blank_if.
        cbn [app flat_map top_claims]. rewrite app_nil_r. reflexivity. }
      rewrite Ec.
      assert (Hn0 : nth_error (part_sections seg nl) (off + 0) = Some sec0) by (rewrite <- Hoff; reflexivity).
      pose proof (group_claims_enumerated seg nl _ sec0 ws s1 ws1 Hn0 E1) as I1.
      assert (I2 : Enumerated no_filler (flat_map top_claims s2)
                     (fun p c => exists m r, p = m :: r /\
                                 SingleClaimAt rt cfg d seg (half_index nl :: (off + S m) :: r) c)).
      { eapply enum_ext; [|apply (IH (S off) _ _ _ E2)].
        - intros p c. split; intros [m [r [Ep Hm]]]; exists m, r; (split; [exact Ep|]).
          + rewrite <- Nat.add_succ_comm. exact Hm.
          + rewrite Nat.add_succ_comm. exact Hm.
        - intro j. replace (S off + j) with (off + S j) by lia. rewrite <- Hoff. reflexivity. }
      pose proof (enum_cons no_filler _ _ (fun r c => SingleClaimAt rt cfg d seg (half_index nl :: (off + 0) :: r) c)
                            (fun m r c => SingleClaimAt rt cfg d seg (half_index nl :: (off + S m) :: r) c) I1 I2) as K.
      eapply enum_ext; [|exact K]. intros p c. split.
      + intros [m [r [Ep Hm]]]. exists m, r. split; [exact Ep|]. destruct m; exact Hm.
      + intros [m [r [Ep Hm]]]. exists m, r. split; [exact Ep|]. destruct m; exact Hm.
  Qed.

  (* the positions of one half *)
  Definition SingleHalfAt (seg : segment) (nl : bool) (p : list nat) (c : claim) : Prop :=
    exists j r, p = j :: r /\ SingleClaimAt rt cfg d seg (half_index nl :: (0 + j) :: r) c.

  Theorem add_single_claims_enumerated seg ws s ws' :
    add_single_segment rt stg cfg classes seg ws = Ok (s, ws') ->
    exists A, flat_map top_claims (flat_stmts s) = (A ++ tail_claims stg)%list /\
              Enumerated no_filler A (SingleClaimAt rt cfg d seg).
  Proof.
    intro H. apply add_single_segment_inv in H. destruct H as [s1 [ws1 [s2 [E1 [E2 E]]]]]. subst s.
    apply write_single_segment_inv in E1. destruct E1 as [g1 [G1 Es1]].
    apply write_single_segment_inv in E2. destruct E2 as [g2 [G2 Es2]].
    exists (flat_map top_claims g1 ++ flat_map top_claims g2)%list. split.
    - match goal with |- context [flat_stmts [SSections ?X]] => change (flat_stmts [SSections X]) with (X ++ [])%list end.
      rewrite app_nil_r, Es1, Es2, !flat_map_app, (claimless_list _ (q_single_head _ _ _)), claims_end_sections,
        !(claimless_list _ (q_kind_start _ _ _ _)), !(claimless_list _ (q_kind_end _ _ _ _)).
      cbn [flat_map top_claims app]. rewrite !app_nil_r, <- app_assoc. reflexivity.
    - pose proof (single_groups_claims_enumerated seg false (alloc_sections seg) 0 ws g1 ws1 G1 (fun j => eq_refl)) as K1.
      pose proof (single_groups_claims_enumerated seg true (noload_sections seg) 0 ws1 g2 ws' G2 (fun j => eq_refl)) as K2.
      fold (SingleHalfAt seg false) in K1. fold (SingleHalfAt seg true) in K2.
      assert (K2' : Enumerated no_filler (flat_map top_claims g2)
                      (fun p c => exists m r, p = m :: r /\ (m = 0 /\ SingleHalfAt seg true r c))).
      { pose proof (enum_cons no_filler _ [] (SingleHalfAt seg true) (fun _ _ _ => False) K2) as K.
        rewrite app_nil_r in K. eapply enum_ext; [|apply K].
        - intros p c. split.
          + intros [m [r [Ep Hm]]]. destruct m; [eauto | contradiction].
          + intros [m [r [Ep [Em Hm]]]]. subst m. eauto.
        - apply enum_nil. intros p c [m [r [_ []]]]. }
      pose proof (enum_cons no_filler _ _ (SingleHalfAt seg false) _ K1 K2') as K.
      eapply enum_ext; [|exact K]. intros p c. split.
      + intros [m [r [Ep Hm]]]. subst p. destruct m as [|m'].
        * destruct Hm as [j [r' [Er Hc]]]. subst r. exact Hc.
        * destruct Hm as [Em [j [r' [Er Hc]]]]. subst m' r. exact Hc.
      + intros (nl & i & section & b & path & kp & pth & member & sect & wild & Ep & Hc).
        assert (HS : SingleClaimAt rt cfg d seg (half_index nl :: (0 + i) :: path) c).
        { subst p. exists nl, i, section, b, path, kp, pth, member, sect, wild. split; [reflexivity | exact Hc]. }
        subst p. destruct nl; cbn [half_index].
        * exists 1, (i :: path). split; [reflexivity|]. split; [reflexivity|]. exists i, path. auto.
        * exists 0, (i :: path). split; [reflexivity|]. exists i, path. auto.
  Qed.

  (* the statement [c] is not written again later in the script, and no statement before it matches [x]
     (both read off the script): [x] is first matched at any position of [c] *)
  Lemma single_first_matched_once_gen seg script A pos c x pre post :
    script_claims script = (A ++ tail_claims stg)%list -> Enumerated no_filler A (SingleClaimAt rt cfg d seg) ->
    SingleClaimAt rt cfg d seg pos c -> claim_matches c x = true ->
    script_claims script = (pre ++ c :: post)%list -> unclaimed pre x = true -> ~ In c post ->
    single_first_matched_at rt cfg d seg pos c x.
  Proof.
    intros EA K Hc Hx Es Hu Hnpost. split; [exact Hc|]. split; [exact Hx|]. intros pos' c' Hc' Hlt.
    destruct (claim_matches c' x) eqn:Em; [exfalso | reflexivity].
    rewrite unclaimed_spec in Hu.
    assert (Hnpre : ~ In c pre) by (intro H; rewrite (Hu c H) in Hx; discriminate).
    destruct (enum_split2 _ _ _ _ _ _ _ K Hc' Hc Hlt) as (a & m & b & Eb & _).
    rewrite EA, Eb in Es.
    assert (Es' : (pre ++ c :: post = (a ++ c' :: m) ++ c :: (b ++ tail_claims stg))%list).
    { rewrite <- Es. repeat rewrite <- app_assoc. cbn [app]. repeat rewrite <- app_assoc. reflexivity. }
    pose proof (unique_prefix c pre post _ _ Es' Hnpre Hnpost) as Ep.
    rewrite (Hu c') in Em; [discriminate|]. rewrite Ep. apply in_or_app. right. left. reflexivity.
  Qed.
End SingleEnum.

(* C02_single_document_claims_enumerated *)
Theorem single_document_claims_enumerated rt d w seg :
  gen_normal d rt = Ok w -> single_segment_mode (doc_settings d) = true -> doc_segments d = [seg] ->
  exists A, script_claims (wo_script w) = (A ++ tail_claims (doc_settings d))%list /\
            Enumerated no_filler A (SingleClaimAt rt cfg_normal d seg).
Proof.
  intros H Hm Hs. apply gen_normal_inv in H. destruct H as [s [ws' [E Hw]]].
  apply add_all_segments_inv in E. destruct E as [[_ [seg' [Es E]]] | [Hm' _]]; [|congruence].
  rewrite Hs in Es. inversion Es; subst seg'.
  destruct (add_single_claims_enumerated rt d cfg_normal seg ws0 s ws' E) as [A [EA K]].
  exists A. split; [|exact K]. subst w. unfold script_claims. cbn [wo_script].
  rewrite !flat_app, (flat_plain _ (plain_version rt)), (flat_plain _ (plain_tail rt d)), !flat_map_app,
    (claimless_list _ (q_version rt)), (claimless_list _ (q_tail_stmts rt d)), EA, app_nil_r. reflexivity.
Qed.

Theorem single_first_matched_once rt d w seg pos c x pre post :
  gen_normal d rt = Ok w -> single_segment_mode (doc_settings d) = true -> doc_segments d = [seg] ->
  SingleClaimAt rt cfg_normal d seg pos c -> claim_matches c x = true ->
  script_claims (wo_script w) = (pre ++ c :: post)%list -> unclaimed pre x = true -> ~ In c post ->
  single_first_matched_at rt cfg_normal d seg pos c x.
Proof.
  intros Hg Hm Hs. destruct (single_document_claims_enumerated rt d w seg Hg Hm Hs) as [A [EA K]].
  apply (single_first_matched_once_gen rt d cfg_normal seg (wo_script w) A pos c x pre post EA K).
Qed.

(* every position has at least four indices: half, section, entry, section of the entry's expansion *)
Lemma single_claim_at_shape rt cfg d seg pos c :
  SingleClaimAt rt cfg d seg pos c -> exists h i j m r, pos = h :: i :: j :: m :: r.
Proof.
  intros (nl & i & section & b & path & kp & pth & member & sect & wild & Ep & _ & _ & Hk & _).
  destruct Hk as (j & f & p2 & Ep2 & _ & He). inversion He; subst. eauto 10.
Qed.

(* the statement of a leaf at the top level of the file list, and one level down in a group *)
Lemma single_claim_at_top rt cfg d seg nl b i section j f kp path member wild :
  mode_base rt cfg d seg b ->
  nth_error (part_sections seg nl) i = Some section -> nth_error (sg_files seg) j = Some f ->
  fi_section_order f = [] -> entry_members cfg seg f section = [] ->
  should_emit rt (fi_conds f) = true -> fi_kind f <> KGroup ->
  In (SInput kp path member section wild)
     (own_stmts rt (linker_symbols_style (doc_settings d)) seg f section b) ->
  SingleClaimAt rt cfg d seg [half_index nl; i; j; 0] (CInput section path member section wild).
Proof.
  intros Hb Hi Hj Hso Hem He Hk Hin.
  exists nl, i, section, b, [j; 0], kp, path, member, section, wild.
  split; [reflexivity|]. split; [exact Hi|]. split; [exact Hb|]. split; [|reflexivity].
  exists j, f, [0]. split; [reflexivity|]. split; [exact Hj|].
  eapply EA_key; [apply expands_plain; assumption | reflexivity|]. apply FA_leaf; assumption.
Qed.

Lemma single_claim_at_in_group rt cfg d seg nl b i section j grp dd j2 f kp path member wild :
  mode_base rt cfg d seg b ->
  nth_error (part_sections seg nl) i = Some section -> nth_error (sg_files seg) j = Some grp ->
  fi_section_order grp = [] -> should_emit rt (fi_conds grp) = true -> fi_kind grp = KGroup ->
  escape_path rt (fi_dir grp) = Ok dd -> nth_error (fi_files grp) j2 = Some f ->
  fi_section_order f = [] -> entry_members cfg seg f section = [] ->
  should_emit rt (fi_conds f) = true -> fi_kind f <> KGroup ->
  In (SInput kp path member section wild)
     (own_stmts rt (linker_symbols_style (doc_settings d)) seg f section (push b dd)) ->
  SingleClaimAt rt cfg d seg [half_index nl; i; j; 0; j2; 0] (CInput section path member section wild).
Proof.
  intros Hb Hi Hj Hsog Heg Hkg Hd Hj2 Hso Hem He Hk Hin.
  exists nl, i, section, b, [j; 0; j2; 0], kp, path, member, section, wild.
  split; [reflexivity|]. split; [exact Hi|]. split; [exact Hb|]. split; [|reflexivity].
  exists j, grp, [0; j2; 0]. split; [reflexivity|]. split; [exact Hj|].
  eapply EA_key; [apply expands_plain; [exact Hsog | unfold entry_members; rewrite Hkg; reflexivity] | reflexivity|].
  eapply FA_group; [exact Heg | exact Hkg | exact Hd | exact Hj2|].
  eapply EA_key; [apply expands_plain; assumption | reflexivity|]. apply FA_leaf; assumption.
Qed.

(* ====================================================================== *)
(* 5. examples: the single-segment sample document of Spec/DocSingle.v     *)
(* ====================================================================== *)

Local Open Scope string_scope.

Definition ds_boot_text : usec := USec "build/src/boot.o" None ".text" 40 16 false "boot_text".
Definition ds_util_text : usec := USec "build/src/lib/util.o" None ".text" 24 4 false "util_text".

Lemma ds_base : mode_base ex_rt cfg_normal ds_doc ds_segment "build/src".
Proof. exists "build". split; [vm_compute; reflexivity|]. exists "src". split; vm_compute; reflexivity. Qed.

Lemma ds_gen : exists w, gen_normal ds_doc ex_rt = Ok w /\ wo_script w = ds_script.
Proof. eexists. split; [vm_compute; reflexivity|]. vm_compute. reflexivity. Qed.

Lemma ds_positions :
  SingleClaimAt ex_rt cfg_normal ds_doc ds_segment [0; 0; 0; 0] (CInput ".text" "build/src/boot.o" None ".text" true) /\
  SingleClaimAt ex_rt cfg_normal ds_doc ds_segment [0; 0; 4; 0] (CInput ".text" "build/src/boot.o" None ".text" true) /\
  SingleClaimAt ex_rt cfg_normal ds_doc ds_segment [0; 0; 1; 0; 1; 0] (CInput ".text" "build/src/lib/util.o" None ".text" true) /\
  SingleClaimAt ex_rt cfg_normal ds_doc ds_segment [1; 0; 1; 0; 1; 0] (CInput ".bss" "build/src/lib/util.o" None ".bss" true).
Proof.
  split; [|split; [|split]].
  - apply (single_claim_at_top ex_rt cfg_normal ds_doc ds_segment false "build/src" 0 ".text" 0 (ex_obj "boot.o") false
                               "build/src/boot.o" None true); try reflexivity;
      [exact ds_base | discriminate | vm_compute; left; reflexivity].
  - apply (single_claim_at_top ex_rt cfg_normal ds_doc ds_segment false "build/src" 0 ".text" 4 (ex_obj "boot.o") false
                               "build/src/boot.o" None true); try reflexivity;
      [exact ds_base | discriminate | vm_compute; left; reflexivity].
  - apply (single_claim_at_in_group ex_rt cfg_normal ds_doc ds_segment false "build/src" 0 ".text" 1 ml_lib "lib" 1
                                    (ex_obj "util.o") false "build/src/lib/util.o" None true); try reflexivity;
      [exact ds_base | discriminate | vm_compute; left; reflexivity].
  - apply (single_claim_at_in_group ex_rt cfg_normal ds_doc ds_segment true "build/src" 0 ".bss" 1 ml_lib "lib" 1
                                    (ex_obj "util.o") false "build/src/lib/util.o" None true); try reflexivity;
      [exact ds_base | discriminate | vm_compute; left; reflexivity].
Qed.

Lemma ds_first_boot_text :
  single_first_matched_at ex_rt cfg_normal ds_doc ds_segment [0; 0; 0; 0]
                          (CInput ".text" "build/src/boot.o" None ".text" true) ds_boot_text.
Proof.
  split; [exact (proj1 ds_positions)|]. split; [reflexivity|]. intros pos' c' Hc Hlt. exfalso.
  destruct (single_claim_at_shape _ _ _ _ _ _ Hc) as (h & i & j & m & r & E). subst pos'.
  repeat match goal with H : lex_lt _ _ |- _ => inversion H; clear H; subst end; lia.
Qed.

Lemma ds_first_util_text :
  single_first_matched_at ex_rt cfg_normal ds_doc ds_segment [0; 0; 1; 0; 1; 0]
                          (CInput ".text" "build/src/lib/util.o" None ".text" true) ds_util_text.
Proof.
  destruct ds_gen as [w [Hg Ew]].
  apply (single_first_matched_once ex_rt ds_doc w ds_segment _ _ _
           (firstn 2 (script_claims ds_script)) (skipn 3 (script_claims ds_script)) Hg).
  - reflexivity.
  - reflexivity.
  - apply ds_positions.
  - reflexivity.
  - rewrite Ew. vm_compute. reflexivity.
  - vm_compute. reflexivity.
  - let post := eval vm_compute in (skipn 3 (script_claims ds_script)) in
    assert (E : skipn 3 (script_claims ds_script) = post) by (vm_compute; reflexivity).
    rewrite E. intro H. cbn [In] in H. repeat (destruct H as [H|H]; [discriminate H|]). exact H.
Qed.

Local Open Scope Z_scope.

Lemma ds_order :
  exists w, gen_normal ds_doc ex_rt = Ok w /\
    placed_in_order (l_placed (layout (wo_script w) ds_universe [("main", 5)])) ".text" ds_boot_text ds_util_text 0.
Proof.
  eexists. split; [vm_compute; reflexivity|].
  apply (single_document_order_layout ds_doc ex_rt _ ds_universe [("main", 5)] ds_segment false 0%nat ".text"
           [0; 0]%nat [1; 0; 1; 0]%nat (CInput ".text" "build/src/boot.o" None ".text" true)
           (CInput ".text" "build/src/lib/util.o" None ".text" true) ds_boot_text ds_util_text).
  - vm_compute. reflexivity.
  - reflexivity.
  - reflexivity.
  - repeat constructor; vm_compute; discriminate.
  - vm_compute. tauto.
  - vm_compute. tauto.
  - reflexivity.
  - apply lex_head. lia.
  - exact ds_first_boot_text.
  - exact ds_first_util_text.
Qed.
