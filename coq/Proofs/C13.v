(* C13: lemmas about the symbols header. *)
From Slinky Require Import Model.Types Model.Runtime Model.Style Model.Script Model.Writer Model.Exports.
From Slinky Require Import Spec.C12 Spec.C13 Proofs.C06 Proofs.C18 Proofs.C12.
From Coq Require Import Lia.

(* ====================================================================== *)
(* the text                                                                *)
(* ====================================================================== *)

Lemma header_text_spec rt st w : header_text rt st w = header_spec rt st (linker_symbols w).
Proof. reflexivity. Qed.

(* ====================================================================== *)
(* linker_symbols = first occurrences of the recorded assignments          *)
(* ====================================================================== *)

Fixpoint stmt_ind' (P : stmt -> Prop)
         (Hleaf : forall s, match s with SOutSec _ _ _ _ _ _ | SSections _ => False | _ => True end -> P s)
         (Hout : forall n a at_ nl sub body, Forall P body -> P (SOutSec n a at_ nl sub body))
         (Hsec : forall body, Forall P body -> P (SSections body))
         (s : stmt) : P s :=
  let go := fix go (l : list stmt) : Forall P l :=
              match l with
              | [] => Forall_nil P
              | x :: r => Forall_cons x (stmt_ind' P Hleaf Hout Hsec x) (go r)
              end in
  match s with
  | SOutSec n a at_ nl sub body => Hout n a at_ nl sub body (go body)
  | SSections body => Hsec body (go body)
  | SComment t => Hleaf (SComment t) I
  | SBlank => Hleaf SBlank I
  | SAssign p h r sym e => Hleaf (SAssign p h r sym e) I
  | SAlign sym n => Hleaf (SAlign sym n) I
  | SMaxSelf a b => Hleaf (SMaxSelf a b) I
  | SRomAdd sec => Hleaf (SRomAdd sec) I
  | SDotAdd n => Hleaf (SDotAdd n) I
  | SFill n => Hleaf (SFill n) I
  | SInput k p m sect w => Hleaf (SInput k p m sect w) I
  | SSingleEntry sect => Hleaf (SSingleEntry sect) I
  | SDiscard pats w => Hleaf (SDiscard pats w) I
  | SEntry e => Hleaf (SEntry e) I
  | SExtern n => Hleaf (SExtern n) I
  | SAssert c m => Hleaf (SAssert c m) I
  end.

Definition add_syms (l : list string) (acc : list string) : list string :=
  fold_left (fun a x => add_sym x a) l acc.

Lemma body_syms body :
  Forall (fun x => forall acc, stmt_syms x acc = add_syms (stmt_recorded x) acc) body ->
  forall acc,
    (fix go (l : list stmt) (acc : list string) {struct l} : list string :=
       match l with [] => acc | x :: r => go r (stmt_syms x acc) end) body acc =
    add_syms (flat_map stmt_recorded body) acc.
Proof.
  induction 1 as [|x r Hx Hr IH]; intro acc; [reflexivity|].
  cbn [flat_map]. unfold add_syms. rewrite fold_left_app. fold (add_syms (stmt_recorded x) acc).
  rewrite <- Hx. apply IH.
Qed.

Lemma stmt_syms_recorded s : forall acc, stmt_syms s acc = add_syms (stmt_recorded s) acc.
Proof.
  induction s as [s Hs | n a at_ nl sub body IH | body IH] using stmt_ind'.
  - intro acc. destruct s; try reflexivity; try contradiction. destruct recorded; reflexivity.
  - intro acc. cbn [stmt_syms stmt_recorded]. apply body_syms. exact IH.
  - intro acc. cbn [stmt_syms stmt_recorded]. apply body_syms. exact IH.
Qed.

Lemma collect_syms_recorded l : forall acc, collect_syms l acc = add_syms (recorded_syms l) acc.
Proof.
  unfold collect_syms, recorded_syms. induction l as [|x r IH]; intro acc; [reflexivity|].
  cbn [fold_left flat_map]. unfold add_syms. rewrite fold_left_app. fold (add_syms (stmt_recorded x) acc).
  rewrite <- stmt_syms_recorded. apply IH.
Qed.

Lemma string_eqb_spec a b : String.eqb a b = true <-> a = b.
Proof. apply String.eqb_eq. Qed.

Lemma add_syms_keep_first l : add_syms l [] = keep_first String.eqb l.
Proof.
  rewrite <- (fold_add_keep_first_nil String.eqb string_eqb_spec).
  unfold add_syms. generalize (@nil string). induction l as [|x r IH]; intro acc; [reflexivity|].
  simpl. rewrite IH. f_equal. unfold add_sym, add_new. rewrite mem_str_existsb. reflexivity.
Qed.

Lemma linker_symbols_recorded w :
  linker_symbols w = keep_first String.eqb (recorded_syms (wo_script w)).
Proof. unfold linker_symbols. rewrite collect_syms_recorded. apply add_syms_keep_first. Qed.

(* each once *)
Lemma keep_first_nodup {A} (eqb : A -> A -> bool) (eqb_spec : forall a b, eqb a b = true <-> a = b) l :
  NoDup (keep_first eqb l).
Proof.
  induction l as [|x r IH]; simpl; constructor.
  - intro H. apply filter_In in H. destruct H as [_ H].
    assert (E : eqb x x = true) by (apply eqb_spec; reflexivity). rewrite E in H. discriminate.
  - apply NoDup_filter. exact IH.
Qed.

Lemma linker_symbols_nodup w : NoDup (linker_symbols w).
Proof. rewrite linker_symbols_recorded. apply keep_first_nodup. apply string_eqb_spec. Qed.

Lemma keep_first_complete {A} (eqb : A -> A -> bool) (eqb_spec : forall a b, eqb a b = true <-> a = b) l x :
  In x l -> In x (keep_first eqb l).
Proof.
  induction l as [|y r IH]; intro H; [assumption|]. simpl. destruct H as [H|H]; [left; assumption|].
  destruct (eqb y x) eqn:E.
  - left. apply eqb_spec. assumption.
  - right. apply filter_In. split; [apply IH; assumption | rewrite E; reflexivity].
Qed.

(* declared iff recorded somewhere in the script *)
Lemma linker_symbols_in w sym : In sym (linker_symbols w) <-> In sym (recorded_syms (wo_script w)).
Proof.
  rewrite linker_symbols_recorded. split.
  - apply keep_first_incl.
  - apply keep_first_complete. apply string_eqb_spec.
Qed.

(* ====================================================================== *)
(* what is not recorded                                                    *)
(* ====================================================================== *)

Lemma recorded_app a b : recorded_syms (a ++ b) = recorded_syms a ++ recorded_syms b.
Proof. unfold recorded_syms. apply flat_map_app. Qed.

Lemma recorded_outsec n a at_ nl sub body : recorded_syms [SOutSec n a at_ nl sub body] = recorded_syms body.
Proof. unfold recorded_syms. simpl. apply app_nil_r. Qed.

Lemma recorded_sections body : recorded_syms [SSections body] = recorded_syms body.
Proof. unfold recorded_syms. simpl. apply app_nil_r. Qed.

Lemma plain_recorded G l : Forall (plain_stmt G) l -> Forall G (recorded_syms l).
Proof.
  induction 1 as [|x r Hx Hr IH]; [constructor|]. unfold recorded_syms in *. cbn [flat_map].
  apply Forall_app; split; [|exact IH].
  destruct x; simpl in *; try constructor; try contradiction. destruct recorded; repeat constructor. exact Hx.
Qed.

Lemma plain_none l : Forall (plain_stmt (fun _ => False)) l -> recorded_syms l = [].
Proof.
  intro H. apply plain_recorded in H. destruct (recorded_syms l) as [|x r]; [reflexivity|].
  inversion H; contradiction.
Qed.

Lemma not_recorded_tail rt d : recorded_syms (tail_stmts rt d) = [].
Proof. apply plain_none. apply pl_tail_stmts. Qed.

Lemma not_recorded_version rt : recorded_syms (version_stmts rt) = [].
Proof. apply plain_none. apply pl_version. Qed.

Lemma not_recorded_gp rt seg section : recorded_syms (gp_stmt rt seg section) = [].
Proof. apply plain_none. apply pl_gp_stmt. Qed.

Lemma not_recorded_hardcoded st : recorded_syms (hardcoded_gp_stmts st) = [].
Proof. apply plain_none. apply pl_hardcoded. Qed.

Lemma not_recorded_begin st : recorded_syms (begin_sections_body st) = [].
Proof. apply plain_none. apply pl_begin. Qed.

Lemma not_recorded_single_head st cfg seg : recorded_syms (single_head st cfg seg) = [].
Proof. apply plain_none. apply pl_single_head. Qed.

Lemma not_recorded_all rt d st seg section :
  recorded_syms (tail_stmts rt d) = [] /\ recorded_syms (version_stmts rt) = [] /\
  recorded_syms (gp_stmt rt seg section) = [] /\ recorded_syms (hardcoded_gp_stmts st) = [] /\
  recorded_syms (begin_sections_body st) = [] /\
  (forall v, recorded_syms [SAssign false false false "." (EHex8 v); SBlank] = []) /\
  (forall sec a, recorded_syms [SRomAdd sec; SAlign "__romPos" a; SAlign "." a] = []).
Proof.
  repeat split; auto using not_recorded_tail, not_recorded_version, not_recorded_gp, not_recorded_hardcoded,
    not_recorded_begin.
Qed.

(* hence the header of a whole script only depends on its SECTIONS block *)
Lemma recorded_normal d rt w :
  gen_normal d rt = Ok w ->
  exists body, wo_script w = version_stmts rt ++ [SSections body] ++ tail_stmts rt d /\
               recorded_syms (wo_script w) = recorded_syms body.
Proof.
  intro H. apply tail_last_normal in H. destruct H as [body [E _]]. exists body. split; [assumption|].
  rewrite E, !recorded_app, not_recorded_version, not_recorded_tail, recorded_sections.
  simpl. apply app_nil_r.
Qed.

(* ====================================================================== *)
(* every recorded name has a generated form                                *)
(* ====================================================================== *)

Definition seg_or_offset (rt : runtime) (sty : style) (seg : segment) (sym : string) : Prop :=
  segment_form sty seg sym \/ offset_form rt sty seg sym.

Lemma Forall_impl' {A} (P Q : A -> Prop) l : (forall x, P x -> Q x) -> Forall P l -> Forall Q l.
Proof. intro H. apply Forall_impl. exact H. Qed.

Lemma forms_emitter rt sty wild seg g : emitter sty wild (offs_of_segment rt seg) g ->
  forall ws s ws', g ws = Ok (s, ws') -> Forall (offset_form rt sty seg) (recorded_syms s).
Proof.
  apply (emitter_rel sty wild (offs_of_segment rt seg)
           (fun _ s _ => Forall (offset_form rt sty seg) (recorded_syms s))).
  - intros. constructor.
  - intros. rewrite recorded_app. apply Forall_app; split; assumption.
  - intros. constructor.
  - intros. constructor.
  - intros ws name Hn. constructor; [|constructor]. exists name. split; [exact Hn | reflexivity].
Qed.

Lemma forms_emit_section rt sty cfg seg sections base section ws s ws' :
  emit_section rt sty cfg seg sections base section ws = Ok (s, ws') ->
  Forall (offset_form rt sty seg) (recorded_syms s).
Proof. apply (forms_emitter rt sty (wildcard_sections seg) seg). apply emit_section_emitter. Qed.

Ltac fr := rewrite ?recorded_app;
           repeat match goal with |- Forall _ (_ ++ _) => apply Forall_app; split end.

Lemma forms_part_groups rt st cfg seg sections rest : forall ws s ws',
  incl rest (alloc_sections seg ++ noload_sections seg) ->
  part_groups rt st cfg seg sections rest ws = Ok (s, ws') ->
  Forall (seg_or_offset rt (linker_symbols_style st) seg) (recorded_syms s).
Proof.
  induction rest as [|section rest IH]; intros ws s ws' Hin H.
  - apply ok_inj in H. inversion H; subst. constructor.
  - apply part_groups_cons in H. destruct H as [s1 [ws1 [s2 [E1 [E2 E]]]]]. subst. fr.
    + eapply Forall_impl'; [|apply plain_recorded, (pl_section_symbol_start rt _ cfg seg section),
                              (Hin _ (or_introl eq_refl))]. intros x Hx. left; exact Hx.
    + eapply Forall_impl'; [|eapply forms_emit_section; eassumption]. intros x Hx. right; exact Hx.
    + eapply Forall_impl'; [|apply plain_recorded, (pl_section_symbol_end _ cfg seg section),
                              (Hin _ (or_introl eq_refl))]. intros x Hx. left; exact Hx.
    + destruct rest; constructor.
    + eapply IH; [|eassumption]. intros x Hx. apply Hin. right; assumption.
Qed.

Lemma forms_single_groups rt st cfg seg sections noload rest : forall ws s ws',
  incl rest (alloc_sections seg ++ noload_sections seg) ->
  single_groups rt st cfg seg sections noload rest ws = Ok (s, ws') ->
  Forall (seg_or_offset rt (linker_symbols_style st) seg) (recorded_syms s).
Proof.
  induction rest as [|section rest IH]; intros ws s ws' Hin H.
  - apply ok_inj in H. inversion H; subst. constructor.
  - apply single_groups_cons in H. destruct H as [s1 [ws1 [s2 [E1 [E2 E]]]]]. subst. fr.
    + eapply Forall_impl'; [|apply plain_recorded, (pl_section_symbol_start rt _ cfg seg section),
                              (Hin _ (or_introl eq_refl))]. intros x Hx. left; exact Hx.
    + rewrite recorded_outsec. fr.
      * rewrite (plain_none _ (pl_opt_fill _ seg)). constructor.
      * eapply Forall_impl'; [|eapply forms_emit_section; eassumption]. intros x Hx. right; exact Hx.
    + eapply Forall_impl'; [|apply plain_recorded, (pl_section_symbol_end _ cfg seg section),
                              (Hin _ (or_introl eq_refl))]. intros x Hx. left; exact Hx.
    + destruct rest; constructor.
    + eapply IH; [|eassumption]. intros x Hx. apply Hin. right; assumption.
Qed.

Lemma forms_write_segment rt st cfg seg sections noload ws s ws' :
  incl sections (alloc_sections seg ++ noload_sections seg) ->
  write_segment rt st cfg seg sections noload ws = Ok (s, ws') ->
  Forall (seg_or_offset rt (linker_symbols_style st) seg) (recorded_syms s).
Proof.
  intros Hin H. apply write_segment_inv in H. destruct H as [body [E H]]. subst. fr.
  - eapply Forall_impl'; [|apply plain_recorded, pl_kind_start]. intros x Hx. left; exact Hx.
  - unfold outsec_of. rewrite recorded_outsec. fr.
    + rewrite (plain_none _ (pl_opt_fill _ seg)). constructor.
    + eapply forms_part_groups; eassumption.
  - eapply Forall_impl'; [|apply plain_recorded, pl_kind_end]. intros x Hx. left; exact Hx.
Qed.

Lemma forms_write_single_segment rt st cfg seg sections noload ws s ws' :
  incl sections (alloc_sections seg ++ noload_sections seg) ->
  write_single_segment rt st cfg seg sections noload ws = Ok (s, ws') ->
  Forall (seg_or_offset rt (linker_symbols_style st) seg) (recorded_syms s).
Proof.
  intros Hin H. apply write_single_segment_inv in H. destruct H as [body [E H]]. subst. fr.
  - eapply Forall_impl'; [|apply plain_recorded, pl_kind_start]. intros x Hx. left; exact Hx.
  - eapply forms_single_groups; eassumption.
  - eapply Forall_impl'; [|apply plain_recorded, pl_kind_end]. intros x Hx. left; exact Hx.
Qed.

Lemma class_get_in classes cn c : class_get classes cn = Some c -> In c classes /\ vc_name c = cn.
Proof.
  unfold class_get. intro H. apply find_some in H. destruct H as [Hin E].
  split; [apply in_rev; assumption | apply String.eqb_eq; assumption].
Qed.

Lemma forms_add_segment rt st cfg classes seg ws s ws' :
  add_segment rt st cfg classes seg ws = Ok (s, ws') ->
  Forall (fun sym => seg_or_offset rt (linker_symbols_style st) seg sym \/
                     any_class_form (linker_symbols_style st) classes sym) (recorded_syms s).
Proof.
  intro H. apply add_segment_inv in H.
  destruct H as [[_ [E Ew]] | [_ [cls [ws1 [s1 [ws2 [s2 [Ec [E1 [E2 E]]]]]]]]]]; subst; [constructor|]. fr.
  - apply class_part_inv in Ec. destruct Ec as [[E _] | [cn [c [_ [Eg [_ [E _]]]]]]]; subst; [constructor|].
    apply class_get_in in Eg. destruct Eg as [Hin En]. subst.
    eapply Forall_impl'; [|apply plain_recorded, pl_class_start]. intros x Hx. right. exists c. auto.
  - eapply Forall_impl'; [|apply plain_recorded, pl_seg_head]. intros x Hx. left; left; exact Hx.
  - eapply Forall_impl'; [|eapply forms_write_segment; [apply incl_alloc | eassumption]]. intros x Hx. left; exact Hx.
  - constructor.
  - eapply Forall_impl'; [|eapply forms_write_segment; [apply incl_noload | eassumption]]. intros x Hx. left; exact Hx.
  - constructor.
  - eapply Forall_impl'; [|apply plain_recorded, pl_seg_foot]. intros x Hx. left; left; exact Hx.
Qed.

Lemma forms_lift rt sty seg segs classes sym :
  In seg segs ->
  seg_or_offset rt sty seg sym \/ any_class_form sty classes sym -> generated_form rt sty segs classes sym.
Proof.
  intros Hin [H|H].
  - left. exists seg. split; assumption.
  - right. exact H.
Qed.

(* the segment the main partial script sees has the same names and no linker offset of its own *)
Lemma seg_or_offset_clone rt sty seg p sym :
  seg_or_offset rt sty (clone_with_new_files seg [new_object p]) sym -> seg_or_offset rt sty seg sym.
Proof.
  intros [H | [name [Hin _]]]; [left; exact H|]. exfalso.
  unfold segment_offset_names in Hin. cbn [sg_files clone_with_new_files flat_map new_object
    file_offset_names] in Hin. destruct (should_emit rt no_conds); exact Hin.
Qed.

Lemma forms_fold_add_segment rt st cfg classes segs ws s ws' :
  fold_out (add_segment rt st cfg classes) segs ws = Ok (s, ws') ->
  Forall (generated_form rt (linker_symbols_style st)
                         (filter (fun seg => should_emit rt (sg_conds seg)) segs) classes) (recorded_syms s).
Proof.
  apply (fold_out_rel (fun _ s _ => Forall (generated_form rt (linker_symbols_style st)
           (filter (fun seg => should_emit rt (sg_conds seg)) segs) classes) (recorded_syms s))).
  - intros; constructor.
  - intros. rewrite recorded_app. apply Forall_app; split; assumption.
  - intros seg w t w' Hin H. destruct (should_emit rt (sg_conds seg)) eqn:He.
    + eapply Forall_impl'; [|eapply forms_add_segment; eassumption].
      intros x Hx. eapply forms_lift; [|exact Hx]. apply filter_In. auto.
    + rewrite add_segment_excluded in H by assumption. apply ok_inj in H. inversion H; subst. constructor.
Qed.

Lemma forms_end_sections rt st segs classes ws :
  Forall (generated_form rt (linker_symbols_style st) segs classes) (recorded_syms (end_sections_body st classes ws)).
Proof.
  eapply Forall_impl'; [|apply plain_recorded, pl_end_sections]. intros x Hx. right. exact Hx.
Qed.

Lemma forms_add_single_segment rt st cfg classes seg ws s ws' :
  add_single_segment rt st cfg classes seg ws = Ok (s, ws') ->
  Forall (generated_form rt (linker_symbols_style st) [seg] classes) (recorded_syms s).
Proof.
  intro H. apply add_single_segment_inv in H. destruct H as [s1 [ws1 [s2 [E1 [E2 E]]]]]. subst.
  rewrite recorded_sections. fr.
  - rewrite not_recorded_single_head. constructor.
  - eapply Forall_impl'; [|eapply forms_write_single_segment; [apply incl_alloc | eassumption]].
    intros x Hx. eapply forms_lift; [left; reflexivity | left; exact Hx].
  - constructor.
  - eapply Forall_impl'; [|eapply forms_write_single_segment; [apply incl_noload | eassumption]].
    intros x Hx. eapply forms_lift; [left; reflexivity | left; exact Hx].
  - constructor.
  - apply forms_end_sections.
Qed.

Lemma forms_add_all_segments rt st cfg classes segs ws s ws' :
  add_all_segments rt st cfg classes segs ws = Ok (s, ws') ->
  Forall (generated_form rt (linker_symbols_style st)
            (if single_segment_mode st then segs else filter (fun seg => should_emit rt (sg_conds seg)) segs)
            classes) (recorded_syms s).
Proof.
  intro H. apply add_all_segments_inv in H.
  destruct H as [[Hm [seg [Es H]]] | [Hm [body [E H]]]]; rewrite Hm; subst.
  - eapply forms_add_single_segment; eassumption.
  - rewrite recorded_sections. fr.
    + rewrite not_recorded_begin. constructor.
    + eapply forms_fold_add_segment; eassumption.
    + apply forms_end_sections.
Qed.

Lemma Forall_keep_first {A} (eqb : A -> A -> bool) (P : A -> Prop) l : Forall P l -> Forall P (keep_first eqb l).
Proof.
  intro H. apply Forall_forall. intros x Hx. apply keep_first_incl in Hx.
  rewrite Forall_forall in H. auto.
Qed.

Lemma forms_normal d rt w :
  gen_normal d rt = Ok w ->
  Forall (generated_form rt (linker_symbols_style (doc_settings d))
            (if single_segment_mode (doc_settings d) then doc_segments d else included_segments rt d)
            (doc_vram_classes d)) (linker_symbols w).
Proof.
  intro H. rewrite linker_symbols_recorded. apply Forall_keep_first.
  apply gen_normal_inv in H. destruct H as [s [ws' [E H]]]. subst. cbn [wo_script].
  rewrite !recorded_app, not_recorded_version, not_recorded_tail, app_nil_r. simpl.
  eapply forms_add_all_segments; eassumption.
Qed.

(* the main partial script: same names as the ordinary script of the same document *)
Lemma forms_partial_segments d rt folder segs : forall ws subs s ws' subs',
  partial_segments d rt folder segs (ws, subs) = Ok (s, (ws', subs')) ->
  Forall (generated_form rt (linker_symbols_style (doc_settings d))
                         (filter (fun seg => should_emit rt (sg_conds seg)) segs) (doc_vram_classes d))
         (recorded_syms s).
Proof.
  induction segs as [|seg r IH]; intros ws subs s ws' subs' H.
  - apply ok_inj in H. inversion H; subst. constructor.
  - apply partial_segments_cons in H. destruct H as [s1 [[ws1 subs1] [s2 [E1 [E2 E]]]]]. subst.
    apply IH in E2. apply partial_segment_inv in E1. cbn [filter].
    destruct E1 as [[Hc [E [Ew Es]]] | [Hc [sub [wsub [Ea [Eb Es]]]]]]; subst; rewrite Hc.
    + exact E2.
    + fr.
      * apply forms_add_segment in Eb. eapply Forall_impl'; [|exact Eb]. intros x Hx.
        apply (forms_lift _ _ seg); [left; reflexivity|].
        destruct Hx as [Hx|Hx]; [left; eapply seg_or_offset_clone; exact Hx | right; exact Hx].
      * eapply Forall_impl'; [|exact E2]. intros x [[sg [Hin Hf]] | Hcl].
        -- left. exists sg. split; [right; assumption | assumption].
        -- right; assumption.
Qed.

Lemma forms_partial_main d rt p :
  gen_partial d rt = Ok p ->
  Forall (generated_form rt (linker_symbols_style (doc_settings d)) (included_segments rt d)
                         (doc_vram_classes d)) (linker_symbols (po_main p)).
Proof.
  intro H. rewrite linker_symbols_recorded. apply Forall_keep_first.
  apply gen_partial_inv in H. destruct H as [folder [body [ws [subs [Ef [E H]]]]]]. subst.
  cbn [po_main wo_script]. rewrite !recorded_app, recorded_sections, !recorded_app, not_recorded_version,
    not_recorded_tail, not_recorded_begin, app_nil_r. simpl. fr.
  - eapply forms_partial_segments; eassumption.
  - apply forms_end_sections.
Qed.
