(* C13Doc: the names recorded by the generated script are the document's [doc_header_symbols], as a
   list (order and multiplicity).  Same skeleton as Proofs/DocWf.v (emit_sff_Sy, part_groups_defs,
   fold_defs), with the list [recorded_syms] in place of the counts [defs]; the segment-level lemmas are
   stated for any writer configuration so that they also serve the main script of partial linking
   (cfg_main_partial, clones holding one partial object), the per-segment scripts (cfg_sub_partial) and
   single-segment mode. *)
From Slinky Require Import Model.Types Model.Generated Model.Runtime Model.Style Model.Script Model.Writer
  Model.Exports Model.LdSem.
From Slinky Require Import Spec.C18 Spec.C04 Spec.C11 Spec.C13 Spec.DocLevel Spec.DocPartial Spec.DocSingle Spec.DocWf
  Spec.C13Doc.
From Slinky Require Import Proofs.C06 Proofs.C18 Proofs.C17 Proofs.C04 Proofs.C10 Proofs.C11 Proofs.C12 Proofs.C13
  Proofs.DocLevel Proofs.DocWf Proofs.DocPartial.
From Coq Require Import Lia.
Local Open Scope string_scope.
Local Open Scope list_scope.

(* ====================================================================== *)
(* 1. recorded_syms of the small pieces                                    *)
(* ====================================================================== *)

Lemma rec_cons s l : recorded_syms (s :: l) = stmt_recorded s ++ recorded_syms l.
Proof. reflexivity. Qed.

Lemma rec_nil : recorded_syms [] = [].
Proof. reflexivity. Qed.

Lemma rec_opt_align a : recorded_syms (opt_align a) = [].
Proof. destruct a; reflexivity. Qed.

Lemma rec_opt_fill seg : recorded_syms (opt_fill seg) = [].
Proof. unfold opt_fill. destruct (fill_value seg); reflexivity. Qed.

Lemma rec_sep (rest : list string) : recorded_syms (match rest with [] => [] | _ => [SBlank] end) = [].
Proof. destruct rest; reflexivity. Qed.

Lemma rec_blank_if b : recorded_syms (blank_if b) = [].
Proof. destruct b; reflexivity. Qed.

Lemma rec_map_nil {A} (f : A -> stmt) l : (forall a, stmt_recorded (f a) = []) -> recorded_syms (map f l) = [].
Proof. intro H. induction l as [|a r IH]; [reflexivity|]. cbn [map]. rewrite rec_cons, H, IH. reflexivity. Qed.

Lemma fold_out_rec {A} (f : A -> wstate -> res out) (g : A -> list string) l :
  (forall a ws s ws', In a l -> f a ws = Ok (s, ws') -> recorded_syms s = g a) ->
  forall ws s ws', fold_out f l ws = Ok (s, ws') -> recorded_syms s = flat_map g l.
Proof.
  induction l as [|a r IH]; intros Hf ws s ws' H.
  - apply fold_out_nil in H. destruct H; subst. reflexivity.
  - apply fold_out_cons in H. destruct H as [s1 [ws1 [s2 [E1 [E2 E]]]]]. subst s. cbn [flat_map].
    rewrite recorded_app. f_equal.
    + eapply Hf; [left; reflexivity | exact E1].
    + eapply IH; [|exact E2]. intros b w t w' Hb. apply Hf. right. exact Hb.
Qed.

(* ====================================================================== *)
(* 2. the files: emit_sff records the linker offsets of sff_offsets        *)
(* ====================================================================== *)

Section Files.
  Variables (rt : runtime) (sty : style) (cfg : wcfg) (seg : segment) (sections : list string).
  Hypothesis Hrp : reference_partial cfg = false.

  Lemma emit_file_of_rec f k base ws s ws' :
    Forall (fun c => forall n stack section base ws s ws',
                emit_sff rt sty cfg seg sections c n stack section base ws = Ok (s, ws') ->
                recorded_syms s = sff_offsets rt sty seg sections c n stack section) (fi_files f) ->
    emit_file_of rt sty cfg seg sections f k base ws = Ok (s, ws') ->
    recorded_syms s = file_offsets rt sty seg sections f k.
  Proof.
    intros IH H. unfold emit_file_of, emit_file_gen in H. unfold file_offsets.
    destruct (negb (should_emit rt (fi_conds f))).
    { apply ok_inj in H. inversion H; subst. reflexivity. }
    destruct (fi_kind f).
    - apply bind_ok in H. destruct H as [p [_ H]]. apply ok_inj in H. inversion H; subst. reflexivity.
    - apply bind_ok in H. destruct H as [p [_ H]]. apply ok_inj in H. inversion H; subst. reflexivity.
    - apply ok_inj in H. inversion H; subst. destruct (String.eqb (fi_section f) k); reflexivity.
    - apply ok_inj in H. inversion H; subst. destruct (String.eqb (fi_section f) k); reflexivity.
    - apply bind_ok in H. destruct H as [dd [_ H]]. unfold group_fold in H.
      eapply (fold_out_rec _ (fun c => sff_offsets rt sty seg sections c (chain_fuel seg) [] k)); [|exact H].
      intros c w t w' Hc Hcall. rewrite Forall_forall in IH. exact (IH c Hc _ _ _ _ _ _ _ Hcall).
  Qed.

  Lemma emit_sff_rec f : forall n stack section base ws s ws',
    emit_sff rt sty cfg seg sections f n stack section base ws = Ok (s, ws') ->
    recorded_syms s = sff_offsets rt sty seg sections f n stack section.
  Proof.
    induction f as [p k sf pa sec lon so files dd c kp IHfiles] using file_info_ind'.
    set (f := FileInfo p k sf pa sec lon so files dd c kp) in *.
    induction n as [|n IHn]; intros stack section base ws s ws' H.
    - rewrite emit_sff_O in H. discriminate.
    - rewrite emit_sff_S in H. rewrite sff_offsets_S.
      destruct (mem_str section stack); [discriminate|].
      unfold chain_step in H.
      eapply (fold_out_rec _ (fun k0 =>
                file_offsets rt sty seg sections f k0 ++
                match lookup k0 (subgroups_for seg f) with
                | Some others => flat_map (sff_offsets rt sty seg sections f n (section :: stack)) others
                | None => []
                end)); [|exact H].
      intros k0 w t w' _ Hstep.
      apply bind_ok_out in Hstep. destruct Hstep as [s1 [w1 [E1 Hstep]]]. cbn [fst snd] in Hstep.
      apply bind_ok_out in Hstep. destruct Hstep as [s2 [w2 [E2 Hstep]]]. cbn [fst snd] in Hstep.
      apply ok_inj in Hstep. inversion Hstep; subst t w'. clear Hstep.
      rewrite recorded_app. f_equal.
      + eapply emit_file_of_rec; [exact IHfiles | exact E1].
      + rewrite Hrp in E2. destruct (lookup k0 (subgroups_for seg f)) as [others|].
        * eapply (fold_out_rec _ (sff_offsets rt sty seg sections f n (section :: stack))); [|exact E2].
          intros other w3 t3 w3' _ Hcall. eapply IHn. exact Hcall.
        * apply ok_inj in E2. inversion E2; subst. reflexivity.
  Qed.

  Lemma emit_section_rec base section ws s ws' :
    emit_section rt sty cfg seg sections base section ws = Ok (s, ws') ->
    recorded_syms s = section_offsets rt sty seg sections section.
  Proof.
    unfold emit_section. intro H. apply bind_ok in H. destruct H as [b0 [_ H]].
    apply bind_ok in H. destruct H as [b [_ H]]. unfold section_offsets.
    eapply (fold_out_rec _ (fun f => sff_offsets rt sty seg sections f (chain_fuel seg) [] section)); [|exact H].
    intros f w t w' _ Hcall. eapply emit_sff_rec. exact Hcall.
  Qed.
End Files.

(* a partial object in the main script: one input statement, nothing recorded *)
Lemma emit_sff_object_rec rt sty cfg seg sections p : reference_partial cfg = true ->
  forall n stack section base ws s ws',
    emit_sff rt sty cfg seg sections (new_object p) n stack section base ws = Ok (s, ws') ->
    recorded_syms s = [].
Proof.
  intros Hrp n stack section base ws s ws' H. destruct n as [|n]; [rewrite emit_sff_O in H; discriminate|].
  rewrite emit_sff_S in H. destruct (mem_str section stack); [discriminate|].
  unfold chain_step in H. change (sections_here (new_object p) section sections) with [section] in H.
  apply fold_out_cons in H. destruct H as [s1 [ws1 [s2 [E1 [E2 E]]]]]. subst s.
  apply fold_out_nil in E2. destruct E2 as [E2 _]. subst s2. rewrite app_nil_r.
  apply bind_ok_out in E1. destruct E1 as [t1 [w1 [F1 E1]]]. cbn [fst snd] in E1.
  rewrite Hrp in E1. cbn [bind fst snd] in E1. apply ok_inj in E1. inversion E1; subst s1 ws1. rewrite app_nil_r.
  unfold emit_file_of, emit_file_gen in F1. change (fi_conds (new_object p)) with no_conds in F1.
  change (should_emit rt no_conds) with true in F1. cbn [negb fi_kind new_object] in F1.
  apply bind_ok in F1. destruct F1 as [pe [_ F1]]. apply ok_inj in F1. inversion F1; subst. reflexivity.
Qed.

Lemma emit_section_clone_rec rt sty cfg seg p sections base section ws s ws' : reference_partial cfg = true ->
  emit_section rt sty cfg (clone_with_new_files seg [new_object p]) sections base section ws = Ok (s, ws') ->
  recorded_syms s = [].
Proof.
  intros Hrp H. unfold emit_section in H. apply bind_ok in H. destruct H as [b0 [_ H]].
  apply bind_ok in H. destruct H as [b [_ H]]. cbn [sg_files clone_with_new_files] in H.
  apply fold_out_cons in H. destruct H as [s1 [ws1 [s2 [E1 [E2 E]]]]]. subst s.
  apply fold_out_nil in E2. destruct E2 as [E2 _]. subst s2. rewrite app_nil_r.
  eapply emit_sff_object_rec; [exact Hrp | exact E1].
Qed.

(* ====================================================================== *)
(* 3. one segment, any configuration                                       *)
(* ====================================================================== *)

Section OneSegment.
  Variables (rt : runtime) (st : settings) (cfg : wcfg) (seg : segment).
  Let sty := linker_symbols_style st.
  Variables (ks ss : bool).
  Hypothesis Hks : kind_syms cfg = ks.
  Hypothesis Hss : section_syms cfg = ss.
  (* what the files of one section group record *)
  Variable offs : list string -> string -> list string.
  Hypothesis Hoffs : forall sections section ws s ws',
    emit_section rt sty cfg seg sections (base_path st) section ws = Ok (s, ws') ->
    recorded_syms s = offs sections section.

  Definition sec_syms (sections : list string) (section : string) : list string :=
    (if ss then [segment_section_start sty (sg_name seg) section] else []) ++
    offs sections section ++
    (if ss then [segment_section_end sty (sg_name seg) section; segment_section_size sty (sg_name seg) section]
     else []).

  Definition part_syms (noload : bool) (sections : list string) : list string :=
    (if ks then [segment_vram_start sty (kind_name seg noload)] else []) ++
    flat_map (sec_syms sections) sections ++
    (if ks then [segment_vram_end sty (kind_name seg noload); segment_vram_size sty (kind_name seg noload)]
     else []).

  Definition seg_syms : list string :=
    [segment_rom_start sty (sg_name seg); segment_vram_start sty (sg_name seg)] ++
    part_syms false (alloc_sections seg) ++ part_syms true (noload_sections seg) ++
    [segment_vram_end sty (sg_name seg); segment_vram_size sty (sg_name seg);
     segment_rom_end sty (sg_name seg); segment_rom_size sty (sg_name seg)].

  Lemma section_start_rec section :
    recorded_syms (section_symbol_start rt sty cfg seg section) =
    if ss then [segment_section_start sty (sg_name seg) section] else [].
  Proof.
    unfold section_symbol_start. rewrite Hss. destruct ss; [|reflexivity].
    rewrite !recorded_app, !rec_opt_align, not_recorded_gp. reflexivity.
  Qed.

  Lemma section_end_rec section :
    recorded_syms (section_symbol_end sty cfg seg section) =
    if ss then [segment_section_end sty (sg_name seg) section; segment_section_size sty (sg_name seg) section]
    else [].
  Proof.
    unfold section_symbol_end, sym_end_size. rewrite Hss. destruct ss; [|reflexivity].
    rewrite !recorded_app, !rec_opt_align. reflexivity.
  Qed.

  Lemma part_groups_rec sections rest : forall ws s ws',
    part_groups rt st cfg seg sections rest ws = Ok (s, ws') ->
    recorded_syms s = flat_map (sec_syms sections) rest.
  Proof.
    induction rest as [|section rest IH]; intros ws s ws' H.
    - apply ok_inj in H. inversion H; subst. reflexivity.
    - apply part_groups_cons in H. destruct H as [s1 [ws1 [s2 [E1 [E2 E]]]]]. subst s.
      fold sty in E1 |- *. cbn [flat_map]. unfold sec_syms at 1.
      rewrite !recorded_app, section_start_rec, section_end_rec, rec_sep, (Hoffs _ _ _ _ _ E1), (IH _ _ _ E2).
      cbn [app]. rewrite <- !app_assoc. reflexivity.
  Qed.

  Lemma single_groups_rec sections noload rest : forall ws s ws',
    single_groups rt st cfg seg sections noload rest ws = Ok (s, ws') ->
    recorded_syms s = flat_map (sec_syms sections) rest.
  Proof.
    induction rest as [|section rest IH]; intros ws s ws' H.
    - apply ok_inj in H. inversion H; subst. reflexivity.
    - apply single_groups_cons in H. destruct H as [s1 [ws1 [s2 [E1 [E2 E]]]]]. subst s.
      fold sty in E1 |- *. cbn [flat_map]. unfold sec_syms at 1.
      rewrite !recorded_app, section_start_rec, section_end_rec, rec_sep, recorded_outsec, recorded_app,
        rec_opt_fill, (Hoffs _ _ _ _ _ E1), (IH _ _ _ E2).
      cbn [app]. rewrite <- !app_assoc. reflexivity.
  Qed.

  Lemma kind_start_rec noload :
    recorded_syms (sections_kind_start sty cfg seg noload) =
    if ks then [segment_vram_start sty (kind_name seg noload)] else [].
  Proof. unfold sections_kind_start. rewrite Hks. destruct ks; reflexivity. Qed.

  Lemma kind_end_rec noload :
    recorded_syms (sections_kind_end sty cfg seg noload) =
    if ks then [segment_vram_end sty (kind_name seg noload); segment_vram_size sty (kind_name seg noload)] else [].
  Proof. unfold sections_kind_end. rewrite Hks. destruct ks; reflexivity. Qed.

  Lemma write_segment_rec sections noload ws s ws' :
    write_segment rt st cfg seg sections noload ws = Ok (s, ws') ->
    recorded_syms s = part_syms noload sections.
  Proof.
    intro H. apply write_segment_inv in H. destruct H as [body [E Es]]. subst s. fold sty.
    unfold part_syms, outsec_of.
    rewrite !recorded_app, kind_start_rec, kind_end_rec, recorded_outsec, recorded_app, rec_opt_fill,
      (part_groups_rec _ _ _ _ _ E). reflexivity.
  Qed.

  Lemma write_single_segment_rec sections noload ws s ws' :
    write_single_segment rt st cfg seg sections noload ws = Ok (s, ws') ->
    recorded_syms s = part_syms noload sections.
  Proof.
    intro H. apply write_single_segment_inv in H. destruct H as [body [E Es]]. subst s. fold sty.
    unfold part_syms.
    rewrite !recorded_app, kind_start_rec, kind_end_rec, (single_groups_rec _ _ _ _ _ _ E). reflexivity.
  Qed.

  Lemma seg_head_rec :
    recorded_syms (seg_head st seg) = [segment_rom_start sty (sg_name seg); segment_vram_start sty (sg_name seg)].
  Proof. unfold seg_head. rewrite recorded_app. destruct (segment_start_align seg); reflexivity. Qed.

  Lemma seg_foot_rec :
    recorded_syms (seg_foot st seg) =
    [segment_vram_end sty (sg_name seg); segment_vram_size sty (sg_name seg);
     segment_rom_end sty (sg_name seg); segment_rom_size sty (sg_name seg)].
  Proof.
    unfold seg_foot, sym_end_size. cbv zeta. rewrite !recorded_app.
    destruct (segment_end_align seg), (sg_vram_class seg); reflexivity.
  Qed.

  Variable classes : list vram_class.

  Lemma add_segment_rec ws s ws' :
    add_segment rt st cfg classes seg ws = Ok (s, ws') -> should_emit rt (sg_conds seg) = true ->
    exists cls ws1 rest,
      class_part st classes seg ws = Ok (cls, ws1) /\ s = cls ++ rest /\ ws_emitted ws' = ws_emitted ws1 /\
      recorded_syms rest = seg_syms.
  Proof.
    intros H Hc. apply add_segment_inv in H.
    destruct H as [[Hc' _] | [_ [cls [ws1 [s1 [ws2 [s2 [Ec [E1 [E2 E]]]]]]]]]]; [congruence|].
    exists cls, ws1, (seg_head st seg ++ s1 ++ [SBlank] ++ s2 ++ [SBlank] ++ seg_foot st seg).
    split; [exact Ec|]. split; [exact E|]. split.
    { rewrite (write_segment_emitted _ _ _ _ _ _ _ _ _ E2), (write_segment_emitted _ _ _ _ _ _ _ _ _ E1).
      reflexivity. }
    rewrite !recorded_app, seg_head_rec, seg_foot_rec, (write_segment_rec _ _ _ _ _ E1),
      (write_segment_rec _ _ _ _ _ E2).
    unfold seg_syms. cbn [recorded_syms flat_map stmt_recorded app]. rewrite <- ?app_assoc. reflexivity.
  Qed.
End OneSegment.

(* ====================================================================== *)
(* 4. the classes and the fold over the segments                           *)
(* ====================================================================== *)

Lemma class_start_rec st c cn :
  recorded_syms (class_start_stmts st c cn) =
  [vram_class_start (linker_symbols_style st) cn; vram_class_end (linker_symbols_style st) cn].
Proof.
  unfold class_start_stmts. rewrite recorded_app.
  destruct (vc_fixed_vram c) as [v|]; [reflexivity|].
  destruct (vc_fixed_symbol c) as [sy|]; [reflexivity|].
  rewrite rec_cons, rec_map_nil; [reflexivity|]. intro o. reflexivity.
Qed.

Section Fold.
  Variables (rt : runtime) (st : settings) (cfg : wcfg) (classes : list vram_class).
  Let sty := linker_symbols_style st.
  Variable segsym : segment -> list string.

  Lemma fold_rec segs :
    (forall seg ws s ws', In seg segs -> should_emit rt (sg_conds seg) = true ->
        add_segment rt st cfg classes seg ws = Ok (s, ws') ->
        exists cls ws1 rest,
          class_part st classes seg ws = Ok (cls, ws1) /\ s = cls ++ rest /\
          ws_emitted ws' = ws_emitted ws1 /\ recorded_syms rest = segsym seg) ->
    forall ws body ws',
      fold_out (add_segment rt st cfg classes) segs ws = Ok (body, ws') ->
      recorded_syms body = segs_header_symbols rt sty segsym segs (ws_emitted ws) /\
      (forall cn, mem_str cn (ws_emitted ws') =
                  (mem_str cn (used_classes rt segs) || mem_str cn (ws_emitted ws))%bool).
  Proof.
    induction segs as [|seg r IH]; intros Hseg ws body ws' H.
    - apply fold_out_nil in H. destruct H; subst. split; reflexivity.
    - apply fold_out_cons in H. destruct H as [s1 [ws1 [s2 [E1 [E2 E]]]]]. subst body.
      assert (Hr : forall seg0 ws0 s0 ws0', In seg0 r -> should_emit rt (sg_conds seg0) = true ->
                 add_segment rt st cfg classes seg0 ws0 = Ok (s0, ws0') ->
                 exists cls wsA rest,
                   class_part st classes seg0 ws0 = Ok (cls, wsA) /\ s0 = cls ++ rest /\
                   ws_emitted ws0' = ws_emitted wsA /\ recorded_syms rest = segsym seg0).
      { intros seg0 w0 t0 w0' Hin. apply Hseg. right. exact Hin. }
      destruct (IH Hr _ _ _ E2) as [R2 M2]. clear IH Hr.
      cbn [segs_header_symbols]. rewrite used_classes_cons.
      destruct (should_emit rt (sg_conds seg)) eqn:Hc.
      + destruct (Hseg seg _ _ _ (or_introl eq_refl) Hc E1) as (cls & wsA & rest & Ec & Es & Eem & Rr).
        subst s1. apply class_part_cases in Ec.
        destruct (sg_vram_class seg) as [cn|].
        * destruct Ec as [c [Eg Ec]].
          destruct (mem_str cn (ws_emitted ws)) eqn:Em; destruct Ec as [Ecls EwA]; subst cls wsA.
          -- rewrite Eem in R2, M2. split.
             ++ cbn [app]. rewrite recorded_app, Rr, R2. reflexivity.
             ++ intro cn'. rewrite M2. cbn [app]. rewrite mem_str_cons.
                destruct (String.eqb cn' cn) eqn:Ee; [|reflexivity].
                apply String.eqb_eq in Ee. subst cn'. rewrite Em, orb_true_r. reflexivity.
          -- rewrite Eem in R2, M2. cbn [mark_emitted ws_emitted] in R2, M2. split.
             ++ rewrite !recorded_app, class_start_rec, Rr, R2. reflexivity.
             ++ intro cn'. rewrite M2. cbn [app]. rewrite !mem_str_cons.
                destruct (String.eqb cn' cn), (mem_str cn' (used_classes rt r)); reflexivity.
        * destruct Ec as [Ecls EwA]. subst cls wsA. rewrite Eem in R2, M2. split.
          -- cbn [app]. rewrite recorded_app, Rr, R2. reflexivity.
          -- exact M2.
      + rewrite (add_segment_excluded _ _ _ _ _ _ Hc) in E1. apply ok_inj in E1. inversion E1; subst s1 ws1.
        cbn [app]. split; [exact R2 | exact M2].
  Qed.
End Fold.

(* ====================================================================== *)
(* 5. the end of SECTIONS                                                  *)
(* ====================================================================== *)

Lemma end_sections_rec stg classes ws used :
  (forall cn, mem_str cn (ws_emitted ws) = mem_str cn used) ->
  recorded_syms (end_sections_body stg classes ws) =
  class_size_symbols (linker_symbols_style stg) classes used.
Proof.
  intro Hm. unfold end_sections_body, class_size_symbols. cbv zeta. rewrite !recorded_app.
  assert (A : forall (b l : bool),
             recorded_syms (if b then blank_if l ++ map SSingleEntry (sections_allowlist stg) else []) = []).
  { intros b l. destruct b; [|reflexivity]. rewrite recorded_app, rec_blank_if, rec_map_nil; reflexivity. }
  assert (B : forall (b l : bool),
             recorded_syms (if b then blank_if l ++ map SSingleEntry (sections_allowlist_extra stg) else []) = []).
  { intros b l. destruct b; [|reflexivity]. rewrite recorded_app, rec_blank_if, rec_map_nil; reflexivity. }
  assert (C : forall (b l : bool),
             recorded_syms (if b then blank_if l ++ [SDiscard (sections_denylist stg) (discard_wildcard_section stg)]
                            else []) = []).
  { intros b l. destruct b; [|reflexivity]. rewrite recorded_app, rec_blank_if. reflexivity. }
  rewrite A, B, C, !app_nil_r. clear A B C.
  induction (class_names classes []) as [|cn r IH]; [reflexivity|].
  cbn [flat_map filter]. rewrite recorded_app, Hm, IH. destruct (mem_str cn used); reflexivity.
Qed.

Lemma class_size_symbols_none sty classes : class_size_symbols sty classes [] = [].
Proof.
  unfold class_size_symbols. induction (class_names classes []) as [|cn r IH]; [reflexivity|]. exact IH.
Qed.

(* ====================================================================== *)
(* 6. the ordinary script, multi-segment mode                              *)
(* ====================================================================== *)

Lemma script_rec rt d body fin :
  recorded_syms (version_stmts rt ++ [SSections (begin_sections_body (doc_settings d) ++ body ++ fin)] ++
                 tail_stmts rt d) = recorded_syms body ++ recorded_syms fin.
Proof.
  rewrite !recorded_app, not_recorded_version, not_recorded_tail, recorded_sections, !recorded_app,
    not_recorded_begin, app_nil_r. reflexivity.
Qed.

Lemma normal_segment_rec rt st classes seg ws s ws' :
  add_segment rt st cfg_normal classes seg ws = Ok (s, ws') -> should_emit rt (sg_conds seg) = true ->
  exists cls ws1 rest,
    class_part st classes seg ws = Ok (cls, ws1) /\ s = cls ++ rest /\ ws_emitted ws' = ws_emitted ws1 /\
    recorded_syms rest = seg_symbols rt (linker_symbols_style st) seg.
Proof.
  intros H Hc.
  exact (add_segment_rec rt st cfg_normal seg true true eq_refl eq_refl
           (section_offsets rt (linker_symbols_style st) seg)
           (fun sections section w t w' Hcall =>
              emit_section_rec rt (linker_symbols_style st) cfg_normal seg sections eq_refl _ _ _ _ _ Hcall)
           classes ws s ws' H Hc).
Qed.

Lemma document_recorded d rt w :
  gen_normal d rt = Ok w -> single_segment_mode (doc_settings d) = false ->
  recorded_syms (wo_script w) = doc_header_symbols d rt.
Proof.
  intros Hg Hm. apply gen_normal_inv in Hg. destruct Hg as [s [ws' [E Hw]]].
  apply add_all_segments_inv in E. destruct E as [[Hs _] | [_ [body [E Es]]]]; [congruence|]. subst s w.
  cbn [wo_script]. rewrite script_rec.
  destruct (fold_rec rt (doc_settings d) cfg_normal (doc_vram_classes d)
              (seg_symbols rt (linker_symbols_style (doc_settings d))) (doc_segments d)
              (fun seg w t w' _ Hc Hcall => normal_segment_rec rt _ _ seg w t w' Hcall Hc) _ _ _ E) as [R M].
  rewrite R, (end_sections_rec _ _ _ (used_classes rt (doc_segments d))).
  - reflexivity.
  - intro cn. rewrite M. cbn [ws0 ws_emitted mem_str]. apply orb_false_r.
Qed.

(* ====================================================================== *)
(* 7. the header                                                           *)
(* ====================================================================== *)

Lemma filter_all {A} (f : A -> bool) l : (forall y, In y l -> f y = true) -> filter f l = l.
Proof.
  induction l as [|y r IH]; intro H; [reflexivity|]. cbn [filter]. rewrite (H y (or_introl eq_refl)), IH; [reflexivity|].
  intros z Hz. apply H. right. exact Hz.
Qed.

Lemma keep_first_nodup_id l : nodup_str l = true -> keep_first String.eqb l = l.
Proof.
  induction l as [|x r IH]; intro H; [reflexivity|]. cbn [nodup_str] in H. apply andb_true_iff in H.
  destruct H as [H1 H2]. cbn [keep_first]. rewrite (IH H2). f_equal. apply filter_all. intros y Hy.
  apply negb_true_iff. apply String.eqb_neq. intro Exy. subst y. apply mem_str_in in Hy.
  rewrite Hy in H1. discriminate.
Qed.

Lemma document_header d rt w :
  gen_normal d rt = Ok w -> single_segment_mode (doc_settings d) = false ->
  linker_symbols w = keep_first String.eqb (doc_header_symbols d rt).
Proof. intros Hg Hm. rewrite linker_symbols_recorded, (document_recorded d rt w Hg Hm). reflexivity. Qed.

Lemma document_header_nodup d rt w :
  gen_normal d rt = Ok w -> single_segment_mode (doc_settings d) = false ->
  nodup_str (doc_header_symbols d rt) = true ->
  linker_symbols w = doc_header_symbols d rt.
Proof. intros Hg Hm Hn. rewrite (document_header d rt w Hg Hm). apply keep_first_nodup_id. exact Hn. Qed.

Lemma document_header_text d rt w :
  gen_normal d rt = Ok w -> single_segment_mode (doc_settings d) = false ->
  header_text rt (doc_settings d) w =
  header_spec rt (doc_settings d) (keep_first String.eqb (doc_header_symbols d rt)).
Proof. intros Hg Hm. rewrite header_text_spec, (document_header d rt w Hg Hm). reflexivity. Qed.

Lemma document_header_text_nodup d rt w :
  gen_normal d rt = Ok w -> single_segment_mode (doc_settings d) = false ->
  nodup_str (doc_header_symbols d rt) = true ->
  header_text rt (doc_settings d) w = header_spec rt (doc_settings d) (doc_header_symbols d rt).
Proof. intros Hg Hm Hn. rewrite header_text_spec, (document_header_nodup d rt w Hg Hm Hn). reflexivity. Qed.

Lemma document_declared_iff d rt w x :
  gen_normal d rt = Ok w -> single_segment_mode (doc_settings d) = false ->
  (In x (linker_symbols w) <-> In x (doc_header_symbols d rt)).
Proof. intros Hg Hm. rewrite linker_symbols_in, (document_recorded d rt w Hg Hm). reflexivity. Qed.

(* ====================================================================== *)
(* 8. every name of the list is a style function applied to something      *)
(* ====================================================================== *)

Lemma Forall_flat_map {A B} (P : B -> Prop) (f : A -> list B) l :
  (forall a, In a l -> Forall P (f a)) -> Forall P (flat_map f l).
Proof.
  induction l as [|a r IH]; intro H; [constructor|]. cbn [flat_map]. apply Forall_app. split.
  - apply H. left. reflexivity.
  - apply IH. intros b Hb. apply H. right. exact Hb.
Qed.

Lemma sff_offsets_style rt sty seg sections f : forall n stack section,
  Forall (style_name sty) (sff_offsets rt sty seg sections f n stack section).
Proof.
  induction f as [p k sf pa sec lon so files dd c kp IHfiles] using file_info_ind'.
  set (f := FileInfo p k sf pa sec lon so files dd c kp) in *.
  induction n as [|n IHn]; intros stack section.
  - rewrite sff_offsets_O. constructor.
  - rewrite sff_offsets_S. destruct (mem_str section stack); [constructor|].
    apply Forall_flat_map. intros k0 _. apply Forall_app. split.
    + unfold file_offsets. destruct (negb (should_emit rt (fi_conds f))); [constructor|].
      destruct (fi_kind f); try constructor.
      * destruct (String.eqb (fi_section f) k0); constructor; [sn | constructor].
      * apply Forall_flat_map. intros c0 Hc0. rewrite Forall_forall in IHfiles. apply (IHfiles c0 Hc0).
    + destruct (lookup k0 (subgroups_for seg f)) as [others|]; [|constructor].
      apply Forall_flat_map. intros o _. apply IHn.
Qed.

Lemma seg_symbols_style rt sty seg : Forall (style_name sty) (seg_symbols rt sty seg).
Proof.
  assert (Hp : forall noload, Forall (style_name sty) (part_symbols rt sty seg noload)).
  { intro noload. unfold part_symbols. cbv zeta. apply Forall_app. split; [constructor; [sn | constructor]|].
    apply Forall_app. split; [|constructor; [sn | constructor; [sn | constructor]]].
    apply Forall_flat_map. intros section _. unfold section_symbols.
    apply Forall_app. split; [constructor; [sn | constructor]|].
    apply Forall_app. split; [|constructor; [sn | constructor; [sn | constructor]]].
    unfold section_offsets. apply Forall_flat_map. intros f _. apply sff_offsets_style. }
  unfold seg_symbols. apply Forall_app. split; [constructor; [sn | constructor; [sn | constructor]]|].
  apply Forall_app. split; [apply Hp|]. apply Forall_app. split; [apply Hp|].
  repeat (constructor; [sn|]). constructor.
Qed.

Lemma seg_symbols_main_style sty seg : Forall (style_name sty) (seg_symbols_main sty seg).
Proof.
  assert (Hp : forall noload, Forall (style_name sty) (part_symbols_main sty seg noload)).
  { intro noload. unfold part_symbols_main. apply Forall_app. split; [constructor; [sn | constructor]|].
    apply Forall_app. split; [|constructor; [sn | constructor; [sn | constructor]]].
    apply Forall_flat_map. intros section _. unfold section_symbols_main. repeat (constructor; [sn|]). constructor. }
  unfold seg_symbols_main. apply Forall_app. split; [constructor; [sn | constructor; [sn | constructor]]|].
  apply Forall_app. split; [apply Hp|]. apply Forall_app. split; [apply Hp|].
  repeat (constructor; [sn|]). constructor.
Qed.

Lemma segs_header_style rt sty segsym segs : forall seen,
  (forall seg, Forall (style_name sty) (segsym seg)) ->
  Forall (style_name sty) (segs_header_symbols rt sty segsym segs seen).
Proof.
  induction segs as [|seg r IH]; intros seen H; [constructor|]. cbn [segs_header_symbols].
  destruct (should_emit rt (sg_conds seg)); [|apply IH; exact H].
  destruct (sg_vram_class seg) as [cn|].
  - destruct (mem_str cn seen).
    + apply Forall_app. split; [apply H | apply IH; exact H].
    + apply Forall_app. split; [constructor; [sn | constructor; [sn | constructor]]|].
      apply Forall_app. split; [apply H | apply IH; exact H].
  - apply Forall_app. split; [apply H | apply IH; exact H].
Qed.

Lemma header_with_style segsym d rt :
  (forall sty seg, Forall (style_name sty) (segsym sty seg)) ->
  Forall (style_name (linker_symbols_style (doc_settings d))) (header_symbols_with segsym d rt).
Proof.
  intro H. unfold header_symbols_with. cbv zeta. apply Forall_app. split.
  - apply segs_header_style. apply H.
  - unfold class_size_symbols. apply Forall_forall. intros x Hx. apply in_map_iff in Hx.
    destruct Hx as [cn [E _]]. subst x. sn.
Qed.

Lemma doc_header_style d rt :
  Forall (style_name (linker_symbols_style (doc_settings d))) (doc_header_symbols d rt).
Proof. apply header_with_style. intros sty seg. apply seg_symbols_style. Qed.

Lemma doc_header_main_style d rt :
  Forall (style_name (linker_symbols_style (doc_settings d))) (doc_header_symbols_main d rt).
Proof. apply header_with_style. intros sty seg. apply seg_symbols_main_style. Qed.

Lemma style_list_not_special sty l :
  Forall (style_name sty) l -> ~ In "_gp" l /\ ~ In "__romPos" l /\ ~ In "." l.
Proof.
  intro H. rewrite Forall_forall in H.
  repeat split; intro Hin; destruct (generated_name_not_special sty _ (H _ Hin)) as [H1 [H2 H3]]; congruence.
Qed.

Lemma doc_header_not_special d rt :
  ~ In "_gp" (doc_header_symbols d rt) /\ ~ In "__romPos" (doc_header_symbols d rt) /\
  ~ In "." (doc_header_symbols d rt).
Proof. eapply style_list_not_special. apply doc_header_style. Qed.

Lemma document_excludes d rt w :
  gen_normal d rt = Ok w -> single_segment_mode (doc_settings d) = false ->
  ~ In "_gp" (linker_symbols w) /\ ~ In "__romPos" (linker_symbols w) /\ ~ In "." (linker_symbols w) /\
  (forall a, In a (doc_symbol_assignments d) -> In (sa_name a) (linker_symbols w) ->
             In (sa_name a) (doc_header_symbols d rt)) /\
  (forall x, In x (linker_symbols w) -> style_name (linker_symbols_style (doc_settings d)) x).
Proof.
  intros Hg Hm. destruct (doc_header_not_special d rt) as [H1 [H2 H3]].
  pose proof (fun x => document_declared_iff d rt w x Hg Hm) as Hiff.
  split; [rewrite Hiff; exact H1|]. split; [rewrite Hiff; exact H2|]. split; [rewrite Hiff; exact H3|].
  split.
  - intros a _ Hin. apply Hiff. exact Hin.
  - intros x Hin. apply Hiff in Hin. pose proof (doc_header_style d rt) as Hs. rewrite Forall_forall in Hs.
    apply Hs. exact Hin.
Qed.

(* ====================================================================== *)
(* 9. against doc_named_symbols (Spec/DocWf.v)                             *)
(* ====================================================================== *)

Lemma segs_header_cnt x rt sty segsym segs : forall seen,
  cnt x (segs_header_symbols rt sty segsym segs seen) =
  cnt x (flat_map (class_pair sty) (first_uses (used_classes rt segs) seen)) +
  cnt x (flat_map segsym (included rt segs)).
Proof.
  induction segs as [|seg r IH]; intro seen; [reflexivity|].
  cbn [segs_header_symbols]. rewrite used_classes_cons, included_cons.
  destruct (should_emit rt (sg_conds seg)); [|cbn [app]; apply IH].
  destruct (sg_vram_class seg) as [cn|]; cbn [app first_uses flat_map].
  - destruct (mem_str cn seen).
    + rewrite !cnt_app, IH. lia.
    + cbn [flat_map]. rewrite !cnt_cons, !cnt_app, IH. unfold class_pair. cbn [cnt]. lia.
  - rewrite !cnt_app, IH. lia.
Qed.

(* the named symbols of DocWf are "__romPos", the header symbols and the user's assignments *)
Lemma named_symbols_split d rt x :
  count_occ string_dec (doc_named_symbols d rt) x =
  (if String.eqb "__romPos" x then 1 else 0) + count_occ string_dec (doc_header_symbols d rt) x +
  count_occ string_dec (user_symbols rt (doc_symbol_assignments d)) x.
Proof.
  rewrite <- !cnt_count_occ. unfold doc_named_symbols, doc_header_symbols, header_symbols_with. cbv zeta.
  rewrite cnt_cons, !cnt_app, segs_header_cnt. unfold class_symbols.
  change (flat_map (fun cn => [vram_class_start (linker_symbols_style (doc_settings d)) cn;
                               vram_class_end (linker_symbols_style (doc_settings d)) cn]))
    with (flat_map (class_pair (linker_symbols_style (doc_settings d)))). lia.
Qed.

Lemma nodup_of_cnt l : (forall x, cnt x l <= 1) -> nodup_str l = true.
Proof.
  induction l as [|y r IH]; intro H; [reflexivity|]. cbn [nodup_str]. apply andb_true_iff. split.
  - apply negb_true_iff. destruct (mem_str y r) eqn:E; [|reflexivity]. apply mem_str_in in E.
    apply cnt_in in E. specialize (H y). cbn [cnt] in H. rewrite String.eqb_refl in H. lia.
  - apply IH. intro x. specialize (H x). cbn [cnt] in H. lia.
Qed.

Lemma header_nodup_of_named d rt :
  nodup_str (doc_named_symbols d rt) = true -> nodup_str (doc_header_symbols d rt) = true.
Proof.
  intro H. apply nodup_of_cnt. intro x. pose proof (nodup_cnt _ H x) as Hle.
  pose proof (named_symbols_split d rt x) as Hs. rewrite <- !cnt_count_occ in Hs. lia.
Qed.

Lemma header_nodup_of_distinct d rt :
  doc_names_distinct d rt = true -> nodup_str (doc_header_symbols d rt) = true.
Proof.
  intro Hd. unfold doc_names_distinct in Hd.
  repeat (apply andb_true_iff in Hd; destruct Hd as [Hd ?H]).
  apply header_nodup_of_named. assumption.
Qed.

(* ====================================================================== *)
(* 10. the main script of partial linking                                  *)
(* ====================================================================== *)

Lemma segs_header_clone rt sty f g folder segs : forall seen,
  (forall seg, f (partial_clone folder seg) = g seg) ->
  segs_header_symbols rt sty f (map (partial_clone folder) segs) seen = segs_header_symbols rt sty g segs seen.
Proof.
  induction segs as [|seg r IH]; intros seen H; [reflexivity|]. cbn [map segs_header_symbols].
  change (sg_conds (partial_clone folder seg)) with (sg_conds seg).
  change (sg_vram_class (partial_clone folder seg)) with (sg_vram_class seg).
  rewrite H. destruct (should_emit rt (sg_conds seg)); [|apply IH; exact H].
  destruct (sg_vram_class seg) as [cn|]; [destruct (mem_str cn seen)|]; rewrite (IH _ H); reflexivity.
Qed.

Lemma main_segment_rec rt st classes seg p ws s ws' :
  add_segment rt st cfg_main_partial classes (clone_with_new_files seg [new_object p]) ws = Ok (s, ws') ->
  should_emit rt (sg_conds seg) = true ->
  exists cls ws1 rest,
    class_part st classes (clone_with_new_files seg [new_object p]) ws = Ok (cls, ws1) /\ s = cls ++ rest /\
    ws_emitted ws' = ws_emitted ws1 /\
    recorded_syms rest = seg_symbols_main (linker_symbols_style st) seg.
Proof.
  intros H Hc.
  exact (add_segment_rec rt st cfg_main_partial (clone_with_new_files seg [new_object p]) true true eq_refl eq_refl
           (fun _ _ => [])
           (fun sections section w t w' Hcall =>
              emit_section_clone_rec rt (linker_symbols_style st) cfg_main_partial seg p sections _ section
                                     w t w' eq_refl Hcall)
           classes ws s ws' H Hc).
Qed.

Lemma main_recorded d rt p :
  gen_partial d rt = Ok p ->
  recorded_syms (wo_script (po_main p)) = doc_header_symbols_main d rt.
Proof.
  intro Hp. apply partial_main_shape in Hp.
  destruct Hp as [folder [body [ws' [subs [Hf [_ [E Hw]]]]]]]. rewrite Hw, script_rec.
  set (sty := linker_symbols_style (doc_settings d)).
  destruct (fold_rec rt (doc_settings d) cfg_main_partial (doc_vram_classes d)
              (fun c => seg_symbols_main sty c) (map (partial_clone folder) (doc_segments d))) with
    (ws := ws0) (body := body) (ws' := ws') as [R M].
  - intros c w t w' Hin Hc Hcall. apply in_map_iff in Hin. destruct Hin as [seg [Ec _]]. subst c.
    exact (main_segment_rec rt _ _ seg _ w t w' Hcall Hc).
  - exact E.
  - rewrite R, (end_sections_rec _ _ _ (used_classes rt (doc_segments d))).
    + unfold doc_header_symbols_main, header_symbols_with. cbv zeta. fold sty. f_equal.
      apply segs_header_clone. intro seg. reflexivity.
    + intro cn. rewrite M, used_classes_clone. cbn [ws0 ws_emitted mem_str]. apply orb_false_r.
Qed.

(* the same list, read as the header symbols of the document of the clones *)
Lemma seg_symbols_of_clone rt sty seg p :
  seg_symbols rt sty (clone_with_new_files seg [new_object p]) = seg_symbols_main sty seg.
Proof.
  assert (Hp : forall noload,
             part_symbols rt sty (clone_with_new_files seg [new_object p]) noload = part_symbols_main sty seg noload).
  { intro noload. unfold part_symbols, part_symbols_main. cbv zeta.
    change (kind_name (clone_with_new_files seg [new_object p]) noload) with (kind_name seg noload).
    change (noload_sections (clone_with_new_files seg [new_object p])) with (noload_sections seg).
    change (alloc_sections (clone_with_new_files seg [new_object p])) with (alloc_sections seg).
    f_equal. f_equal. apply flat_map_ext. intro section. unfold section_symbols, section_symbols_main.
    rewrite section_offsets_clone. reflexivity. }
  unfold seg_symbols, seg_symbols_main. rewrite !Hp. reflexivity.
Qed.

Lemma header_of_clones d rt folder :
  doc_header_symbols (partial_doc d folder) rt = doc_header_symbols_main d rt.
Proof.
  unfold doc_header_symbols, doc_header_symbols_main, header_symbols_with. cbv zeta.
  cbn [doc_settings doc_vram_classes doc_segments partial_doc]. rewrite used_classes_clone. f_equal.
  apply segs_header_clone. intro seg. apply seg_symbols_of_clone.
Qed.

(* the ordinary list is the main list plus the linker offsets (as multisets) *)
Lemma seg_symbols_main_cnt x rt sty seg :
  cnt x (seg_symbols rt sty seg) = cnt x (seg_symbols_main sty seg) + cnt x (seg_offsets rt sty seg).
Proof.
  rewrite (seg_symbols_clone x rt sty seg ""), seg_symbols_of_clone. reflexivity.
Qed.

Lemma header_main_offsets d rt x :
  count_occ string_dec (doc_header_symbols d rt) x =
  count_occ string_dec (doc_header_symbols_main d rt) x + count_occ string_dec (doc_offsets d rt) x.
Proof.
  rewrite <- !cnt_count_occ. unfold doc_header_symbols, doc_header_symbols_main, header_symbols_with, doc_offsets.
  cbv zeta. rewrite !cnt_app, !segs_header_cnt.
  rewrite (cnt_flat_map_add x (seg_symbols rt (linker_symbols_style (doc_settings d)))
             (seg_symbols_main (linker_symbols_style (doc_settings d)))
             (seg_offsets rt (linker_symbols_style (doc_settings d))) _
             (fun seg => seg_symbols_main_cnt x rt _ seg)). lia.
Qed.

Lemma main_header d rt p :
  gen_partial d rt = Ok p ->
  linker_symbols (po_main p) = keep_first String.eqb (doc_header_symbols_main d rt).
Proof. intro Hp. rewrite linker_symbols_recorded, (main_recorded d rt p Hp). reflexivity. Qed.

Lemma main_header_nodup d rt p :
  gen_partial d rt = Ok p -> nodup_str (doc_header_symbols_main d rt) = true ->
  linker_symbols (po_main p) = doc_header_symbols_main d rt.
Proof. intros Hp Hn. rewrite (main_header d rt p Hp). apply keep_first_nodup_id. exact Hn. Qed.

Lemma main_nodup_of_ordinary d rt :
  nodup_str (doc_header_symbols d rt) = true -> nodup_str (doc_header_symbols_main d rt) = true.
Proof.
  intro H. apply nodup_of_cnt. intro x. pose proof (nodup_cnt _ H x) as Hle.
  pose proof (header_main_offsets d rt x) as Hs. rewrite <- !cnt_count_occ in Hs. lia.
Qed.

(* ====================================================================== *)
(* 11. add_single_segment: single-segment mode and the sub-scripts         *)
(* ====================================================================== *)

Lemma single_groups_emitted rt st cfg seg sections noload rest : forall ws s ws',
  single_groups rt st cfg seg sections noload rest ws = Ok (s, ws') -> ws_emitted ws' = ws_emitted ws.
Proof.
  induction rest as [|section rest IH]; intros ws s ws' H.
  - apply ok_inj in H. inversion H; subst. reflexivity.
  - apply single_groups_cons in H. destruct H as [s1 [ws1 [s2 [E1 [E2 E]]]]].
    rewrite (IH _ _ _ E2).
    eapply (emitter_emitted (linker_symbols_style st) (wildcard_sections seg) (offs_of_segment rt seg));
      [apply emit_section_emitter | exact E1].
Qed.

Lemma write_single_segment_emitted rt st cfg seg sections noload ws s ws' :
  write_single_segment rt st cfg seg sections noload ws = Ok (s, ws') -> ws_emitted ws' = ws_emitted ws.
Proof.
  intro H. apply write_single_segment_inv in H. destruct H as [body [E _]].
  eapply single_groups_emitted; eassumption.
Qed.

Section Single.
  Variables (rt : runtime) (st : settings) (cfg : wcfg) (seg : segment).
  Let sty := linker_symbols_style st.
  Variables (ks ss : bool).
  Hypothesis Hks : kind_syms cfg = ks.
  Hypothesis Hss : section_syms cfg = ss.
  Variable offs : list string -> string -> list string.
  Hypothesis Hoffs : forall sections section ws s ws',
    emit_section rt sty cfg seg sections (base_path st) section ws = Ok (s, ws') ->
    recorded_syms s = offs sections section.
  Variable classes : list vram_class.

  Lemma add_single_segment_rec ws s ws' :
    add_single_segment rt st cfg classes seg ws = Ok (s, ws') -> ws_emitted ws = [] ->
    recorded_syms s = part_syms st seg ks ss offs false (alloc_sections seg) ++
                      part_syms st seg ks ss offs true (noload_sections seg).
  Proof.
    intros H Hem. apply add_single_segment_inv in H. destruct H as [s1 [ws1 [s2 [E1 [E2 E]]]]]. subst s.
    rewrite recorded_sections, !recorded_app, not_recorded_single_head.
    rewrite (write_single_segment_rec rt st cfg seg ks ss Hks Hss offs Hoffs _ _ _ _ _ E1),
      (write_single_segment_rec rt st cfg seg ks ss Hks Hss offs Hoffs _ _ _ _ _ E2).
    rewrite (end_sections_rec st classes ws' []).
    - rewrite class_size_symbols_none. cbn [recorded_syms flat_map stmt_recorded app]. rewrite app_nil_r. reflexivity.
    - intro cn. rewrite (write_single_segment_emitted _ _ _ _ _ _ _ _ _ E2),
        (write_single_segment_emitted _ _ _ _ _ _ _ _ _ E1), Hem. reflexivity.
  Qed.
End Single.

Lemma single_recorded d rt w :
  gen_normal d rt = Ok w -> single_segment_mode (doc_settings d) = true ->
  recorded_syms (wo_script w) = doc_header_symbols_single d rt.
Proof.
  intros Hg Hm. apply gen_normal_inv in Hg. destruct Hg as [s [ws' [E Hw]]].
  apply add_all_segments_inv in E. destruct E as [[_ [seg [Es E]]] | [Hs _]]; [|congruence]. subst w.
  cbn [wo_script]. rewrite !recorded_app, not_recorded_version, not_recorded_tail, app_nil_r. cbn [app].
  unfold doc_header_symbols_single. rewrite Es.
  exact (add_single_segment_rec rt (doc_settings d) cfg_normal seg true true eq_refl eq_refl
           (section_offsets rt (linker_symbols_style (doc_settings d)) seg)
           (fun sections section w t w' Hcall =>
              emit_section_rec rt (linker_symbols_style (doc_settings d)) cfg_normal seg sections eq_refl
                               _ _ _ _ _ Hcall)
           (doc_vram_classes d) ws0 s ws' E eq_refl).
Qed.

Lemma single_header d rt w :
  gen_normal d rt = Ok w -> single_segment_mode (doc_settings d) = true ->
  linker_symbols w = keep_first String.eqb (doc_header_symbols_single d rt).
Proof. intros Hg Hm. rewrite linker_symbols_recorded, (single_recorded d rt w Hg Hm). reflexivity. Qed.

Lemma doc_header_single_style d rt :
  Forall (style_name (linker_symbols_style (doc_settings d))) (doc_header_symbols_single d rt).
Proof.
  unfold doc_header_symbols_single. destruct (doc_segments d) as [|seg [|s2 r]]; [constructor| |constructor].
  pose proof (seg_symbols_style rt (linker_symbols_style (doc_settings d)) seg) as H. unfold seg_symbols in H.
  apply Forall_app in H. destruct H as [_ H]. apply Forall_app in H. destruct H as [H1 H].
  apply Forall_app in H. destruct H as [H2 _]. apply Forall_app. split; assumption.
Qed.

(* a per-segment script of partial linking records the linker offsets of its segment only *)
Lemma sub_segment_rec rt st classes seg s ws' :
  add_single_segment rt st cfg_sub_partial classes seg ws0 = Ok (s, ws') ->
  recorded_syms s = seg_offsets rt (linker_symbols_style st) seg.
Proof.
  intro H.
  rewrite (add_single_segment_rec rt st cfg_sub_partial seg false false eq_refl eq_refl
             (section_offsets rt (linker_symbols_style st) seg)
             (fun sections section w t w' Hcall =>
                emit_section_rec rt (linker_symbols_style st) cfg_sub_partial seg sections eq_refl _ _ _ _ _ Hcall)
             classes ws0 s ws' H eq_refl).
  unfold seg_offsets, part_syms, sec_syms. cbn [app]. rewrite !app_nil_r.
  f_equal; apply flat_map_ext; intro section; apply app_nil_r.
Qed.

Lemma sub_recorded d rt p name w :
  gen_partial d rt = Ok p -> In (name, w) (po_subs p) ->
  exists seg, In seg (doc_segments d) /\ should_emit rt (sg_conds seg) = true /\ name = sg_name seg /\
              recorded_syms (wo_script w) = sub_header_symbols d rt seg.
Proof.
  intros Hp Hin. pose proof (subs_are_single_scripts d rt p Hp) as Hs. rewrite Forall_forall in Hs.
  destruct (Hs _ Hin) as [seg [stmts [wsub [Hseg [Hc [Hn [Ha Hw]]]]]]]. cbn [fst snd] in Hn, Hw.
  exists seg. split; [exact Hseg|]. split; [exact Hc|]. split; [exact Hn|]. subst w. cbn [wo_script].
  rewrite recorded_app, not_recorded_version. cbn [app]. unfold sub_header_symbols.
  eapply sub_segment_rec. exact Ha.
Qed.
