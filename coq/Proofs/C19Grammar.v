(* C19Grammar: lemmas.
   Part 1 (text): a script that is well-formed at AST level renders to lines that the text-level reader
   accepts.  Part 2 (generation): the scripts generated from a document whose names are valid are
   well-formed at AST level. *)
From Slinky Require Import Model.Types Model.Generated Model.Runtime Model.Style Model.Script Model.Writer.
From Slinky Require Import Spec.C14 Proofs.C14 Spec.C19 Proofs.C19 Spec.C19Grammar.
From Coq Require Import Lia.
Local Open Scope string_scope.

(* ====================================================================== *)
(* A. characters                                                           *)
(* ====================================================================== *)

Ltac char_cases c :=
  destruct c as [b0 b1 b2 b3 b4 b5 b6 b7];
  destruct b0, b1, b2, b3, b4, b5, b6, b7.

(* [P c = true -> Q c = true] by enumeration of the 256 characters *)
Ltac char_incl :=
  let c := fresh "c" in let H := fresh "H" in
  intros c H; char_cases c; first [reflexivity | vm_compute in H; discriminate H].

(* a character of a name: a word character that is neither '/' nor '*' *)
Definition quiet_char (c : ascii) : bool :=
  word_char c && negb (Ascii.eqb c "/"%char) && negb (Ascii.eqb c "*"%char).

(* raw, and neither '/' nor '*' nor '=' *)
Definition calm_char (c : ascii) : bool :=
  raw_char c && negb (Ascii.eqb c "/"%char) && negb (Ascii.eqb c "*"%char) && negb (Ascii.eqb c "="%char).

Definition noeq_char (c : ascii) : bool := negb (Ascii.eqb c "="%char).
Definition nonparen_char (c : ascii) : bool := negb (Ascii.eqb c "("%char || Ascii.eqb c ")"%char).
Definition msg_char (c : ascii) : bool := negb (is_quote c || is_nl c).

Lemma ident_sect : forall c, ident_char c = true -> sect_char c = true.
Proof. intros c H. unfold sect_char. rewrite H. reflexivity. Qed.
Lemma sect_glob : forall c, sect_char c = true -> glob_char c = true.
Proof. intros c H. unfold glob_char. rewrite H. reflexivity. Qed.
Lemma ident_path : forall c, ident_char c = true -> path_char c = true.
Proof. intros c H. unfold path_char. rewrite H. reflexivity. Qed.
Lemma path_file : forall c, path_char c = true -> file_char c = true.
Proof. intros c H. unfold file_char. rewrite H. reflexivity. Qed.
Lemma digit_hex : forall c, is_digit c = true -> hex_char c = true.
Proof. intros c H. unfold hex_char. rewrite H. reflexivity. Qed.

Lemma hex_ident : forall c, hex_char c = true -> ident_char c = true.
Proof. char_incl. Qed.
Lemma ident_quiet : forall c, ident_char c = true -> quiet_char c = true.
Proof. char_incl. Qed.
Lemma sect_quiet : forall c, sect_char c = true -> quiet_char c = true.
Proof. char_incl. Qed.
Lemma glob_word : forall c, glob_char c = true -> word_char c = true.
Proof. char_incl. Qed.
Lemma file_word : forall c, file_char c = true -> word_char c = true.
Proof. char_incl. Qed.
Lemma quiet_word : forall c, quiet_char c = true -> word_char c = true.
Proof. char_incl. Qed.
Lemma quiet_calm : forall c, quiet_char c = true -> calm_char c = true.
Proof. char_incl. Qed.
Lemma quiet_nonparen : forall c, quiet_char c = true -> nonparen_char c = true.
Proof. char_incl. Qed.
Lemma quiet_msg : forall c, quiet_char c = true -> msg_char c = true.
Proof. char_incl. Qed.
Lemma quiet_visible : forall c, quiet_char c = true -> is_blank c = false.
Proof. intros c H. char_cases c; first [reflexivity | vm_compute in H; discriminate H]. Qed.
Lemma calm_raw : forall c, calm_char c = true -> raw_char c = true.
Proof. char_incl. Qed.
Lemma calm_noeq : forall c, calm_char c = true -> noeq_char c = true.
Proof. char_incl. Qed.
Lemma upper_ident : forall c, ident_char c = true -> ident_char (upper_ascii c) = true.
Proof. char_incl. Qed.
Lemma upper_nondigit : forall c, ident_char c = true -> is_digit c = false -> is_digit (upper_ascii c) = false.
Proof.
  intros c H D. char_cases c; first [reflexivity | vm_compute in H; discriminate H | vm_compute in D; discriminate D].
Qed.

Lemma word_char_inv c :
  word_char c = true -> is_quote c = false /\ is_nl c = false /\ is_blank c = false /\ is_punct c = false.
Proof.
  unfold word_char. destruct (is_blank c), (is_nl c), (is_quote c), (is_punct c); cbn; intro H;
    try discriminate H; auto.
Qed.

Lemma raw_char_inv c : raw_char c = true -> is_quote c = false /\ is_nl c = false.
Proof.
  unfold raw_char. destruct (is_quote c), (is_nl c); rewrite ?orb_true_r; cbn; intro H;
    try discriminate H; auto.
Qed.

(* ====================================================================== *)
(* B. strings                                                              *)
(* ====================================================================== *)

Lemma app_empty_r (s : string) : s ++ "" = s.
Proof. induction s as [|c s IH]; [reflexivity|]. cbn [append]. rewrite IH. reflexivity. Qed.

Lemma app_assoc_s (a b c : string) : (a ++ b) ++ c = a ++ (b ++ c).
Proof. induction a as [|x a IH]; [reflexivity|]. cbn [append]. rewrite IH. reflexivity. Qed.

Lemma str_all_app P a b : str_all P (a ++ b) = str_all P a && str_all P b.
Proof. induction a as [|c a IH]; [reflexivity|]. cbn [append str_all]. rewrite IH, andb_assoc. reflexivity. Qed.

Lemma str_all_impl (P Q : ascii -> bool) s :
  (forall c, P c = true -> Q c = true) -> str_all P s = true -> str_all Q s = true.
Proof.
  intro H. induction s as [|c s IH]; [reflexivity|]. cbn [str_all]. intro Hs.
  apply andb_true_iff in Hs. destruct Hs as [Hc Hs]. rewrite (H c Hc), (IH Hs). reflexivity.
Qed.

Lemma name_of_all P s : name_of P s = true -> str_all P s = true.
Proof.
  destruct s as [|c s]; [discriminate|]. cbn [name_of str_all]. intro H.
  apply andb_true_iff in H. destruct H as [H Hs]. apply andb_true_iff in H. destruct H as [Hc _].
  rewrite Hc, Hs. reflexivity.
Qed.

Lemma name_of_impl (P Q : ascii -> bool) s :
  (forall c, P c = true -> Q c = true) -> name_of P s = true -> name_of Q s = true.
Proof.
  intro H. destruct s as [|c s]; [discriminate|]. cbn [name_of]. intro Hs.
  apply andb_true_iff in Hs. destruct Hs as [Hs Hr]. apply andb_true_iff in Hs. destruct Hs as [Hc Hd].
  rewrite (H c Hc), Hd, (str_all_impl P Q s H Hr). reflexivity.
Qed.

Lemma name_of_nonempty P s : name_of P s = true -> is_empty s = false.
Proof. destruct s; [discriminate | reflexivity]. Qed.

Lemma is_symbol_ident s : is_symbol s = true -> is_ident s = true.
Proof. unfold is_symbol. intro H. apply andb_true_iff in H. apply H. Qed.

Lemma is_symbol_all s : is_symbol s = true -> str_all ident_char s = true.
Proof. intro H. apply name_of_all. apply is_symbol_ident. exact H. Qed.

Lemma is_symbol_secpat s : is_symbol s = true -> is_secpat s = true.
Proof.
  unfold is_symbol, is_secpat, is_ident. intro H. apply andb_true_iff in H. destruct H as [H D].
  rewrite (name_of_impl _ _ _ ident_sect H), D. reflexivity.
Qed.

Lemma is_secpat_all s : is_secpat s = true -> str_all sect_char s = true.
Proof. unfold is_secpat. intro H. apply andb_true_iff in H. apply name_of_all. apply H. Qed.

Lemma is_secpat_quiet s : is_secpat s = true -> str_all quiet_char s = true.
Proof. intro H. eapply str_all_impl; [exact sect_quiet | apply is_secpat_all; exact H]. Qed.

Lemma is_symbol_quiet s : is_symbol s = true -> str_all quiet_char s = true.
Proof. intro H. eapply str_all_impl; [exact ident_quiet | apply is_symbol_all; exact H]. Qed.

Lemma is_secpat_nonempty s : is_secpat s = true -> is_empty s = false.
Proof. unfold is_secpat. intro H. apply andb_true_iff in H. eapply name_of_nonempty. apply H. Qed.

Lemma is_symbol_nonempty s : is_symbol s = true -> is_empty s = false.
Proof. intro H. apply is_secpat_nonempty. apply is_symbol_secpat. exact H. Qed.

Lemma is_secpat_glob s : is_secpat s = true -> is_glob s = true.
Proof.
  unfold is_secpat, is_glob. intro H. apply andb_true_iff in H. destruct H as [H _].
  exact (name_of_impl _ _ _ sect_glob H).
Qed.

Lemma name_of_app_r P s t : name_of P s = true -> str_all P t = true -> name_of P (s ++ t) = true.
Proof.
  destruct s as [|c s]; [discriminate|]. cbn [name_of append]. intros H Ht.
  apply andb_true_iff in H. destruct H as [H Hs]. rewrite H, str_all_app, Hs, Ht. reflexivity.
Qed.

Lemma is_secpat_glob_star s : is_secpat s = true -> is_glob (s ++ "*") = true.
Proof. intro H. apply name_of_app_r; [apply is_secpat_glob; exact H | reflexivity]. Qed.

(* ---------- numbers ---------- *)

Lemma hex_digit_hex n : hex_char (hex_digit n) = true.
Proof.
  destruct n as [|p]; [reflexivity|].
  do 4 (try (destruct p as [p|p|]; try reflexivity)); destruct p; reflexivity.
Qed.

Lemma hex_fuel_all fuel : forall n acc,
  str_all hex_char acc = true -> str_all hex_char (hex_fuel fuel n acc) = true.
Proof.
  induction fuel as [|f IH]; intros n acc H; [exact H|]. cbn [hex_fuel].
  destruct (N.eqb n 0); [exact H|]. apply IH. cbn [str_all]. rewrite hex_digit_hex, H. reflexivity.
Qed.

Lemma hex_fuel_nonempty fuel : forall n acc,
  is_empty acc = false -> is_empty (hex_fuel fuel n acc) = false.
Proof.
  induction fuel as [|f IH]; intros n acc H; [exact H|]. cbn [hex_fuel].
  destruct (N.eqb n 0); [exact H|]. apply IH. reflexivity.
Qed.

Lemma hex_of_N_all n : str_all hex_char (hex_of_N n) = true.
Proof. unfold hex_of_N. destruct (N.eqb n 0); [reflexivity|]. apply hex_fuel_all. reflexivity. Qed.

Lemma hex_of_N_nonempty n : is_empty (hex_of_N n) = false.
Proof.
  unfold hex_of_N. destruct (N.eqb n 0) eqn:E; [reflexivity|]. cbn [hex_fuel]. rewrite E.
  apply hex_fuel_nonempty. reflexivity.
Qed.

Lemma repeat_char_all P c n : P c = true -> str_all P (repeat_char c n) = true.
Proof. intro H. induction n as [|n IH]; [reflexivity|]. cbn [repeat_char str_all]. rewrite H, IH. reflexivity. Qed.

Lemma is_empty_app_r a b : is_empty b = false -> is_empty (a ++ b) = false.
Proof. intro H. destruct a; [exact H | reflexivity]. Qed.

Lemma is_empty_app_l a b : is_empty a = false -> is_empty (a ++ b) = false.
Proof. intro H. destruct a; [discriminate H | reflexivity]. Qed.

Lemma hex8_of_N_all n : str_all hex_char (hex8_of_N n) = true.
Proof.
  unfold hex8_of_N, pad_left. rewrite str_all_app, hex_of_N_all, repeat_char_all; reflexivity.
Qed.

Lemma hex8_of_N_nonempty n : is_empty (hex8_of_N n) = false.
Proof. unfold hex8_of_N, pad_left. apply is_empty_app_r. apply hex_of_N_nonempty. Qed.

Lemma is_hexnum_0x r : is_empty r = false -> str_all hex_char r = true -> is_hexnum ("0x" ++ r) = true.
Proof. intros E H. cbn. rewrite E, H. reflexivity. Qed.

Lemma dec_digit_digit n : is_digit (dec_digit n) = true.
Proof.
  destruct n as [|p]; [reflexivity|].
  do 4 (try (destruct p as [p|p|]; try reflexivity)).
Qed.

Lemma dec_fuel_all fuel : forall n acc,
  str_all is_digit acc = true -> str_all is_digit (dec_fuel fuel n acc) = true.
Proof.
  induction fuel as [|f IH]; intros n acc H; [exact H|]. cbn [dec_fuel].
  destruct (N.eqb n 0); [exact H|]. apply IH. cbn [str_all]. rewrite dec_digit_digit, H. reflexivity.
Qed.

Lemma dec_fuel_nonempty fuel : forall n acc,
  is_empty acc = false -> is_empty (dec_fuel fuel n acc) = false.
Proof.
  induction fuel as [|f IH]; intros n acc H; [exact H|]. cbn [dec_fuel].
  destruct (N.eqb n 0); [exact H|]. apply IH. reflexivity.
Qed.

Lemma dec_of_N_decnum n : is_decnum (dec_of_N n) = true.
Proof.
  unfold is_decnum, dec_of_N. destruct (N.eqb n 0) eqn:E; [reflexivity|].
  rewrite dec_fuel_all by reflexivity. cbn [dec_fuel]. rewrite E.
  rewrite dec_fuel_nonempty; reflexivity.
Qed.

Lemma hex_quiet s : str_all hex_char s = true -> str_all quiet_char s = true.
Proof.
  intro H. eapply str_all_impl; [exact ident_quiet|]. eapply str_all_impl; [exact hex_ident | exact H].
Qed.

(* ---------- parentheses, comment openers, visibility ---------- *)

Lemma paren_bal_app a : forall d b,
  paren_bal d (a ++ b) = match paren_bal d a with Some d' => paren_bal d' b | None => None end.
Proof.
  induction a as [|c a IH]; intros d b; [reflexivity|]. cbn [append paren_bal].
  destruct (Ascii.eqb c "("); [apply IH|]. destruct (Ascii.eqb c ")"); [|apply IH].
  destruct d; [reflexivity | apply IH].
Qed.

Lemma paren_bal_nonparen s : str_all nonparen_char s = true -> forall d, paren_bal d s = Some d.
Proof.
  induction s as [|c s IH]; intros H d; [reflexivity|]. cbn [str_all] in H.
  apply andb_true_iff in H. destruct H as [Hc Hs]. cbn [paren_bal]. unfold nonparen_char in Hc.
  destruct (Ascii.eqb c "("); [discriminate Hc|]. destruct (Ascii.eqb c ")"); [discriminate Hc|].
  apply IH. exact Hs.
Qed.

Lemma paren_bal_quiet s d : str_all quiet_char s = true -> paren_bal d s = Some d.
Proof. intro H. apply paren_bal_nonparen. eapply str_all_impl; [exact quiet_nonparen | exact H]. Qed.

(* no '/' and no '*' at all: no comment opener *)
Lemma calm_no_comment s : str_all calm_char s = true -> no_comment_open s = true.
Proof.
  induction s as [|c s IH]; [reflexivity|]. cbn [str_all]. intro H.
  apply andb_true_iff in H. destruct H as [Hc Hs]. cbn [no_comment_open].
  destruct s as [|c2 s']; [reflexivity|]. rewrite (IH Hs).
  unfold calm_char in Hc. destruct (Ascii.eqb c "/"); [|reflexivity].
  rewrite andb_false_r in Hc. discriminate Hc.
Qed.

Lemma no_comment_tail c s : no_comment_open (String c s) = true -> no_comment_open s = true.
Proof.
  cbn [no_comment_open]. destruct s as [|c2 s']; [reflexivity|]. intro H.
  apply andb_true_iff in H. apply H.
Qed.

Lemma no_comment_app_r a : forall b, no_comment_open (a ++ b) = true -> no_comment_open b = true.
Proof.
  induction a as [|c a IH]; intros b H; [exact H|]. cbn [append] in H. apply IH.
  eapply no_comment_tail. exact H.
Qed.

Lemma no_comment_app_l a : forall b, no_comment_open (a ++ b) = true -> no_comment_open a = true.
Proof.
  induction a as [|c a IH]; intros b H; [reflexivity|]. cbn [append] in H.
  pose proof (no_comment_tail _ _ H) as Ht. specialize (IH b Ht).
  cbn [no_comment_open]. destruct a as [|c2 a']; [reflexivity|]. rewrite IH.
  cbn [append no_comment_open] in H. apply andb_true_iff in H. destruct H as [H _]. rewrite H. reflexivity.
Qed.

Lemma has_visible_app_l a b : has_visible a = true -> has_visible (a ++ b) = true.
Proof.
  induction a as [|c a IH]; [discriminate|]. cbn [append has_visible]. intro H.
  apply orb_true_iff in H. destruct H as [H|H]; [rewrite H; reflexivity|].
  rewrite (IH H). apply orb_true_r.
Qed.

Lemma has_visible_app_r a b : has_visible b = true -> has_visible (a ++ b) = true.
Proof.
  intro H. induction a as [|c a IH]; [exact H|]. cbn [append has_visible]. rewrite IH. apply orb_true_r.
Qed.

Lemma quiet_has_visible s : is_empty s = false -> str_all quiet_char s = true -> has_visible s = true.
Proof.
  destruct s as [|c s]; [discriminate|]. intros _ H. cbn [str_all] in H.
  apply andb_true_iff in H. destruct H as [Hc _]. cbn [has_visible]. rewrite (quiet_visible c Hc). reflexivity.
Qed.

(* ---------- texts made of fixed pieces and of names ---------- *)

Inductive piece := PL (s : string) | PQ (s : string).

Fixpoint ptext (ps : list piece) : string :=
  match ps with
  | [] => ""
  | PL s :: r => s ++ ptext r
  | PQ s :: r => s ++ ptext r
  end.

(* the fixed pieces alone *)
Fixpoint pskel (ps : list piece) : string :=
  match ps with
  | [] => ""
  | PL s :: r => s ++ pskel r
  | PQ _ :: r => pskel r
  end.

Fixpoint pquiet (ps : list piece) : Prop :=
  match ps with
  | [] => True
  | PL _ :: r => pquiet r
  | PQ s :: r => str_all quiet_char s = true /\ pquiet r
  end.

Lemma ptext_calm ps : pquiet ps -> str_all calm_char (pskel ps) = true -> str_all calm_char (ptext ps) = true.
Proof.
  induction ps as [|[s|s] r IH]; intros Hq Hs; [reflexivity| |].
  - cbn [ptext pskel pquiet] in *. rewrite str_all_app in *. apply andb_true_iff in Hs.
    destruct Hs as [H1 H2]. rewrite H1, (IH Hq H2). reflexivity.
  - cbn [ptext pskel pquiet] in *. destruct Hq as [Hq1 Hq2]. rewrite str_all_app.
    rewrite (str_all_impl _ _ _ quiet_calm Hq1), (IH Hq2 Hs). reflexivity.
Qed.

Lemma ptext_bal ps : pquiet ps -> forall d, paren_bal d (ptext ps) = paren_bal d (pskel ps).
Proof.
  induction ps as [|[s|s] r IH]; intros Hq d; [reflexivity| |].
  - cbn [ptext pskel pquiet] in *. rewrite !paren_bal_app. destruct (paren_bal d s); [apply IH; exact Hq | reflexivity].
  - cbn [ptext pskel pquiet] in *. destruct Hq as [Hq1 Hq2]. rewrite paren_bal_app, (paren_bal_quiet s d Hq1).
    apply IH. exact Hq2.
Qed.

Lemma ptext_visible ps : has_visible (pskel ps) = true -> has_visible (ptext ps) = true.
Proof.
  induction ps as [|[s|s] r IH]; intro H; [exact H| |].
  - cbn [ptext pskel] in *. destruct (has_visible s) eqn:E; [apply has_visible_app_l; exact E|].
    apply has_visible_app_r. apply IH. clear IH. induction s as [|c s IHs]; [exact H|].
    cbn [append has_visible] in *. apply orb_false_iff in E. destruct E as [E1 E2]. rewrite E1 in H.
    cbn [orb] in H. apply IHs; assumption.
  - cbn [ptext pskel] in *. apply has_visible_app_r. apply IH. exact H.
Qed.

Lemma safe_of_calm s :
  has_visible s = true -> str_all calm_char s = true -> paren_bal 0 s = Some 0 -> safe_addr s = true.
Proof.
  intros Hv Hc Hb. unfold safe_addr, safe_text.
  rewrite Hv, (str_all_impl _ _ _ calm_raw Hc), (calm_no_comment s Hc), Hb.
  exact (str_all_impl _ _ _ calm_noeq Hc).
Qed.

(* the fixed pieces are calm, balanced and show something; the other pieces are names *)
Lemma ptext_safe ps :
  pquiet ps -> safe_addr (pskel ps) = true -> str_all calm_char (pskel ps) = true ->
  safe_addr (ptext ps) = true.
Proof.
  intros Hq Hs Hc. unfold safe_addr, safe_text in Hs.
  apply andb_true_iff in Hs. destruct Hs as [Hs _]. apply andb_true_iff in Hs. destruct Hs as [Hs Hb].
  apply andb_true_iff in Hs. destruct Hs as [Hs _]. apply andb_true_iff in Hs. destruct Hs as [Hv _].
  apply safe_of_calm.
  - apply ptext_visible. exact Hv.
  - apply ptext_calm; assumption.
  - rewrite ptext_bal by exact Hq. destruct (paren_bal 0 (pskel ps)) as [[|n]|]; try discriminate Hb. reflexivity.
Qed.

Lemma safe_addr_text s : safe_addr s = true -> safe_text s = true.
Proof. unfold safe_addr. intro H. apply andb_true_iff in H. apply H. Qed.

(* the same text without a trailing [++ ""] *)
Fixpoint ptext' (ps : list piece) : string :=
  match ps with
  | [] => ""
  | [PL s] => s
  | [PQ s] => s
  | PL s :: r => s ++ ptext' r
  | PQ s :: r => s ++ ptext' r
  end.

Lemma ptext'_eq ps : ptext' ps = ptext ps.
Proof.
  induction ps as [|[s|s] r IH]; [reflexivity| |]; cbn [ptext' ptext]; rewrite IH;
    destruct r; try reflexivity; cbn [ptext]; rewrite app_empty_r; reflexivity.
Qed.

Lemma ptext'_safe ps :
  pquiet ps -> safe_addr (pskel ps) = true -> str_all calm_char (pskel ps) = true ->
  safe_addr (ptext' ps) = true.
Proof. rewrite ptext'_eq. apply ptext_safe. Qed.

Ltac ptext_tac ps :=
  match goal with
  | |- safe_addr ?t = true =>
      change (safe_addr (ptext' ps) = true); apply ptext'_safe; [cbn [pquiet]; auto | reflexivity | reflexivity]
  | |- safe_text ?t = true =>
      apply safe_addr_text; change (safe_addr (ptext' ps) = true); apply ptext'_safe;
      [cbn [pquiet]; auto | reflexivity | reflexivity]
  end.

Lemma safe_symbol s : is_symbol s = true -> safe_addr s = true.
Proof.
  intro H. pose proof (is_symbol_quiet s H) as Hq. apply safe_of_calm.
  - apply quiet_has_visible; [apply is_symbol_nonempty; exact H | exact Hq].
  - eapply str_all_impl; [exact quiet_calm | exact Hq].
  - apply paren_bal_quiet. exact Hq.
Qed.

Lemma safe_hex8 n : safe_addr ("0x" ++ hex8_of_N n) = true.
Proof. ptext_tac [PL "0x"; PQ (hex8_of_N n)]. split; [apply hex_quiet, hex8_of_N_all | exact I]. Qed.

Lemma safe_hex n : safe_addr ("0x" ++ hex_of_N n) = true.
Proof. ptext_tac [PL "0x"; PQ (hex_of_N n)]. split; [apply hex_quiet, hex_of_N_all | exact I]. Qed.

Lemma safe_addr_of sec : is_secpat sec = true -> safe_addr ("ADDR(" ++ sec ++ ")") = true.
Proof. intro H. ptext_tac [PL "ADDR("; PQ sec; PL ")"]. split; [apply is_secpat_quiet; exact H | exact I]. Qed.

Lemma safe_sizeof sec : is_secpat sec = true -> safe_addr ("SIZEOF(" ++ sec ++ ")") = true.
Proof. intro H. ptext_tac [PL "SIZEOF("; PQ sec; PL ")"]. split; [apply is_secpat_quiet; exact H | exact I]. Qed.

Lemma safe_abssub a b :
  is_symbol a = true -> is_symbol b = true -> safe_addr ("ABSOLUTE(" ++ a ++ " - " ++ b ++ ")") = true.
Proof.
  intros Ha Hb. ptext_tac [PL "ABSOLUTE("; PQ a; PL " - "; PQ b; PL ")"].
  repeat split; apply is_symbol_quiet; assumption.
Qed.

Lemma safe_sub a b : is_symbol a = true -> is_symbol b = true -> safe_addr (a ++ " - " ++ b) = true.
Proof.
  intros Ha Hb. ptext_tac [PQ a; PL " - "; PQ b].
  repeat split; apply is_symbol_quiet; assumption.
Qed.

Lemma safe_dotplus off : safe_addr (". + 0x" ++ hex_of_i32 off) = true.
Proof. ptext_tac [PL ". + 0x"; PQ (hex_of_i32 off)]. split; [apply hex_quiet, hex_of_N_all | exact I]. Qed.

Lemma quiet_dot_or_symbol lv s : is_lhs_at lv s = true -> str_all quiet_char s = true.
Proof.
  unfold is_lhs_at. intro H. apply orb_true_iff in H. destruct H as [H|H]; [apply is_symbol_quiet; exact H|].
  apply andb_true_iff in H. destruct H as [H _]. unfold is_dot in H. apply String.eqb_eq in H. subst s. reflexivity.
Qed.

Lemma safe_align lv sym n :
  is_lhs_at lv sym = true -> safe_addr ("ALIGN(" ++ sym ++ ", 0x" ++ hex_of_N n ++ ")") = true.
Proof.
  intro H. ptext_tac [PL "ALIGN("; PQ sym; PL ", 0x"; PQ (hex_of_N n); PL ")"].
  repeat split; [eapply quiet_dot_or_symbol; exact H | apply hex_quiet, hex_of_N_all].
Qed.

Lemma safe_max sym other :
  is_symbol sym = true -> is_symbol other = true -> safe_addr ("MAX(" ++ sym ++ ", " ++ other ++ ")") = true.
Proof.
  intros Ha Hb. ptext_tac [PL "MAX("; PQ sym; PL ", "; PQ other; PL ")"].
  repeat split; apply is_symbol_quiet; assumption.
Qed.

Lemma safe_defined n : is_symbol n = true -> safe_text ("DEFINED(" ++ n ++ ")") = true.
Proof. intro H. ptext_tac [PL "DEFINED("; PQ n; PL ")"]. split; [apply is_symbol_quiet; exact H | exact I]. Qed.

Lemma wf_expr_safe e : wf_expr e = true -> safe_text (render_expr e) = true.
Proof.
  destruct e as [n|s|s| |sec|a b|a b|off]; cbn [wf_expr render_expr]; intro H.
  - apply safe_addr_text, safe_hex8.
  - exact H.
  - apply safe_addr_text, safe_symbol. exact H.
  - reflexivity.
  - apply safe_addr_text, safe_addr_of. exact H.
  - apply andb_true_iff in H. destruct H. apply safe_addr_text, safe_abssub; assumption.
  - apply andb_true_iff in H. destruct H. apply safe_addr_text, safe_sub; assumption.
  - apply safe_addr_text, safe_dotplus.
Qed.

Lemma wf_addr_safe e : wf_addr e = true -> safe_addr (render_expr e) = true.
Proof.
  destruct e as [n|s|s| |sec|a b|a b|off]; cbn [wf_addr wf_expr render_expr]; intro H.
  - apply safe_hex8.
  - exact H.
  - apply safe_symbol. exact H.
  - reflexivity.
  - apply safe_addr_of. exact H.
  - apply andb_true_iff in H. destruct H. apply safe_abssub; assumption.
  - apply andb_true_iff in H. destruct H. apply safe_sub; assumption.
  - apply safe_dotplus.
Qed.

(* ====================================================================== *)
(* C. the tokenizer                                                        *)
(* ====================================================================== *)

Lemma flush_nonempty cur : is_empty cur = false -> flush cur = [TW cur].
Proof. destruct cur; [discriminate | reflexivity]. Qed.

Lemma tok_word w : forall cur s,
  str_all word_char w = true -> tok (InWord cur) (w ++ s) = tok (InWord (cur ++ w)) s.
Proof.
  induction w as [|c w IH]; intros cur s H.
  - rewrite app_empty_r. reflexivity.
  - cbn [str_all] in H. apply andb_true_iff in H. destruct H as [Hc Hw].
    destruct (word_char_inv c Hc) as (Q & N & B & P).
    cbn [append tok]. rewrite Q, N, B, P. rewrite IH by exact Hw. rewrite app_assoc_s. reflexivity.
Qed.

Lemma tok_word0 w s : str_all word_char w = true -> tok (InWord "") (w ++ s) = tok (InWord w) s.
Proof. intro H. rewrite tok_word by exact H. reflexivity. Qed.

Lemma tok_indent n s : tok (InWord "") (indent_str n ++ s) = tok (InWord "") s.
Proof.
  induction n as [|n IH]; [reflexivity|]. cbn [indent_str]. rewrite app_assoc_s.
  change (tok (InWord "") ("    " ++ indent_str n ++ s)) with (tok (InWord "") (indent_str n ++ s)). exact IH.
Qed.

Lemma strip_sp_indent n s : strip_sp (indent_str n ++ s) = strip_sp s.
Proof.
  induction n as [|n IH]; [reflexivity|]. cbn [indent_str]. rewrite app_assoc_s.
  change (strip_sp ("    " ++ indent_str n ++ s)) with (strip_sp (indent_str n ++ s)). exact IH.
Qed.

(* a character that ends a word without opening a string or spoiling the line *)
Definition delim (c : ascii) : Prop :=
  is_quote c = false /\ is_nl c = false /\ (is_blank c || is_punct c) = true.

Lemma tok_delim c cur s : delim c ->
  tok (InWord cur) (String c s) = (flush cur ++ tok (InWord "") (String c s))%list.
Proof.
  intros (Q & N & D). cbn [tok]. rewrite Q, N. destruct (is_blank c); [reflexivity|].
  cbn [orb] in D. rewrite D. reflexivity.
Qed.

Lemma delim_lit c : (negb (is_quote c) && negb (is_nl c) && (is_blank c || is_punct c) = true) -> delim c.
Proof.
  intro H. apply andb_true_iff in H. destruct H as [H D]. apply andb_true_iff in H. destruct H as [Q N].
  apply negb_true_iff in Q. apply negb_true_iff in N. repeat split; assumption.
Qed.

Lemma msg_char_inv c : msg_char c = true -> is_quote c = false /\ is_nl c = false.
Proof. unfold msg_char. destruct (is_quote c), (is_nl c); cbn; intro H; try discriminate H; auto. Qed.

Lemma raw_msg : forall c, raw_char c = true -> msg_char c = true.
Proof. intros c H. destruct (raw_char_inv c H) as [Q N]. unfold msg_char. rewrite Q, N. reflexivity. Qed.

(* a text without quote or line break, followed by a delimiter: the tokens of the text, then the rest *)
Lemma tok_soup v : forall cur c s, str_all msg_char v = true -> delim c ->
  tok (InWord cur) (v ++ String c s) = (tok (InWord cur) v ++ tok (InWord "") (String c s))%list.
Proof.
  induction v as [|a v IH]; intros cur c s H D.
  - cbn [append]. rewrite (tok_delim c cur s D). reflexivity.
  - cbn [str_all] in H. apply andb_true_iff in H. destruct H as [Ha Hv].
    destruct (msg_char_inv a Ha) as [Q N]. cbn [append tok]. rewrite Q, N.
    destruct (is_blank a); [rewrite IH by assumption; rewrite app_assoc; reflexivity|].
    destruct (is_punct a); [rewrite IH by assumption; rewrite <- app_assoc; reflexivity|].
    apply IH; assumption.
Qed.

Lemma tok_soup' v cur t c s : t = String c s -> str_all msg_char v = true -> delim c ->
  tok (InWord cur) (v ++ t) = (tok (InWord cur) v ++ tok (InWord "") t)%list.
Proof. intros E H D. subst t. apply tok_soup; assumption. Qed.

Lemma tok_str m : forall acc s, str_all msg_char m = true ->
  tok (InStr acc) (m ++ String """" s) = TS (acc ++ m) :: tok (InWord "") s.
Proof.
  induction m as [|a m IH]; intros acc s H.
  - rewrite app_empty_r. reflexivity.
  - cbn [str_all] in H. apply andb_true_iff in H. destruct H as [Ha Hm].
    destruct (msg_char_inv a Ha) as [Q _]. cbn [append tok]. rewrite Q.
    rewrite IH by exact Hm. rewrite app_assoc_s. reflexivity.
Qed.

(* ---------- the tokens of a raw text ---------- *)

Fixpoint tbal (d : nat) (l : list token) : option nat :=
  match l with
  | [] => Some d
  | TP c :: r =>
      if Ascii.eqb c "("%char then tbal (S d) r
      else if Ascii.eqb c ")"%char then match d with O => None | S d' => tbal d' r end
      else tbal d r
  | _ :: r => tbal d r
  end.

Lemma tbal_flush cur d r : tbal d (flush cur ++ r) = tbal d r.
Proof. destruct cur; reflexivity. Qed.

Lemma nonpunct_nonparen a : is_punct a = false -> Ascii.eqb a "("%char = false /\ Ascii.eqb a ")"%char = false.
Proof.
  unfold is_punct. destruct (Ascii.eqb a "("), (Ascii.eqb a ")"); cbn; intro H; try discriminate H; auto.
Qed.

Lemma blank_nonpunct a : is_blank a = true -> is_punct a = false.
Proof. intro H. char_cases a; first [reflexivity | vm_compute in H; discriminate H]. Qed.

Lemma tok_raw_bal v : forall cur d, str_all msg_char v = true -> tbal d (tok (InWord cur) v) = paren_bal d v.
Proof.
  induction v as [|a v IH]; intros cur d H.
  - cbn [tok paren_bal]. rewrite <- (app_nil_r (flush cur)), tbal_flush. reflexivity.
  - cbn [str_all] in H. apply andb_true_iff in H. destruct H as [Ha Hv].
    destruct (msg_char_inv a Ha) as [Q N]. cbn [tok paren_bal]. rewrite Q, N.
    destruct (is_blank a) eqn:B.
    { rewrite tbal_flush, IH by exact Hv.
      destruct (nonpunct_nonparen a (blank_nonpunct a B)) as [E1 E2]. rewrite E1, E2. reflexivity. }
    destruct (is_punct a) eqn:P.
    { rewrite tbal_flush. cbn [tbal]. destruct (Ascii.eqb a "("); [apply IH; exact Hv|].
      destruct (Ascii.eqb a ")"); [|apply IH; exact Hv]. destruct d; [reflexivity | apply IH; exact Hv]. }
    destruct (nonpunct_nonparen a P) as [E1 E2]. rewrite E1, E2. apply IH. exact Hv.
Qed.

Lemma flush_soup eq cur : no_comment_open cur = true -> forallb (soup_tok eq) (flush cur) = true.
Proof. intro H. destruct cur; [reflexivity|]. cbn [flush forallb soup_tok]. rewrite H. reflexivity. Qed.

Lemma raw_soup_punct eq a :
  raw_char a = true -> (eq || noeq_char a) = true -> soup_tok eq (TP a) = true.
Proof.
  unfold raw_char, soup_tok, noeq_char. intros H E.
  destruct (Ascii.eqb a ";"), (Ascii.eqb a "{"), (Ascii.eqb a "}"); cbn in H |- *; try discriminate H.
  exact E.
Qed.

Lemma tok_raw_soup eq v : forall cur,
  str_all raw_char v = true -> str_all (fun c => eq || noeq_char c) v = true ->
  no_comment_open (cur ++ v) = true ->
  forallb (soup_tok eq) (tok (InWord cur) v) = true.
Proof.
  induction v as [|a v IH]; intros cur H E C.
  - rewrite app_empty_r in C. cbn [tok]. apply flush_soup. exact C.
  - cbn [str_all] in H, E. apply andb_true_iff in H. destruct H as [Ha Hv].
    apply andb_true_iff in E. destruct E as [Ea Ev].
    destruct (raw_char_inv a Ha) as [Q N]. cbn [tok]. rewrite Q, N.
    pose proof (no_comment_app_l _ _ C) as Ccur.
    pose proof (no_comment_tail _ _ (no_comment_app_r _ _ C)) as Cv.
    destruct (is_blank a).
    { rewrite forallb_app, (flush_soup eq cur Ccur). apply IH; assumption. }
    destruct (is_punct a).
    { rewrite forallb_app, (flush_soup eq cur Ccur). cbn [forallb andb].
      rewrite (raw_soup_punct eq a Ha Ea). apply IH; assumption. }
    apply IH; try assumption. rewrite app_assoc_s. exact C.
Qed.

Lemma nonempty_app_r {A} (a b : list A) : nonempty b = true -> nonempty (a ++ b) = true.
Proof. intro H. destruct a; [exact H | reflexivity]. Qed.

Lemma tok_cur_nonempty v : forall cur,
  is_empty cur = false -> str_all msg_char v = true -> nonempty (tok (InWord cur) v) = true.
Proof.
  induction v as [|a v IH]; intros cur Hc H.
  - cbn [tok]. rewrite (flush_nonempty cur Hc). reflexivity.
  - cbn [str_all] in H. apply andb_true_iff in H. destruct H as [Ha Hv].
    destruct (msg_char_inv a Ha) as [Q N]. cbn [tok]. rewrite Q, N.
    destruct (is_blank a); [rewrite (flush_nonempty cur Hc); reflexivity|].
    destruct (is_punct a); [rewrite (flush_nonempty cur Hc); reflexivity|].
    apply IH; [apply is_empty_app_r; reflexivity | exact Hv].
Qed.

Lemma tok_visible_nonempty v : forall cur,
  has_visible v = true -> str_all msg_char v = true -> nonempty (tok (InWord cur) v) = true.
Proof.
  induction v as [|a v IH]; intros cur Hvis H; [discriminate Hvis|].
  cbn [str_all] in H. apply andb_true_iff in H. destruct H as [Ha Hv].
  destruct (msg_char_inv a Ha) as [Q N]. cbn [tok]. rewrite Q, N. cbn [has_visible] in Hvis.
  destruct (is_blank a).
  { cbn [negb orb] in Hvis. apply nonempty_app_r. apply IH; assumption. }
  destruct (is_punct a); [apply nonempty_app_r; reflexivity|].
  apply tok_cur_nonempty; [apply is_empty_app_r; reflexivity | exact Hv].
Qed.

(* ====================================================================== *)
(* D. soups                                                                *)
(* ====================================================================== *)

Lemma soup_unfold eq cl d ne l :
  soup eq cl d ne l =
  if Nat.eqb d 0 && ne && cl l then true else
  match l with
  | [] => false
  | t :: r =>
      soup_tok eq t &&
      match t with
      | TP c =>
          if Ascii.eqb c "("%char then soup eq cl (S d) true r
          else if Ascii.eqb c ")"%char then match d with O => false | S d' => soup eq cl d' true r end
          else soup eq cl d true r
      | _ => soup eq cl d true r
      end
  end.
Proof. destruct l; reflexivity. Qed.

Lemma soup_close eq cl l : cl l = true -> soup eq cl 0 true l = true.
Proof. intro H. rewrite soup_unfold, H. reflexivity. Qed.

Lemma soup_app eq cl tv : forall d ne d' rest,
  forallb (soup_tok eq) tv = true -> tbal d tv = Some d' ->
  soup eq cl d' (ne || nonempty tv) rest = true ->
  soup eq cl d ne (tv ++ rest)%list = true.
Proof.
  induction tv as [|t tv IH]; intros d ne d' rest Hall Hbal Hrest.
  - cbn [tbal] in Hbal. inversion Hbal; subst d'. cbn [nonempty] in Hrest. rewrite orb_false_r in Hrest. exact Hrest.
  - cbn [forallb] in Hall. apply andb_true_iff in Hall. destruct Hall as [Ht Hall].
    cbn [nonempty] in Hrest. rewrite orb_true_r in Hrest.
    cbn [app]. rewrite soup_unfold. destruct (Nat.eqb d 0 && ne && cl (t :: tv ++ rest)%list); [reflexivity|].
    rewrite Ht. cbn [andb].
    assert (Hgo : forall d0, tbal d0 tv = Some d' -> soup eq cl d0 true (tv ++ rest)%list = true).
    { intros d0 Hb. eapply IH; [exact Hall | exact Hb |]. cbn [orb]. exact Hrest. }
    destruct t as [w|c|s|]; cbn [tbal] in Hbal; try (apply Hgo; exact Hbal).
    destruct (Ascii.eqb c "("); [apply Hgo; exact Hbal|].
    destruct (Ascii.eqb c ")"); [|apply Hgo; exact Hbal].
    destruct d; [discriminate Hbal | apply Hgo; exact Hbal].
Qed.

(* the tokens of a safe text, then what closes the statement *)
Lemma soup_safe_text eq cl v rest :
  safe_text v = true -> str_all (fun c => eq || noeq_char c) v = true -> cl rest = true ->
  soup eq cl 0 false (tok (InWord "") v ++ rest)%list = true.
Proof.
  unfold safe_text. intros H E Hcl.
  apply andb_true_iff in H. destruct H as [H Hb]. apply andb_true_iff in H. destruct H as [H Hc].
  apply andb_true_iff in H. destruct H as [Hv Hr].
  pose proof (str_all_impl _ _ _ raw_msg Hr) as Hm.
  eapply soup_app.
  - apply tok_raw_soup; [exact Hr | exact E | exact Hc].
  - rewrite tok_raw_bal by exact Hm. destruct (paren_bal 0 v) as [[|n]|]; try discriminate Hb. reflexivity.
  - rewrite (tok_visible_nonempty v "" Hv Hm). cbn [orb]. apply soup_close. exact Hcl.
Qed.

Lemma str_all_true (P : ascii -> bool) s : (forall c, P c = true) -> str_all P s = true.
Proof. intro H. induction s as [|c s IH]; [reflexivity|]. cbn [str_all]. rewrite H, IH. reflexivity. Qed.

Lemma soup_safe_text_eq cl v rest :
  safe_text v = true -> cl rest = true -> soup true cl 0 false (tok (InWord "") v ++ rest)%list = true.
Proof. intros H Hcl. apply soup_safe_text; [exact H | apply str_all_true; reflexivity | exact Hcl]. Qed.

(* ====================================================================== *)
(* E. the lines of a well-formed statement                                 *)
(* ====================================================================== *)

Definition ends_stmt (l : list token) : bool :=
  match last l TBad with
  | TP c => Ascii.eqb c ";"%char || Ascii.eqb c "}"%char
  | _ => false
  end.

Lemma classify_stmt lv line w r :
  tokens line = TW w :: r -> ends_stmt (TW w :: r) = true -> stmt_ok lv (TW w :: r) = true ->
  classify lv line = Some KStmt.
Proof.
  intros Ht He Hs. unfold classify. rewrite Ht. cbn [toks_eqb tok_eqb andb].
  unfold ends_stmt in He. destruct (last (TW w :: r) TBad) as [w'|c|s|]; try discriminate He.
  rewrite He, Hs. reflexivity.
Qed.

Lemma last_app_r {A} (l r : list A) d : nonempty r = true -> last (l ++ r)%list d = last r d.
Proof.
  intro H. induction l as [|a l IH]; [reflexivity|]. cbn [app]. rewrite <- IH.
  destruct (l ++ r)%list eqn:E; [|reflexivity].
  exfalso. destruct l; cbn [app] in E; [subst r; discriminate H | discriminate E].
Qed.

Lemma ends_stmt_snoc l : ends_stmt (l ++ [TP ";"%char])%list = true.
Proof. unfold ends_stmt. rewrite last_last. reflexivity. Qed.

Lemma ends_stmt_snoc2 l t : ends_stmt (l ++ [t; TP ";"%char])%list = true.
Proof.
  change (l ++ [t; TP ";"%char])%list with (l ++ [t] ++ [TP ";"%char])%list. rewrite app_assoc. apply ends_stmt_snoc.
Qed.

Lemma delim_semi : delim ";"%char.
Proof. apply delim_lit. reflexivity. Qed.
Lemma delim_close : delim ")"%char.
Proof. apply delim_lit. reflexivity. Qed.
Lemma delim_space : delim " "%char.
Proof. apply delim_lit. reflexivity. Qed.

Lemma lhs_word lv sym : is_lhs_at lv sym = true -> str_all word_char sym = true.
Proof. intro H. eapply str_all_impl; [exact quiet_word | eapply quiet_dot_or_symbol; exact H]. Qed.

Lemma lhs_nonempty lv sym : is_lhs_at lv sym = true -> is_empty sym = false.
Proof.
  unfold is_lhs_at. intro H. apply orb_true_iff in H. destruct H as [H|H]; [apply is_symbol_nonempty; exact H|].
  apply andb_true_iff in H. destruct H as [H _]. unfold is_dot in H. apply String.eqb_eq in H. subst. reflexivity.
Qed.

Lemma symbol_lhs lv sym : is_symbol sym = true -> is_lhs_at lv sym = true.
Proof. intro H. unfold is_lhs_at. rewrite H. reflexivity. Qed.

Lemma symbol_word s : is_symbol s = true -> str_all word_char s = true.
Proof. intro H. eapply str_all_impl; [exact quiet_word | apply is_symbol_quiet; exact H]. Qed.

Lemma secpat_word s : is_secpat s = true -> str_all word_char s = true.
Proof. intro H. eapply str_all_impl; [exact quiet_word | apply is_secpat_quiet; exact H]. Qed.

Lemma safe_text_msg v : safe_text v = true -> str_all msg_char v = true.
Proof.
  unfold safe_text. intro H. apply andb_true_iff in H. destruct H as [H _]. apply andb_true_iff in H.
  destruct H as [H _]. apply andb_true_iff in H. destruct H as [_ H]. exact (str_all_impl _ _ _ raw_msg H).
Qed.

(* sym = v <delimiter> ... *)
Lemma tok_assign_core sym v c s :
  str_all word_char sym = true -> is_empty sym = false -> str_all msg_char v = true -> delim c ->
  tok (InWord "") (sym ++ " = " ++ v ++ String c s) =
  (TW sym :: TP "="%char :: tok (InWord "") v ++ tok (InWord "") (String c s))%list.
Proof.
  intros Hw He Hv Hd. rewrite tok_word0 by exact Hw.
  change (tok (InWord sym) (" = " ++ v ++ String c s))
    with (flush sym ++ TP "="%char :: tok (InWord "") (v ++ String c s))%list.
  rewrite (flush_nonempty sym He), tok_soup by assumption. reflexivity.
Qed.

Lemma line_assign lv ind sym v :
  is_lhs_at lv sym = true -> safe_text v = true ->
  classify lv (indent_str ind ++ sym ++ " = " ++ v ++ ";") = Some KStmt.
Proof.
  intros Hs Hv.
  assert (Ht : tokens (indent_str ind ++ sym ++ " = " ++ v ++ ";") =
               (TW sym :: TP "="%char :: tok (InWord "") v ++ [TP ";"%char])%list).
  { unfold tokens. rewrite tok_indent.
    apply (tok_assign_core sym v ";"%char ""); [eapply lhs_word; exact Hs | eapply lhs_nonempty; exact Hs |
                                                 apply safe_text_msg; exact Hv | exact delim_semi]. }
  eapply classify_stmt; [exact Ht | |].
  - change (TW sym :: TP "="%char :: tok (InWord "") v ++ [TP ";"%char])%list
      with ((TW sym :: TP "="%char :: tok (InWord "") v) ++ [TP ";"%char])%list. apply ends_stmt_snoc.
  - unfold stmt_ok. cbn [assign_ok]. rewrite Hs. cbn [Ascii.eqb Bool.eqb andb].
    rewrite (soup_safe_text_eq cl_semi v [TP ";"%char] Hv eq_refl). reflexivity.
Qed.

(* sym += v; *)
Lemma line_plus_assign lv ind sym v :
  is_lhs_at lv sym = true -> safe_text v = true ->
  classify lv (indent_str ind ++ sym ++ " += " ++ v ++ ";") = Some KStmt.
Proof.
  intros Hs Hv.
  assert (Ht : tokens (indent_str ind ++ sym ++ " += " ++ v ++ ";") =
               (TW sym :: TW "+" :: TP "="%char :: tok (InWord "") v ++ [TP ";"%char])%list).
  { unfold tokens. rewrite tok_indent. rewrite tok_word0 by (eapply lhs_word; exact Hs).
    change (tok (InWord sym) (" += " ++ v ++ ";"))
      with (flush sym ++ TW "+" :: TP "="%char :: tok (InWord "") (v ++ String ";" ""))%list.
    rewrite (flush_nonempty sym (lhs_nonempty lv sym Hs)).
    rewrite tok_soup by (first [apply safe_text_msg; exact Hv | exact delim_semi]). reflexivity. }
  eapply classify_stmt; [exact Ht | |].
  - change (TW sym :: TW "+" :: TP "="%char :: tok (InWord "") v ++ [TP ";"%char])%list
      with ((TW sym :: TW "+" :: TP "="%char :: tok (InWord "") v) ++ [TP ";"%char])%list. apply ends_stmt_snoc.
  - unfold stmt_ok. cbn [assign_ok]. rewrite Hs. cbn [String.eqb Ascii.eqb Bool.eqb andb].
    rewrite (soup_safe_text_eq cl_semi v [TP ";"%char] Hv eq_refl). reflexivity.
Qed.

(* K(sym = v); for K one of PROVIDE, HIDDEN, PROVIDE_HIDDEN *)
Lemma line_provide lv ind k sym v :
  str_all word_char k = true -> is_empty k = false ->
  (String.eqb k "PROVIDE" || String.eqb k "HIDDEN" || String.eqb k "PROVIDE_HIDDEN") = true ->
  is_symbol sym = true -> safe_text v = true ->
  classify lv (indent_str ind ++ k ++ "(" ++ sym ++ " = " ++ v ++ ");") = Some KStmt.
Proof.
  intros Hkw Hke Hk Hs Hv.
  assert (Ht : tokens (indent_str ind ++ k ++ "(" ++ sym ++ " = " ++ v ++ ");") =
               (TW k :: TP "("%char :: TW sym :: TP "="%char :: tok (InWord "") v ++ [TP ")"%char; TP ";"%char])%list).
  { unfold tokens. rewrite tok_indent. rewrite tok_word0 by exact Hkw.
    change (tok (InWord k) ("(" ++ sym ++ " = " ++ v ++ ");"))
      with (flush k ++ TP "("%char :: tok (InWord "") (sym ++ " = " ++ v ++ String ")" ";"))%list.
    rewrite (flush_nonempty k Hke).
    rewrite (tok_assign_core sym v ")"%char ";");
      [reflexivity | apply symbol_word; exact Hs | apply is_symbol_nonempty; exact Hs |
       apply safe_text_msg; exact Hv | exact delim_close]. }
  eapply classify_stmt; [exact Ht | |].
  - change (TW k :: TP "("%char :: TW sym :: TP "="%char :: tok (InWord "") v ++ [TP ")"%char; TP ";"%char])%list
      with ((TW k :: TP "("%char :: TW sym :: TP "="%char :: tok (InWord "") v) ++ [TP ")"%char; TP ";"%char])%list.
    apply ends_stmt_snoc2.
  - unfold stmt_ok. cbn [provide_ok]. rewrite Hk, Hs. cbn [Ascii.eqb Bool.eqb andb].
    rewrite (soup_safe_text_eq cl_paren_semi v [TP ")"%char; TP ";"%char] Hv eq_refl).
    rewrite orb_true_r. reflexivity.
Qed.

Lemma line_render_assign lv ind p h sym v :
  (if p || h then is_symbol sym else is_lhs_at lv sym) = true -> safe_text v = true ->
  classify lv (indent_str ind ++ render_assign p h sym v) = Some KStmt.
Proof.
  intros Hs Hv. destruct p, h; cbn [orb render_assign] in *.
  - apply (line_provide lv ind "PROVIDE_HIDDEN" sym v); auto.
  - apply (line_provide lv ind "PROVIDE" sym v); auto.
  - apply (line_provide lv ind "HIDDEN" sym v); auto.
  - apply line_assign; assumption.
Qed.

Ltac str_norm := repeat (progress (cbn [append]; rewrite ?app_assoc_s)); cbn [append]; reflexivity.

(* K(sym); for K one of ENTRY, EXTERN *)
Lemma line_call_sym ind k s :
  str_all word_char k = true -> is_empty k = false ->
  (String.eqb k "ENTRY" || String.eqb k "EXTERN") = true -> is_symbol s = true ->
  classify LTop (indent_str ind ++ k ++ "(" ++ s ++ ");") = Some KStmt.
Proof.
  intros Hkw Hke Hk Hs.
  assert (Ht : tokens (indent_str ind ++ k ++ "(" ++ s ++ ");") =
               [TW k; TP "("%char; TW s; TP ")"%char; TP ";"%char]).
  { unfold tokens. rewrite tok_indent. rewrite tok_word0 by exact Hkw.
    change (tok (InWord k) ("(" ++ s ++ ");")) with (flush k ++ TP "("%char :: tok (InWord "") (s ++ ");"))%list.
    rewrite (flush_nonempty k Hke). rewrite tok_word0 by (apply symbol_word; exact Hs).
    change (tok (InWord s) ");") with (flush s ++ [TP ")"%char; TP ";"%char])%list.
    rewrite (flush_nonempty s (is_symbol_nonempty s Hs)). reflexivity. }
  eapply classify_stmt; [exact Ht | reflexivity |].
  unfold stmt_ok. cbn [call_sym_ok]. rewrite Hk, Hs. cbn [andb toks_eqb tok_eqb Ascii.eqb Bool.eqb].
  rewrite !String.eqb_refl. cbn [andb]. rewrite orb_true_r. reflexivity.
Qed.

Lemma msg_ok_error m : msg_ok m = true -> msg_ok ("Error: " ++ m) = true.
Proof. intro H. unfold msg_ok. rewrite str_all_app. fold (msg_ok m). rewrite H. reflexivity. Qed.

Lemma line_assert ind c m :
  safe_text c = true -> msg_ok m = true ->
  classify LTop (indent_str ind ++ "ASSERT((" ++ c ++ "), ""Error: " ++ m ++ """);") = Some KStmt.
Proof.
  intros Hc Hm. pose proof (msg_ok_error m Hm) as Hm'.
  assert (Ht : tokens (indent_str ind ++ "ASSERT((" ++ c ++ "), ""Error: " ++ m ++ """);") =
               (TW "ASSERT" :: TP "("%char :: TP "("%char :: tok (InWord "") c ++
                [TP ")"%char; TP ","%char; TS ("Error: " ++ m); TP ")"%char; TP ";"%char])%list).
  { unfold tokens. rewrite tok_indent.
    change (tok (InWord "") ("ASSERT((" ++ c ++ "), ""Error: " ++ m ++ """);"))
      with (TW "ASSERT" :: TP "("%char :: TP "("%char ::
            tok (InWord "") (c ++ String ")" (", ""Error: " ++ m ++ """);"))).
    rewrite tok_soup by (first [apply safe_text_msg; exact Hc | exact delim_close]).
    change (tok (InWord "") (String ")" (", ""Error: " ++ m ++ """);")))
      with (TP ")"%char :: TP ","%char :: tok (InStr "") ("Error: " ++ m ++ String """" ");")).
    replace ("Error: " ++ m ++ String """" ");") with (("Error: " ++ m) ++ String """" ");")
      by (rewrite app_assoc_s; reflexivity).
    rewrite tok_str by exact Hm'. reflexivity. }
  eapply classify_stmt; [exact Ht | |].
  - change (TW "ASSERT" :: TP "("%char :: TP "("%char :: tok (InWord "") c ++
            [TP ")"%char; TP ","%char; TS ("Error: " ++ m); TP ")"%char; TP ";"%char])%list
      with ((TW "ASSERT" :: TP "("%char :: TP "("%char :: tok (InWord "") c) ++
            [TP ")"%char; TP ","%char; TS ("Error: " ++ m); TP ")"%char; TP ";"%char])%list.
    unfold ends_stmt. rewrite last_app_r by reflexivity. reflexivity.
  - unfold stmt_ok. cbn [assert_ok]. cbn [String.eqb Ascii.eqb Bool.eqb andb].
    assert (Hs : soup true cl_assert 1 false
                   (tok (InWord "") c ++ [TP ")"%char; TP ","%char; TS ("Error: " ++ m); TP ")"%char; TP ";"%char])%list
                 = true).
    { unfold safe_text in Hc.
      apply andb_true_iff in Hc. destruct Hc as [H Hb]. apply andb_true_iff in H. destruct H as [H Hn].
      apply andb_true_iff in H. destruct H as [Hv Hr].
      pose proof (str_all_impl _ _ _ raw_msg Hr) as Hmsg.
      change (tok (InWord "") c ++ [TP ")"%char; TP ","%char; TS ("Error: " ++ m); TP ")"%char; TP ";"%char])%list
        with (tok (InWord "") c ++ [TP ")"%char] ++ [TP ","%char; TS ("Error: " ++ m); TP ")"%char; TP ";"%char])%list.
      rewrite app_assoc. eapply (soup_app true cl_assert _ 1 false 0).
      - rewrite forallb_app. rewrite tok_raw_soup; [reflexivity | exact Hr | apply str_all_true; reflexivity | exact Hn].
      - assert (Hb' : tbal 1 (tok (InWord "") c) = Some 1).
        { rewrite tok_raw_bal by exact Hmsg. clear - Hb.
          assert (G : forall s d e, paren_bal d s = Some e -> paren_bal (S d) s = Some (S e)).
          { induction s as [|a s IH]; intros d e H; cbn [paren_bal] in *; [inversion H; reflexivity|].
            destruct (Ascii.eqb a "("); [apply IH; exact H|]. destruct (Ascii.eqb a ")"); [|apply IH; exact H].
            destruct d; [discriminate H|]. apply IH. exact H. }
          destruct (paren_bal 0 c) as [[|n]|] eqn:E; try discriminate Hb. apply G. exact E. }
        clear - Hb'. revert Hb'. generalize (tok (InWord "") c). intro l. generalize 1 at 1 3.
        induction l as [|t l IH]; intros d H; cbn [app tbal] in *.
        + inversion H. reflexivity.
        + destruct t as [w|a|s|]; try (apply IH; exact H).
          destruct (Ascii.eqb a "("); [apply IH; exact H|]. destruct (Ascii.eqb a ")"); [|apply IH; exact H].
          destruct d; [discriminate H | apply IH; exact H].
      - rewrite (nonempty_app_r (tok (InWord "") c) [TP ")"%char] eq_refl). cbn [orb].
        apply soup_close. cbn [cl_assert]. rewrite Hm'. reflexivity. }
    rewrite Hs. rewrite !orb_true_r. reflexivity.
Qed.

Lemma tok_eqb_refl t : tok_eqb t t = true.
Proof. destruct t; cbn [tok_eqb]; [apply String.eqb_refl | apply Ascii.eqb_refl | apply String.eqb_refl | reflexivity]. Qed.

Lemma toks_eqb_refl l : toks_eqb l l = true.
Proof. induction l as [|t l IH]; [reflexivity|]. cbn [toks_eqb]. rewrite tok_eqb_refl, IH. reflexivity. Qed.

Lemma tok_punct c cur s :
  is_punct c = true -> tok (InWord cur) (String c s) = (flush cur ++ TP c :: tok (InWord "") s)%list.
Proof. intro H. char_cases c; try (vm_compute in H; discriminate H); reflexivity. Qed.

Lemma tok_wordchar c cur s :
  word_char c = true -> tok (InWord cur) (String c s) = tok (InWord (cur ++ String c "")) s.
Proof. intro H. destruct (word_char_inv c H) as (Q & N & B & P). cbn [tok]. rewrite Q, N, B, P. reflexivity. Qed.

Lemma tok_end cur : tok (InWord cur) "" = flush cur.
Proof. reflexivity. Qed.

(* FILL(0xHEX); *)
Lemma line_fill ind n : classify LOut (indent_str ind ++ "FILL(0x" ++ hex8_of_N n ++ ");") = Some KStmt.
Proof.
  assert (Ht : tokens (indent_str ind ++ "FILL(0x" ++ hex8_of_N n ++ ");") =
               [TW "FILL"; TP "("%char; TW ("0x" ++ hex8_of_N n); TP ")"%char; TP ";"%char]).
  { unfold tokens. rewrite tok_indent.
    change (tok (InWord "") ("FILL(0x" ++ hex8_of_N n ++ ");"))
      with (TW "FILL" :: TP "("%char :: tok (InWord "0x") (hex8_of_N n ++ ");")).
    rewrite tok_word by (eapply str_all_impl; [exact quiet_word | apply hex_quiet, hex8_of_N_all]).
    reflexivity. }
  eapply classify_stmt; [exact Ht | reflexivity |].
  unfold stmt_ok. cbn [fill_ok]. rewrite (is_hexnum_0x _ (hex8_of_N_nonempty n) (hex8_of_N_all n)).
  rewrite toks_eqb_refl. rewrite !orb_true_r. reflexivity.
Qed.

Lemma path_word s : is_path s = true -> str_all word_char s = true.
Proof.
  unfold is_path. intro H. apply andb_true_iff in H. destruct H as [_ H].
  eapply str_all_impl; [|exact H]. intros c Hc. apply file_word, path_file. exact Hc.
Qed.

Lemma path_nonempty s : is_path s = true -> is_empty s = false.
Proof. unfold is_path. intro H. apply andb_true_iff in H. destruct H as [H _]. apply negb_true_iff. exact H. Qed.

Lemma path_filepat s : is_path s = true -> is_filepat s = true.
Proof.
  unfold is_path, is_filepat. intro H. apply andb_true_iff in H. destruct H as [H1 H2].
  rewrite H1, (str_all_impl _ _ _ path_file H2). reflexivity.
Qed.

Lemma filepat_word s : is_filepat s = true -> str_all word_char s = true.
Proof.
  unfold is_filepat. intro H. apply andb_true_iff in H. destruct H as [_ H].
  exact (str_all_impl _ _ _ file_word H).
Qed.

Lemma filepat_nonempty s : is_filepat s = true -> is_empty s = false.
Proof. unfold is_filepat. intro H. apply andb_true_iff in H. destruct H as [H _]. apply negb_true_iff. exact H. Qed.

Lemma tok_keep s :
  tok (InWord "") (String "K" (String "E" (String "E" (String "P" (String "(" s))))) =
  TW "KEEP" :: TP "("%char :: tok (InWord "") s.
Proof. reflexivity. Qed.

Definition input_pat (sect : string) (wild : bool) : string := if wild then sect ++ "*" else sect.

Lemma tokens_input ind keep path member sect wild :
  is_path path = true -> opt_all is_filepat member = true -> is_secpat sect = true ->
  tokens (indent_str ind ++ render_input keep path member sect wild) =
  input_toks keep path member (input_pat sect wild).
Proof.
  intros Hp Hm Hs. unfold tokens, render_input. rewrite tok_indent.
  pose proof (path_word path Hp) as Hpw. pose proof (path_nonempty path Hp) as Hpe.
  pose proof (secpat_word sect Hs) as Hsw. pose proof (is_secpat_nonempty sect Hs) as Hse.
  assert (Hstar : is_empty (sect ++ "*") = false) by (apply is_empty_app_l; exact Hse).
  destruct member as [m|]; cbn [opt_all] in Hm;
    [pose proof (filepat_word m Hm) as Hmw; pose proof (filepat_nonempty m Hm) as Hme|];
    destruct keep, wild; cbn [append input_toks input_pat app];
    rewrite ?tok_keep;
    repeat first [ rewrite tok_word0 by assumption
                 | rewrite tok_punct by reflexivity
                 | rewrite tok_wordchar by reflexivity
                 | rewrite tok_end
                 | rewrite flush_nonempty by assumption ];
    reflexivity.
Qed.

Lemma line_input ind keep path member sect wild :
  is_path path = true -> opt_all is_filepat member = true -> is_secpat sect = true ->
  classify LOut (indent_str ind ++ render_input keep path member sect wild) = Some KStmt.
Proof.
  intros Hp Hm Hs. pose proof (tokens_input ind keep path member sect wild Hp Hm Hs) as Ht.
  assert (Hg : is_glob (input_pat sect wild) = true).
  { destruct wild; [apply is_secpat_glob_star | apply is_secpat_glob]; exact Hs. }
  pose proof (path_filepat path Hp) as Hf.
  assert (Hok : input_ok (input_toks keep path member (input_pat sect wild)) = true).
  { destruct keep, member as [m|]; cbn [opt_all] in Hm; cbn [input_toks app input_ok];
      rewrite ?Hf, ?Hm, ?Hg; cbn [andb]; apply toks_eqb_refl. }
  destruct keep.
  - change (input_toks true path member (input_pat sect wild))
      with (TW "KEEP" :: (TP "("%char :: TW path ::
              (match member with Some m => [TP ":"%char; TW m] | None => [] end) ++
              [TP "("%char; TW (input_pat sect wild); TP ")"%char; TP ")"%char; TP ";"%char])%list) in *.
    eapply classify_stmt; [exact Ht | |].
    + destruct member; reflexivity.
    + unfold stmt_ok. rewrite Hok. rewrite !orb_true_r. reflexivity.
  - change (input_toks false path member (input_pat sect wild))
      with (TW path :: ((match member with Some m => [TP ":"%char; TW m] | None => [] end) ++
              [TP "("%char; TW (input_pat sect wild); TP ")"%char; TP ";"%char])%list) in *.
    eapply classify_stmt; [exact Ht | |].
    + destruct member; reflexivity.
    + unfold stmt_ok. rewrite Hok. rewrite !orb_true_r. reflexivity.
Qed.

(* the lines of /DISCARD/ *)
Lemma line_discard_pat ind p :
  is_secpat p = true -> classify LOut (indent_str ind ++ "*(" ++ p ++ ");") = Some KStmt.
Proof.
  intro Hp.
  assert (Ht : tokens (indent_str ind ++ "*(" ++ p ++ ");") =
               [TW "*"; TP "("%char; TW p; TP ")"%char; TP ";"%char]).
  { unfold tokens. rewrite tok_indent.
    change (tok (InWord "") ("*(" ++ p ++ ");")) with (TW "*" :: TP "("%char :: tok (InWord "") (p ++ ");")).
    rewrite tok_word0 by (apply secpat_word; exact Hp).
    change (tok (InWord p) ");") with (flush p ++ [TP ")"%char; TP ";"%char])%list.
    rewrite (flush_nonempty p (is_secpat_nonempty p Hp)). reflexivity. }
  eapply classify_stmt; [exact Ht | reflexivity |].
  unfold stmt_ok. cbn [input_ok]. rewrite (is_secpat_glob p Hp).
  change (is_filepat "*") with true. cbn [andb input_toks app]. rewrite toks_eqb_refl.
  rewrite !orb_true_r. reflexivity.
Qed.

Lemma line_discard_all ind : classify LOut (indent_str ind ++ "*(*);") = Some KStmt.
Proof. unfold classify, tokens. rewrite tok_indent. reflexivity. Qed.

(* name 0 : { *(name); } *)
Lemma line_single ind s :
  is_secpat s = true -> classify LSec (indent_str ind ++ s ++ " 0 : { *(" ++ s ++ "); }") = Some KStmt.
Proof.
  intro Hs. pose proof (secpat_word s Hs) as Hw. pose proof (is_secpat_nonempty s Hs) as He.
  assert (Ht : tokens (indent_str ind ++ s ++ " 0 : { *(" ++ s ++ "); }") =
               [TW s; TW "0"; TP ":"%char; TP "{"%char; TW "*"; TP "("%char; TW s; TP ")"%char;
                TP ";"%char; TP "}"%char]).
  { unfold tokens. rewrite tok_indent. rewrite tok_word0 by exact Hw.
    change (tok (InWord s) (" 0 : { *(" ++ s ++ "); }"))
      with (flush s ++ TW "0" :: TP ":"%char :: TP "{"%char :: TW "*" :: TP "("%char ::
            tok (InWord "") (s ++ "); }"))%list.
    rewrite tok_word0 by exact Hw.
    change (tok (InWord s) "); }") with (flush s ++ [TP ")"%char; TP ";"%char; TP "}"%char])%list.
    rewrite (flush_nonempty s He). reflexivity. }
  eapply classify_stmt; [exact Ht | reflexivity |].
  unfold stmt_ok. cbn [single_ok]. rewrite Hs, toks_eqb_refl. rewrite !orb_true_r. reflexivity.
Qed.

(* braces, SECTIONS, /DISCARD/ *)
Lemma line_open lv ind : classify lv (indent_str ind ++ "{") = Some KOpen.
Proof. unfold classify, tokens. rewrite tok_indent. reflexivity. Qed.

Lemma line_close lv ind : classify lv (indent_str ind ++ "}") = Some KClose.
Proof. unfold classify, tokens. rewrite tok_indent. reflexivity. Qed.

Lemma line_sections ind : classify LTop (indent_str ind ++ "SECTIONS") = Some KHeader.
Proof. unfold classify, tokens. rewrite tok_indent. reflexivity. Qed.

Lemma line_discard ind : classify LSec (indent_str ind ++ "/DISCARD/ :") = Some KHeader.
Proof. unfold classify, tokens. rewrite tok_indent. reflexivity. Qed.

Lemma line_blank lv : classify lv "" = Some KBlank.
Proof. reflexivity. Qed.

(* comments *)
Definition comment_char (c : ascii) : bool := negb (Ascii.eqb c "*"%char || is_quote c || is_nl c).

Lemma comment_msg : forall c, comment_char c = true -> msg_char c = true.
Proof.
  intros c. unfold comment_char, msg_char. destruct (Ascii.eqb c "*"), (is_quote c), (is_nl c); cbn; auto.
Qed.

Lemma comment_tail_ok t : str_all comment_char t = true -> comment_tail (t ++ " */") = true.
Proof.
  induction t as [|a t IH]; [reflexivity|]. cbn [str_all]. intro H.
  apply andb_true_iff in H. destruct H as [Ha Ht]. cbn [append comment_tail]. unfold comment_char in Ha.
  destruct (is_nl a); [rewrite !orb_true_r in Ha; discriminate Ha|].
  destruct (Ascii.eqb a "*"); [discriminate Ha|]. apply IH. exact Ht.
Qed.

Lemma line_comment lv ind t :
  comment_ok t = true -> classify lv (indent_str ind ++ "/* " ++ t ++ " */") = Some KBlank.
Proof.
  intro Hc. change (str_all comment_char t = true) in Hc.
  assert (Ht : tokens (indent_str ind ++ "/* " ++ t ++ " */") =
               (TW "/*" :: tok (InWord "") t ++ [TW "*/"])%list).
  { unfold tokens. rewrite tok_indent.
    change (tok (InWord "") ("/* " ++ t ++ " */")) with (TW "/*" :: tok (InWord "") (t ++ String " " "*/")).
    rewrite tok_soup by (first [exact (str_all_impl _ _ _ comment_msg Hc) | exact delim_space]).
    reflexivity. }
  unfold classify. rewrite Ht. cbn [toks_eqb tok_eqb andb].
  change (TW "/*" :: tok (InWord "") t ++ [TW "*/"])%list with ((TW "/*" :: tok (InWord "") t) ++ [TW "*/"])%list.
  rewrite last_last. cbn [String.eqb Ascii.eqb Bool.eqb].
  rewrite strip_sp_indent.
  change (comment_line (strip_sp ("/* " ++ t ++ " */"))) with (comment_tail (t ++ " */")).
  rewrite (comment_tail_ok t Hc). reflexivity.
Qed.

(* ---------- output section headers ---------- *)

Definition header_tail_toks (at_ : option string) (sub : option N) : list token :=
  (TP ":"%char :: (match at_ with Some s => at_toks s | None => [] end) ++
                  (match sub with Some n => subalign_toks (dec_of_N n) | None => [] end))%list.

Definition header_tail_str (at_ : option string) (sub : option N) : string :=
  " :" ++ (match at_ with Some s => " AT(" ++ s ++ ")" | None => "" end) ++
  (match sub with Some n => " SUBALIGN(" ++ dec_of_N n ++ ")" | None => "" end).

Lemma dec_word n : str_all word_char (dec_of_N n) = true.
Proof.
  pose proof (dec_of_N_decnum n) as H. unfold is_decnum in H. apply andb_true_iff in H. destruct H as [_ H].
  eapply str_all_impl; [|exact H]. intros c Hc. apply quiet_word, ident_quiet, hex_ident, digit_hex. exact Hc.
Qed.

Lemma dec_nonempty n : is_empty (dec_of_N n) = false.
Proof.
  pose proof (dec_of_N_decnum n) as H. unfold is_decnum in H. apply andb_true_iff in H. destruct H as [H _].
  apply negb_true_iff. exact H.
Qed.

Lemma tok_header_tail cur at_ sub :
  opt_all is_symbol at_ = true ->
  tok (InWord cur) (header_tail_str at_ sub) = (flush cur ++ header_tail_toks at_ sub)%list.
Proof.
  intro Ha. unfold header_tail_str, header_tail_toks.
  destruct at_ as [s|]; cbn [opt_all] in Ha;
    [pose proof (symbol_word s Ha) as Hw; pose proof (is_symbol_nonempty s Ha) as He|];
    destruct sub as [n|]; cbn [app at_toks subalign_toks]; rewrite ?app_assoc_s.
  - change (tok (InWord cur) (" :" ++ " AT(" ++ s ++ ")" ++ " SUBALIGN(" ++ dec_of_N n ++ ")"))
      with (flush cur ++ TP ":"%char :: TW "AT" :: TP "("%char ::
            tok (InWord "") (s ++ ")" ++ " SUBALIGN(" ++ dec_of_N n ++ ")"))%list.
    rewrite tok_word0 by exact Hw.
    change (tok (InWord s) (")" ++ " SUBALIGN(" ++ dec_of_N n ++ ")"))
      with (flush s ++ TP ")"%char :: TW "SUBALIGN" :: TP "("%char :: tok (InWord "") (dec_of_N n ++ ")"))%list.
    rewrite tok_word0 by apply dec_word.
    change (tok (InWord (dec_of_N n)) ")") with (flush (dec_of_N n) ++ [TP ")"%char])%list.
    rewrite (flush_nonempty s He), (flush_nonempty _ (dec_nonempty n)). reflexivity.
  - change (tok (InWord cur) (" :" ++ " AT(" ++ s ++ ")" ++ ""))
      with (flush cur ++ TP ":"%char :: TW "AT" :: TP "("%char :: tok (InWord "") (s ++ ")"))%list.
    rewrite tok_word0 by exact Hw.
    change (tok (InWord s) ")") with (flush s ++ [TP ")"%char])%list.
    rewrite (flush_nonempty s He). reflexivity.
  - change (tok (InWord cur) (" :" ++ "" ++ " SUBALIGN(" ++ dec_of_N n ++ ")"))
      with (flush cur ++ TP ":"%char :: TW "SUBALIGN" :: TP "("%char :: tok (InWord "") (dec_of_N n ++ ")"))%list.
    rewrite tok_word0 by apply dec_word.
    change (tok (InWord (dec_of_N n)) ")") with (flush (dec_of_N n) ++ [TP ")"%char])%list.
    rewrite (flush_nonempty _ (dec_nonempty n)). reflexivity.
  - reflexivity.
Qed.

Lemma cl_header_tail at_ sub : opt_all is_symbol at_ = true -> cl_header (header_tail_toks at_ sub) = true.
Proof.
  intro Ha. unfold header_tail_toks. destruct at_ as [s|]; cbn [opt_all] in Ha; destruct sub as [n|];
    cbn [app at_toks subalign_toks cl_header]; rewrite ?Ha, ?dec_of_N_decnum; cbn [andb Ascii.eqb Bool.eqb];
    rewrite ?toks_eqb_refl; rewrite ?orb_true_r; reflexivity.
Qed.

Lemma header_tail_last at_ sub :
  exists c, last (header_tail_toks at_ sub) TBad = TP c /\ (Ascii.eqb c ";"%char || Ascii.eqb c "}"%char) = false.
Proof. destruct at_, sub; cbn; eexists; split; reflexivity. Qed.

Lemma header_tail_nonempty at_ sub : nonempty (header_tail_toks at_ sub) = true.
Proof. reflexivity. Qed.

Lemma classify_header lv line w r c :
  tokens line = TW w :: r -> last (TW w :: r) TBad = TP c ->
  (Ascii.eqb c ";"%char || Ascii.eqb c "}"%char) = false -> header_ok lv (TW w :: r) = true ->
  classify lv line = Some KHeader.
Proof.
  intros Ht Hl Hc Hh. unfold classify. rewrite Ht. cbn [toks_eqb tok_eqb andb]. rewrite Hl, Hc, Hh. reflexivity.
Qed.

Definition noload_toks : list token := [TP "("%char; TW "NOLOAD"; TP ")"%char].

Lemma render_header_eq name addr at_ noload sub :
  render_header name addr at_ noload sub =
  name ++ (match addr with Some e => " " ++ render_expr e | None => "" end) ++
  (if noload then " (NOLOAD)" else "") ++ header_tail_str at_ sub.
Proof. unfold render_header, header_tail_str. destruct addr, noload, at_, sub; str_norm. Qed.

Lemma line_header ind name addr at_ (noload : bool) sub :
  is_secpat name = true -> opt_all wf_addr addr = true ->
  (if noload then negb (is_some addr) else true) = true -> opt_all is_symbol at_ = true ->
  classify LSec (indent_str ind ++ render_header name addr at_ noload sub) = Some KHeader.
Proof.
  intros Hn Haddr Hnl Hat. rewrite render_header_eq.
  pose proof (secpat_word name Hn) as Hw. pose proof (is_secpat_nonempty name Hn) as He.
  set (mid := match addr with
              | Some e => tok (InWord "") (render_expr e)
              | None => if noload then noload_toks else []
              end).
  assert (Ht : tokens (indent_str ind ++ name ++
                       (match addr with Some e => " " ++ render_expr e | None => "" end) ++
                       (if noload then " (NOLOAD)" else "") ++ header_tail_str at_ sub) =
               (TW name :: mid ++ header_tail_toks at_ sub)%list).
  { unfold tokens, mid. rewrite tok_indent. rewrite tok_word0 by exact Hw.
    destruct addr as [e|]; cbn [opt_all is_some negb] in *.
    - destruct noload; [discriminate Hnl|]. rewrite ?app_assoc_s.
      change (tok (InWord name) (" " ++ render_expr e ++ "" ++ header_tail_str at_ sub))
        with (flush name ++ tok (InWord "") (render_expr e ++ header_tail_str at_ sub))%list.
      rewrite (tok_soup' (render_expr e) "" (header_tail_str at_ sub) " "%char
                 (String ":"%char ((match at_ with Some s => " AT(" ++ s ++ ")" | None => "" end) ++
                                   (match sub with Some n => " SUBALIGN(" ++ dec_of_N n ++ ")" | None => "" end)))
                 eq_refl)
        by (first [apply safe_text_msg, safe_addr_text, wf_addr_safe; exact Haddr | exact delim_space]).
      rewrite (tok_header_tail "" at_ sub Hat), (flush_nonempty name He). reflexivity.
    - destruct noload.
      + change (tok (InWord name) ("" ++ " (NOLOAD)" ++ header_tail_str at_ sub))
          with (flush name ++ TP "("%char :: TW "NOLOAD" :: TP ")"%char ::
                tok (InWord "") (header_tail_str at_ sub))%list.
        rewrite (tok_header_tail "" at_ sub Hat), (flush_nonempty name He). reflexivity.
      + change (tok (InWord name) ("" ++ "" ++ header_tail_str at_ sub))
          with (tok (InWord name) (header_tail_str at_ sub)).
        rewrite (tok_header_tail name at_ sub Hat), (flush_nonempty name He). reflexivity. }
  destruct (header_tail_last at_ sub) as [c [Hl Hc]].
  eapply classify_header; [exact Ht | | exact Hc |].
  - change (TW name :: mid ++ header_tail_toks at_ sub)%list with ((TW name :: mid) ++ header_tail_toks at_ sub)%list.
    rewrite last_app_r by apply header_tail_nonempty. exact Hl.
  - cbn [header_ok]. rewrite Hn. cbn [andb].
    assert (Hs : soup false cl_header 0 true (mid ++ header_tail_toks at_ sub)%list = true).
    { unfold mid. destruct addr as [e|]; cbn [opt_all] in Haddr.
      - pose proof (wf_addr_safe e Haddr) as Hsafe. unfold safe_addr in Hsafe.
        apply andb_true_iff in Hsafe. destruct Hsafe as [Hst Hne].
        unfold safe_text in Hst.
        apply andb_true_iff in Hst. destruct Hst as [H Hb]. apply andb_true_iff in H. destruct H as [H Hc'].
        apply andb_true_iff in H. destruct H as [Hv Hr].
        pose proof (str_all_impl _ _ _ raw_msg Hr) as Hm.
        eapply soup_app.
        + apply tok_raw_soup; [exact Hr | exact Hne | exact Hc'].
        + rewrite tok_raw_bal by exact Hm. destruct (paren_bal 0 (render_expr e)) as [[|k]|]; try discriminate Hb.
          reflexivity.
        + cbn [orb]. apply soup_close. apply cl_header_tail. exact Hat.
      - destruct noload.
        + eapply (soup_app false cl_header noload_toks 0 true 0); [reflexivity | reflexivity |].
          cbn [orb]. apply soup_close. apply cl_header_tail. exact Hat.
        + cbn [app]. apply soup_close. apply cl_header_tail. exact Hat. }
    rewrite Hs. apply orb_true_r.
Qed.

(* ---------- the reader consumes the lines of a well-formed statement ---------- *)

Lemma run_app a : forall st b,
  run st (a ++ b)%list = match run st a with Some st' => run st' b | None => None end.
Proof.
  induction a as [|l a IH]; intros st b; [reflexivity|]. cbn [app run].
  destruct (step st l); [apply IH | reflexivity].
Qed.

(* the lines leave the reader where it was *)
Definition consumed (lv : level) (lines : list string) : Prop := run (lv, false) lines = Some (lv, false).

Lemma consumed_nil lv : consumed lv [].
Proof. reflexivity. Qed.

Lemma consumed_app lv a b : consumed lv a -> consumed lv b -> consumed lv (a ++ b)%list.
Proof. unfold consumed. intros Ha Hb. rewrite run_app, Ha. exact Hb. Qed.

Lemma consumed_stmt lv line : classify lv line = Some KStmt -> consumed lv [line].
Proof. intro H. unfold consumed. cbn [run step]. rewrite H. reflexivity. Qed.

Lemma consumed_blank lv line : classify lv line = Some KBlank -> consumed lv [line].
Proof. intro H. unfold consumed. cbn [run step]. rewrite H. reflexivity. Qed.

Definition inner (lv : level) : level := match lv with LTop => LSec | _ => LOut end.

Lemma consumed_block lv header open body close :
  is_out lv = false ->
  classify lv header = Some KHeader -> classify lv open = Some KOpen ->
  consumed (inner lv) body -> classify (inner lv) close = Some KClose ->
  consumed lv (header :: open :: body ++ [close])%list.
Proof.
  intros Hlv Hh Ho Hb Hc. unfold consumed in *. cbn [run step]. rewrite Hh. cbn [run step]. rewrite Ho.
  destruct lv; try discriminate Hlv; cbn [inner] in *; rewrite run_app, Hb; cbn [run step]; rewrite Hc; reflexivity.
Qed.

Lemma consumed_flat_map lv (f : stmt -> list string) l :
  Forall (fun s => consumed lv (f s)) l -> consumed lv (flat_map f l).
Proof.
  induction 1 as [|s l Hs Hl IH]; [apply consumed_nil|]. cbn [flat_map]. apply consumed_app; assumption.
Qed.

Lemma consumed_discard_body ind pats :
  forallb is_secpat pats = true ->
  consumed LOut (map (fun p => (indent_str (S ind) ++ "*(" ++ p ++ ");")%string) pats).
Proof.
  induction pats as [|p ps IH]; intro H; [apply consumed_nil|]. cbn [forallb] in H.
  apply andb_true_iff in H. destruct H as [Hp Hps]. cbn [map].
  apply (consumed_app LOut [_]); [apply consumed_stmt, line_discard_pat; exact Hp | apply IH; exact Hps].
Qed.

Lemma align_line_eq sym n :
  sym ++ " = ALIGN(" ++ sym ++ ", 0x" ++ hex_of_N n ++ ");" =
  sym ++ " = " ++ ("ALIGN(" ++ sym ++ ", 0x" ++ hex_of_N n ++ ")") ++ ";".
Proof. str_norm. Qed.

Lemma max_line_eq sym other :
  sym ++ " = MAX(" ++ sym ++ ", " ++ other ++ ");" =
  sym ++ " = " ++ ("MAX(" ++ sym ++ ", " ++ other ++ ")") ++ ";".
Proof. str_norm. Qed.

Lemma romadd_line_eq sec :
  "__romPos += SIZEOF(" ++ sec ++ ");" = "__romPos" ++ " += " ++ ("SIZEOF(" ++ sec ++ ")") ++ ";".
Proof. str_norm. Qed.

Lemma dotadd_line_eq n : ". += 0x" ++ hex_of_N n ++ ";" = "." ++ " += " ++ ("0x" ++ hex_of_N n) ++ ";".
Proof. str_norm. Qed.

Lemma forallb_Forall {A} (P : A -> bool) l : forallb P l = true -> Forall (fun x => P x = true) l.
Proof. intro H. apply Forall_forall. intros x Hx. exact (proj1 (forallb_forall P l) H x Hx). Qed.

Lemma render_discard ind pats wild :
  render_stmt ind (SDiscard pats wild) =
  ((indent_str ind ++ "/DISCARD/ :")%string :: (indent_str ind ++ "{")%string ::
   (map (fun p => (indent_str (S ind) ++ "*(" ++ p ++ ");")%string) pats ++
    (if wild then [(indent_str (S ind) ++ "*(*);")%string] else [])) ++
   [(indent_str ind ++ "}")%string])%list.
Proof. cbn [render_stmt app]. rewrite <- app_assoc. reflexivity. Qed.

Lemma render_stmt_consumed s : forall lv ind, wf_stmt lv s = true -> consumed lv (render_stmt ind s).
Proof.
  induction s as [s Hs | name addr at_ noload sub body IH | body IH] using stmt_nested_ind; intros lv ind H.
  - destruct s; try discriminate Hs; cbn [render_stmt wf_stmt] in *.
    + (* comment *) apply consumed_blank, line_comment. exact H.
    + (* blank *) apply consumed_blank, line_blank.
    + (* assign *) apply andb_true_iff in H. destruct H as [Hsym He].
      apply consumed_stmt, line_render_assign; [exact Hsym | apply wf_expr_safe; exact He].
    + (* align *) rewrite align_line_eq. apply consumed_stmt, line_assign; [exact H|].
      apply safe_addr_text. eapply safe_align. exact H.
    + (* max *) apply andb_true_iff in H. destruct H as [H1 H2]. rewrite max_line_eq.
      apply consumed_stmt, line_assign; [apply symbol_lhs; exact H1 | apply safe_addr_text, safe_max; assumption].
    + (* __romPos += *) rewrite romadd_line_eq.
      apply consumed_stmt, line_plus_assign; [apply symbol_lhs; reflexivity | apply safe_addr_text, safe_sizeof; exact H].
    + (* . += *) rewrite dotadd_line_eq.
      apply consumed_stmt, line_plus_assign; [|apply safe_addr_text, safe_hex].
      unfold is_lhs_at. rewrite H. reflexivity.
    + (* FILL *) destruct lv; try discriminate H. apply consumed_stmt, line_fill.
    + (* input *) apply andb_true_iff in H. destruct H as [H H4]. apply andb_true_iff in H. destruct H as [H H3].
      apply andb_true_iff in H. destruct H as [H1 H2]. destruct lv; try discriminate H1.
      apply consumed_stmt, line_input; assumption.
    + (* one-line output section *) apply andb_true_iff in H. destruct H as [H1 H2].
      destruct lv; try discriminate H1. apply consumed_stmt, line_single. exact H2.
    + (* /DISCARD/ *) apply andb_true_iff in H. destruct H as [H1 H2]. destruct lv; try discriminate H1.
      change (consumed LSec (render_stmt ind (SDiscard pats wild))). rewrite render_discard.
      apply consumed_block; [reflexivity | apply line_discard | apply line_open | | apply line_close].
      apply consumed_app; [apply consumed_discard_body; exact H2|].
      destruct wild; [apply consumed_stmt, line_discard_all | apply consumed_nil].
    + (* ENTRY *) apply andb_true_iff in H. destruct H as [H1 H2]. destruct lv; try discriminate H1.
      apply consumed_stmt. apply (line_call_sym ind "ENTRY"); auto.
    + (* EXTERN *) apply andb_true_iff in H. destruct H as [H1 H2]. destruct lv; try discriminate H1.
      apply consumed_stmt. apply (line_call_sym ind "EXTERN"); auto.
    + (* ASSERT *) apply andb_true_iff in H. destruct H as [H H3]. apply andb_true_iff in H. destruct H as [H1 H2].
      destruct lv; try discriminate H1. apply consumed_stmt, line_assert; assumption.
  - (* output section *) rewrite render_outsec. cbn [wf_stmt] in H.
    apply andb_true_iff in H. destruct H as [H Hbody]. apply andb_true_iff in H. destruct H as [H Hat].
    apply andb_true_iff in H. destruct H as [H Hnl]. apply andb_true_iff in H. destruct H as [H Haddr].
    apply andb_true_iff in H. destruct H as [Hlv Hname]. destruct lv; try discriminate Hlv.
    apply consumed_block; [reflexivity | apply line_header; assumption | apply line_open | | apply line_close].
    apply consumed_flat_map. rewrite Forall_forall in IH |- *. intros x Hx. apply IH; [exact Hx|].
    exact (proj1 (forallb_forall _ _) Hbody x Hx).
  - (* SECTIONS *) rewrite render_sections. cbn [wf_stmt] in H.
    apply andb_true_iff in H. destruct H as [Hlv Hbody]. destruct lv; try discriminate Hlv.
    apply consumed_block; [reflexivity | apply line_sections | apply line_open | | apply line_close].
    apply consumed_flat_map. rewrite Forall_forall in IH |- *. intros x Hx. apply IH; [exact Hx|].
    exact (proj1 (forallb_forall _ _) Hbody x Hx).
Qed.

Lemma wf_script_lines l : wf_script l = true -> wf_lines (render l) = true.
Proof.
  intro H. unfold wf_lines, render.
  assert (Hc : consumed LTop (flat_map (render_stmt 0) l)).
  { apply consumed_flat_map. apply Forall_forall. intros s Hs. apply render_stmt_consumed.
    exact (proj1 (forallb_forall _ _) H s Hs). }
  unfold consumed in Hc. rewrite Hc. reflexivity.
Qed.

(* ====================================================================== *)
(* F. paths                                                                *)
(* ====================================================================== *)

Definition all_str (P : ascii -> bool) (l : list string) : Prop := Forall (fun x => str_all P x = true) l.

Lemma split_on_aux_all P c s : forall cur,
  str_all P s = true -> str_all P cur = true -> all_str P (split_on_aux c s cur).
Proof.
  induction s as [|d s IH]; intros cur Hs Hc; cbn [split_on_aux].
  - constructor; [exact Hc | constructor].
  - cbn [str_all] in Hs. apply andb_true_iff in Hs. destruct Hs as [Hd Hs].
    destruct (Ascii.eqb c d).
    + constructor; [exact Hc | apply IH; [exact Hs | reflexivity]].
    + apply IH; [exact Hs|]. rewrite str_all_app, Hc. cbn [str_all]. rewrite Hd. reflexivity.
Qed.

Lemma drop_dots_all P l : all_str P l -> all_str P (drop_dots l).
Proof.
  induction 1 as [|x l Hx Hl IH]; [constructor|]. cbn [drop_dots].
  destruct (is_empty x || String.eqb x "."); [exact IH | constructor; assumption].
Qed.

Lemma join_all P sep l : str_all P sep = true -> all_str P l -> str_all P (join sep l) = true.
Proof.
  intros Hsep H. induction H as [|x l Hx Hl IH]; [reflexivity|]. cbn [join].
  destruct l as [|y l']; [exact Hx|]. rewrite !str_all_app, Hx, Hsep. exact IH.
Qed.

Lemma components_all P p : P "/"%char = true -> str_all P p = true -> all_str P (components p).
Proof.
  intros Hslash Hp. unfold components.
  assert (Hsplit : all_str P (split_on "/" p)) by (apply split_on_aux_all; [exact Hp | reflexivity]).
  destruct (is_absolute p).
  - constructor; [cbn [str_all]; rewrite Hslash; reflexivity | apply drop_dots_all; exact Hsplit].
  - destruct (split_on "/" p) as [|c r]; [constructor|]. inversion Hsplit; subst.
    apply Forall_app. split; [destruct (is_empty c); constructor; [assumption | constructor] | apply drop_dots_all; assumption].
Qed.

Lemma display_all P p : P "/"%char = true -> str_all P p = true -> str_all P (display p) = true.
Proof.
  intros Hslash Hp. unfold display. apply join_all; [cbn [str_all]; rewrite Hslash; reflexivity|].
  apply components_all; assumption.
Qed.

Lemma push_all P a b : P "/"%char = true -> str_all P a = true -> str_all P b = true -> str_all P (push a b) = true.
Proof.
  intros Hslash Ha Hb. unfold push. destruct (is_absolute b); [exact Hb|]. destruct (is_empty a); [exact Hb|].
  destruct (ends_with_char "/" a); rewrite !str_all_app, Ha, Hb; [reflexivity|].
  cbn [str_all]. rewrite Hslash. reflexivity.
Qed.

Lemma push_nonempty a b : is_empty b = false -> is_empty (push a b) = false.
Proof.
  intro Hb. unfold push. destruct (is_absolute b); [exact Hb|]. destruct (is_empty a) eqn:Ea; [exact Hb|].
  destruct (ends_with_char "/" a); apply is_empty_app_l; exact Ea.
Qed.

Lemma split_on_aux_head c s : forall cur, exists h t, split_on_aux c s cur = (cur ++ h) :: t.
Proof.
  induction s as [|d s IH]; intro cur; cbn [split_on_aux].
  - exists "", []. rewrite app_empty_r. reflexivity.
  - destruct (Ascii.eqb c d).
    + exists "", (split_on_aux c s ""). rewrite app_empty_r. reflexivity.
    + destruct (IH (cur ++ String d "")) as [h [t E]]. exists (String d h), t. rewrite E, app_assoc_s. reflexivity.
Qed.

Lemma join_head_nonempty sep s r : is_empty s = false -> is_empty (join sep (s :: r)) = false.
Proof. intro H. cbn [join]. destruct r; [exact H | apply is_empty_app_l; exact H]. Qed.

Lemma display_nonempty p : is_empty p = false -> is_empty (display p) = false.
Proof.
  intro Hp. unfold display, components. destruct p as [|d p']; [discriminate Hp|].
  unfold is_absolute, starts_with_char. destruct (Ascii.eqb "/" d) eqn:E.
  - apply join_head_nonempty. reflexivity.
  - unfold split_on. cbn [split_on_aux]. rewrite E.
    destruct (split_on_aux_head "/" p' ("" ++ String d "")) as [h [t Ht]]. rewrite Ht.
    cbn [append is_empty app]. apply join_head_nonempty. reflexivity.
Qed.

Lemma slash_path : path_char "/"%char = true.
Proof. reflexivity. Qed.

(* the path of an input-section statement *)
Lemma emitted_path_ok base p :
  str_all path_char base = true -> is_path p = true -> is_path (display (push base p)) = true.
Proof.
  intros Hb Hp. unfold is_path in *. apply andb_true_iff in Hp. destruct Hp as [Hne Hall].
  apply negb_true_iff in Hne.
  rewrite (display_nonempty _ (push_nonempty base p Hne)).
  rewrite (display_all path_char _ slash_path (push_all path_char base p slash_path Hb Hall)). reflexivity.
Qed.

(* ====================================================================== *)
(* G. the symbols slinky builds                                            *)
(* ====================================================================== *)

Lemma eqb_empty_false s : is_empty s = false -> String.eqb s "" = false.
Proof. destruct s; [discriminate | reflexivity]. Qed.

Lemma symbol_app a b :
  is_ident a = true -> str_all ident_char b = true -> is_empty b = false -> is_symbol (a ++ b) = true.
Proof.
  intros Ha Hb He. unfold is_symbol, is_ident. rewrite (name_of_app_r _ a b Ha Hb). cbn [andb].
  destruct a as [|c a']; [discriminate Ha|]. unfold is_dot. cbn [append String.eqb].
  rewrite (eqb_empty_false (a' ++ b) (is_empty_app_r a' b He)). destruct (Ascii.eqb c "."); reflexivity.
Qed.

Lemma symbol_us b : str_all ident_char b = true -> is_empty b = false -> is_symbol (String "_" b) = true.
Proof.
  intros Hb He. unfold is_symbol, is_ident. cbn [name_of]. rewrite Hb. unfold is_dot. cbn [String.eqb].
  reflexivity.
Qed.

Lemma ident_all s : is_ident s = true -> str_all ident_char s = true.
Proof. apply name_of_all. Qed.

Lemma ident_nonempty s : is_ident s = true -> is_empty s = false.
Proof. apply name_of_nonempty. Qed.

Lemma str_all_map_chars (P Q : ascii -> bool) f s :
  (forall c, P c = true -> Q (f c) = true) -> str_all P s = true -> str_all Q (map_chars f s) = true.
Proof.
  intro H. induction s as [|c s IH]; [reflexivity|]. cbn [str_all map_chars]. intro Hs.
  apply andb_true_iff in Hs. destruct Hs as [Hc Hs]. rewrite (H c Hc), (IH Hs). reflexivity.
Qed.

Lemma capitalize_all s : str_all ident_char s = true -> str_all ident_char (capitalize s) = true.
Proof.
  destruct s as [|c s]; [reflexivity|]. cbn [capitalize str_all]. intro H.
  apply andb_true_iff in H. destruct H as [Hc Hs]. rewrite (upper_ident c Hc), Hs. reflexivity.
Qed.

Lemma convert_section_name_all sty sec :
  str_all ident_char sec = true -> str_all ident_char (convert_section_name sty sec) = true.
Proof.
  intro H. destruct sty; cbn [convert_section_name].
  - unfold to_upper, replace_char. apply (str_all_map_chars ident_char ident_char); [exact upper_ident|].
    apply (str_all_map_chars ident_char ident_char); [|exact H].
    intros c Hc. destruct (Ascii.eqb c "."); [reflexivity | exact Hc].
  - destruct (String.eqb sec makerom_special_from); [reflexivity|].
    destruct sec as [|c r]; [reflexivity|].
    pose proof H as H0. cbn [str_all] in H0. apply andb_true_iff in H0. destruct H0 as [Hc Hr].
    char_cases c; try (vm_compute in Hc; discriminate Hc);
      first [apply capitalize_all; exact Hr | apply capitalize_all; exact H].
Qed.

Ltac all_ident :=
  repeat (progress (rewrite ?str_all_app; cbn [str_all];
                    repeat match goal with
                           | H : str_all ident_char ?s = true |- context [str_all ident_char ?s] => rewrite H
                           end));
  reflexivity.

(* one name in the template *)
Ltac sym1 name :=
  let H := fresh "H" in
  intros sty n H; unfold name; destruct sty;
  cbn [pick fst snd fmt append
       tpl_segment_rom_start tpl_segment_rom_end tpl_segment_rom_size tpl_segment_vram_start
       tpl_segment_vram_end tpl_segment_vram_size tpl_linker_offset tpl_vram_class_start
       tpl_vram_class_end tpl_vram_class_size];
  [apply symbol_app; [exact H | reflexivity | reflexivity]
  |pose proof (ident_all n H); apply symbol_us; [all_ident | apply is_empty_app_r; reflexivity]].

Lemma sym_segment_rom_start : forall sty n, is_ident n = true -> is_symbol (segment_rom_start sty n) = true.
Proof. sym1 segment_rom_start. Qed.
Lemma sym_segment_rom_end : forall sty n, is_ident n = true -> is_symbol (segment_rom_end sty n) = true.
Proof. sym1 segment_rom_end. Qed.
Lemma sym_segment_rom_size : forall sty n, is_ident n = true -> is_symbol (segment_rom_size sty n) = true.
Proof. sym1 segment_rom_size. Qed.
Lemma sym_segment_vram_start : forall sty n, is_ident n = true -> is_symbol (segment_vram_start sty n) = true.
Proof. sym1 segment_vram_start. Qed.
Lemma sym_segment_vram_end : forall sty n, is_ident n = true -> is_symbol (segment_vram_end sty n) = true.
Proof. sym1 segment_vram_end. Qed.
Lemma sym_segment_vram_size : forall sty n, is_ident n = true -> is_symbol (segment_vram_size sty n) = true.
Proof. sym1 segment_vram_size. Qed.
Lemma sym_linker_offset : forall sty n, is_ident n = true -> is_symbol (linker_offset sty n) = true.
Proof. sym1 linker_offset. Qed.
Lemma sym_vram_class_start : forall sty n, is_ident n = true -> is_symbol (vram_class_start sty n) = true.
Proof. sym1 vram_class_start. Qed.
Lemma sym_vram_class_end : forall sty n, is_ident n = true -> is_symbol (vram_class_end sty n) = true.
Proof. sym1 vram_class_end. Qed.
Lemma sym_vram_class_size : forall sty n, is_ident n = true -> is_symbol (vram_class_size sty n) = true.
Proof. sym1 vram_class_size. Qed.

(* a segment name and a section name in the template *)
Ltac sym2 name :=
  let H := fresh "H" in let Hs := fresh "Hs" in
  intros sty n sec H Hs; unfold name;
  pose proof (convert_section_name_all sty sec Hs);
  generalize dependent (convert_section_name sty sec); intros conv Hconv;
  destruct sty;
  cbn [pick fst snd fmt append tpl_segment_section_start tpl_segment_section_end tpl_segment_section_size];
  [apply symbol_app; [exact H | all_ident | apply is_empty_app_r; reflexivity]
  |pose proof (ident_all n H); apply symbol_us; [all_ident | apply is_empty_app_r; reflexivity]].

Lemma sym_segment_section_start : forall sty n sec,
  is_ident n = true -> str_all ident_char sec = true -> is_symbol (segment_section_start sty n sec) = true.
Proof. sym2 segment_section_start. Qed.
Lemma sym_segment_section_end : forall sty n sec,
  is_ident n = true -> str_all ident_char sec = true -> is_symbol (segment_section_end sty n sec) = true.
Proof. sym2 segment_section_end. Qed.
Lemma sym_segment_section_size : forall sty n sec,
  is_ident n = true -> str_all ident_char sec = true -> is_symbol (segment_section_size sty n sec) = true.
Proof. sym2 segment_section_size. Qed.

Lemma kind_name_ident seg noload : is_ident (sg_name seg) = true -> is_ident (kind_name seg noload) = true.
Proof.
  intro H. unfold kind_name. apply name_of_app_r; [exact H|]. destruct noload; reflexivity.
Qed.

(* .NAME and .NAME.noload *)
Lemma outsec_name_ok name (noload : bool) :
  is_ident name = true -> is_secpat ("." ++ name ++ (if noload then ".noload" else "")) = true.
Proof.
  intro H. unfold is_secpat. cbn [append name_of]. change (sect_char "."%char) with true.
  change (is_digit "."%char) with false. cbn [negb andb].
  rewrite str_all_app, (str_all_impl _ _ _ ident_sect (ident_all name H)).
  unfold is_dot. cbn [String.eqb Ascii.eqb Bool.eqb andb].
  rewrite (eqb_empty_false _ (is_empty_app_l name _ (ident_nonempty name H))).
  destruct noload; reflexivity.
Qed.

Lemma outsec_name_plain name : is_ident name = true -> is_secpat ("." ++ name) = true.
Proof.
  intro H. pose proof (outsec_name_ok name false H) as G. cbn [append] in G. rewrite app_empty_r in G. exact G.
Qed.

(* ====================================================================== *)
(* H. the generated statements                                             *)
(* ====================================================================== *)

Definition wfl (lv : level) (l : list stmt) : bool := forallb (wf_stmt lv) l.

Lemma wfl_app lv a b : wfl lv (a ++ b)%list = wfl lv a && wfl lv b.
Proof. apply forallb_app. Qed.

Lemma wfl_cons lv s l : wfl lv (s :: l) = wf_stmt lv s && wfl lv l.
Proof. reflexivity. Qed.

Lemma wfl_nil lv : wfl lv [] = true.
Proof. reflexivity. Qed.

Lemma fold_out_wfl {A} lv (f : A -> wstate -> res out) l :
  (forall x ws o, In x l -> f x ws = Ok o -> wfl lv (fst o) = true) ->
  forall ws o, fold_out f l ws = Ok o -> wfl lv (fst o) = true.
Proof.
  induction l as [|x r IH]; intros H ws o Hf; cbn [fold_out] in Hf.
  - inversion Hf. reflexivity.
  - apply bind_ok in Hf. destruct Hf as [o1 [E1 Hf]].
    apply bind_ok in Hf. destruct Hf as [o2 [E2 Hf]]. inversion Hf; subst; cbn [fst].
    rewrite wfl_app. rewrite (H x ws o1 (or_introl eq_refl) E1).
    apply (IH (fun y ws' o' Hy => H y ws' o' (or_intror Hy)) _ _ E2).
Qed.

Lemma lhs_dot lv : is_top lv = false -> is_lhs_at lv "." = true.
Proof. intro H. unfold is_lhs_at. rewrite H. reflexivity. Qed.

Lemma wf_linker_symbol lv sym e :
  is_symbol sym = true -> wf_expr e = true -> wf_stmt lv (linker_symbol sym e) = true.
Proof. intros Hs He. unfold linker_symbol. cbn [wf_stmt orb]. rewrite (symbol_lhs lv sym Hs), He. reflexivity. Qed.

Lemma wfl_opt_align lv a : is_top lv = false -> wfl lv (opt_align a) = true.
Proof. intro H. destruct a; [|reflexivity]. cbn [opt_align wfl forallb wf_stmt]. rewrite (lhs_dot lv H). reflexivity. Qed.

Lemma wfl_sym_end_size lv start end_ size value :
  is_symbol start = true -> is_symbol end_ = true -> is_symbol size = true -> wf_expr value = true ->
  wfl lv (sym_end_size start end_ size value) = true.
Proof.
  intros H1 H2 H3 Hv. unfold sym_end_size. cbn [wfl forallb].
  rewrite (wf_linker_symbol lv end_ value H2 Hv), (wf_linker_symbol lv size (EAbsSub end_ start) H3).
  - reflexivity.
  - cbn [wf_expr]. rewrite H1, H2. reflexivity.
Qed.

Lemma In_insert_sorted le x y l : In y (insert_sorted le x l) -> y = x \/ In y l.
Proof.
  induction l as [|z l IH]; cbn [insert_sorted]; [intros [H|[]]; left; auto|].
  destruct (le x z); cbn [In]; [intros [H|[H|H]]; auto|].
  intros [H|H]; [auto|]. destruct (IH H); auto.
Qed.

Lemma In_sort_by le y l : In y (sort_by le l) -> In y l.
Proof.
  induction l as [|x l IH]; cbn [sort_by]; [auto|]. intro H. apply In_insert_sorted in H.
  destruct H as [H|H]; [left; auto | right; apply IH; exact H].
Qed.

Lemma sections_here_ok f section sections k :
  forallb (fun kv => is_secpat (fst kv)) (fi_section_order f) = true ->
  is_secpat section = true -> In k (sections_here f section sections) -> is_secpat k = true.
Proof.
  intros Hso Hs Hk. unfold sections_here in Hk. destruct (fi_section_order f) as [|kv so] eqn:E.
  - destruct Hk as [Hk|[]]. subst. exact Hs.
  - apply In_sort_by in Hk. apply in_app_or in Hk. destruct Hk as [Hk|Hk].
    + destruct (is_some (lookup section (kv :: so))); [destruct Hk|]. destruct Hk as [Hk|[]]. subst. exact Hs.
    + apply in_map_iff in Hk. destruct Hk as [kv' [Ek Hk]]. apply filter_In in Hk. destruct Hk as [Hk _].
      subst k. exact (proj1 (forallb_forall _ _) Hso kv' Hk).
Qed.

Lemma file_valid_eq rt f :
  file_valid rt f =
  (negb (should_emit rt (fi_conds f)) ||
   (forallb (fun kv => is_secpat (fst kv)) (fi_section_order f) &&
    match fi_kind f with
    | KObject => escaped_file_ok rt (fi_path f)
    | KArchive => escaped_file_ok rt (fi_path f) && is_filepat (fi_subfile f)
    | KPad => true
    | KLinkerOffset => is_ident (fi_linker_offset_name f)
    | KGroup => escaped_dir_ok rt (fi_dir f) && forallb (file_valid rt) (fi_files f)
    end)).
Proof. destruct f. reflexivity. Qed.

Section Emit.
  Variables (rt : runtime) (sty : style) (cfg : wcfg) (seg : segment) (sections : list string).
  Hypothesis Hsub : forallb (fun kv => forallb is_secpat (snd kv)) (sections_subgroups seg) = true.

  Definition sff_ok (f : file_info) : Prop :=
    file_valid rt f = true ->
    forall n stack section base ws o,
      is_secpat section = true -> str_all path_char base = true ->
      emit_sff rt sty cfg seg sections f n stack section base ws = Ok o -> wfl LOut (fst o) = true.

  Lemma emit_file_of_ok f base k ws o :
    Forall sff_ok (fi_files f) -> file_valid rt f = true ->
    (should_emit rt (fi_conds f) = true -> is_secpat k = true) -> str_all path_char base = true ->
    emit_file_of rt sty cfg seg sections f base k ws = Ok o -> wfl LOut (fst o) = true.
  Proof.
    intros IH Hv Hk Hb H. unfold emit_file_of in H. rewrite file_valid_eq in Hv.
    destruct (should_emit rt (fi_conds f)) eqn:E; cbn [negb orb] in *; [|inversion H; reflexivity].
    specialize (Hk eq_refl). apply andb_true_iff in Hv. destruct Hv as [_ Hv].
    destruct (fi_kind f).
    - apply bind_ok in H. destruct H as [p [Ep H]]. inversion H; subst; cbn [fst wfl forallb wf_stmt is_out opt_all].
      unfold escaped_file_ok in Hv. rewrite Ep in Hv. rewrite (emitted_path_ok base p Hb Hv), Hk. reflexivity.
    - apply bind_ok in H. destruct H as [p [Ep H]]. inversion H; subst; cbn [fst wfl forallb wf_stmt is_out opt_all].
      apply andb_true_iff in Hv. destruct Hv as [Hv Hm].
      unfold escaped_file_ok in Hv. rewrite Ep in Hv. rewrite (emitted_path_ok base p Hb Hv), Hk, Hm. reflexivity.
    - inversion H; subst; cbn [fst]. destruct (String.eqb (fi_section f) k); reflexivity.
    - inversion H; subst; cbn [fst]. destruct (String.eqb (fi_section f) k); [|reflexivity].
      cbn [wfl forallb wf_stmt orb wf_expr]. rewrite (symbol_lhs LOut _ (sym_linker_offset sty _ Hv)). reflexivity.
    - apply bind_ok in H. destruct H as [d [Ed H]]. apply andb_true_iff in Hv. destruct Hv as [Hd Hfiles].
      unfold escaped_dir_ok in Hd. rewrite Ed in Hd.
      eapply fold_out_wfl; [|exact H]. intros c ws1 o1 Hc Hemit. cbv beta in Hemit.
      rewrite Forall_forall in IH.
      apply (IH c Hc (proj1 (forallb_forall _ _) Hfiles c Hc) _ _ _ _ _ _ Hk
                (push_all path_char base d slash_path Hb Hd) Hemit).
  Qed.

  Lemma subgroup_others_ok f k others other :
    lookup k (subgroups_for seg f) = Some others -> In other others -> is_secpat other = true.
  Proof.
    intros Hl Hin. apply subgroups_for_sub in Hl. apply lookup_In in Hl.
    pose proof (proj1 (forallb_forall _ _) Hsub _ Hl) as H. cbn [snd] in H.
    exact (proj1 (forallb_forall _ _) H other Hin).
  Qed.

  Lemma chain_ok f : Forall sff_ok (fi_files f) -> sff_ok f.
  Proof.
    intros IH Hv. induction n as [|n IHn]; intros stack section base ws o Hsec Hb H.
    - rewrite emit_sff_O in H. discriminate H.
    - rewrite emit_sff_S in H. destruct (mem_str section stack); [discriminate H|].
      eapply fold_out_wfl; [|exact H]. intros k ws1 o1 Hk Hstep. cbv beta in Hstep.
      apply bind_ok in Hstep. destruct Hstep as [oa [Ea Hstep]].
      apply bind_ok in Hstep. destruct Hstep as [ob [Eb Hstep]]. inversion Hstep; subst; cbn [fst].
      rewrite wfl_app. rewrite (emit_file_of_ok f base k ws1 oa IH Hv); [| |exact Hb|exact Ea].
      + cbn [andb]. destruct (reference_partial cfg); [inversion Eb; reflexivity|].
        destruct (lookup k (subgroups_for seg f)) as [others|] eqn:El; [|inversion Eb; reflexivity].
        eapply fold_out_wfl; [|exact Eb]. intros other ws2 o2 Hother Hcall.
        apply (IHn _ _ _ _ _ (subgroup_others_ok f k others other El Hother) Hb Hcall).
      + intro E. rewrite file_valid_eq, E in Hv. cbn [negb orb] in Hv. apply andb_true_iff in Hv.
        destruct Hv as [Hso _]. exact (sections_here_ok f section sections k Hso Hsec Hk).
  Qed.

  Lemma emit_sff_ok f : sff_ok f.
  Proof. induction f as [f IHf] using file_info_nested_ind. apply chain_ok. exact IHf. Qed.

  Lemma emit_section_ok base_path section ws o :
    escaped_dir_ok rt base_path = true -> escaped_dir_ok rt (sg_dir seg) = true ->
    forallb (file_valid rt) (sg_files seg) = true -> is_secpat section = true ->
    emit_section rt sty cfg seg sections base_path section ws = Ok o -> wfl LOut (fst o) = true.
  Proof.
    intros Hbp Hdir Hfiles Hsec H. unfold emit_section in H.
    apply bind_ok in H. destruct H as [b0 [E0 H]]. apply bind_ok in H. destruct H as [b [Eb H]].
    unfold escaped_dir_ok in Hbp. rewrite E0 in Hbp.
    assert (Hb : str_all path_char b = true).
    { destruct (reference_partial cfg); [inversion Eb; subst; exact Hbp|].
      apply bind_ok in Eb. destruct Eb as [d [Ed Eb]]. inversion Eb; subst.
      unfold escaped_dir_ok in Hdir. rewrite Ed in Hdir. apply push_all; [reflexivity | exact Hbp | exact Hdir]. }
    eapply fold_out_wfl; [|exact H]. intros f ws1 o1 Hf Hemit. cbv beta in Hemit.
    exact (emit_sff_ok f (proj1 (forallb_forall _ _) Hfiles f Hf) _ _ _ _ _ _ Hsec Hb Hemit).
  Qed.
End Emit.

Ltac wfl_split := repeat first [rewrite wfl_app | rewrite wfl_cons | rewrite wfl_nil].

Ltac bsplit := repeat (apply andb_true_intro; split).

Lemma segment_valid_inv rt seg :
  segment_valid rt seg = true ->
  is_ident (sg_name seg) = true /\
  forallb is_symbol (alloc_sections seg) = true /\ forallb is_symbol (noload_sections seg) = true /\
  forallb (fun kv => forallb is_secpat (snd kv)) (sections_subgroups seg) = true /\
  opt_all safe_addr (sg_fixed_symbol seg) = true /\
  opt_all is_ident (sg_follows_segment seg) = true /\
  opt_all is_ident (sg_vram_class seg) = true /\
  escaped_dir_ok rt (sg_dir seg) = true /\
  forallb (file_valid rt) (sg_files seg) = true.
Proof.
  unfold segment_valid, segment_names_valid. intro H.
  repeat match goal with
         | H : _ && _ = true |- _ => apply andb_true_iff in H; destruct H
         end.
  repeat split; assumption.
Qed.

Lemma wfl_sep lv (rest : list string) : wfl lv (match rest with [] => [] | _ => [SBlank] end) = true.
Proof. destruct rest; reflexivity. Qed.

Lemma gp_symbol : is_symbol "_gp" = true.
Proof. reflexivity. Qed.

Lemma rompos_symbol : is_symbol "__romPos" = true.
Proof. reflexivity. Qed.

Section Segment.
  Variables (rt : runtime) (st : settings) (cfg : wcfg).
  Let sty := linker_symbols_style st.
  Hypothesis Hbp : escaped_dir_ok rt (base_path st) = true.
  Variable seg : segment.
  Hypothesis Hseg : segment_valid rt seg = true.

  Lemma Hname : is_ident (sg_name seg) = true.
  Proof. exact (proj1 (segment_valid_inv rt seg Hseg)). Qed.

  Lemma wfl_gp lv section : wfl lv (gp_stmt rt seg section) = true.
  Proof.
    unfold gp_stmt. destruct (sg_gp_info seg) as [g|]; [|reflexivity].
    destruct (should_emit rt (gp_conds g) && String.eqb (gp_section g) section); [|reflexivity].
    cbn [wfl forallb wf_stmt wf_expr]. rewrite (symbol_lhs lv "_gp" gp_symbol), gp_symbol.
    destruct (gp_provide g || gp_hidden g); reflexivity.
  Qed.

  Lemma wfl_section_symbol_start lv section :
    is_top lv = false -> is_symbol section = true ->
    wfl lv (section_symbol_start rt sty cfg seg section) = true.
  Proof.
    intros Hlv Hs. unfold section_symbol_start. destruct (section_syms cfg); [|reflexivity].
    rewrite !wfl_app, !wfl_opt_align, wfl_gp by exact Hlv. cbn [wfl forallb andb].
    rewrite wf_linker_symbol; [reflexivity | | reflexivity].
    apply sym_segment_section_start; [exact Hname | apply is_symbol_all; exact Hs].
  Qed.

  Lemma wfl_section_symbol_end lv section :
    is_top lv = false -> is_symbol section = true ->
    wfl lv (section_symbol_end sty cfg seg section) = true.
  Proof.
    intros Hlv Hs. unfold section_symbol_end. destruct (section_syms cfg); [|reflexivity].
    pose proof (is_symbol_all section Hs) as Ha.
    rewrite !wfl_app, !wfl_opt_align by exact Hlv. cbn [andb].
    apply wfl_sym_end_size; try reflexivity;
      [apply sym_segment_section_start | apply sym_segment_section_end | apply sym_segment_section_size];
      first [exact Hname | assumption].
  Qed.

  Lemma wfl_opt_fill : wfl LOut (opt_fill seg) = true.
  Proof. unfold opt_fill. destruct (fill_value seg); reflexivity. Qed.

  Lemma wfl_kind_start noload : wfl LSec (sections_kind_start sty cfg seg noload) = true.
  Proof.
    unfold sections_kind_start. destruct (kind_syms cfg); [|reflexivity]. cbn [wfl forallb].
    rewrite wf_linker_symbol; [reflexivity | | reflexivity].
    apply sym_segment_vram_start, kind_name_ident, Hname.
  Qed.

  Lemma wfl_kind_end noload : wfl LSec (sections_kind_end sty cfg seg noload) = true.
  Proof.
    unfold sections_kind_end. destruct (kind_syms cfg); [|reflexivity]. rewrite wfl_cons. cbn [wf_stmt andb].
    pose proof (kind_name_ident seg noload Hname) as Hk.
    apply wfl_sym_end_size; try reflexivity;
      [apply sym_segment_vram_start | apply sym_segment_vram_end | apply sym_segment_vram_size]; exact Hk.
  Qed.

  Lemma emit_section_seg_ok sections section ws o :
    is_symbol section = true ->
    emit_section rt sty cfg seg sections (base_path st) section ws = Ok o -> wfl LOut (fst o) = true.
  Proof.
    intros Hs H. pose proof (segment_valid_inv rt seg Hseg) as Hinv. destruct Hinv as (_ & _ & _ & Hsub & _ & _ & _ & Hdir & Hfiles).
    eapply emit_section_ok; [exact Hsub | exact Hbp | exact Hdir | exact Hfiles | | exact H].
    apply is_symbol_secpat. exact Hs.
  Qed.

  Lemma part_groups_ok sections rest : forall ws o,
    forallb is_symbol rest = true ->
    part_groups rt st cfg seg sections rest ws = Ok o -> wfl LOut (fst o) = true.
  Proof.
    induction rest as [|section rest' IH]; intros ws o Hr H; cbn [part_groups] in H.
    - inversion H. reflexivity.
    - cbn [forallb] in Hr. apply andb_true_iff in Hr. destruct Hr as [Hs Hr].
      apply bind_ok in H. destruct H as [o1 [E1 H]]. apply bind_ok in H. destruct H as [o2 [E2 H]].
      inversion H; subst; cbn [fst]. fold sty.
      rewrite !wfl_app, wfl_section_symbol_start, wfl_section_symbol_end, wfl_sep by (first [reflexivity | exact Hs]).
      rewrite (emit_section_seg_ok _ _ _ _ Hs E1), (IH _ _ Hr E2). reflexivity.
  Qed.

  Lemma wf_segment_addr : opt_all wf_addr (segment_addr sty seg) = true.
  Proof.
    pose proof (segment_valid_inv rt seg Hseg) as Hinv. destruct Hinv as (_ & _ & _ & _ & Hfixed & Hfollows & Hclass & _).
    unfold segment_addr. destruct (sg_fixed_vram seg); [reflexivity|].
    destruct (sg_fixed_symbol seg) as [s|]; [exact Hfixed|].
    destruct (sg_follows_segment seg) as [f|]; [cbn [opt_all wf_addr wf_expr] in *; apply sym_segment_vram_end; exact Hfollows|].
    destruct (sg_vram_class seg) as [c|]; [cbn [opt_all wf_addr wf_expr] in *; apply sym_vram_class_start; exact Hclass|].
    reflexivity.
  Qed.

  Lemma write_segment_ok sections (noload : bool) ws o :
    forallb is_symbol sections = true ->
    write_segment rt st cfg seg sections noload ws = Ok o -> wfl LSec (fst o) = true.
  Proof.
    intros Hsec H. unfold write_segment in H. apply bind_ok in H. destruct H as [o1 [E1 H]].
    inversion H; subst; cbn [fst]. fold sty.
    rewrite wfl_app, wfl_cons, wfl_kind_start, wfl_kind_end. cbn [wf_stmt is_sec andb].
    change (String "." (sg_name seg ++ (if noload then ".noload" else "")))
      with ("." ++ sg_name seg ++ (if noload then ".noload" else "")).
    rewrite (outsec_name_ok (sg_name seg) noload Hname).
    fold (wfl LOut (opt_fill seg ++ fst o1)). rewrite wfl_app, wfl_opt_fill, (part_groups_ok _ _ _ _ Hsec E1).
    destruct noload; cbn [opt_all is_some negb andb]; [reflexivity|].
    rewrite wf_segment_addr, (sym_segment_rom_start sty _ Hname). reflexivity.
  Qed.

  Lemma single_groups_ok sections (noload : bool) rest : forall ws o,
    forallb is_symbol rest = true ->
    single_groups rt st cfg seg sections noload rest ws = Ok o -> wfl LSec (fst o) = true.
  Proof.
    induction rest as [|section rest' IH]; intros ws o Hr H; cbn [single_groups] in H.
    - inversion H. reflexivity.
    - cbn [forallb] in Hr. apply andb_true_iff in Hr. destruct Hr as [Hs Hr].
      apply bind_ok in H. destruct H as [o1 [E1 H]]. apply bind_ok in H. destruct H as [o2 [E2 H]].
      inversion H; subst; cbn [fst]. fold sty. wfl_split.
      rewrite wfl_section_symbol_start, wfl_section_symbol_end, wfl_sep by (first [reflexivity | exact Hs]).
      rewrite (IH _ _ Hr E2). cbn [wf_stmt is_sec opt_all is_some negb andb].
      rewrite (is_symbol_secpat section Hs).
      fold (wfl LOut (opt_fill seg ++ fst o1)). rewrite wfl_app, wfl_opt_fill, (emit_section_seg_ok _ _ _ _ Hs E1).
      destruct noload; reflexivity.
  Qed.

  Lemma write_single_segment_ok sections (noload : bool) ws o :
    forallb is_symbol sections = true ->
    write_single_segment rt st cfg seg sections noload ws = Ok o -> wfl LSec (fst o) = true.
  Proof.
    intros Hsec H. unfold write_single_segment in H. apply bind_ok in H. destruct H as [o1 [E1 H]].
    inversion H; subst; cbn [fst]. fold sty.
    rewrite !wfl_app, wfl_kind_start, wfl_kind_end, (single_groups_ok _ _ _ _ _ Hsec E1). reflexivity.
  Qed.
End Segment.

(* ---------- classes ---------- *)

Lemma class_get_In classes cn c : class_get classes cn = Some c -> In c classes /\ vc_name c = cn.
Proof.
  unfold class_get. intro H. apply find_some in H. destruct H as [Hin He].
  split; [apply in_rev; exact Hin | apply String.eqb_eq; exact He].
Qed.

Lemma class_names_In l : forall seen cn, In cn (class_names l seen) -> exists c, In c l /\ vc_name c = cn.
Proof.
  induction l as [|c l IH]; intros seen cn H; cbn [class_names] in H; [destruct H|].
  destruct (mem_str (vc_name c) seen).
  - destruct (IH _ _ H) as [c' [Hin E]]. exists c'. split; [right; exact Hin | exact E].
  - destruct H as [H|H]; [exists c; split; [left; reflexivity | exact H]|].
    destruct (IH _ _ H) as [c' [Hin E]]. exists c'. split; [right; exact Hin | exact E].
Qed.

Lemma class_valid_inv c :
  class_valid c = true ->
  is_ident (vc_name c) = true /\ opt_all safe_text (vc_fixed_symbol c) = true /\
  forallb is_ident (vc_follows_classes c) = true.
Proof.
  unfold class_valid. intro H. apply andb_true_iff in H. destruct H as [H H3].
  apply andb_true_iff in H. destruct H as [H1 H2]. auto.
Qed.

Lemma wf_max_self lv a b : is_symbol a = true -> is_symbol b = true -> wf_stmt lv (SMaxSelf a b) = true.
Proof. intros Ha Hb. cbn [wf_stmt]. rewrite Ha, Hb. reflexivity. Qed.

Lemma wfl_class_start st c cn :
  class_valid c = true -> is_ident cn = true -> wfl LSec (class_start_stmts st c cn) = true.
Proof.
  intros Hc Hcn. destruct (class_valid_inv c Hc) as (_ & Hfs & Hfc). unfold class_start_stmts.
  set (sty := linker_symbols_style st).
  pose proof (sym_vram_class_start sty cn Hcn) as Hs. pose proof (sym_vram_class_end sty cn Hcn) as He.
  rewrite wfl_app. apply andb_true_intro. split.
  - destruct (vc_fixed_vram c); [cbn [wfl forallb]; rewrite wf_linker_symbol; auto|].
    destruct (vc_fixed_symbol c) as [s|]; [cbn [wfl forallb]; rewrite wf_linker_symbol; auto|].
    rewrite wfl_cons, wf_linker_symbol by auto. cbn [andb].
    induction (vc_follows_classes c) as [|o l IH]; [reflexivity|]. cbn [forallb] in Hfc.
    apply andb_true_iff in Hfc. destruct Hfc as [Ho Hl]. cbn [map]. rewrite wfl_cons, (IH Hl).
    rewrite (wf_max_self LSec _ _ Hs (sym_vram_class_end sty o Ho)). reflexivity.
  - cbn [wfl forallb]. rewrite wf_linker_symbol; auto.
Qed.

Lemma wfl_seg_align lv a :
  is_top lv = false ->
  wfl lv (match a with Some a => [SAlign "__romPos" a; SAlign "." a] | None => [] end) = true.
Proof.
  intro H. destruct a; [|reflexivity]. cbn [wfl forallb wf_stmt].
  rewrite (symbol_lhs lv _ rompos_symbol), (lhs_dot lv H). reflexivity.
Qed.

Ltac seg_sym Hname :=
  first [ reflexivity
        | exact Hname
        | apply sym_segment_rom_start; seg_sym Hname
        | apply sym_segment_rom_end; seg_sym Hname
        | apply sym_segment_rom_size; seg_sym Hname
        | apply sym_segment_vram_start; seg_sym Hname
        | apply sym_segment_vram_end; seg_sym Hname
        | apply sym_segment_vram_size; seg_sym Hname
        | apply outsec_name_plain; seg_sym Hname
        | progress cbn [wf_expr]; first [apply andb_true_intro; split; seg_sym Hname | seg_sym Hname] ].

Lemma add_segment_ok rt st cfg classes seg ws o :
  escaped_dir_ok rt (base_path st) = true -> forallb class_valid classes = true ->
  segment_valid rt seg = true ->
  add_segment rt st cfg classes seg ws = Ok o -> wfl LSec (fst o) = true.
Proof.
  intros Hbp Hcl Hseg H. unfold add_segment in H.
  destruct (negb (should_emit rt (sg_conds seg))); [inversion H; reflexivity|].
  apply bind_ok in H. destruct H as [cls [Ecls H]].
  apply bind_ok in H. destruct H as [o1 [E1 H]]. apply bind_ok in H. destruct H as [o2 [E2 H]].
  pose proof (segment_valid_inv rt seg Hseg) as Hinv.
  destruct Hinv as (Hname & Halloc & Hnoload & _ & _ & _ & Hclass & _).
  set (sty := linker_symbols_style st) in *.
  assert (Hcls : wfl LSec (fst cls) = true).
  { destruct (sg_vram_class seg) as [cn|]; [|inversion Ecls; reflexivity].
    destruct (class_get classes cn) as [c|] eqn:Eg; [|discriminate Ecls].
    destruct (mem_str cn (ws_emitted ws)); inversion Ecls; subst; [reflexivity|]. cbn [fst].
    apply wfl_class_start; [|exact Hclass].
    exact (proj1 (forallb_forall _ _) Hcl c (proj1 (class_get_In _ _ _ Eg))). }
  pose proof (write_segment_ok rt st cfg Hbp seg Hseg _ _ _ _ Halloc E1) as H1.
  pose proof (write_segment_ok rt st cfg Hbp seg Hseg _ _ _ _ Hnoload E2) as H2.
  inversion H; subst; cbn [fst]. fold sty. wfl_split.
  rewrite Hcls, H1, H2, !wfl_seg_align by reflexivity.
  rewrite !wf_linker_symbol; try solve [seg_sym Hname].
  cbn [wf_stmt andb]. change (String "." (sg_name seg)) with ("." ++ sg_name seg).
  rewrite (outsec_name_plain _ Hname).
  destruct (sg_vram_class seg) as [cn|]; [|reflexivity]. cbn [opt_all] in Hclass. wfl_split.
  rewrite (wf_max_self LSec _ _ (sym_vram_class_end sty cn Hclass) (sym_segment_vram_end sty _ Hname)). reflexivity.
Qed.

Lemma add_segment_ok' rt st cfg classes seg ws o :
  escaped_dir_ok rt (base_path st) = true -> forallb class_valid classes = true ->
  (should_emit rt (sg_conds seg) = true -> segment_valid rt seg = true) ->
  add_segment rt st cfg classes seg ws = Ok o -> wfl LSec (fst o) = true.
Proof.
  intros Hbp Hcl Hseg H. destruct (should_emit rt (sg_conds seg)) eqn:E.
  - eapply add_segment_ok; [exact Hbp | exact Hcl | exact (Hseg eq_refl) | exact H].
  - unfold add_segment in H. rewrite E in H. cbn [negb] in H. inversion H. reflexivity.
Qed.

(* ---------- the beginning and the end of SECTIONS ---------- *)

Lemma wfl_hardcoded_gp lv st : wfl lv (hardcoded_gp_stmts st) = true.
Proof.
  unfold hardcoded_gp_stmts. destruct (hardcoded_gp_value st); [|reflexivity].
  cbn [wfl forallb wf_stmt orb wf_expr]. rewrite (symbol_lhs lv "_gp" gp_symbol). reflexivity.
Qed.

Lemma wfl_begin_sections st : wfl LSec (begin_sections_body st) = true.
Proof. unfold begin_sections_body. wfl_split. rewrite wfl_hardcoded_gp. reflexivity. Qed.

Lemma wfl_blank_if lv b : wfl lv (blank_if b) = true.
Proof. destruct b; reflexivity. Qed.

Lemma wfl_single_entries l : forallb is_secpat l = true -> wfl LSec (map SSingleEntry l) = true.
Proof.
  induction l as [|x l IH]; [reflexivity|]. cbn [forallb map]. intro H.
  apply andb_true_iff in H. destruct H as [Hx Hl]. rewrite wfl_cons, (IH Hl). cbn [wf_stmt is_sec]. rewrite Hx. reflexivity.
Qed.

Lemma wfl_flat_map {A} lv (f : A -> list stmt) l :
  (forall x, In x l -> wfl lv (f x) = true) -> wfl lv (flat_map f l) = true.
Proof.
  induction l as [|x l IH]; intro H; [reflexivity|]. cbn [flat_map]. rewrite wfl_app, (H x (or_introl eq_refl)).
  apply IH. intros y Hy. apply H. right. exact Hy.
Qed.

Lemma settings_valid_inv rt st :
  settings_valid rt st = true ->
  escaped_dir_ok rt (base_path st) = true /\ forallb is_secpat (sections_allowlist st) = true /\
  forallb is_secpat (sections_allowlist_extra st) = true /\ forallb is_secpat (sections_denylist st) = true.
Proof.
  unfold settings_valid. intro H. apply andb_true_iff in H. destruct H as [H H4].
  apply andb_true_iff in H. destruct H as [H H3]. apply andb_true_iff in H. destruct H as [H1 H2]. auto.
Qed.

Lemma wfl_end_sections rt st classes ws :
  settings_valid rt st = true -> forallb class_valid classes = true ->
  wfl LSec (end_sections_body st classes ws) = true.
Proof.
  intros Hst Hcl. destruct (settings_valid_inv rt st Hst) as (_ & Hallow & Hextra & Hdeny).
  unfold end_sections_body. cbv zeta. set (sty := linker_symbols_style st). wfl_split.
  apply andb_true_intro. split.
  - apply wfl_flat_map. intros cn Hcn. destruct (mem_str cn (ws_emitted ws)); [|reflexivity].
    destruct (class_names_In _ _ _ Hcn) as [c [Hc Ec]].
    pose proof (proj1 (forallb_forall _ _) Hcl c Hc) as Hv. destruct (class_valid_inv c Hv) as (Hn & _).
    rewrite Ec in Hn. cbn [wfl forallb]. rewrite wf_linker_symbol; [reflexivity | apply sym_vram_class_size; exact Hn|].
    cbn [wf_expr]. rewrite (sym_vram_class_end sty cn Hn), (sym_vram_class_start sty cn Hn). reflexivity.
  - apply andb_true_intro. split; [|apply andb_true_intro; split].
    + destruct (nonempty (sections_allowlist st)); [|reflexivity].
      rewrite wfl_app, wfl_blank_if, (wfl_single_entries _ Hallow). reflexivity.
    + destruct (nonempty (sections_allowlist_extra st)); [|reflexivity].
      rewrite wfl_app, wfl_blank_if, (wfl_single_entries _ Hextra). reflexivity.
    + destruct (discard_wildcard_section st || nonempty (sections_denylist st)); [|reflexivity].
      rewrite wfl_app, wfl_blank_if. cbn [wfl forallb wf_stmt is_sec andb]. rewrite Hdeny. reflexivity.
Qed.

Lemma add_single_segment_ok rt st cfg classes seg ws o :
  settings_valid rt st = true -> forallb class_valid classes = true -> segment_valid rt seg = true ->
  add_single_segment rt st cfg classes seg ws = Ok o -> wfl LTop (fst o) = true.
Proof.
  intros Hst Hcl Hseg H. destruct (settings_valid_inv rt st Hst) as (Hbp & _).
  pose proof (segment_valid_inv rt seg Hseg) as Hinv. destruct Hinv as (_ & Halloc & Hnoload & _).
  unfold add_single_segment in H.
  apply bind_ok in H. destruct H as [o1 [E1 H]]. apply bind_ok in H. destruct H as [o2 [E2 H]].
  pose proof (write_single_segment_ok rt st cfg Hbp seg Hseg _ _ _ _ Halloc E1) as H1.
  pose proof (write_single_segment_ok rt st cfg Hbp seg Hseg _ _ _ _ Hnoload E2) as H2.
  inversion H; subst; cbn [fst]. rewrite wfl_cons, wfl_nil. cbn [wf_stmt is_top andb]. rewrite andb_true_r.
  match goal with |- forallb (wf_stmt LSec) ?b = true => change (wfl LSec b = true) end.
  wfl_split. rewrite H1, H2, (wfl_end_sections rt st classes _ Hst Hcl).
  apply andb_true_intro. split; [|apply andb_true_intro; split; [|reflexivity]].
  - destruct (section_syms cfg); [|reflexivity]. pose proof (wfl_hardcoded_gp LSec st) as Hg.
    destruct (hardcoded_gp_stmts st) as [|s0 l0]; [reflexivity|]. rewrite wfl_cons in Hg |- *.
    apply andb_true_iff in Hg. destruct Hg as [Ha Hb]. rewrite wfl_app, Ha, Hb. reflexivity.
  - destruct (sg_fixed_vram seg); reflexivity.
Qed.

(* ---------- what follows SECTIONS ---------- *)

Lemma wfl_tail rt d : tail_valid rt d = true -> wfl LTop (tail_stmts rt d) = true.
Proof.
  unfold tail_valid. intro H. apply andb_true_iff in H. destruct H as [H Hasserts].
  apply andb_true_iff in H. destruct H as [H Hreq]. apply andb_true_iff in H. destruct H as [Hentry Hassign].
  unfold tail_stmts. wfl_split. bsplit.
  - unfold entry_stmts. destruct (doc_entry d) as [e|]; [|reflexivity]. cbn [opt_all] in Hentry.
    cbn [wfl forallb wf_stmt is_top andb]. rewrite Hentry. reflexivity.
  - unfold assignment_stmts. destruct (doc_symbol_assignments d) as [|a l] eqn:E; [reflexivity|].
    rewrite <- E in *. rewrite wfl_cons. cbn [wf_stmt andb]. apply wfl_flat_map. intros x Hx.
    pose proof (proj1 (forallb_forall _ _) Hassign x Hx) as Hv. cbv beta in Hv.
    destruct (should_emit rt (sa_conds x)); [|reflexivity]. cbn [negb orb] in Hv.
    apply andb_true_iff in Hv. destruct Hv as [Hn Hval].
    cbn [wfl forallb wf_stmt wf_expr]. rewrite Hn, Hval, (symbol_lhs LTop _ Hn).
    destruct (sa_provide x || sa_hidden x); reflexivity.
  - unfold required_stmts. destruct (doc_required_symbols d) as [|a l] eqn:E; [reflexivity|].
    rewrite <- E in *. rewrite wfl_cons. cbn [wf_stmt andb]. apply wfl_flat_map. intros x Hx.
    pose proof (proj1 (forallb_forall _ _) Hreq x Hx) as Hv. cbv beta in Hv.
    destruct (should_emit rt (rq_conds x)); [|reflexivity]. cbn [negb orb] in Hv.
    cbn [wfl forallb wf_stmt is_top andb]. rewrite Hv, (safe_defined _ Hv).
    unfold required_msg. change (msg_ok ("Required symbol '" ++ rq_name x ++ "' was not linked"))
      with (str_all msg_char ("Required symbol '" ++ rq_name x ++ "' was not linked")).
    rewrite !str_all_app.
    rewrite (str_all_impl _ _ _ quiet_msg (is_symbol_quiet _ Hv)). reflexivity.
  - unfold assert_stmts. destruct (doc_asserts d) as [|a l] eqn:E; [reflexivity|].
    rewrite <- E in *. rewrite wfl_cons. cbn [wf_stmt andb]. apply wfl_flat_map. intros x Hx.
    pose proof (proj1 (forallb_forall _ _) Hasserts x Hx) as Hv. cbv beta in Hv.
    destruct (should_emit rt (ae_conds x)); [|reflexivity]. cbn [negb orb] in Hv.
    apply andb_true_iff in Hv. destruct Hv as [Hc Hm].
    cbn [wfl forallb wf_stmt is_top andb]. rewrite Hc, Hm. reflexivity.
Qed.

Lemma wfl_version rt : wfl LTop (version_stmts rt) = true.
Proof. unfold version_stmts. destruct (rt_emit_version_comment rt); reflexivity. Qed.

(* ---------- the whole scripts ---------- *)

Lemma doc_valid_inv considered d rt :
  doc_names_valid_for considered d rt = true ->
  settings_valid rt (doc_settings d) = true /\ forallb class_valid (doc_vram_classes d) = true /\
  (forall seg, In seg (doc_segments d) -> considered seg = true -> segment_valid rt seg = true) /\
  tail_valid rt d = true.
Proof.
  unfold doc_names_valid_for. intro H. apply andb_true_iff in H. destruct H as [H Ht].
  apply andb_true_iff in H. destruct H as [H Hs]. apply andb_true_iff in H. destruct H as [Hst Hc].
  repeat split; try assumption. intros seg Hin Hcons.
  pose proof (proj1 (forallb_forall _ _) Hs seg Hin) as Hv. cbv beta in Hv. rewrite Hcons in Hv. exact Hv.
Qed.

Lemma add_all_segments_ok rt st cfg classes segs ws o :
  settings_valid rt st = true -> forallb class_valid classes = true ->
  (forall seg, In seg segs -> (single_segment_mode st || should_emit rt (sg_conds seg)) = true ->
               segment_valid rt seg = true) ->
  add_all_segments rt st cfg classes segs ws = Ok o -> wfl LTop (fst o) = true.
Proof.
  intros Hst Hcl Hsegs H. destruct (settings_valid_inv rt st Hst) as (Hbp & _).
  unfold add_all_segments in H. destruct (single_segment_mode st) eqn:Es.
  - destruct segs as [|seg [|s2 r]]; try discriminate H.
    eapply add_single_segment_ok; [exact Hst | exact Hcl | | exact H]. apply Hsegs; [left; reflexivity | reflexivity].
  - apply bind_ok in H. destruct H as [o1 [E1 H]]. inversion H; subst; cbn [fst].
    rewrite wfl_cons, wfl_nil. cbn [wf_stmt is_top andb]. rewrite andb_true_r.
    match goal with |- forallb (wf_stmt LSec) ?b = true => change (wfl LSec b = true) end.
    assert (Ho1 : wfl LSec (fst o1) = true).
    { eapply fold_out_wfl; [|exact E1]. intros seg ws1 o2 Hin Hadd.
      eapply add_segment_ok'; [exact Hbp | exact Hcl | | exact Hadd]. intro E. apply Hsegs; [exact Hin|].
      cbn [orb]. exact E. }
    wfl_split. rewrite wfl_hardcoded_gp, Ho1, (wfl_end_sections rt st classes _ Hst Hcl). reflexivity.
Qed.

Lemma gen_normal_wf d rt w :
  gen_normal d rt = Ok w -> doc_names_valid d rt = true -> wf_script (wo_script w) = true.
Proof.
  intros H Hv. unfold doc_names_valid in Hv. destruct (doc_valid_inv _ d rt Hv) as (Hst & Hcl & Hsegs & Ht).
  unfold gen_normal in H. apply bind_ok in H. destruct H as [o [E H]]. inversion H; subst; cbn [wo_script].
  change (wfl LTop (version_stmts rt ++ fst o ++ tail_stmts rt d) = true). wfl_split.
  rewrite wfl_version, (wfl_tail rt d Ht).
  rewrite (add_all_segments_ok rt (doc_settings d) cfg_normal (doc_vram_classes d) (doc_segments d) ws0 o Hst Hcl Hsegs E).
  reflexivity.
Qed.

Lemma gen_normal_lines d rt w :
  gen_normal d rt = Ok w -> doc_names_valid d rt = true -> wf_lines (render (wo_script w)) = true.
Proof. intros H Hv. apply wf_script_lines. eapply gen_normal_wf; eassumption. Qed.

(* ---------- the partial scripts ---------- *)

Definition subs_wf (l : list (string * writer_out)) : Prop :=
  Forall (fun x => wf_script (wo_script (snd x)) = true) l.

Lemma clone_valid rt seg p :
  segment_valid rt seg = true -> escaped_file_ok rt p = true ->
  segment_valid rt (clone_with_new_files seg [new_object p]) = true.
Proof.
  intros Hseg Hp. pose proof (segment_valid_inv rt seg Hseg) as Hinv.
  destruct Hinv as (H1 & H2 & H3 & H4 & H5 & H6 & H7 & H8 & _).
  unfold segment_valid, segment_names_valid.
  cbn [clone_with_new_files sg_name alloc_sections noload_sections sections_subgroups sg_fixed_symbol
       sg_follows_segment sg_vram_class sg_dir sg_files].
  rewrite H1, H2, H3, H4, H5, H6, H7, H8. cbn [andb forallb]. rewrite file_valid_eq.
  cbn [new_object fi_conds fi_section_order fi_kind fi_path forallb andb]. rewrite Hp, orb_true_r. reflexivity.
Qed.

Lemma partial_segment_ok d rt folder seg acc o :
  partial_build_segments_folder (doc_settings d) = Some folder ->
  settings_valid rt (doc_settings d) = true -> forallb class_valid (doc_vram_classes d) = true ->
  (should_emit rt (sg_conds seg) = true -> segment_valid rt seg = true /\ partial_object_ok d rt seg = true) ->
  partial_segment d rt folder seg acc = Ok o ->
  wfl LSec (fst o) = true /\ (subs_wf (snd acc) -> subs_wf (snd (snd o))).
Proof.
  intros Hf Hst Hcl Hseg H. destruct (settings_valid_inv rt _ Hst) as (Hbp & _).
  unfold partial_segment in H. cbv zeta in H.
  destruct (should_emit rt (sg_conds seg)) eqn:E; cbn [negb] in H; [|inversion H; subst; split; [reflexivity | auto]].
  destruct (Hseg eq_refl) as [Hv Hobj]. unfold partial_object_ok in Hobj. rewrite Hf in Hobj.
  apply bind_ok in H. destruct H as [sub [Esub H]]. apply bind_ok in H. destruct H as [o1 [E1 H]].
  inversion H; subst; cbn [fst snd]. split.
  - eapply add_segment_ok; [exact Hbp | exact Hcl | | exact E1]. apply clone_valid; assumption.
  - intro Hacc. apply Forall_app. split; [exact Hacc|]. constructor; [|constructor]. cbn [snd wo_script].
    change (wfl LTop (version_stmts rt ++ fst sub) = true). rewrite wfl_app, wfl_version.
    exact (add_single_segment_ok rt _ _ _ seg ws0 sub Hst Hcl Hv Esub).
Qed.

Lemma partial_segments_ok d rt folder segs : forall acc o,
  partial_build_segments_folder (doc_settings d) = Some folder ->
  settings_valid rt (doc_settings d) = true -> forallb class_valid (doc_vram_classes d) = true ->
  (forall seg, In seg segs -> should_emit rt (sg_conds seg) = true ->
               segment_valid rt seg = true /\ partial_object_ok d rt seg = true) ->
  partial_segments d rt folder segs acc = Ok o ->
  wfl LSec (fst o) = true /\ (subs_wf (snd acc) -> subs_wf (snd (snd o))).
Proof.
  induction segs as [|s r IH]; intros acc o Hf Hst Hcl Hsegs H; cbn [partial_segments] in H.
  - inversion H; subst. split; [reflexivity | auto].
  - apply bind_ok in H. destruct H as [o1 [E1 H]]. apply bind_ok in H. destruct H as [o2 [E2 H]].
    inversion H; subst; cbn [fst snd].
    destruct (partial_segment_ok d rt folder s acc o1 Hf Hst Hcl (Hsegs s (or_introl eq_refl)) E1) as [A1 B1].
    destruct (IH (snd o1) o2 Hf Hst Hcl (fun seg Hin => Hsegs seg (or_intror Hin)) E2) as [A2 B2].
    split; [rewrite wfl_app, A1, A2; reflexivity | auto].
Qed.

Lemma gen_partial_wf d rt p :
  gen_partial d rt = Ok p -> doc_names_valid_partial d rt = true ->
  wf_script (wo_script (po_main p)) = true /\ subs_wf (po_subs p).
Proof.
  intros H Hv. unfold doc_names_valid_partial in Hv. apply andb_true_iff in Hv. destruct Hv as [Hv Hobj].
  destruct (doc_valid_inv _ d rt Hv) as (Hst & Hcl & Hsegs & Ht).
  unfold gen_partial in H. cbv zeta in H.
  destruct (partial_build_segments_folder (doc_settings d)) as [folder|] eqn:Ef; [|discriminate H].
  apply bind_ok in H. destruct H as [o [E H]]. inversion H; subst; cbn [po_main po_subs wo_script].
  assert (Hall : forall seg, In seg (doc_segments d) -> should_emit rt (sg_conds seg) = true ->
                             segment_valid rt seg = true /\ partial_object_ok d rt seg = true).
  { intros seg Hin Hemit. split; [apply Hsegs; assumption|].
    pose proof (proj1 (forallb_forall _ _) Hobj seg Hin) as Ho. cbv beta in Ho. rewrite Hemit in Ho. exact Ho. }
  destruct (partial_segments_ok d rt folder (doc_segments d) (ws0, []) o Ef Hst Hcl Hall E) as [A B].
  split; [|apply B; constructor].
  change (wfl LTop (version_stmts rt ++
                    [SSections (begin_sections_body (doc_settings d) ++ fst o ++
                                end_sections_body (doc_settings d) (doc_vram_classes d) (fst (snd o)))] ++
                    tail_stmts rt d) = true).
  wfl_split. rewrite wfl_version, (wfl_tail rt d Ht). cbn [wf_stmt is_top andb]. rewrite ?andb_true_r.
  match goal with |- forallb (wf_stmt LSec) ?b = true => change (wfl LSec b = true) end.
  wfl_split. rewrite wfl_begin_sections, A, (wfl_end_sections rt _ _ _ Hst Hcl). reflexivity.
Qed.

Lemma gen_partial_lines d rt p :
  gen_partial d rt = Ok p -> doc_names_valid_partial d rt = true ->
  wf_lines (render (wo_script (po_main p))) = true /\
  Forall (fun x => wf_lines (render (wo_script (snd x))) = true) (po_subs p).
Proof.
  intros H Hv. destruct (gen_partial_wf d rt p H Hv) as [A B]. split; [apply wf_script_lines; exact A|].
  eapply Forall_impl; [|exact B]. intros x Hx. apply wf_script_lines. exact Hx.
Qed.

(* ====================================================================== *)
(* I. a sufficient condition on the paths as written                       *)
(* ====================================================================== *)

(* a path of the grammar has no brace: no option is substituted and the path is kept *)

Lemma contains_char_all P x s : str_all P s = true -> P x = false -> contains_char x s = false.
Proof.
  intros Hs Hx. induction s as [|c s IH]; [reflexivity|]. cbn [str_all] in Hs.
  apply andb_true_iff in Hs. destruct Hs as [Hc Hs]. cbn [contains_char].
  destruct (Ascii.eqb x c) eqn:E; [apply Ascii.eqb_eq in E; subst; congruence | apply IH; exact Hs].
Qed.

Lemma starts_contains x s : starts_with_char x s = true -> contains_char x s = true.
Proof. destruct s as [|c s]; [discriminate|]. cbn [starts_with_char contains_char]. intro H. rewrite H. reflexivity. Qed.

Lemma escape_component_plain rt orig c : str_all path_char c = true -> escape_component rt orig c = Ok c.
Proof.
  intro H. unfold escape_component.
  pose proof (contains_char_all path_char "{"%char c H eq_refl) as Hb.
  destruct (starts_with_char "{" c) eqn:Es; [apply starts_contains in Es; congruence|].
  cbn [andb]. rewrite Hb. reflexivity.
Qed.

Lemma escape_components_plain rt orig l : forall acc,
  all_str path_char l -> str_all path_char acc = true ->
  exists r, escape_components rt orig l acc = Ok r /\ str_all path_char r = true /\
            (is_empty acc = false -> is_empty r = false).
Proof.
  induction l as [|c l IH]; intros acc Hl Hacc; cbn [escape_components].
  - exists acc. auto.
  - inversion Hl; subst. rewrite (escape_component_plain rt orig c H1). cbn [bind].
    destruct (IH (push acc c) H2 (push_all path_char acc c slash_path Hacc H1)) as [r [Er [Hr Hne]]].
    exists r. split; [exact Er|]. split; [exact Hr|]. intro Ha. apply Hne.
    unfold push. destruct (is_absolute c) eqn:Ec; [destruct c; [discriminate Ec | reflexivity]|].
    rewrite Ha. destruct (ends_with_char "/" acc); apply is_empty_app_l; exact Ha.
Qed.

Lemma plain_dir_ok rt p : str_all path_char p = true -> escaped_dir_ok rt p = true.
Proof.
  intro H. unfold escaped_dir_ok, escape_path.
  destruct (escape_components_plain rt p (components p) "" (components_all path_char p slash_path H) eq_refl)
    as [r [Er [Hr _]]].
  rewrite Er. exact Hr.
Qed.

Lemma plain_file_ok rt p : is_path p = true -> escaped_file_ok rt p = true.
Proof.
  intro Hp. unfold is_path in Hp. apply andb_true_iff in Hp. destruct Hp as [Hne H].
  apply negb_true_iff in Hne. unfold escaped_file_ok, escape_path.
  pose proof (components_all path_char p slash_path H) as Hc.
  (* the first component is not empty *)
  assert (Hhead : exists c l, components p = c :: l /\ is_empty c = false).
  { unfold components. destruct p as [|d p']; [discriminate Hne|].
    unfold is_absolute, starts_with_char. destruct (Ascii.eqb "/" d) eqn:E.
    - eexists. eexists. split; reflexivity.
    - unfold split_on. cbn [split_on_aux]. rewrite E.
      destruct (split_on_aux_head "/" p' ("" ++ String d "")) as [h [t Ht]]. rewrite Ht.
      cbn [append is_empty app]. eexists. eexists. split; reflexivity. }
  destruct Hhead as [c [l [Ec Hcne]]]. rewrite Ec in *. inversion Hc; subst.
  cbn [escape_components]. rewrite (escape_component_plain rt p c H2). cbn [bind].
  assert (Hpush : push "" c = c) by (unfold push; destruct (is_absolute c); reflexivity).
  rewrite Hpush.
  destruct (escape_components_plain rt p l c H3 H2) as [r [Er [Hr Hn]]]. rewrite Er.
  unfold is_path. rewrite (Hn Hcne), Hr. reflexivity.
Qed.
