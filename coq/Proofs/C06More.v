(* C06, remaining clauses: an excluded file entry (a group with its whole subtree included) leaves no
   trace, and custom options that no condition and no path mentions change no output. *)
From Slinky Require Import Model.Types Model.Parse Model.Runtime Model.Style Model.Script Model.Writer
  Model.Exports.
From Slinky Require Import Spec.C06 Proofs.C06 Spec.C14 Proofs.C14 Spec.C15 Proofs.C15 Spec.C19 Proofs.C19.
From Coq Require Import Lia.

(* ====================================================================== *)
(* Part 1: an excluded entry emits nothing                                 *)
(* ====================================================================== *)

(* the action changed nothing, or failed with an error in [P] *)
Definition nothing_or (P : err -> Prop) (r : res out) (ws : wstate) : Prop :=
  r = Ok ([], ws) \/ exists e, r = Err e /\ P e.

Lemma fold_out_nothing {A} P (f : A -> wstate -> res out) l :
  (forall x ws, In x l -> nothing_or P (f x ws) ws) -> forall ws, nothing_or P (fold_out f l ws) ws.
Proof.
  induction l as [|x r IH]; intros H ws; cbn [fold_out]; [left; reflexivity|].
  destruct (H x ws (or_introl eq_refl)) as [E|[e [E He]]]; rewrite E; cbn [bind fst snd].
  - destruct (IH (fun y ws' Hy => H y ws' (or_intror Hy)) ws) as [E2|[e [E2 He]]]; rewrite E2; cbn [bind fst snd].
    + left; reflexivity.
    + right. exists e. auto.
  - right. exists e. auto.
Qed.

(* walking the sub-group chain of an excluded entry can still meet a cycle (or, below the top-level
   fuel, the recursion bound); nothing else can go wrong: no path is escaped *)
Definition chain_error (seg : segment) (e : err) : Prop :=
  (exists s, e = ESubgroupCycle (sg_name seg) s) \/ (exists w, e = ECrash w).

Lemma emit_file_of_excluded rt sty cfg seg sections f base k ws :
  should_emit rt (fi_conds f) = false -> emit_file_of rt sty cfg seg sections f base k ws = Ok ([], ws).
Proof. intro H. unfold emit_file_of. rewrite H. reflexivity. Qed.

Lemma excluded_chain rt sty cfg seg sections f :
  should_emit rt (fi_conds f) = false ->
  forall n stack section base ws,
    nothing_or (chain_error seg) (emit_sff rt sty cfg seg sections f n stack section base ws) ws.
Proof.
  intro Hex. induction n as [|n IHn]; intros stack section base ws.
  - rewrite emit_sff_O. right. eexists. split; [reflexivity|]. right. eexists. reflexivity.
  - rewrite emit_sff_S. destruct (mem_str section stack).
    { right. eexists. split; [reflexivity|]. left. eexists. reflexivity. }
    apply fold_out_nothing. intros k ws0 _.
    rewrite (emit_file_of_excluded _ _ _ _ _ _ _ _ _ Hex). cbn [bind fst snd].
    destruct (reference_partial cfg); [left; reflexivity|].
    destruct (lookup k (subgroups_for seg f)) as [others|]; [|left; reflexivity].
    destruct (fold_out_nothing (chain_error seg)
                (fun other ws => emit_sff rt sty cfg seg sections f n (section :: stack) other base ws)
                others (fun other ws' _ => IHn (section :: stack) other base ws') ws0)
      as [E|[e [E He]]]; rewrite E; cbn [bind fst snd].
    + left; reflexivity.
    + right. exists e. auto.
Qed.

(* with the fuel every chain starts with, the recursion bound is out of the picture *)
Lemma excluded_top rt sty cfg seg sections f section base ws :
  should_emit rt (fi_conds f) = false ->
  emit_sff rt sty cfg seg sections f (chain_fuel seg) [] section base ws = Ok ([], ws) \/
  exists s, emit_sff rt sty cfg seg sections f (chain_fuel seg) [] section base ws =
            Err (ESubgroupCycle (sg_name seg) s).
Proof.
  intro Hex. destruct (excluded_chain rt sty cfg seg sections f Hex (chain_fuel seg) [] section base ws)
    as [E|[e [E [[s He]|[w He]]]]].
  - left. exact E.
  - right. exists s. subst e. exact E.
  - exfalso. subst e. exact (fuel_sufficient rt sty cfg seg sections f section base ws w E).
Qed.

(* in particular a `{key}` without a value in the path or dir of an excluded entry, or of anything
   below an excluded group, is not an error *)
Lemma excluded_no_option_error rt sty cfg seg sections f n stack section base ws path key :
  should_emit rt (fi_conds f) = false ->
  emit_sff rt sty cfg seg sections f n stack section base ws <> Err (ECustomOptionNotProvided path key).
Proof.
  intros Hex E.
  destruct (excluded_chain rt sty cfg seg sections f Hex n stack section base ws)
    as [E'|[e [E' [[s He]|[w He]]]]]; rewrite E in E'; try discriminate;
    inversion E'; subst; discriminate.
Qed.

(* when the sub-group graph has no cycle error to give, nothing at all *)
Lemma excluded_ok rt sty cfg seg sections f section base ws o :
  should_emit rt (fi_conds f) = false ->
  emit_sff rt sty cfg seg sections f (chain_fuel seg) [] section base ws = Ok o -> o = ([], ws).
Proof.
  intros Hex H. destruct (excluded_top rt sty cfg seg sections f section base ws Hex) as [E|[s E]];
    rewrite E in H; [inversion H; reflexivity | discriminate].
Qed.

(* ====================================================================== *)
(* Part 2: deleting excluded entries at any depth                          *)
(* ====================================================================== *)

Definition with_files (f : file_info) (files : list file_info) : file_info :=
  FileInfo (fi_path f) (fi_kind f) (fi_subfile f) (fi_pad_amount f) (fi_section f)
           (fi_linker_offset_name f) (fi_section_order f) files (fi_dir f) (fi_conds f) (fi_keep f).

(* [prune rt l l']: [l'] is [l] with any number of excluded entries deleted, at any depth *)
Inductive prune (rt : runtime) : list file_info -> list file_info -> Prop :=
| prune_nil : prune rt [] []
| prune_skip f l l' : should_emit rt (fi_conds f) = false -> prune rt l l' -> prune rt (f :: l) l'
| prune_keep f l l' : prune rt l l' -> prune rt (f :: l) (f :: l')
| prune_group f kids' l l' :
    fi_kind f = KGroup -> prune rt (fi_files f) kids' -> prune rt l l' ->
    prune rt (f :: l) (with_files f kids' :: l').

(* success of the first implies the same success of the second *)
Definition refines {A} (r1 r2 : res A) : Prop := forall o, r1 = Ok o -> r2 = Ok o.

Lemma refines_refl {A} (r : res A) : refines r r.
Proof. intros o H. exact H. Qed.

Lemma refines_eq {A} (r1 r2 : res A) : r1 = r2 -> refines r1 r2.
Proof. intros E o H. rewrite <- E. exact H. Qed.

Lemma refines_bind {A B} (r1 r2 : res A) (f1 f2 : A -> res B) :
  refines r1 r2 -> (forall a, refines (f1 a) (f2 a)) -> refines (bind r1 f1) (bind r2 f2).
Proof.
  intros Hr Hf o H. destruct r1 as [a|e]; [|discriminate]. rewrite (Hr a eq_refl). cbn [bind] in *.
  apply Hf. exact H.
Qed.

Lemma refines_trans {A} (r1 r2 r3 : res A) : refines r1 r2 -> refines r2 r3 -> refines r1 r3.
Proof. intros H1 H2 o H. apply H2, H1, H. Qed.

Lemma fold_out_refines {A} (f g : A -> wstate -> res out) l :
  (forall x ws, In x l -> refines (f x ws) (g x ws)) ->
  forall ws, refines (fold_out f l ws) (fold_out g l ws).
Proof.
  induction l as [|x r IH]; intros H ws; cbn [fold_out]; [apply refines_refl|].
  apply refines_bind; [apply H; left; reflexivity|]. intro o1.
  apply refines_bind; [apply IH; intros y ws' Hy; apply H; right; exact Hy|]. intro o2. apply refines_refl.
Qed.

Section Prune.
  Variable rt : runtime.
  Variable sty : style.
  Variable cfg : wcfg.
  Variable seg : segment.
  Variable sections : list string.

  Definition emit_top (section base : string) (f : file_info) (ws : wstate) : res out :=
    emit_sff rt sty cfg seg sections f (chain_fuel seg) [] section base ws.

  (* replacing the entries of a group by a list that generates the same *)
  Lemma emit_sff_with_files f kids' :
    (forall section base ws,
        refines (fold_out (emit_top section base) (fi_files f) ws)
                (fold_out (emit_top section base) kids' ws)) ->
    forall n stack section base ws,
      refines (emit_sff rt sty cfg seg sections f n stack section base ws)
              (emit_sff rt sty cfg seg sections (with_files f kids') n stack section base ws).
  Proof.
    intro Hkids. induction n as [|n IHn]; intros stack section base ws.
    - rewrite !emit_sff_O. apply refines_refl.
    - rewrite !emit_sff_S. destruct (mem_str section stack); [apply refines_refl|].
      assert (Hh : sections_here (with_files f kids') section sections = sections_here f section sections)
        by (destruct f; reflexivity).
      rewrite Hh. apply fold_out_refines. intros k ws0 _.
      apply refines_bind.
      + unfold emit_file_of.
        change (fi_conds (with_files f kids')) with (fi_conds f).
        change (fi_kind (with_files f kids')) with (fi_kind f).
        change (fi_path (with_files f kids')) with (fi_path f).
        change (fi_keep (with_files f kids')) with (fi_keep f).
        change (fi_subfile (with_files f kids')) with (fi_subfile f).
        change (fi_section (with_files f kids')) with (fi_section f).
        change (fi_pad_amount (with_files f kids')) with (fi_pad_amount f).
        change (fi_linker_offset_name (with_files f kids')) with (fi_linker_offset_name f).
        change (fi_dir (with_files f kids')) with (fi_dir f).
        change (fi_files (with_files f kids')) with kids'.
        destruct (negb (should_emit rt (fi_conds f))); [apply refines_refl|].
        destruct (fi_kind f); try apply refines_refl.
        apply refines_bind; [apply refines_refl|]. intro d. apply Hkids.
      + intro o1. apply refines_bind; [|intro; apply refines_refl].
        destruct (reference_partial cfg); [apply refines_refl|].
        change (subgroups_for seg (with_files f kids')) with (subgroups_for seg f).
        destruct (lookup k (subgroups_for seg f)) as [others|]; [|apply refines_refl].
        apply fold_out_refines. intros other ws1 _. apply IHn.
  Qed.

  (* if the list generates, the pruned list generates the same statements and records the same
     paths *)
  Lemma prune_fold l l' :
    prune rt l l' ->
    forall section base ws,
      refines (fold_out (emit_top section base) l ws) (fold_out (emit_top section base) l' ws).
  Proof.
    induction 1 as [| f l l' Hex Hp IH | f l l' Hp IH | f kids' l l' Hk Hpk IHk Hp IH];
      intros section base ws.
    - apply refines_refl.
    - intros o H. cbn [fold_out] in H. apply bind_ok in H. destruct H as [o1 [E1 H]].
      apply (excluded_ok rt sty cfg seg sections f section base ws o1 Hex) in E1. subst o1.
      cbn [fst snd] in H. apply bind_ok in H. destruct H as [o2 [E2 H]].
      cbn [app] in H. inversion H; subst o. apply IH. rewrite E2. destruct o2; reflexivity.
    - cbn [fold_out]. apply refines_bind; [apply refines_refl|]. intro o1.
      apply refines_bind; [apply IH|]. intro; apply refines_refl.
    - cbn [fold_out]. apply refines_bind; [apply emit_sff_with_files; exact IHk|]. intro o1.
      apply refines_bind; [apply IH|]. intro; apply refines_refl.
  Qed.
End Prune.

(* ---------- segments that differ only by pruned files ---------- *)

Definition seg_prune (rt : runtime) (s1 s2 : segment) : Prop :=
  exists fl, prune rt (sg_files s1) fl /\ s2 = clone_with_new_files s1 fl.

Section PruneSegments.
  Variable rt : runtime.

  Lemma emit_section_prune sty cfg seg fl sections base_path section ws :
    prune rt (sg_files seg) fl ->
    refines (emit_section rt sty cfg seg sections base_path section ws)
            (emit_section rt sty cfg (clone_with_new_files seg fl) sections base_path section ws).
  Proof.
    intro Hp. unfold emit_section.
    change (sg_dir (clone_with_new_files seg fl)) with (sg_dir seg).
    change (sg_files (clone_with_new_files seg fl)) with fl.
    apply refines_bind; [apply refines_refl|]. intro b0.
    apply refines_bind; [apply refines_refl|]. intro b.
    eapply refines_trans; [apply (prune_fold rt sty cfg seg sections _ _ Hp section b ws)|].
    apply refines_eq. apply fold_out_ext. intros f ws1 _. unfold emit_top.
    rewrite emit_sff_clone.
    change (chain_fuel (clone_with_new_files seg fl)) with (chain_fuel seg). reflexivity.
  Qed.

  Section Segs.
    Variable st : settings.
    Variable cfg : wcfg.

    Lemma part_groups_prune seg fl sections rest :
      prune rt (sg_files seg) fl ->
      forall ws, refines (part_groups rt st cfg seg sections rest ws)
                         (part_groups rt st cfg (clone_with_new_files seg fl) sections rest ws).
    Proof.
      intro Hp. induction rest as [|section rest' IH]; intro ws; cbn [part_groups]; [apply refines_refl|].
      apply refines_bind; [apply emit_section_prune; exact Hp|]. intro o1.
      apply refines_bind; [apply IH|]. intro o2. destruct seg. apply refines_refl.
    Qed.

    Lemma write_segment_prune seg fl sections noload ws :
      prune rt (sg_files seg) fl ->
      refines (write_segment rt st cfg seg sections noload ws)
              (write_segment rt st cfg (clone_with_new_files seg fl) sections noload ws).
    Proof.
      intro Hp. unfold write_segment. apply refines_bind; [apply part_groups_prune; exact Hp|].
      intro o. destruct seg. apply refines_refl.
    Qed.

    Lemma single_groups_prune seg fl sections noload rest :
      prune rt (sg_files seg) fl ->
      forall ws, refines (single_groups rt st cfg seg sections noload rest ws)
                         (single_groups rt st cfg (clone_with_new_files seg fl) sections noload rest ws).
    Proof.
      intro Hp. induction rest as [|section rest' IH]; intro ws; cbn [single_groups]; [apply refines_refl|].
      apply refines_bind; [apply emit_section_prune; exact Hp|]. intro o1.
      apply refines_bind; [apply IH|]. intro o2. destruct seg. apply refines_refl.
    Qed.

    Lemma write_single_segment_prune seg fl sections noload ws :
      prune rt (sg_files seg) fl ->
      refines (write_single_segment rt st cfg seg sections noload ws)
              (write_single_segment rt st cfg (clone_with_new_files seg fl) sections noload ws).
    Proof.
      intro Hp. unfold write_single_segment. apply refines_bind; [apply single_groups_prune; exact Hp|].
      intro o. destruct seg. apply refines_refl.
    Qed.

    Variable classes : list vram_class.

    Lemma add_segment_prune seg fl ws :
      prune rt (sg_files seg) fl ->
      refines (add_segment rt st cfg classes seg ws)
              (add_segment rt st cfg classes (clone_with_new_files seg fl) ws).
    Proof.
      intro Hp. unfold add_segment.
      change (sg_conds (clone_with_new_files seg fl)) with (sg_conds seg).
      destruct (negb (should_emit rt (sg_conds seg))); [apply refines_refl|].
      change (sg_vram_class (clone_with_new_files seg fl)) with (sg_vram_class seg).
      change (sg_name (clone_with_new_files seg fl)) with (sg_name seg).
      change (alloc_sections (clone_with_new_files seg fl)) with (alloc_sections seg).
      change (noload_sections (clone_with_new_files seg fl)) with (noload_sections seg).
      apply refines_bind; [apply refines_refl|]. intro cls.
      apply refines_bind; [apply write_segment_prune; exact Hp|]. intro o1.
      apply refines_bind; [apply write_segment_prune; exact Hp|]. intro o2.
      destruct seg. apply refines_refl.
    Qed.

    Lemma add_single_segment_prune seg fl ws :
      prune rt (sg_files seg) fl ->
      refines (add_single_segment rt st cfg classes seg ws)
              (add_single_segment rt st cfg classes (clone_with_new_files seg fl) ws).
    Proof.
      intro Hp. unfold add_single_segment.
      change (alloc_sections (clone_with_new_files seg fl)) with (alloc_sections seg).
      change (noload_sections (clone_with_new_files seg fl)) with (noload_sections seg).
      apply refines_bind; [apply write_single_segment_prune; exact Hp|]. intro o1.
      apply refines_bind; [apply write_single_segment_prune; exact Hp|]. intro o2.
      destruct seg. apply refines_refl.
    Qed.

    Lemma fold_out_refines2 {A} (F : A -> wstate -> res out) l1 l2 :
      Forall2 (fun x y => forall ws, refines (F x ws) (F y ws)) l1 l2 ->
      forall ws, refines (fold_out F l1 ws) (fold_out F l2 ws).
    Proof.
      induction 1 as [|x y r1 r2 Hxy _ IH]; intro ws; cbn [fold_out]; [apply refines_refl|].
      apply refines_bind; [apply Hxy|]. intro o1.
      apply refines_bind; [apply IH|]. intro; apply refines_refl.
    Qed.

    Lemma add_all_segments_prune segs1 segs2 ws :
      Forall2 (seg_prune rt) segs1 segs2 ->
      refines (add_all_segments rt st cfg classes segs1 ws) (add_all_segments rt st cfg classes segs2 ws).
    Proof.
      intro H. unfold add_all_segments. rewrite <- (Forall2_len _ _ _ H).
      destruct (single_segment_mode st).
      - destruct H as [|s1 s2 r1 r2 [fl [Hp Hs]] Hr]; [apply refines_refl|].
        destruct Hr; [|apply refines_refl]. subst s2. apply add_single_segment_prune. exact Hp.
      - apply refines_bind; [|intro o; apply refines_refl].
        apply fold_out_refines2. eapply Forall2_impl; [|exact H].
        intros s1 s2 [fl [Hp Hs]] ws1. subst s2. apply add_segment_prune. exact Hp.
    Qed.
  End Segs.

  (* the whole ordinary script, and the paths recorded for the dependency file *)
  Lemma gen_normal_prune d segs2 :
    Forall2 (seg_prune rt) (doc_segments d) segs2 ->
    refines (gen_normal d rt) (gen_normal (with_segments d segs2) rt).
  Proof.
    intro H. unfold gen_normal, with_segments. cbn [doc_settings doc_vram_classes doc_segments].
    apply refines_bind; [apply add_all_segments_prune; exact H|]. intro o. apply refines_refl.
  Qed.

  Lemma partial_segment_prune d d' folder seg fl acc :
    doc_settings d' = doc_settings d -> doc_vram_classes d' = doc_vram_classes d ->
    prune rt (sg_files seg) fl ->
    refines (partial_segment d rt folder seg acc)
            (partial_segment d' rt folder (clone_with_new_files seg fl) acc).
  Proof.
    intros Hst Hcl Hp. unfold partial_segment. cbv zeta. rewrite Hst, Hcl.
    change (sg_conds (clone_with_new_files seg fl)) with (sg_conds seg).
    destruct (negb (should_emit rt (sg_conds seg))); [apply refines_refl|].
    apply refines_bind; [apply add_single_segment_prune; exact Hp|]. intro sub.
    change (sg_name (clone_with_new_files seg fl)) with (sg_name seg).
    assert (Hc : forall l, clone_with_new_files (clone_with_new_files seg fl) l = clone_with_new_files seg l)
      by (intro l; destruct seg; reflexivity).
    rewrite Hc. apply refines_refl.
  Qed.

  Lemma partial_segments_prune d d' folder segs1 segs2 :
    doc_settings d' = doc_settings d -> doc_vram_classes d' = doc_vram_classes d ->
    Forall2 (seg_prune rt) segs1 segs2 ->
    forall acc, refines (partial_segments d rt folder segs1 acc) (partial_segments d' rt folder segs2 acc).
  Proof.
    intros Hst Hcl H. induction H as [|s1 s2 r1 r2 [fl [Hp Hs]] _ IH]; intro acc; cbn [partial_segments];
      [apply refines_refl|].
    subst s2. apply refines_bind; [apply partial_segment_prune; assumption|]. intro o1.
    apply refines_bind; [apply IH|]. intro; apply refines_refl.
  Qed.

  Lemma gen_partial_prune d segs2 :
    Forall2 (seg_prune rt) (doc_segments d) segs2 ->
    refines (gen_partial d rt) (gen_partial (with_segments d segs2) rt).
  Proof.
    intro H. unfold gen_partial. cbv zeta.
    change (doc_settings (with_segments d segs2)) with (doc_settings d).
    destruct (partial_build_segments_folder (doc_settings d)) as [folder|]; [|apply refines_refl].
    change (doc_segments (with_segments d segs2)) with segs2.
    apply refines_bind;
      [apply (partial_segments_prune d (with_segments d segs2) folder _ _ eq_refl eq_refl H)|].
    intro o. apply refines_refl.
  Qed.
End PruneSegments.

Lemma prune_refl rt l : prune rt l l.
Proof. induction l; constructor; assumption. Qed.

Lemma seg_prune_refl rt s : seg_prune rt s s.
Proof. exists (sg_files s). split; [apply prune_refl | destruct s; reflexivity]. Qed.

(* ====================================================================== *)
(* Part 3: options that nothing mentions                                   *)
(* ====================================================================== *)

(* the keys that the scan of one path component can look up: the texts between a "{" and the next
   "}" (an unterminated "{..." is kept literally and looks nothing up) *)
Fixpoint scan_keys (s : string) (within : bool) (key : string) : list string :=
  match s with
  | EmptyString => []
  | String ch r =>
      if within then
        if Ascii.eqb ch "}" then key :: scan_keys r false ""
        else scan_keys r true (key ++ String ch "")%string
      else
        if Ascii.eqb ch "{" then scan_keys r true ""
        else scan_keys r false ""
  end.

(* a component that is "{...}" as a whole is looked up as one key *)
Definition component_keys (c : string) : list string :=
  (if andb (starts_with_char "{" c) (ends_with_char "}" c) then [inner_of c] else []) ++
  scan_keys c false "".

Definition path_keys (p : string) : list string := flat_map component_keys (components p).

Definition opt_path_keys (p : option string) : list string :=
  match p with Some p => path_keys p | None => [] end.

Definition conds_keys (c : conds) : list string :=
  map fst (exc_any c) ++ map fst (exc_all c) ++ map fst (inc_any c) ++ map fst (inc_all c).

Fixpoint file_keys (f : file_info) : list string :=
  conds_keys (fi_conds f) ++ path_keys (fi_path f) ++ path_keys (fi_dir f) ++
  (fix all (l : list file_info) : list string :=
     match l with [] => [] | c :: r => file_keys c ++ all r end) (fi_files f).

Definition gp_keys (g : option gp_info) : list string :=
  match g with Some g => conds_keys (gp_conds g) | None => [] end.

Definition segment_keys (seg : segment) : list string :=
  conds_keys (sg_conds seg) ++ path_keys (sg_dir seg) ++ gp_keys (sg_gp_info seg) ++
  flat_map file_keys (sg_files seg).

(* the object of a segment in a partial build: partial_build_segments_folder/<name>.o *)
Definition partial_object_keys (st : settings) (seg : segment) : list string :=
  match partial_build_segments_folder st with
  | Some folder => path_keys (push folder (sg_name seg ++ ".o")%string)
  | None => []
  end.

Definition settings_keys (st : settings) : list string :=
  path_keys (base_path st) ++ opt_path_keys (d_path st) ++ opt_path_keys (target_path st) ++
  opt_path_keys (symbols_header_path st) ++ opt_path_keys (partial_scripts_folder st) ++
  opt_path_keys (partial_build_segments_folder st).

(* every key that some condition or some path of the document mentions *)
Definition mentioned (d : document) : list string :=
  settings_keys (doc_settings d) ++
  flat_map segment_keys (doc_segments d) ++
  flat_map (partial_object_keys (doc_settings d)) (doc_segments d) ++
  flat_map (fun a => conds_keys (sa_conds a)) (doc_symbol_assignments d) ++
  flat_map (fun r => conds_keys (rq_conds r)) (doc_required_symbols d) ++
  flat_map (fun a => conds_keys (ae_conds a)) (doc_asserts d).

Lemma file_keys_eq f :
  file_keys f = conds_keys (fi_conds f) ++ path_keys (fi_path f) ++ path_keys (fi_dir f) ++
                flat_map file_keys (fi_files f).
Proof.
  destruct f as [p k sf pa s lon so files d c kp]. reflexivity.
Qed.

(* sub-list bookkeeping: a hypothesis about all keys of a concatenation gives one about each part *)
Ltac sub_keys H :=
  let k := fresh "k" in let Hk := fresh "Hk" in
  intros k Hk; apply H; repeat rewrite in_app_iff; tauto.

Section Agree.
  Variables rt1 rt2 : runtime.

  Definition agree (ks : list string) : Prop := forall k, In k ks -> opt_get rt1 k = opt_get rt2 k.

  Lemma agree_app_l a b : agree (a ++ b) -> agree a.
  Proof. intros H k Hk. apply H. apply in_or_app. left; exact Hk. Qed.

  Lemma agree_app_r a b : agree (a ++ b) -> agree b.
  Proof. intros H k Hk. apply H. apply in_or_app. right; exact Hk. Qed.

  Lemma agree_flat_map {A} (f : A -> list string) l x : agree (flat_map f l) -> In x l -> agree (f x).
  Proof. intros H Hx k Hk. apply H. apply in_flat_map. exists x. split; assumption. Qed.

  Lemma pair_matches_agree kv : agree [fst kv] -> pair_matches rt1 kv = pair_matches rt2 kv.
  Proof. intro H. unfold pair_matches. rewrite (H (fst kv)) by (left; reflexivity). reflexivity. Qed.

  Lemma existsb_agree l : agree (map fst l) -> existsb (pair_matches rt1) l = existsb (pair_matches rt2) l.
  Proof.
    induction l as [|kv r IH]; intro H; [reflexivity|]. cbn [existsb].
    rewrite pair_matches_agree, IH; [reflexivity | |].
    - intros k Hk. apply H. right. exact Hk.
    - intros k [Hk|[]]. apply H. left. exact Hk.
  Qed.

  Lemma forallb_agree l : agree (map fst l) -> forallb (pair_matches rt1) l = forallb (pair_matches rt2) l.
  Proof.
    induction l as [|kv r IH]; intro H; [reflexivity|]. cbn [forallb].
    rewrite pair_matches_agree, IH; [reflexivity | |].
    - intros k Hk. apply H. right. exact Hk.
    - intros k [Hk|[]]. apply H. left. exact Hk.
  Qed.

  Lemma should_emit_agree c : agree (conds_keys c) -> should_emit rt1 c = should_emit rt2 c.
  Proof.
    unfold conds_keys. intro H. unfold should_emit.
    rewrite (existsb_agree (exc_any c)) by (sub_keys H).
    rewrite (forallb_agree (exc_all c)) by (sub_keys H).
    rewrite (existsb_agree (inc_any c)) by (sub_keys H).
    rewrite (forallb_agree (inc_all c)) by (sub_keys H).
    reflexivity.
  Qed.

  Lemma escape_scan_agree orig s : forall out within key,
    agree (scan_keys s within key) ->
    escape_scan rt1 orig s out within key = escape_scan rt2 orig s out within key.
  Proof.
    induction s as [|ch r IH]; intros out within key H; cbn [escape_scan]; [reflexivity|].
    cbn [scan_keys] in H. destruct within.
    - destruct (Ascii.eqb ch "}").
      + rewrite (H key) by (left; reflexivity).
        destruct (opt_get rt2 key); [|reflexivity]. apply IH. intros k Hk. apply H. right. exact Hk.
      + apply IH. exact H.
    - destruct (Ascii.eqb ch "{"); apply IH; exact H.
  Qed.

  Lemma escape_component_agree orig c :
    agree (component_keys c) -> escape_component rt1 orig c = escape_component rt2 orig c.
  Proof.
    unfold component_keys, escape_component. intro H.
    destruct (andb (starts_with_char "{" c) (ends_with_char "}" c)) eqn:Eb; cbn [andb].
    - destruct (negb _).
      + rewrite (H (inner_of c)) by (left; reflexivity). reflexivity.
      + destruct (orb _ _); [reflexivity|]. apply escape_scan_agree. apply (agree_app_r _ _ H).
    - destruct (orb _ _); [reflexivity|]. apply escape_scan_agree. exact H.
  Qed.

  Lemma escape_components_agree orig l : forall acc,
    agree (flat_map component_keys l) ->
    escape_components rt1 orig l acc = escape_components rt2 orig l acc.
  Proof.
    induction l as [|c r IH]; intros acc H; cbn [escape_components]; [reflexivity|].
    cbn [flat_map] in H. rewrite escape_component_agree by (apply (agree_app_l _ _ H)).
    step. apply IH. apply (agree_app_r _ _ H).
  Qed.

  Lemma escape_path_agree p : agree (path_keys p) -> escape_path rt1 p = escape_path rt2 p.
  Proof. intro H. unfold escape_path. apply escape_components_agree. exact H. Qed.

  Lemma escape_opt_agree p : agree (opt_path_keys p) -> escape_opt rt1 p = escape_opt rt2 p.
  Proof.
    destruct p as [p|]; cbn [escape_opt opt_path_keys]; intro H; [|reflexivity].
    rewrite escape_path_agree by exact H. reflexivity.
  Qed.

  (* ---------- files ---------- *)

  Section Files.
    Variable sty : style.
    Variable cfg : wcfg.
    Variable seg : segment.
    Variable sections : list string.

    Definition sff_agree (f : file_info) : Prop :=
      agree (file_keys f) ->
      forall n stack section base ws,
        emit_sff rt1 sty cfg seg sections f n stack section base ws =
        emit_sff rt2 sty cfg seg sections f n stack section base ws.

    Lemma emit_file_of_agree f base k ws :
      Forall sff_agree (fi_files f) -> agree (file_keys f) ->
      emit_file_of rt1 sty cfg seg sections f base k ws =
      emit_file_of rt2 sty cfg seg sections f base k ws.
    Proof.
      intros IHf H. rewrite file_keys_eq in H. unfold emit_file_of.
      rewrite should_emit_agree by (sub_keys H).
      destruct (negb (should_emit rt2 (fi_conds f))); [reflexivity|].
      rewrite (escape_path_agree (fi_path f)) by (sub_keys H).
      rewrite (escape_path_agree (fi_dir f)) by (sub_keys H).
      destruct (fi_kind f); try reflexivity.
      step. apply fold_out_ext. intros c ws1 Hin.
      rewrite Forall_forall in IHf. apply (IHf c Hin).
      apply (agree_flat_map file_keys (fi_files f) c); [sub_keys H | exact Hin].
    Qed.

    Lemma emit_sff_agree f : sff_agree f.
    Proof.
      induction f as [f IHf] using file_info_nested_ind.
      intros H n. induction n as [|n IHn]; intros stack section base ws.
      - rewrite !emit_sff_O. reflexivity.
      - rewrite !emit_sff_S. destruct (mem_str section stack); [reflexivity|].
        apply fold_out_ext. intros k ws0 _. rewrite (emit_file_of_agree f base k ws0 IHf H).
        step. destruct (reference_partial cfg); [reflexivity|].
        destruct (lookup k (subgroups_for seg f)) as [others|]; [|reflexivity].
        assert (Hch : forall ws',
                   fold_out (fun other ws => emit_sff rt1 sty cfg seg sections f n (section :: stack)
                                                      other base ws) others ws' =
                   fold_out (fun other ws => emit_sff rt2 sty cfg seg sections f n (section :: stack)
                                                      other base ws) others ws').
        { apply fold_out_ext. intros other ws1 _. apply IHn. }
        rewrite Hch. reflexivity.
    Qed.

    Lemma emit_section_agree base_path section ws :
      agree (path_keys base_path) -> agree (segment_keys seg) ->
      emit_section rt1 sty cfg seg sections base_path section ws =
      emit_section rt2 sty cfg seg sections base_path section ws.
    Proof.
      intros Hb H. unfold segment_keys in H. unfold emit_section.
      rewrite (escape_path_agree base_path) by exact Hb.
      rewrite (escape_path_agree (sg_dir seg)) by (sub_keys H).
      step. step. apply fold_out_ext. intros f ws1 Hf. apply emit_sff_agree.
      apply (agree_flat_map file_keys (sg_files seg) f); [sub_keys H | exact Hf].
    Qed.
  End Files.

  (* ---------- segments ---------- *)

  Lemma gp_stmt_agree seg section :
    agree (gp_keys (sg_gp_info seg)) -> gp_stmt rt1 seg section = gp_stmt rt2 seg section.
  Proof.
    unfold gp_stmt, gp_keys. intro H. destruct (sg_gp_info seg); [|reflexivity].
    rewrite should_emit_agree by exact H. reflexivity.
  Qed.

  Lemma section_symbol_start_agree sty cfg seg section :
    agree (segment_keys seg) ->
    section_symbol_start rt1 sty cfg seg section = section_symbol_start rt2 sty cfg seg section.
  Proof.
    intro H. unfold segment_keys in H. unfold section_symbol_start.
    rewrite gp_stmt_agree by (sub_keys H). reflexivity.
  Qed.

  Section Segs.
    Variable st : settings.
    Variable cfg : wcfg.
    Hypothesis Hbase : agree (path_keys (base_path st)).

    Lemma part_groups_agree seg sections rest :
      agree (segment_keys seg) ->
      forall ws, part_groups rt1 st cfg seg sections rest ws = part_groups rt2 st cfg seg sections rest ws.
    Proof.
      intro H. induction rest as [|section rest' IH]; intro ws; cbn [part_groups]; [reflexivity|].
      rewrite emit_section_agree by assumption. step. rewrite IH. step.
      rewrite section_symbol_start_agree by exact H. reflexivity.
    Qed.

    Lemma write_segment_agree seg sections noload ws :
      agree (segment_keys seg) ->
      write_segment rt1 st cfg seg sections noload ws = write_segment rt2 st cfg seg sections noload ws.
    Proof. intro H. unfold write_segment. rewrite part_groups_agree by exact H. reflexivity. Qed.

    Lemma single_groups_agree seg sections noload rest :
      agree (segment_keys seg) ->
      forall ws, single_groups rt1 st cfg seg sections noload rest ws =
                 single_groups rt2 st cfg seg sections noload rest ws.
    Proof.
      intro H. induction rest as [|section rest' IH]; intro ws; cbn [single_groups]; [reflexivity|].
      rewrite emit_section_agree by assumption. step. rewrite IH. step.
      rewrite section_symbol_start_agree by exact H. reflexivity.
    Qed.

    Lemma write_single_segment_agree seg sections noload ws :
      agree (segment_keys seg) ->
      write_single_segment rt1 st cfg seg sections noload ws =
      write_single_segment rt2 st cfg seg sections noload ws.
    Proof. intro H. unfold write_single_segment. rewrite single_groups_agree by exact H. reflexivity. Qed.

    Variable classes : list vram_class.

    Lemma add_segment_agree seg ws :
      agree (segment_keys seg) ->
      add_segment rt1 st cfg classes seg ws = add_segment rt2 st cfg classes seg ws.
    Proof.
      intro H. unfold add_segment.
      rewrite should_emit_agree by (unfold segment_keys in H; sub_keys H).
      destruct (negb (should_emit rt2 (sg_conds seg))); [reflexivity|].
      step. rewrite write_segment_agree by exact H. step. rewrite write_segment_agree by exact H.
      reflexivity.
    Qed.

    Lemma add_single_segment_agree seg ws :
      agree (segment_keys seg) ->
      add_single_segment rt1 st cfg classes seg ws = add_single_segment rt2 st cfg classes seg ws.
    Proof.
      intro H. unfold add_single_segment. rewrite write_single_segment_agree by exact H. step.
      rewrite write_single_segment_agree by exact H. reflexivity.
    Qed.

    Lemma add_all_segments_agree segs ws :
      agree (flat_map segment_keys segs) ->
      add_all_segments rt1 st cfg classes segs ws = add_all_segments rt2 st cfg classes segs ws.
    Proof.
      intro H. unfold add_all_segments. destruct (single_segment_mode st).
      - destruct segs as [|seg [|s2 r]]; try reflexivity. apply add_single_segment_agree.
        apply (agree_flat_map segment_keys [seg] seg H). left; reflexivity.
      - rewrite (fold_out_ext (add_segment rt1 st cfg classes) (add_segment rt2 st cfg classes));
          [reflexivity|]. intros seg ws' Hs. apply add_segment_agree.
        apply (agree_flat_map segment_keys segs seg H Hs).
    Qed.
  End Segs.

  (* ---------- top-level statements ---------- *)

  Lemma flat_map_ext_in {A B} (f g : A -> list B) l :
    (forall x, In x l -> f x = g x) -> flat_map f l = flat_map g l.
  Proof.
    induction l as [|x r IH]; intro H; [reflexivity|]. cbn [flat_map].
    rewrite (H x (or_introl eq_refl)), IH; [reflexivity|]. intros y Hy. apply H. right. exact Hy.
  Qed.

  Lemma tail_stmts_agree d :
    agree (flat_map (fun a => conds_keys (sa_conds a)) (doc_symbol_assignments d)) ->
    agree (flat_map (fun r => conds_keys (rq_conds r)) (doc_required_symbols d)) ->
    agree (flat_map (fun a => conds_keys (ae_conds a)) (doc_asserts d)) ->
    tail_stmts rt1 d = tail_stmts rt2 d.
  Proof.
    intros Ha Hr Hs. unfold tail_stmts, assignment_stmts, required_stmts, assert_stmts.
    rewrite (flat_map_ext_in _ (fun a => if should_emit rt2 (sa_conds a)
                       then [SAssign (sa_provide a) (sa_hidden a) false (sa_name a) (ERaw (sa_value a))]
                       else []) (doc_symbol_assignments d)).
    2:{ intros a Hin. rewrite should_emit_agree; [reflexivity|].
        apply (agree_flat_map (fun a => conds_keys (sa_conds a)) _ a Ha Hin). }
    rewrite (flat_map_ext_in _ (fun r => if should_emit rt2 (rq_conds r)
                       then [SExtern (rq_name r);
                             SAssert ("DEFINED(" ++ rq_name r ++ ")")%string (required_msg (rq_name r))]
                       else []) (doc_required_symbols d)).
    2:{ intros a Hin. rewrite should_emit_agree; [reflexivity|].
        apply (agree_flat_map (fun r => conds_keys (rq_conds r)) _ a Hr Hin). }
    rewrite (flat_map_ext_in _ (fun a => if should_emit rt2 (ae_conds a)
                       then [SAssert (ae_check a) (ae_error_message a)] else []) (doc_asserts d)).
    2:{ intros a Hin. rewrite should_emit_agree; [reflexivity|].
        apply (agree_flat_map (fun a => conds_keys (ae_conds a)) _ a Hs Hin). }
    reflexivity.
  Qed.

  Hypothesis Hv : rt_emit_version_comment rt1 = rt_emit_version_comment rt2.

  Lemma version_stmts_agree : version_stmts rt1 = version_stmts rt2.
  Proof. unfold version_stmts. rewrite Hv. reflexivity. Qed.

  Lemma gen_normal_agree d : agree (mentioned d) -> gen_normal d rt1 = gen_normal d rt2.
  Proof.
    intro H. unfold mentioned, settings_keys in H. unfold gen_normal.
    rewrite add_all_segments_agree; [| sub_keys H | sub_keys H].
    rewrite version_stmts_agree, tail_stmts_agree; [reflexivity | sub_keys H | sub_keys H | sub_keys H].
  Qed.

  Lemma segment_keys_clone seg p :
    forall k, In k (segment_keys (clone_with_new_files seg [new_object p])) ->
              In k (segment_keys seg) \/ In k (path_keys p).
  Proof.
    intros k Hk. unfold segment_keys in *.
    change (sg_conds (clone_with_new_files seg [new_object p])) with (sg_conds seg) in Hk.
    change (sg_dir (clone_with_new_files seg [new_object p])) with (sg_dir seg) in Hk.
    change (sg_gp_info (clone_with_new_files seg [new_object p])) with (sg_gp_info seg) in Hk.
    change (sg_files (clone_with_new_files seg [new_object p])) with [new_object p] in Hk.
    repeat rewrite in_app_iff in Hk. repeat rewrite in_app_iff.
    destruct Hk as [Hk|[Hk|[Hk|Hk]]]; auto.
    right. cbn [flat_map] in Hk. rewrite app_nil_r, file_keys_eq in Hk.
    cbn [new_object fi_conds fi_path fi_dir fi_files no_conds conds_keys exc_any exc_all inc_any inc_all
         map flat_map app] in Hk.
    unfold conds_keys in Hk. cbn in Hk. rewrite app_nil_r in Hk. exact Hk.
  Qed.

  Lemma partial_segment_agree d folder seg acc :
    agree (path_keys (base_path (doc_settings d))) ->
    agree (segment_keys seg) -> agree (path_keys (push folder (sg_name seg ++ ".o")%string)) ->
    partial_segment d rt1 folder seg acc = partial_segment d rt2 folder seg acc.
  Proof.
    intros Hb H Hobj. unfold partial_segment. cbv zeta.
    rewrite should_emit_agree by (unfold segment_keys in H; sub_keys H).
    destruct (negb (should_emit rt2 (sg_conds seg))); [reflexivity|].
    rewrite add_single_segment_agree by assumption. step.
    rewrite add_segment_agree, version_stmts_agree; [reflexivity | exact Hb |].
    intros k Hk. apply segment_keys_clone in Hk. destruct Hk as [Hk|Hk]; [apply H | apply Hobj]; exact Hk.
  Qed.

  Lemma partial_segments_agree d folder segs :
    agree (path_keys (base_path (doc_settings d))) ->
    agree (flat_map segment_keys segs) ->
    agree (flat_map (fun seg => path_keys (push folder (sg_name seg ++ ".o")%string)) segs) ->
    forall acc, partial_segments d rt1 folder segs acc = partial_segments d rt2 folder segs acc.
  Proof.
    intros Hb. induction segs as [|s r IH]; intros H Hobj acc; cbn [partial_segments]; [reflexivity|].
    cbn [flat_map] in H, Hobj.
    rewrite partial_segment_agree;
      [| exact Hb | apply (agree_app_l _ _ H) | apply (agree_app_l _ _ Hobj)].
    step. rewrite IH; [reflexivity | apply (agree_app_r _ _ H) | apply (agree_app_r _ _ Hobj)].
  Qed.

  Lemma gen_partial_agree d : agree (mentioned d) -> gen_partial d rt1 = gen_partial d rt2.
  Proof.
    intro H. unfold mentioned, settings_keys in H. unfold gen_partial. cbv zeta.
    destruct (partial_build_segments_folder (doc_settings d)) as [folder|] eqn:Ef; [|reflexivity].
    rewrite partial_segments_agree; [| sub_keys H | sub_keys H |].
    - rewrite version_stmts_agree, tail_stmts_agree;
        [reflexivity | sub_keys H | sub_keys H | sub_keys H].
    - assert (E : flat_map (partial_object_keys (doc_settings d)) (doc_segments d) =
                  flat_map (fun seg => path_keys (push folder (sg_name seg ++ ".o")%string))
                           (doc_segments d)).
      { apply flat_map_ext. intro seg. unfold partial_object_keys. rewrite Ef. reflexivity. }
      rewrite <- E. sub_keys H.
  Qed.

  (* the texts written besides the scripts read the options only for their own paths *)
  Lemma deps_text_agree w target : deps_text rt1 w target = deps_text rt2 w target.
  Proof. unfold deps_text. rewrite Hv. reflexivity. Qed.

  Lemma header_text_agree st w : header_text rt1 st w = header_text rt2 st w.
  Proof. unfold header_text. rewrite Hv. reflexivity. Qed.

  Lemma save_other_files_normal_agree st w :
    agree (settings_keys st) -> save_other_files_normal rt1 st w = save_other_files_normal rt2 st w.
  Proof.
    intro H. unfold settings_keys in H. unfold save_other_files_normal.
    rewrite (escape_opt_agree (d_path st)) by (sub_keys H).
    rewrite (escape_opt_agree (target_path st)) by (sub_keys H).
    rewrite (escape_opt_agree (symbols_header_path st)) by (sub_keys H).
    rewrite header_text_agree.
    step. assert (Hd : forall t, deps_text rt1 w t = deps_text rt2 w t) by (intro; apply deps_text_agree).
    destruct a as [dp|]; [|reflexivity].
    destruct (escape_opt rt2 (target_path st)) as [[t|]|e]; cbn [bind]; rewrite ?Hd; reflexivity.
  Qed.

  Lemma save_other_files_partial_agree st p :
    agree (settings_keys st) -> save_other_files_partial rt1 st p = save_other_files_partial rt2 st p.
  Proof.
    intro H. unfold save_other_files_partial. rewrite save_other_files_normal_agree by exact H.
    unfold settings_keys in H.
    rewrite (escape_path_agree (base_path st)) by (sub_keys H).
    rewrite (escape_opt_agree (partial_build_segments_folder st)) by (sub_keys H).
    rewrite (escape_opt_agree (partial_scripts_folder st)) by (sub_keys H).
    do 6 step. destruct (is_some (d_path st)); [|reflexivity].
    f_equal. f_equal. apply map_ext. intro s. rewrite deps_text_agree. reflexivity.
  Qed.

  Lemma export_script_partial_agree st p path :
    agree (settings_keys st) -> export_script_partial rt1 st p path = export_script_partial rt2 st p path.
  Proof.
    intro H. unfold settings_keys in H. unfold export_script_partial.
    rewrite (escape_opt_agree (partial_scripts_folder st)) by (sub_keys H). reflexivity.
  Qed.
End Agree.

(* the command-line tool: options that the document and the output path do not mention change
   nothing, provided clap and the key check accept both option lists *)
Lemma cli_run_unmentioned sd d a1 a2 opts1 opts2 :
  cli_output a1 = cli_output a2 -> cli_partial a1 = cli_partial a2 ->
  cli_omit_version_comment a1 = cli_omit_version_comment a2 ->
  parse_key_vals (cli_options a1) = Some opts1 -> parse_key_vals (cli_options a2) = Some opts2 ->
  forallb (fun kv => key_valid (fst kv)) opts1 = forallb (fun kv => key_valid (fst kv)) opts2 ->
  parse sd = Ok d ->
  agree (Runtime opts1 (negb (cli_omit_version_comment a2))) (Runtime opts2 (negb (cli_omit_version_comment a2)))
        (mentioned d ++ opt_path_keys (cli_output a2)) ->
  cli_run sd a1 = cli_run sd a2.
Proof.
  intros Ho Hpa Hom H1 H2 Hvalid Hd Hag. unfold cli_run. rewrite H1, H2, Ho, Hpa, Hom, Hd, Hvalid.
  destruct (negb (forallb (fun kv => key_valid (fst kv)) opts2)); [reflexivity|].
  cbv zeta.
  set (rt1 := Runtime opts1 (negb (cli_omit_version_comment a2))) in *.
  set (rt2 := Runtime opts2 (negb (cli_omit_version_comment a2))) in *.
  assert (Hv : rt_emit_version_comment rt1 = rt_emit_version_comment rt2) by reflexivity.
  assert (Hm : agree rt1 rt2 (mentioned d)) by (apply (agree_app_l _ _ _ _ Hag)).
  assert (Hst : agree rt1 rt2 (settings_keys (doc_settings d))).
  { unfold mentioned in Hm. apply (agree_app_l _ _ _ _ Hm). }
  assert (Hout : forall o, cli_output a2 = Some o -> escape_path rt1 o = escape_path rt2 o).
  { intros o Eo. apply escape_path_agree. rewrite Eo in Hag. apply (agree_app_r _ _ _ _ Hag). }
  destruct (cli_partial a2).
  - rewrite (gen_partial_agree rt1 rt2 Hv d Hm). destruct (gen_partial d rt2) as [p|e]; [|reflexivity].
    destruct (cli_output a2) as [o|].
    + rewrite (Hout o eq_refl). destruct (escape_path rt2 o) as [path|e]; [|reflexivity].
      rewrite (export_script_partial_agree rt1 rt2 _ _ _ Hst).
      destruct (export_script_partial rt2 (doc_settings d) p path) as [w1|e]; [|reflexivity].
      rewrite (save_other_files_partial_agree rt1 rt2 Hv _ _ Hst). reflexivity.
    + rewrite (save_other_files_partial_agree rt1 rt2 Hv _ _ Hst). reflexivity.
  - rewrite (gen_normal_agree rt1 rt2 Hv d Hm). destruct (gen_normal d rt2) as [w|e]; [|reflexivity].
    destruct (cli_output a2) as [o|].
    + rewrite (Hout o eq_refl). destruct (escape_path rt2 o) as [path|e]; [|reflexivity].
      rewrite (save_other_files_normal_agree rt1 rt2 Hv _ _ Hst). reflexivity.
    + rewrite (save_other_files_normal_agree rt1 rt2 Hv _ _ Hst). reflexivity.
Qed.

(* ====================================================================== *)
(* example data                                                            *)
(* ====================================================================== *)

Definition ex06_excluded : conds := mkConds [] [] [("version", "us")] [].

Definition ex06_obj (p : string) (c : conds) : file_info :=
  FileInfo p KObject "*" 0%N "" "" [] [] "" c KAbsent.

Definition ex06_group (dir : string) (l : list file_info) (c : conds) : file_info :=
  FileInfo "" KGroup "*" 0%N "" "" [] l dir c KAbsent.

(* an excluded group whose dir and whose child need options that are not given, an excluded object
   inside a kept group *)
Definition ex06_files : list file_info :=
  [ex06_obj "{dir}/a.o" no_conds;
   ex06_group "{nowhere}" [ex06_obj "{missing}/x.o" no_conds; ex06_obj "y.o" no_conds] ex06_excluded;
   ex06_group "lib" [ex06_obj "b.o" no_conds; ex06_obj "{missing}/c.o" ex06_excluded;
                     ex06_obj "d.o" no_conds] no_conds].

Definition ex06_files_pruned : list file_info :=
  [ex06_obj "{dir}/a.o" no_conds;
   ex06_group "lib" [ex06_obj "b.o" no_conds; ex06_obj "d.o" no_conds] no_conds].

Definition ex06_seg (files : list file_info) : segment :=
  Segment "main" files (Some 2147483648%N) None None None "" None
          (mkConds [("version", "us"); ("version", "eu")] [] [] [])
          [".text"; ".data"] [".bss"] None None None None None [] [] true None
          [(".text", [".text.hot"])] KAbsent.

Definition ex06_settings : settings :=
  Settings "build/{version}" Splat None (Some "out/{version}.d") (Some "out/rom.elf") None "char" true
           [] [] [] false false (Some "ld/partial") (Some "build/segments") [".text"; ".data"] [".bss"]
           None None None None None [] [] true None [].

Definition ex06_doc (files : list file_info) : document :=
  Document ex06_settings [] [ex06_seg files] (Some "start")
           [SymbolAssignment "x" "1" false false (mkConds [] [("debug", "on")] [] [])] [] [].

Definition ex06_rt : runtime := Runtime [("version", "us"); ("dir", "src")] true.

Lemma ex06_prune : prune ex06_rt ex06_files ex06_files_pruned.
Proof.
  unfold ex06_files, ex06_files_pruned.
  apply prune_keep. apply prune_skip; [reflexivity|].
  apply (prune_group ex06_rt
           (ex06_group "lib" [ex06_obj "b.o" no_conds; ex06_obj "{missing}/c.o" ex06_excluded;
                              ex06_obj "d.o" no_conds] no_conds)
           [ex06_obj "b.o" no_conds; ex06_obj "d.o" no_conds]); [reflexivity | | constructor].
  apply prune_keep. apply prune_skip; [reflexivity|]. apply prune_keep. constructor.
Qed.

Lemma ex06_seg_prune : Forall2 (seg_prune ex06_rt) (doc_segments (ex06_doc ex06_files)) [ex06_seg ex06_files_pruned].
Proof. constructor; [|constructor]. exists ex06_files_pruned. split; [exact ex06_prune | reflexivity]. Qed.

(* two option sets that differ outside what the document mentions *)
Definition ex06_rt1 : runtime :=
  Runtime [("version", "us"); ("dir", "src"); ("unused", "1"); ("nowhere", "x")] true.
Definition ex06_rt2 : runtime :=
  Runtime [("other", "2"); ("dir", "src"); ("version", "eu"); ("version", "us"); ("debug", "off");
           ("debug", "on")] true.
Definition ex06_rt3 : runtime :=
  Runtime [("dir", "src"); ("debug", "on"); ("version", "us"); ("other", "3")] true.

Lemma ex06_agree : agree ex06_rt2 ex06_rt3 (mentioned (ex06_doc ex06_files_pruned)).
Proof.
  intros k Hk. vm_compute in Hk.
  repeat (destruct Hk as [Hk|Hk]; [subst k; reflexivity|]). destruct Hk.
Qed.

(* ====================================================================== *)
(* the statements of Properties/C06More.v in their final form              *)
(* ====================================================================== *)

Lemma no_trace_group_children rt sty cfg seg sections f kids' :
  prune rt (fi_files f) kids' ->
  forall n stack section base ws o,
    emit_sff rt sty cfg seg sections f n stack section base ws = Ok o ->
    emit_sff rt sty cfg seg sections (with_files f kids') n stack section base ws = Ok o.
Proof.
  intro Hp. exact (emit_sff_with_files rt sty cfg seg sections f kids' (prune_fold rt sty cfg seg sections _ _ Hp)).
Qed.

Lemma no_trace_file_section rt sty cfg seg fl sections base_path section ws o :
  prune rt (sg_files seg) fl ->
  emit_section rt sty cfg seg sections base_path section ws = Ok o ->
  emit_section rt sty cfg (clone_with_new_files seg fl) sections base_path section ws = Ok o.
Proof. intro Hp. exact (emit_section_prune rt sty cfg seg fl sections base_path section ws Hp o). Qed.

Lemma no_trace_file_segment rt st cfg classes seg fl ws o :
  prune rt (sg_files seg) fl ->
  add_segment rt st cfg classes seg ws = Ok o ->
  add_segment rt st cfg classes (clone_with_new_files seg fl) ws = Ok o.
Proof. intro Hp. exact (add_segment_prune rt st cfg classes seg fl ws Hp o). Qed.

Lemma no_trace_file_single_segment rt st cfg classes seg fl ws o :
  prune rt (sg_files seg) fl ->
  add_single_segment rt st cfg classes seg ws = Ok o ->
  add_single_segment rt st cfg classes (clone_with_new_files seg fl) ws = Ok o.
Proof. intro Hp. exact (add_single_segment_prune rt st cfg classes seg fl ws Hp o). Qed.

Lemma no_trace_file_normal rt d segs2 w :
  Forall2 (seg_prune rt) (doc_segments d) segs2 ->
  gen_normal d rt = Ok w -> gen_normal (with_segments d segs2) rt = Ok w.
Proof. intro H. exact (gen_normal_prune rt d segs2 H w). Qed.

Lemma no_trace_file_partial rt d segs2 p :
  Forall2 (seg_prune rt) (doc_segments d) segs2 ->
  gen_partial d rt = Ok p -> gen_partial (with_segments d segs2) rt = Ok p.
Proof. intro H. exact (gen_partial_prune rt d segs2 H p). Qed.
