(* C06, remaining clauses: an excluded file entry (a group with its whole subtree included) leaves no
   trace, and custom options that no condition and no path mentions change no output. *)
From Slinky Require Import Model.Types Model.Parse Model.Runtime Model.Style Model.Script Model.Writer
  Model.Exports.
From Slinky Require Import Spec.C06 Proofs.C06 Spec.C14 Proofs.C14 Spec.C15 Proofs.C15 Spec.C19 Proofs.C19.
From Coq Require Import Lia.

(* ====================================================================== *)
(* Part 1: an excluded entry emits nothing                                 *)
(* ====================================================================== *)

(* the action changed nothing, or failed with an error in [P] *)
Definition nothing_or (P : err -> Prop) (r : res out) (ws : wstate) : Prop :=
  r = Ok ([], ws) \/ exists e, r = Err e /\ P e.

Lemma fold_out_nothing {A} P (f : A -> wstate -> res out) l :
  (forall x ws, In x l -> nothing_or P (f x ws) ws) -> forall ws, nothing_or P (fold_out f l ws) ws.
Proof.
  induction l as [|x r IH]; intros H ws; cbn [fold_out]; [left; reflexivity|].
  destruct (H x ws (or_introl eq_refl)) as [E|[e [E He]]]; rewrite E; cbn [bind fst snd].
  - destruct (IH (fun y ws' Hy => H y ws' (or_intror Hy)) ws) as [E2|[e [E2 He]]]; rewrite E2; cbn [bind fst snd].
    + left; reflexivity.
    + right. exists e. auto.
  - right. exists e. auto.
Qed.

(* walking the sub-group chain of an excluded entry can still meet a cycle (or, below the top-level
   fuel, the recursion bound); nothing else can go wrong: no path is escaped *)
Definition chain_error (seg : segment) (e : err) : Prop :=
  (exists s, e = ESubgroupCycle (sg_name seg) s) \/ (exists w, e = ECrash w).

Lemma emit_file_of_excluded rt sty cfg seg sections f base k ws :
  should_emit rt (fi_conds f) = false -> emit_file_of rt sty cfg seg sections f base k ws = Ok ([], ws).
Proof. intro H. unfold emit_file_of. rewrite H. reflexivity. Qed.

Lemma excluded_chain rt sty cfg seg sections f :
  should_emit rt (fi_conds f) = false ->
  forall n stack section base ws,
    nothing_or (chain_error seg) (emit_sff rt sty cfg seg sections f n stack section base ws) ws.
Proof.
  intro Hex. induction n as [|n IHn]; intros stack section base ws.
  - rewrite emit_sff_O. right. eexists. split; [reflexivity|]. right. eexists. reflexivity.
  - rewrite emit_sff_S. destruct (mem_str section stack).
    { right. eexists. split; [reflexivity|]. left. eexists. reflexivity. }
    apply fold_out_nothing. intros k ws0 _.
    rewrite (emit_file_of_excluded _ _ _ _ _ _ _ _ _ Hex). cbn [bind fst snd].
    destruct (reference_partial cfg); [left; reflexivity|].
    destruct (lookup k (subgroups_for seg f)) as [others|]; [|left; reflexivity].
    destruct (fold_out_nothing (chain_error seg)
                (fun other ws => emit_sff rt sty cfg seg sections f n (section :: stack) other base ws)
                others (fun other ws' _ => IHn (section :: stack) other base ws') ws0)
      as [E|[e [E He]]]; rewrite E; cbn [bind fst snd].
    + left; reflexivity.
    + right. exists e. auto.
Qed.

(* with the fuel every chain starts with, the recursion bound is out of the picture *)
Lemma excluded_top rt sty cfg seg sections f section base ws :
  should_emit rt (fi_conds f) = false ->
  emit_sff rt sty cfg seg sections f (chain_fuel seg) [] section base ws = Ok ([], ws) \/
  exists s, emit_sff rt sty cfg seg sections f (chain_fuel seg) [] section base ws =
            Err (ESubgroupCycle (sg_name seg) s).
Proof.
  intro Hex. destruct (excluded_chain rt sty cfg seg sections f Hex (chain_fuel seg) [] section base ws)
    as [E|[e [E [[s He]|[w He]]]]].
  - left. exact E.
  - right. exists s. subst e. exact E.
  - exfalso. subst e. exact (fuel_sufficient rt sty cfg seg sections f section base ws w E).
Qed.

(* in particular a `{key}` without a value in the path or dir of an excluded entry, or of anything
   below an excluded group, is not an error *)
Lemma excluded_no_option_error rt sty cfg seg sections f n stack section base ws path key :
  should_emit rt (fi_conds f) = false ->
  emit_sff rt sty cfg seg sections f n stack section base ws <> Err (ECustomOptionNotProvided path key).
Proof.
  intros Hex E.
  destruct (excluded_chain rt sty cfg seg sections f Hex n stack section base ws)
    as [E'|[e [E' [[s He]|[w He]]]]]; rewrite E in E'; try discriminate;
    inversion E'; subst; discriminate.
Qed.

(* when the sub-group graph has no cycle error to give, nothing at all *)
Lemma excluded_ok rt sty cfg seg sections f section base ws o :
  should_emit rt (fi_conds f) = false ->
  emit_sff rt sty cfg seg sections f (chain_fuel seg) [] section base ws = Ok o -> o = ([], ws).
Proof.
  intros Hex H. destruct (excluded_top rt sty cfg seg sections f section base ws Hex) as [E|[s E]];
    rewrite E in H; [inversion H; reflexivity | discriminate].
Qed.

(* ====================================================================== *)
(* Part 2: deleting excluded entries at any depth                          *)
(* ====================================================================== *)

Definition with_files (f : file_info) (files : list file_info) : file_info :=
  FileInfo (fi_path f) (fi_kind f) (fi_subfile f) (fi_pad_amount f) (fi_section f)
           (fi_linker_offset_name f) (fi_section_order f) files (fi_dir f) (fi_conds f) (fi_keep f).

(* [prune rt l l']: [l'] is [l] with any number of excluded entries deleted, at any depth *)
Inductive prune (rt : runtime) : list file_info -> list file_info -> Prop :=
| prune_nil : prune rt [] []
| prune_skip f l l' : should_emit rt (fi_conds f) = false -> prune rt l l' -> prune rt (f :: l) l'
| prune_keep f l l' : prune rt l l' -> prune rt (f :: l) (f :: l')
| prune_group f kids' l l' :
    fi_kind f = KGroup -> prune rt (fi_files f) kids' -> prune rt l l' ->
    prune rt (f :: l) (with_files f kids' :: l').

(* success of the first implies the same success of the second *)
Definition refines {A} (r1 r2 : res A) : Prop := forall o, r1 = Ok o -> r2 = Ok o.

Lemma refines_refl {A} (r : res A) : refines r r.
Proof. intros o H. exact H. Qed.

Lemma refines_eq {A} (r1 r2 : res A) : r1 = r2 -> refines r1 r2.
Proof. intros E o H. rewrite <- E. exact H. Qed.

Lemma refines_bind {A B} (r1 r2 : res A) (f1 f2 : A -> res B) :
  refines r1 r2 -> (forall a, refines (f1 a) (f2 a)) -> refines (bind r1 f1) (bind r2 f2).
Proof.
  intros Hr Hf o H. destruct r1 as [a|e]; [|discriminate]. rewrite (Hr a eq_refl). cbn [bind] in *.
  apply Hf. exact H.
Qed.

Lemma refines_trans {A} (r1 r2 r3 : res A) : refines r1 r2 -> refines r2 r3 -> refines r1 r3.
Proof. intros H1 H2 o H. apply H2, H1, H. Qed.

Lemma fold_out_refines {A} (f g : A -> wstate -> res out) l :
  (forall x ws, In x l -> refines (f x ws) (g x ws)) ->
  forall ws, refines (fold_out f l ws) (fold_out g l ws).
Proof.
  induction l as [|x r IH]; intros H ws; cbn [fold_out]; [apply refines_refl|].
  apply refines_bind; [apply H; left; reflexivity|]. intro o1.
  apply refines_bind; [apply IH; intros y ws' Hy; apply H; right; exact Hy|]. intro o2. apply refines_refl.
Qed.

Section Prune.
  Variable rt : runtime.
  Variable sty : style.
  Variable cfg : wcfg.
  Variable seg : segment.
  Variable sections : list string.

  Definition emit_top (section base : string) (f : file_info) (ws : wstate) : res out :=
    emit_sff rt sty cfg seg sections f (chain_fuel seg) [] section base ws.

  (* replacing the entries of a group by a list that generates the same *)
  Lemma emit_sff_with_files f kids' :
    (forall section base ws,
        refines (fold_out (emit_top section base) (fi_files f) ws)
                (fold_out (emit_top section base) kids' ws)) ->
    forall n stack section base ws,
      refines (emit_sff rt sty cfg seg sections f n stack section base ws)
              (emit_sff rt sty cfg seg sections (with_files f kids') n stack section base ws).
  Proof.
    intro Hkids. induction n as [|n IHn]; intros stack section base ws.
    - rewrite !emit_sff_O. apply refines_refl.
    - rewrite !emit_sff_S. destruct (mem_str section stack); [apply refines_refl|].
      assert (Hh : sections_here (with_files f kids') section sections = sections_here f section sections)
        by (destruct f; reflexivity).
      rewrite Hh. apply fold_out_refines. intros k ws0 _.
      apply refines_bind.
      + unfold emit_file_of.
        change (fi_conds (with_files f kids')) with (fi_conds f).
        change (fi_kind (with_files f kids')) with (fi_kind f).
        change (fi_path (with_files f kids')) with (fi_path f).
        change (fi_keep (with_files f kids')) with (fi_keep f).
        change (fi_subfile (with_files f kids')) with (fi_subfile f).
        change (fi_section (with_files f kids')) with (fi_section f).
        change (fi_pad_amount (with_files f kids')) with (fi_pad_amount f).
        change (fi_linker_offset_name (with_files f kids')) with (fi_linker_offset_name f).
        change (fi_dir (with_files f kids')) with (fi_dir f).
        change (fi_files (with_files f kids')) with kids'.
        destruct (negb (should_emit rt (fi_conds f))); [apply refines_refl|].
        destruct (fi_kind f); try apply refines_refl.
        apply refines_bind; [apply refines_refl|]. intro d. apply Hkids.
      + intro o1. apply refines_bind; [|intro; apply refines_refl].
        destruct (reference_partial cfg); [apply refines_refl|].
        change (subgroups_for seg (with_files f kids')) with (subgroups_for seg f).
        destruct (lookup k (subgroups_for seg f)) as [others|]; [|apply refines_refl].
        apply fold_out_refines. intros other ws1 _. apply IHn.
  Qed.

  (* if the list generates, the pruned list generates the same statements and records the same
     paths *)
  Lemma prune_fold l l' :
    prune rt l l' ->
    forall section base ws,
      refines (fold_out (emit_top section base) l ws) (fold_out (emit_top section base) l' ws).
  Proof.
    induction 1 as [| f l l' Hex Hp IH | f l l' Hp IH | f kids' l l' Hk Hpk IHk Hp IH];
      intros section base ws.
    - apply refines_refl.
    - intros o H. cbn [fold_out] in H. apply bind_ok in H. destruct H as [o1 [E1 H]].
      apply (excluded_ok rt sty cfg seg sections f section base ws o1 Hex) in E1. subst o1.
      cbn [fst snd] in H. apply bind_ok in H. destruct H as [o2 [E2 H]].
      cbn [app] in H. inversion H; subst o. apply IH. rewrite E2. destruct o2; reflexivity.
    - cbn [fold_out]. apply refines_bind; [apply refines_refl|]. intro o1.
      apply refines_bind; [apply IH|]. intro; apply refines_refl.
    - cbn [fold_out]. apply refines_bind; [apply emit_sff_with_files; exact IHk|]. intro o1.
      apply refines_bind; [apply IH|]. intro; apply refines_refl.
  Qed.
End Prune.

(* ---------- segments that differ only by pruned files ---------- *)

Definition seg_prune (rt : runtime) (s1 s2 : segment) : Prop :=
  exists fl, prune rt (sg_files s1) fl /\ s2 = clone_with_new_files s1 fl.

Section PruneSegments.
  Variable rt : runtime.

  Lemma emit_section_prune sty cfg seg fl sections base_path section ws :
    prune rt (sg_files seg) fl ->
    refines (emit_section rt sty cfg seg sections base_path section ws)
            (emit_section rt sty cfg (clone_with_new_files seg fl) sections base_path section ws).
  Proof.
    intro Hp. unfold emit_section.
    change (sg_dir (clone_with_new_files seg fl)) with (sg_dir seg).
    change (sg_files (clone_with_new_files seg fl)) with fl.
    apply refines_bind; [apply refines_refl|]. intro b0.
    apply refines_bind; [apply refines_refl|]. intro b.
    eapply refines_trans; [apply (prune_fold rt sty cfg seg sections _ _ Hp section b ws)|].
    apply refines_eq. apply fold_out_ext. intros f ws1 _. unfold emit_top.
    rewrite emit_sff_clone.
    change (chain_fuel (clone_with_new_files seg fl)) with (chain_fuel seg). reflexivity.
  Qed.

  Section Segs.
    Variable st : settings.
    Variable cfg : wcfg.

    Lemma part_groups_prune seg fl sections rest :
      prune rt (sg_files seg) fl ->
      forall ws, refines (part_groups rt st cfg seg sections rest ws)
                         (part_groups rt st cfg (clone_with_new_files seg fl) sections rest ws).
    Proof.
      intro Hp. induction rest as [|section rest' IH]; intro ws; cbn [part_groups]; [apply refines_refl|].
      apply refines_bind; [apply emit_section_prune; exact Hp|]. intro o1.
      apply refines_bind; [apply IH|]. intro o2. destruct seg. apply refines_refl.
    Qed.

    Lemma write_segment_prune seg fl sections noload ws :
      prune rt (sg_files seg) fl ->
      refines (write_segment rt st cfg seg sections noload ws)
              (write_segment rt st cfg (clone_with_new_files seg fl) sections noload ws).
    Proof.
      intro Hp. unfold write_segment. apply refines_bind; [apply part_groups_prune; exact Hp|].
      intro o. destruct seg. apply refines_refl.
    Qed.

    Lemma single_groups_prune seg fl sections noload rest :
      prune rt (sg_files seg) fl ->
      forall ws, refines (single_groups rt st cfg seg sections noload rest ws)
                         (single_groups rt st cfg (clone_with_new_files seg fl) sections noload rest ws).
    Proof.
      intro Hp. induction rest as [|section rest' IH]; intro ws; cbn [single_groups]; [apply refines_refl|].
      apply refines_bind; [apply emit_section_prune; exact Hp|]. intro o1.
      apply refines_bind; [apply IH|]. intro o2. destruct seg. apply refines_refl.
    Qed.

    Lemma write_single_segment_prune seg fl sections noload ws :
      prune rt (sg_files seg) fl ->
      refines (write_single_segment rt st cfg seg sections noload ws)
              (write_single_segment rt st cfg (clone_with_new_files seg fl) sections noload ws).
    Proof.
      intro Hp. unfold write_single_segment. apply refines_bind; [apply single_groups_prune; exact Hp|].
      intro o. destruct seg. apply refines_refl.
    Qed.

    Variable classes : list vram_class.

    Lemma add_segment_prune seg fl ws :
      prune rt (sg_files seg) fl ->
      refines (add_segment rt st cfg classes seg ws)
              (add_segment rt st cfg classes (clone_with_new_files seg fl) ws).
    Proof.
      intro Hp. unfold add_segment.
      change (sg_conds (clone_with_new_files seg fl)) with (sg_conds seg).
      destruct (negb (should_emit rt (sg_conds seg))); [apply refines_refl|].
      change (sg_vram_class (clone_with_new_files seg fl)) with (sg_vram_class seg).
      change (sg_name (clone_with_new_files seg fl)) with (sg_name seg).
      change (alloc_sections (clone_with_new_files seg fl)) with (alloc_sections seg).
      change (noload_sections (clone_with_new_files seg fl)) with (noload_sections seg).
      apply refines_bind; [apply refines_refl|]. intro cls.
      apply refines_bind; [apply write_segment_prune; exact Hp|]. intro o1.
      apply refines_bind; [apply write_segment_prune; exact Hp|]. intro o2.
      destruct seg. apply refines_refl.
    Qed.

    Lemma add_single_segment_prune seg fl ws :
      prune rt (sg_files seg) fl ->
      refines (add_single_segment rt st cfg classes seg ws)
              (add_single_segment rt st cfg classes (clone_with_new_files seg fl) ws).
    Proof.
      intro Hp. unfold add_single_segment.
      change (alloc_sections (clone_with_new_files seg fl)) with (alloc_sections seg).
      change (noload_sections (clone_with_new_files seg fl)) with (noload_sections seg).
      apply refines_bind; [apply write_single_segment_prune; exact Hp|]. intro o1.
      apply refines_bind; [apply write_single_segment_prune; exact Hp|]. intro o2.
      destruct seg. apply refines_refl.
    Qed.

    Lemma fold_out_refines2 {A} (F : A -> wstate -> res out) l1 l2 :
      Forall2 (fun x y => forall ws, refines (F x ws) (F y ws)) l1 l2 ->
      forall ws, refines (fold_out F l1 ws) (fold_out F l2 ws).
    Proof.
      induction 1 as [|x y r1 r2 Hxy _ IH]; intro ws; cbn [fold_out]; [apply refines_refl|].
      apply refines_bind; [apply Hxy|]. intro o1.
      apply refines_bind; [apply IH|]. intro; apply refines_refl.
    Qed.

    Lemma add_all_segments_prune segs1 segs2 ws :
      Forall2 (seg_prune rt) segs1 segs2 ->
      refines (add_all_segments rt st cfg classes segs1 ws) (add_all_segments rt st cfg classes segs2 ws).
    Proof.
      intro H. unfold add_all_segments. rewrite <- (Forall2_len _ _ _ H).
      destruct (single_segment_mode st).
      - destruct H as [|s1 s2 r1 r2 [fl [Hp Hs]] Hr]; [apply refines_refl|].
        destruct Hr; [|apply refines_refl]. subst s2. apply add_single_segment_prune. exact Hp.
      - apply refines_bind; [|intro o; apply refines_refl].
        apply fold_out_refines2. eapply Forall2_impl; [|exact H].
        intros s1 s2 [fl [Hp Hs]] ws1. subst s2. apply add_segment_prune. exact Hp.
    Qed.
  End Segs.

  (* the whole ordinary script, and the paths recorded for the dependency file *)
  Lemma gen_normal_prune d segs2 :
    Forall2 (seg_prune rt) (doc_segments d) segs2 ->
    refines (gen_normal d rt) (gen_normal (with_segments d segs2) rt).
  Proof.
    intro H. unfold gen_normal, with_segments. cbn [doc_settings doc_vram_classes doc_segments].
    apply refines_bind; [apply add_all_segments_prune; exact H|]. intro o. apply refines_refl.
  Qed.

  Lemma partial_segment_prune d d' folder seg fl acc :
    doc_settings d' = doc_settings d -> doc_vram_classes d' = doc_vram_classes d ->
    prune rt (sg_files seg) fl ->
    refines (partial_segment d rt folder seg acc)
            (partial_segment d' rt folder (clone_with_new_files seg fl) acc).
  Proof.
    intros Hst Hcl Hp. unfold partial_segment. cbv zeta. rewrite Hst, Hcl.
    change (sg_conds (clone_with_new_files seg fl)) with (sg_conds seg).
    destruct (negb (should_emit rt (sg_conds seg))); [apply refines_refl|].
    apply refines_bind; [apply add_single_segment_prune; exact Hp|]. intro sub.
    change (sg_name (clone_with_new_files seg fl)) with (sg_name seg).
    assert (Hc : forall l, clone_with_new_files (clone_with_new_files seg fl) l = clone_with_new_files seg l)
      by (intro l; destruct seg; reflexivity).
    rewrite Hc. apply refines_refl.
  Qed.

  Lemma partial_segments_prune d d' folder segs1 segs2 :
    doc_settings d' = doc_settings d -> doc_vram_classes d' = doc_vram_classes d ->
    Forall2 (seg_prune rt) segs1 segs2 ->
    forall acc, refines (partial_segments d rt folder segs1 acc) (partial_segments d' rt folder segs2 acc).
  Proof.
    intros Hst Hcl H. induction H as [|s1 s2 r1 r2 [fl [Hp Hs]] _ IH]; intro acc; cbn [partial_segments];
      [apply refines_refl|].
    subst s2. apply refines_bind; [apply partial_segment_prune; assumption|]. intro o1.
    apply refines_bind; [apply IH|]. intro; apply refines_refl.
  Qed.

  Lemma gen_partial_prune d segs2 :
    Forall2 (seg_prune rt) (doc_segments d) segs2 ->
    refines (gen_partial d rt) (gen_partial (with_segments d segs2) rt).
  Proof.
    intro H. unfold gen_partial. cbv zeta.
    change (doc_settings (with_segments d segs2)) with (doc_settings d).
    destruct (partial_build_segments_folder (doc_settings d)) as [folder|]; [|apply refines_refl].
    change (doc_segments (with_segments d segs2)) with segs2.
    apply refines_bind;
      [apply (partial_segments_prune d (with_segments d segs2) folder _ _ eq_refl eq_refl H)|].
    intro o. apply refines_refl.
  Qed.
End PruneSegments.

Lemma prune_refl rt l : prune rt l l.
Proof. induction l; constructor; assumption. Qed.

Lemma seg_prune_refl rt s : seg_prune rt s s.
Proof. exists (sg_files s). split; [apply prune_refl | destruct s; reflexivity]. Qed.

(* ====================================================================== *)
(* Part 3: options that nothing mentions                                   *)
(* ====================================================================== *)

(* the keys that the scan of one path component can look up: the texts between a "{" and the next
   "}" (an unterminated "{..." is kept literally and looks nothing up) *)
Fixpoint scan_keys (s : string) (within : bool) (key : string) : list string :=
  match s with
  | EmptyString => []
  | String ch r =>
      if within then
        if Ascii.eqb ch "}" then key :: scan_keys r false ""
        else scan_keys r true (key ++ String ch "")%string
      else
        if Ascii.eqb ch "{" then scan_keys r true ""
        else scan_keys r false ""
  end.

(* a component that is "{...}" as a whole is looked up as one key *)
Definition component_keys (c : string) : list string :=
  (if andb (starts_with_char "{" c) (ends_with_char "}" c) then [inner_of c] else []) ++
  scan_keys c false "".

Definition path_keys (p : string) : list string := flat_map component_keys (components p).

Definition opt_path_keys (p : option string) : list string :=
  match p with Some p => path_keys p | None => [] end.

Definition conds_keys (c : conds) : list string :=
  map fst (exc_any c) ++ map fst (exc_all c) ++ map fst (inc_any c) ++ map fst (inc_all c).

Fixpoint file_keys (f : file_info) : list string :=
  conds_keys (fi_conds f) ++ path_keys (fi_path f) ++ path_keys (fi_dir f) ++
  (fix all (l : list file_info) : list string :=
     match l with [] => [] | c :: r => file_keys c ++ all r end) (fi_files f).

Definition gp_keys (g : option gp_info) : list string :=
  match g with Some g => conds_keys (gp_conds g) | None => [] end.

Definition segment_keys (seg : segment) : list string :=
  conds_keys (sg_conds seg) ++ path_keys (sg_dir seg) ++ gp_keys (sg_gp_info seg) ++
  flat_map file_keys (sg_files seg).

(* the object of a segment in a partial build: partial_build_segments_folder/<name>.o *)
Definition partial_object_keys (st : settings) (seg : segment) : list string :=
  match partial_build_segments_folder st with
  | Some folder => path_keys (push folder (sg_name seg ++ ".o")%string)
  | None => []
  end.

Definition settings_keys (st : settings) : list string :=
  path_keys (base_path st) ++ opt_path_keys (d_path st) ++ opt_path_keys (target_path st) ++
  opt_path_keys (symbols_header_path st) ++ opt_path_keys (partial_scripts_folder st) ++
  opt_path_keys (partial_build_segments_folder st).

(* every key that some condition or some path of the document mentions *)
Definition mentioned (d : document) : list string :=
  settings_keys (doc_settings d) ++
  flat_map segment_keys (doc_segments d) ++
  flat_map (partial_object_keys (doc_settings d)) (doc_segments d) ++
  flat_map (fun a => conds_keys (sa_conds a)) (doc_symbol_assignments d) ++
  flat_map (fun r => conds_keys (rq_conds r)) (doc_required_symbols d) ++
  flat_map (fun a => conds_keys (ae_conds a)) (doc_asserts d).

Lemma file_keys_eq f :
  file_keys f = conds_keys (fi_conds f) ++ path_keys (fi_path f) ++ path_keys (fi_dir f) ++
                flat_map file_keys (fi_files f).
Proof.
  destruct f as [p k sf pa s lon so files d c kp]. reflexivity.
Qed.

(* sub-list bookkeeping: a hypothesis about all keys of a concatenation gives one about each part *)
Ltac sub_keys H :=
  let k := fresh "k" in let Hk := fresh "Hk" in
  intros k Hk; apply H; repeat rewrite in_app_iff; tauto.

Section Agree.
  Variables rt1 rt2 : runtime.

  Definition agree (ks : list string) : Prop := forall k, In k ks -> opt_get rt1 k = opt_get rt2 k.

  Lemma agree_app_l a b : agree (a ++ b) -> agree a.
  Proof. intros H k Hk. apply H. apply in_or_app. left; exact Hk. Qed.

  Lemma agree_app_r a b : agree (a ++ b) -> agree b.
  Proof. intros H k Hk. apply H. apply in_or_app. right; exact Hk. Qed.

  Lemma agree_flat_map {A} (f : A -> list string) l x : agree (flat_map f l) -> In x l -> agree (f x).
  Proof. intros H Hx k Hk. apply H. apply in_flat_map. exists x. split; assumption. Qed.

  Lemma pair_matches_agree kv : agree [fst kv] -> pair_matches rt1 kv = pair_matches rt2 kv.
  Proof. intro H. unfold pair_matches. rewrite (H (fst kv)) by (left; reflexivity). reflexivity. Qed.

  Lemma existsb_agree l : agree (map fst l) -> existsb (pair_matches rt1) l = existsb (pair_matches rt2) l.
  Proof.
    induction l as [|kv r IH]; intro H; [reflexivity|]. cbn [existsb].
    rewrite pair_matches_agree, IH; [reflexivity | |].
    - intros k Hk. apply H. right. exact Hk.
    - intros k [Hk|[]]. apply H. left. exact Hk.
  Qed.

  Lemma forallb_agree l : agree (map fst l) -> forallb (pair_matches rt1) l = forallb (pair_matches rt2) l.
  Proof.
    induction l as [|kv r IH]; intro H; [reflexivity|]. cbn [forallb].
    rewrite pair_matches_agree, IH; [reflexivity | |].
    - intros k Hk. apply H. right. exact Hk.
    - intros k [Hk|[]]. apply H. left. exact Hk.
  Qed.

  Lemma should_emit_agree c : agree (conds_keys c) -> should_emit rt1 c = should_emit rt2 c.
  Proof.
    unfold conds_keys. intro H. unfold should_emit.
    rewrite (existsb_agree (exc_any c)) by (sub_keys H).
    rewrite (forallb_agree (exc_all c)) by (sub_keys H).
    rewrite (existsb_agree (inc_any c)) by (sub_keys H).
    rewrite (forallb_agree (inc_all c)) by (sub_keys H).
    reflexivity.
  Qed.

  Lemma escape_scan_agree orig s : forall out within key,
    agree (scan_keys s within key) ->
    escape_scan rt1 orig s out within key = escape_scan rt2 orig s out within key.
  Proof.
    induction s as [|ch r IH]; intros out within key H; cbn [escape_scan]; [reflexivity|].
    cbn [scan_keys] in H. destruct within.
    - destruct (Ascii.eqb ch "}").
      + rewrite (H key) by (left; reflexivity).
        destruct (opt_get rt2 key); [|reflexivity]. apply IH. intros k Hk. apply H. right. exact Hk.
      + apply IH. exact H.
    - destruct (Ascii.eqb ch "{"); apply IH; exact H.
  Qed.

  Lemma escape_component_agree orig c :
    agree (component_keys c) -> escape_component rt1 orig c = escape_component rt2 orig c.
  Proof.
    unfold component_keys, escape_component. intro H.
    destruct (andb (starts_with_char "{" c) (ends_with_char "}" c)) eqn:Eb; cbn [andb].
    - destruct (negb _).
      + rewrite (H (inner_of c)) by (left; reflexivity). reflexivity.
      + destruct (orb _ _); [reflexivity|]. apply escape_scan_agree. apply (agree_app_r _ _ H).
    - destruct (orb _ _); [reflexivity|]. apply escape_scan_agree. exact H.
  Qed.

  Lemma escape_components_agree orig l : forall acc,
    agree (flat_map component_keys l) ->
    escape_components rt1 orig l acc = escape_components rt2 orig l acc.
  Proof.
    induction l as [|c r IH]; intros acc H; cbn [escape_components]; [reflexivity|].
    cbn [flat_map] in H. rewrite escape_component_agree by (apply (agree_app_l _ _ H)).
    step. apply IH. apply (agree_app_r _ _ H).
  Qed.

  Lemma escape_path_agree p : agree (path_keys p) -> escape_path rt1 p = escape_path rt2 p.
  Proof. intro H. unfold escape_path. apply escape_components_agree. exact H. Qed.

  Lemma escape_opt_agree p : agree (opt_path_keys p) -> escape_opt rt1 p = escape_opt rt2 p.
  Proof.
    destruct p as [p|]; cbn [escape_opt opt_path_keys]; intro H; [|reflexivity].
    rewrite escape_path_agree by exact H. reflexivity.
  Qed.

  (* ---------- files ---------- *)

  Section Files.
    Variable sty : style.
    Variable cfg : wcfg.
    Variable seg : segment.
    Variable sections : list string.

    Definition sff_agree (f : file_info) : Prop :=
      agree (file_keys f) ->
      forall n stack section base ws,
        emit_sff rt1 sty cfg seg sections f n stack section base ws =
        emit_sff rt2 sty cfg seg sections f n stack section base ws.

    Lemma emit_file_of_agree f base k ws :
      Forall sff_agree (fi_files f) -> agree (file_keys f) ->
      emit_file_of rt1 sty cfg seg sections f base k ws =
      emit_file_of rt2 sty cfg seg sections f base k ws.
    Proof.
      intros IHf H. rewrite file_keys_eq in H. unfold emit_file_of.
      rewrite should_emit_agree by (sub_keys H).
      destruct (negb (should_emit rt2 (fi_conds f))); [reflexivity|].
      rewrite (escape_path_agree (fi_path f)) by (sub_keys H).
      rewrite (escape_path_agree (fi_dir f)) by (sub_keys H).
      destruct (fi_kind f); try reflexivity.
      step. apply fold_out_ext. intros c ws1 Hin.
      rewrite Forall_forall in IHf. apply (IHf c Hin).
      apply (agree_flat_map file_keys (fi_files f) c); [sub_keys H | exact Hin].
    Qed.

    Lemma emit_sff_agree f : sff_agree f.
    Proof.
      induction f as [f IHf] using file_info_nested_ind.
      intros H n. induction n as [|n IHn]; intros stack section base ws.
      - rewrite !emit_sff_O. reflexivity.
      - rewrite !emit_sff_S. destruct (mem_str section stack); [reflexivity|].
        apply fold_out_ext. intros k ws0 _. rewrite (emit_file_of_agree f base k ws0 IHf H).
        step. destruct (reference_partial cfg); [reflexivity|].
        destruct (lookup k (subgroups_for seg f)) as [others|]; [|reflexivity].
        assert (Hch : forall ws',
                   fold_out (fun other ws => emit_sff rt1 sty cfg seg sections f n (section :: stack)
                                                      other base ws) others ws' =
                   fold_out (fun other ws => emit_sff rt2 sty cfg seg sections f n (section :: stack)
                                                      other base ws) others ws').
        { apply fold_out_ext. intros other ws1 _. apply IHn. }
        rewrite Hch. reflexivity.
    Qed.

    Lemma emit_section_agree base_path section ws :
      agree (path_keys base_path) -> agree (segment_keys seg) ->
      emit_section rt1 sty cfg seg sections base_path section ws =
      emit_section rt2 sty cfg seg sections base_path section ws.
    Proof.
      intros Hb H. unfold segment_keys in H. unfold emit_section.
      rewrite (escape_path_agree base_path) by exact Hb.
      rewrite (escape_path_agree (sg_dir seg)) by (sub_keys H).
      step. step. apply fold_out_ext. intros f ws1 Hf. apply emit_sff_agree.
      apply (agree_flat_map file_keys (sg_files seg) f); [sub_keys H | exact Hf].
    Qed.
  End Files.

  (* ---------- segments ---------- *)

  Lemma gp_stmt_agree seg section :
    agree (gp_keys (sg_gp_info seg)) -> gp_stmt rt1 seg section = gp_stmt rt2 seg section.
  Proof.
    unfold gp_stmt, gp_keys. intro H. destruct (sg_gp_info seg); [|reflexivity].
    rewrite should_emit_agree by exact H. reflexivity.
  Qed.

  Lemma section_symbol_start_agree sty cfg seg section :
    agree (segment_keys seg) ->
    section_symbol_start rt1 sty cfg seg section = section_symbol_start rt2 sty cfg seg section.
  Proof.
    intro H. unfold segment_keys in H. unfold section_symbol_start.
    rewrite gp_stmt_agree by (sub_keys H). reflexivity.
  Qed.

  Section Segs.
    Variable st : settings.
    Variable cfg : wcfg.
    Hypothesis Hbase : agree (path_keys (base_path st)).

    Lemma part_groups_agree seg sections rest :
      agree (segment_keys seg) ->
      forall ws, part_groups rt1 st cfg seg sections rest ws = part_groups rt2 st cfg seg sections rest ws.
    Proof.
      intro H. induction rest as [|section rest' IH]; intro ws; cbn [part_groups]; [reflexivity|].
      rewrite emit_section_agree by assumption. step. rewrite IH. step.
      rewrite section_symbol_start_agree by exact H. reflexivity.
    Qed.

    Lemma write_segment_agree seg sections noload ws :
      agree (segment_keys seg) ->
      write_segment rt1 st cfg seg sections noload ws = write_segment rt2 st cfg seg sections noload ws.
    Proof. intro H. unfold write_segment. rewrite part_groups_agree by exact H. reflexivity. Qed.

    Lemma single_groups_agree seg sections noload rest :
      agree (segment_keys seg) ->
      forall ws, single_groups rt1 st cfg seg sections noload rest ws =
                 single_groups rt2 st cfg seg sections noload rest ws.
    Proof.
      intro H. induction rest as [|section rest' IH]; intro ws; cbn [single_groups]; [reflexivity|].
      rewrite emit_section_agree by assumption. step. rewrite IH. step.
      rewrite section_symbol_start_agree by exact H. reflexivity.
    Qed.

    Lemma write_single_segment_agree seg sections noload ws :
      agree (segment_keys seg) ->
      write_single_segment rt1 st cfg seg sections noload ws =
      write_single_segment rt2 st cfg seg sections noload ws.
    Proof. intro H. unfold write_single_segment. rewrite single_groups_agree by exact H. reflexivity. Qed.

    Variable classes : list vram_class.

    Lemma add_segment_agree seg ws :
      agree (segment_keys seg) ->
      add_segment rt1 st cfg classes seg ws = add_segment rt2 st cfg classes seg ws.
    Proof.
      intro H. unfold add_segment.
      rewrite should_emit_agree by (unfold segment_keys in H; sub_keys H).
      destruct (negb (should_emit rt2 (sg_conds seg))); [reflexivity|].
      step. rewrite write_segment_agree by exact H. step. rewrite write_segment_agree by exact H.
      reflexivity.
    Qed.

    Lemma add_single_segment_agree seg ws :
      agree (segment_keys seg) ->
      add_single_segment rt1 st cfg classes seg ws = add_single_segment rt2 st cfg classes seg ws.
    Proof.
      intro H. unfold add_single_segment. rewrite write_single_segment_agree by exact H. step.
      rewrite write_single_segment_agree by exact H. reflexivity.
    Qed.

    Lemma add_all_segments_agree segs ws :
      agree (flat_map segment_keys segs) ->
      add_all_segments rt1 st cfg classes segs ws = add_all_segments rt2 st cfg classes segs ws.
    Proof.
      intro H. unfold add_all_segments. destruct (single_segment_mode st).
      - destruct segs as [|seg [|s2 r]]; try reflexivity. apply add_single_segment_agree.
        apply (agree_flat_map segment_keys [seg] seg H). left; reflexivity.
      - rewrite (fold_out_ext (add_segment rt1 st cfg classes) (add_segment rt2 st cfg classes));
          [reflexivity|]. intros seg ws' Hs. apply add_segment_agree.
        apply (agree_flat_map segment_keys segs seg H Hs).
    Qed.
  End Segs.

  (* ---------- top-level statements ---------- *)

  Lemma flat_map_ext_in {A B} (f g : A -> list B) l :
    (forall x, In x l -> f x = g x) -> flat_map f l = flat_map g l.
  Proof.
    induction l as [|x r IH]; intro H; [reflexivity|]. cbn [flat_map].
    rewrite (H x (or_introl eq_refl)), IH; [reflexivity|]. intros y Hy. apply H. right. exact Hy.
  Qed.

  Lemma tail_stmts_agree d :
    agree (flat_map (fun a => conds_keys (sa_conds a)) (doc_symbol_assignments d)) ->
    agree (flat_map (fun r => conds_keys (rq_conds r)) (doc_required_symbols d)) ->
    agree (flat_map (fun a => conds_keys (ae_conds a)) (doc_asserts d)) ->
    tail_stmts rt1 d = tail_stmts rt2 d.
  Proof.
    intros Ha Hr Hs. unfold tail_stmts, assignment_stmts, required_stmts, assert_stmts.
    rewrite (flat_map_ext_in _ (fun a => if should_emit rt2 (sa_conds a)
                       then [SAssign (sa_provide a) (sa_hidden a) false (sa_name a) (ERaw (sa_value a))]
                       else []) (doc_symbol_assignments d)).
    2:{ intros a Hin. rewrite should_emit_agree; [reflexivity|].
        apply (agree_flat_map (fun a => conds_keys (sa_conds a)) _ a Ha Hin). }
    rewrite (flat_map_ext_in _ (fun r => if should_emit rt2 (rq_conds r)
                       then [SExtern (rq_name r);
                             SAssert ("DEFINED(" ++ rq_name r ++ ")")%string (required_msg (rq_name r))]
                       else []) (doc_required_symbols d)).
    2:{ intros a Hin. rewrite should_emit_agree; [reflexivity|].
        apply (agree_flat_map (fun r => conds_keys (rq_conds r)) _ a Hr Hin). }
    rewrite (flat_map_ext_in _ (fun a => if should_emit rt2 (ae_conds a)
                       then [SAssert (ae_check a) (ae_error_message a)] else []) (doc_asserts d)).
    2:{ intros a Hin. rewrite should_emit_agree; [reflexivity|].
        apply (agree_flat_map (fun a => conds_keys (ae_conds a)) _ a Hs Hin). }
    reflexivity.
  Qed.

  Hypothesis Hv : rt_emit_version_comment rt1 = rt_emit_version_comment rt2.

  Lemma version_stmts_agree : version_stmts rt1 = version_stmts rt2.
  Proof. unfold version_stmts. rewrite Hv. reflexivity. Qed.

  Lemma gen_normal_agree d : agree (mentioned d) -> gen_normal d rt1 = gen_normal d rt2.
  Proof.
    intro H. unfold mentioned, settings_keys in H. unfold gen_normal.
    rewrite add_all_segments_agree; [| sub_keys H | sub_keys H].
    rewrite version_stmts_agree, tail_stmts_agree; [reflexivity | sub_keys H | sub_keys H | sub_keys H].
  Qed.

  Lemma segment_keys_clone seg p :
    forall k, In k (segment_keys (clone_with_new_files seg [new_object p])) ->
              In k (segment_keys seg) \/ In k (path_keys p).
  Proof.
    intros k Hk. unfold segment_keys in *.
    change (sg_conds (clone_with_new_files seg [new_object p])) with (sg_conds seg) in Hk.
    change (sg_dir (clone_with_new_files seg [new_object p])) with (sg_dir seg) in Hk.
    change (sg_gp_info (clone_with_new_files seg [new_object p])) with (sg_gp_info seg) in Hk.
    change (sg_files (clone_with_new_files seg [new_object p])) with [new_object p] in Hk.
    repeat rewrite in_app_iff in Hk. repeat rewrite in_app_iff.
    destruct Hk as [Hk|[Hk|[Hk|Hk]]]; auto.
    right. cbn [flat_map] in Hk. rewrite app_nil_r, file_keys_eq in Hk.
    cbn [new_object fi_conds fi_path fi_dir fi_files no_conds conds_keys exc_any exc_all inc_any inc_all
         map flat_map app] in Hk.
    unfold conds_keys in Hk. cbn in Hk. rewrite app_nil_r in Hk. exact Hk.
  Qed.

  Lemma partial_segment_agree d folder seg acc :
    agree (path_keys (base_path (doc_settings d))) ->
    agree (segment_keys seg) -> agree (path_keys (push folder (sg_name seg ++ ".o")%string)) ->
    partial_segment d rt1 folder seg acc = partial_segment d rt2 folder seg acc.
  Proof.
    intros Hb H Hobj. unfold partial_segment. cbv zeta.
    rewrite should_emit_agree by (unfold segment_keys in H; sub_keys H).
    destruct (negb (should_emit rt2 (sg_conds seg))); [reflexivity|].
    rewrite add_single_segment_agree by assumption. step.
    rewrite add_segment_agree, version_stmts_agree; [reflexivity | exact Hb |].
    intros k Hk. apply segment_keys_clone in Hk. destruct Hk as [Hk|Hk]; [apply H | apply Hobj]; exact Hk.
  Qed.

  Lemma partial_segments_agree d folder segs :
    agree (path_keys (base_path (doc_settings d))) ->
    agree (flat_map segment_keys segs) ->
    agree (flat_map (fun seg => path_keys (push folder (sg_name seg ++ ".o")%string)) segs) ->
    forall acc, partial_segments d rt1 folder segs acc = partial_segments d rt2 folder segs acc.
  Proof.
    intros Hb. induction segs as [|s r IH]; intros H Hobj acc; cbn [partial_segments]; [reflexivity|].
    cbn [flat_map] in H, Hobj.
    rewrite partial_segment_agree;
      [| exact Hb | apply (agree_app_l _ _ H) | apply (agree_app_l _ _ Hobj)].
    step. rewrite IH; [reflexivity | apply (agree_app_r _ _ H) | apply (agree_app_r _ _ Hobj)].
  Qed.

  Lemma gen_partial_agree d : agree (mentioned d) -> gen_partial d rt1 = gen_partial d rt2.
  Proof.
    intro H. unfold mentioned, settings_keys in H. unfold gen_partial. cbv zeta.
    destruct (partial_build_segments_folder (doc_settings d)) as [folder|] eqn:Ef; [|reflexivity].
    rewrite partial_segments_agree; [| sub_keys H | sub_keys H |].
    - rewrite version_stmts_agree, tail_stmts_agree;
        [reflexivity | sub_keys H | sub_keys H | sub_keys H].
    - assert (E : flat_map (partial_object_keys (doc_settings d)) (doc_segments d) =
                  flat_map (fun seg => path_keys (push folder (sg_name seg ++ ".o")%string))
                           (doc_segments d)).
      { apply flat_map_ext. intro seg. unfold partial_object_keys. rewrite Ef. reflexivity. }
      rewrite <- E. sub_keys H.
  Qed.

  (* the texts written besides the scripts read the options only for their own paths *)
  Lemma deps_text_agree w target : deps_text rt1 w target = deps_text rt2 w target.
  Proof. unfold deps_text. rewrite Hv. reflexivity. Qed.

  Lemma header_text_agree st w : header_text rt1 st w = header_text rt2 st w.
  Proof. unfold header_text. rewrite Hv. reflexivity. Qed.

  Lemma save_other_files_normal_agree st w :
    agree (settings_keys st) -> save_other_files_normal rt1 st w = save_other_files_normal rt2 st w.
  Proof.
    intro H. unfold settings_keys in H. unfold save_other_files_normal.
    rewrite (escape_opt_agree (d_path st)) by (sub_keys H).
    rewrite (escape_opt_agree (target_path st)) by (sub_keys H).
    rewrite (escape_opt_agree (symbols_header_path st)) by (sub_keys H).
    rewrite header_text_agree.
    step. assert (Hd : forall t, deps_text rt1 w t = deps_text rt2 w t) by (intro; apply deps_text_agree).
    destruct a as [dp|]; [|reflexivity].
    destruct (escape_opt rt2 (target_path st)) as [[t|]|e]; cbn [bind]; rewrite ?Hd; reflexivity.
  Qed.

  Lemma save_other_files_partial_agree st p :
    agree (settings_keys st) -> save_other_files_partial rt1 st p = save_other_files_partial rt2 st p.
  Proof.
    intro H. unfold save_other_files_partial. rewrite save_other_files_normal_agree by exact H.
    unfold settings_keys in H.
    rewrite (escape_path_agree (base_path st)) by (sub_keys H).
    rewrite (escape_opt_agree (partial_build_segments_folder st)) by (sub_keys H).
    rewrite (escape_opt_agree (partial_scripts_folder st)) by (sub_keys H).
    do 6 step. destruct (is_some (d_path st)); [|reflexivity].
    f_equal. f_equal. apply map_ext. intro s. rewrite deps_text_agree. reflexivity.
  Qed.

  Lemma export_script_partial_agree st p path :
    agree (settings_keys st) -> export_script_partial rt1 st p path = export_script_partial rt2 st p path.
  Proof.
    intro H. unfold settings_keys in H. unfold export_script_partial.
    rewrite (escape_opt_agree (partial_scripts_folder st)) by (sub_keys H). reflexivity.
  Qed.
End Agree.

(* the command-line tool: options that the document and the output path do not mention change
   nothing, provided clap and the key check accept both option lists *)
Lemma cli_run_unmentioned sd d a1 a2 opts1 opts2 :
  cli_output a1 = cli_output a2 -> cli_partial a1 = cli_partial a2 ->
  cli_omit_version_comment a1 = cli_omit_version_comment a2 ->
  parse_key_vals (cli_options a1) = Some opts1 -> parse_key_vals (cli_options a2) = Some opts2 ->
  forallb (fun kv => key_valid (fst kv)) opts1 = forallb (fun kv => key_valid (fst kv)) opts2 ->
  parse sd = Ok d ->
  agree (Runtime opts1 (negb (cli_omit_version_comment a2))) (Runtime opts2 (negb (cli_omit_version_comment a2)))
        (mentioned d ++ opt_path_keys (cli_output a2)) ->
  cli_run sd a1 = cli_run sd a2.
Proof.
  intros Ho Hpa Hom H1 H2 Hvalid Hd Hag. unfold cli_run. rewrite H1, H2, Ho, Hpa, Hom, Hd, Hvalid.
  destruct (negb (forallb (fun kv => key_valid (fst kv)) opts2)); [reflexivity|].
  cbv zeta.
  set (rt1 := Runtime opts1 (negb (cli_omit_version_comment a2))) in *.
  set (rt2 := Runtime opts2 (negb (cli_omit_version_comment a2))) in *.
  assert (Hv : rt_emit_version_comment rt1 = rt_emit_version_comment rt2) by reflexivity.
  assert (Hm : agree rt1 rt2 (mentioned d)) by (apply (agree_app_l _ _ _ _ Hag)).
  assert (Hst : agree rt1 rt2 (settings_keys (doc_settings d))).
  { unfold mentioned in Hm. apply (agree_app_l _ _ _ _ Hm). }
  assert (Hout : forall o, cli_output a2 = Some o -> escape_path rt1 o = escape_path rt2 o).
  { intros o Eo. apply escape_path_agree. rewrite Eo in Hag. apply (agree_app_r _ _ _ _ Hag). }
  destruct (cli_partial a2).
  - rewrite (gen_partial_agree rt1 rt2 Hv d Hm). destruct (gen_partial d rt2) as [p|e]; [|reflexivity].
    destruct (cli_output a2) as [o|].
    + rewrite (Hout o eq_refl). destruct (escape_path rt2 o) as [path|e]; [|reflexivity].
      rewrite (export_script_partial_agree rt1 rt2 _ _ _ Hst).
      destruct (export_script_partial rt2 (doc_settings d) p path) as [w1|e]; [|reflexivity].
      rewrite (save_other_files_partial_agree rt1 rt2 Hv _ _ Hst). reflexivity.
    + rewrite (save_other_files_partial_agree rt1 rt2 Hv _ _ Hst). reflexivity.
  - rewrite (gen_normal_agree rt1 rt2 Hv d Hm). destruct (gen_normal d rt2) as [w|e]; [|reflexivity].
    destruct (cli_output a2) as [o|].
    + rewrite (Hout o eq_refl). destruct (escape_path rt2 o) as [path|e]; [|reflexivity].
      rewrite (save_other_files_normal_agree rt1 rt2 Hv _ _ Hst). reflexivity.
    + rewrite (save_other_files_normal_agree rt1 rt2 Hv _ _ Hst). reflexivity.
Qed.

(* ====================================================================== *)
(* example data                                                            *)
(* ====================================================================== *)

Definition ex06_excluded : conds := mkConds [] [] [("version", "us")] [].

Definition ex06_obj (p : string) (c : conds) : file_info :=
  FileInfo p KObject "*" 0%N "" "" [] [] "" c KAbsent.

Definition ex06_group (dir : string) (l : list file_info) (c : conds) : file_info :=
  FileInfo "" KGroup "*" 0%N "" "" [] l dir c KAbsent.

(* an excluded group whose dir and whose child need options that are not given, an excluded object
   inside a kept group *)
Definition ex06_files : list file_info :=
  [ex06_obj "{dir}/a.o" no_conds;
   ex06_group "{nowhere}" [ex06_obj "{missing}/x.o" no_conds; ex06_obj "y.o" no_conds] ex06_excluded;
   ex06_group "lib" [ex06_obj "b.o" no_conds; ex06_obj "{missing}/c.o" ex06_excluded;
                     ex06_obj "d.o" no_conds] no_conds].

Definition ex06_files_pruned : list file_info :=
  [ex06_obj "{dir}/a.o" no_conds;
   ex06_group "lib" [ex06_obj "b.o" no_conds; ex06_obj "d.o" no_conds] no_conds].

Definition ex06_seg (files : list file_info) : segment :=
  Segment "main" files (Some 2147483648%N) None None None "" None
          (mkConds [("version", "us"); ("version", "eu")] [] [] [])
          [".text"; ".data"] [".bss"] None None None None None [] [] true None
          [(".text", [".text.hot"])] KAbsent.

Definition ex06_settings : settings :=
  Settings "build/{version}" Splat None (Some "out/{version}.d") (Some "out/rom.elf") None "char" true
           [] [] [] false false (Some "ld/partial") (Some "build/segments") [".text"; ".data"] [".bss"]
           None None None None None [] [] true None [].

Definition ex06_doc (files : list file_info) : document :=
  Document ex06_settings [] [ex06_seg files] (Some "start")
           [SymbolAssignment "x" "1" false false (mkConds [] [("debug", "on")] [] [])] [] [].

Definition ex06_rt : runtime := Runtime [("version", "us"); ("dir", "src")] true.

Lemma ex06_prune : prune ex06_rt ex06_files ex06_files_pruned.
Proof.
  unfold ex06_files, ex06_files_pruned.
  apply prune_keep. apply prune_skip; [reflexivity|].
  apply (prune_group ex06_rt
           (ex06_group "lib" [ex06_obj "b.o" no_conds; ex06_obj "{missing}/c.o" ex06_excluded;
                              ex06_obj "d.o" no_conds] no_conds)
           [ex06_obj "b.o" no_conds; ex06_obj "d.o" no_conds]); [reflexivity | | constructor].
  apply prune_keep. apply prune_skip; [reflexivity|]. apply prune_keep. constructor.
Qed.

Lemma ex06_seg_prune : Forall2 (seg_prune ex06_rt) (doc_segments (ex06_doc ex06_files)) [ex06_seg ex06_files_pruned].
Proof. constructor; [|constructor]. exists ex06_files_pruned. split; [exact ex06_prune | reflexivity]. Qed.

(* two option sets that differ outside what the document mentions *)
Definition ex06_rt1 : runtime :=
  Runtime [("version", "us"); ("dir", "src"); ("unused", "1"); ("nowhere", "x")] true.
Definition ex06_rt2 : runtime :=
  Runtime [("other", "2"); ("dir", "src"); ("version", "eu"); ("version", "us"); ("debug", "off");
           ("debug", "on")] true.
Definition ex06_rt3 : runtime :=
  Runtime [("dir", "src"); ("debug", "on"); ("version", "us"); ("other", "3")] true.

Lemma ex06_agree : agree ex06_rt2 ex06_rt3 (mentioned (ex06_doc ex06_files_pruned)).
Proof.
  intros k Hk. vm_compute in Hk.
  repeat (destruct Hk as [Hk|Hk]; [subst k; reflexivity|]). destruct Hk.
Qed.

(* ====================================================================== *)
(* the statements of Properties/C06More.v in their final form              *)
(* ====================================================================== *)

Lemma no_trace_group_children rt sty cfg seg sections f kids' :
  prune rt (fi_files f) kids' ->
  forall n stack section base ws o,
    emit_sff rt sty cfg seg sections f n stack section base ws = Ok o ->
    emit_sff rt sty cfg seg sections (with_files f kids') n stack section base ws = Ok o.
Proof.
  intro Hp. exact (emit_sff_with_files rt sty cfg seg sections f kids' (prune_fold rt sty cfg seg sections _ _ Hp)).
Qed.

Lemma no_trace_file_section rt sty cfg seg fl sections base_path section ws o :
  prune rt (sg_files seg) fl ->
  emit_section rt sty cfg seg sections base_path section ws = Ok o ->
  emit_section rt sty cfg (clone_with_new_files seg fl) sections base_path section ws = Ok o.
Proof. intro Hp. exact (emit_section_prune rt sty cfg seg fl sections base_path section ws Hp o). Qed.

Lemma no_trace_file_segment rt st cfg classes seg fl ws o :
  prune rt (sg_files seg) fl ->
  add_segment rt st cfg classes seg ws = Ok o ->
  add_segment rt st cfg classes (clone_with_new_files seg fl) ws = Ok o.
Proof. intro Hp. exact (add_segment_prune rt st cfg classes seg fl ws Hp o). Qed.

Lemma no_trace_file_single_segment rt st cfg classes seg fl ws o :
  prune rt (sg_files seg) fl ->
  add_single_segment rt st cfg classes seg ws = Ok o ->
  add_single_segment rt st cfg classes (clone_with_new_files seg fl) ws = Ok o.
Proof. intro Hp. exact (add_single_segment_prune rt st cfg classes seg fl ws Hp o). Qed.

Lemma no_trace_file_normal rt d segs2 w :
  Forall2 (seg_prune rt) (doc_segments d) segs2 ->
  gen_normal d rt = Ok w -> gen_normal (with_segments d segs2) rt = Ok w.
Proof. intro H. exact (gen_normal_prune rt d segs2 H w). Qed.

Lemma no_trace_file_partial rt d segs2 p :
  Forall2 (seg_prune rt) (doc_segments d) segs2 ->
  gen_partial d rt = Ok p -> gen_partial (with_segments d segs2) rt = Ok p.
Proof. intro H. exact (gen_partial_prune rt d segs2 H p). Qed.

(* ====================================================================== *)
(* Part 4: the converse - an included object / archive entry leaves a trace *)
(* ====================================================================== *)

From Slinky Require Import Spec.C01 Proofs.C01 Proofs.C18 Proofs.C12.

(* the statement written for entry [f] (an object or an archive member) and section [k], under the
   directory [b], [p] being the entry's escaped path *)
Definition trace_stmt (seg : segment) (f : file_info) (b p k : string) : stmt :=
  SInput (keeps (fi_keep f) k) (display (push b p)) (member_of f) k (wildcard_sections seg).

(* it occurs among the statements [s] (inside output sections too) and its path has been recorded *)
Definition traced (seg : segment) (f : file_info) (b p k : string) (s : list stmt) (ws' : wstate) : Prop :=
  In (trace_stmt seg f b p k) (flat_map deep_inputs s) /\ In (components (push b p)) (ws_paths ws').

(* the directory under which the entries of a segment are placed *)
Definition seg_base (rt : runtime) (cfg : wcfg) (seg : segment) (base_path b : string) : Prop :=
  exists b0, escape_path rt base_path = Ok b0 /\
             (if reference_partial cfg then b = b0
              else exists d, escape_path rt (sg_dir seg) = Ok d /\ b = push b0 d).

Definition file_traced (rt : runtime) (seg : segment) (f : file_info) (b k : string)
           (s : list stmt) (ws' : wstate) : Prop :=
  exists p, escape_path rt (fi_path f) = Ok p /\ traced seg f b p k s ws'.

Definition grows (ws : wstate) (s : list stmt) (ws' : wstate) : Prop := incl (ws_paths ws) (ws_paths ws').

Lemma grows_refl ws s : grows ws s ws.
Proof. apply incl_refl. Qed.

Lemma grows_trans ws s1 ws1 s2 ws2 : grows ws s1 ws1 -> grows ws1 s2 ws2 -> grows ws (s1 ++ s2) ws2.
Proof. unfold grows. intros. eapply incl_tran; eassumption. Qed.

Lemma add_path_grows p ws : incl (ws_paths ws) (ws_paths (add_path p ws)).
Proof.
  unfold add_path. destruct (comps_mem (components p) (ws_paths ws)); [apply incl_refl|].
  cbn [ws_paths]. apply incl_appl, incl_refl.
Qed.

Lemma add_path_in p ws : In (components p) (ws_paths (add_path p ws)).
Proof.
  unfold add_path. destruct (comps_mem (components p) (ws_paths ws)) eqn:E.
  - unfold comps_mem in E. apply existsb_exists in E. destruct E as [c [Hc E]].
    apply comps_eqb_spec in E. rewrite E. exact Hc.
  - cbn [ws_paths]. apply in_or_app. right. left. reflexivity.
Qed.

Lemma grows_emitter sty wild offs g :
  emitter sty wild offs g -> forall ws s ws', g ws = Ok (s, ws') -> grows ws s ws'.
Proof.
  apply (emitter_rel sty wild offs grows).
  - intro ws. apply grows_refl.
  - apply grows_trans.
  - intros. apply add_path_grows.
  - intros. apply grows_refl.
  - intros. apply grows_refl.
Qed.

Lemma grows_emit_sff rt sty cfg seg sections f n stack section base ws s ws' :
  emit_sff rt sty cfg seg sections f n stack section base ws = Ok (s, ws') -> grows ws s ws'.
Proof. apply (grows_emitter sty (wildcard_sections seg) (offs_of rt f)). apply emit_sff_emitter. Qed.

Lemma grows_emit_section rt sty cfg seg sections base section ws s ws' :
  emit_section rt sty cfg seg sections base section ws = Ok (s, ws') -> grows ws s ws'.
Proof.
  apply (grows_emitter sty (wildcard_sections seg) (offs_of_segment rt seg)). apply emit_section_emitter.
Qed.

(* a property of the output that one element of a fold establishes and later output preserves *)
Section FoldSome.
  Context {A : Type}.
  Variable f0 : A -> wstate -> res out.
  Variable Q : list stmt -> wstate -> Prop.
  Hypothesis Q_left : forall s ws s2 ws', Q s ws -> incl (ws_paths ws) (ws_paths ws') -> Q (s ++ s2) ws'.
  Hypothesis Q_right : forall s1 s ws, Q s ws -> Q (s1 ++ s) ws.
  Hypothesis f0_grows : forall y ws s ws', f0 y ws = Ok (s, ws') -> grows ws s ws'.

  Lemma fold_out_some l x :
    In x l -> (forall ws s ws', f0 x ws = Ok (s, ws') -> Q s ws') ->
    forall ws s ws', fold_out f0 l ws = Ok (s, ws') -> Q s ws'.
  Proof.
    intros Hin Hx. induction l as [|y r IH]; intros ws s ws' H; [destruct Hin|].
    apply fold_out_cons in H. destruct H as [s1 [ws1 [s2 [E1 [E2 E]]]]]. subst s.
    destruct Hin as [Hy|Hin].
    - subst y. apply (Q_left s1 ws1); [eapply Hx; eassumption|].
      change (grows ws1 s2 ws').
      apply (fold_out_rel grows f0 r); [intro; apply grows_refl | apply grows_trans | | exact E2].
      intros z w t w' _. apply f0_grows.
    - apply Q_right. eapply IH; eassumption.
  Qed.
End FoldSome.

Lemma deep_in_app T a b :
  In T (flat_map deep_inputs (a ++ b)) <-> In T (flat_map deep_inputs a) \/ In T (flat_map deep_inputs b).
Proof. rewrite flat_map_app. apply in_app_iff. Qed.

Lemma traced_left seg f b p k s ws s2 ws' :
  traced seg f b p k s ws -> incl (ws_paths ws) (ws_paths ws') -> traced seg f b p k (s ++ s2) ws'.
Proof. intros [H1 H2] Hi. split; [apply deep_in_app; left; exact H1 | apply Hi; exact H2]. Qed.

Lemma traced_right seg f b p k s1 s ws : traced seg f b p k s ws -> traced seg f b p k (s1 ++ s) ws.
Proof. intros [H1 H2]. split; [apply deep_in_app; right; exact H1 | exact H2]. Qed.

Lemma file_traced_left rt seg f b k s ws s2 ws' :
  file_traced rt seg f b k s ws -> incl (ws_paths ws) (ws_paths ws') -> file_traced rt seg f b k (s ++ s2) ws'.
Proof. intros [p [Hp H]] Hi. exists p. split; [exact Hp | eapply traced_left; eassumption]. Qed.

Lemma file_traced_right rt seg f b k s1 s ws :
  file_traced rt seg f b k s ws -> file_traced rt seg f b k (s1 ++ s) ws.
Proof. intros [p [Hp H]]. exists p. split; [exact Hp | apply traced_right; exact H]. Qed.

(* ---------- one included object / archive entry ---------- *)

Definition names_file (f : file_info) : Prop := fi_kind f = KObject \/ fi_kind f = KArchive.

Lemma emit_file_of_leaf rt sty cfg seg sections f k base ws s ws' :
  should_emit rt (fi_conds f) = true -> names_file f ->
  emit_file_of rt sty cfg seg sections f k base ws = Ok (s, ws') ->
  exists p, escape_path rt (fi_path f) = Ok p /\ s = [trace_stmt seg f base p k] /\
            ws' = add_path (push base p) ws.
Proof.
  intros He Hk. unfold emit_file_of, emit_file_gen, trace_stmt, member_of. rewrite He. cbn [negb].
  destruct Hk as [Hk|Hk]; rewrite Hk; destruct (escape_path rt (fi_path f)) as [p|e]; cbn [bind];
    try discriminate; intro H; apply ok_inj in H; inversion H; subst; exists p; auto.
Qed.

Lemma grows_emit_file_of rt sty cfg seg sections f k base ws s ws' :
  emit_file_of rt sty cfg seg sections f k base ws = Ok (s, ws') -> grows ws s ws'.
Proof.
  apply (grows_emitter sty (wildcard_sections seg) (offs_of rt f)). apply emit_file_of_emitter.
  apply Forall_forall. intros c _ n stack section b. apply emit_sff_emitter.
Qed.

(* ---------- what one call of emit_section_for_file contains ---------- *)

(* the sub-group expansions that follow section [k] of entry [f] *)
Definition after_file rt sty cfg seg sections (f : file_info) (n : nat) (stack : list string)
           (k base : string) (ws : wstate) : res out :=
  if reference_partial cfg then Ok ([], ws) else
  match lookup k (subgroups_for seg f) with
  | Some others =>
      fold_out (fun other ws => emit_sff rt sty cfg seg sections f n stack other base ws) others ws
  | None => Ok ([], ws)
  end.

Lemma grows_after_file rt sty cfg seg sections f n stack k base ws s ws' :
  after_file rt sty cfg seg sections f n stack k base ws = Ok (s, ws') -> grows ws s ws'.
Proof.
  unfold after_file. destruct (reference_partial cfg).
  - intro H. apply ok_inj in H. inversion H; subst. apply grows_refl.
  - destruct (lookup k (subgroups_for seg f)) as [others|].
    + apply (fold_out_rel grows); [intro; apply grows_refl | apply grows_trans |].
      intros z w0 t0 w0' _. apply grows_emit_sff.
    + intro H. apply ok_inj in H. inversion H; subst. apply grows_refl.
Qed.

Lemma emit_sff_unfold rt sty cfg seg sections f n stack section base ws s ws' :
  emit_sff rt sty cfg seg sections f n stack section base ws = Ok (s, ws') ->
  exists n', n = S n' /\
    fold_out (fun k ws =>
                do o1 <- emit_file_of rt sty cfg seg sections f k base ws;
                do o2 <- after_file rt sty cfg seg sections f n' (section :: stack) k base (snd o1);
                Ok ((fst o1 ++ fst o2)%list, snd o2))
             (sections_here f section sections) ws = Ok (s, ws').
Proof.
  destruct n as [|n]; [rewrite emit_sff_O; discriminate|]. rewrite emit_sff_S.
  destruct (mem_str section stack); [discriminate|]. intro H. exists n. split; [reflexivity | exact H].
Qed.

Lemma step_inv rt sty cfg seg sections f n stack k base ws s ws' :
  (do o1 <- emit_file_of rt sty cfg seg sections f k base ws;
   do o2 <- after_file rt sty cfg seg sections f n stack k base (snd o1);
   Ok ((fst o1 ++ fst o2)%list, snd o2)) = Ok (s, ws') ->
  exists s1 w1 s2, emit_file_of rt sty cfg seg sections f k base ws = Ok (s1, w1) /\
                   after_file rt sty cfg seg sections f n stack k base w1 = Ok (s2, ws') /\ s = s1 ++ s2.
Proof.
  intro H. apply bind_ok_out in H. destruct H as [s1 [w1 [E1 H]]]. cbn [fst snd] in H.
  apply bind_ok_out in H. destruct H as [s2 [w2 [E2 H]]]. cbn [fst snd] in H.
  apply ok_inj in H. inversion H; subst. exists s1, w1, s2. auto.
Qed.

Lemma grows_step rt sty cfg seg sections f n stack k base ws s ws' :
  (do o1 <- emit_file_of rt sty cfg seg sections f k base ws;
   do o2 <- after_file rt sty cfg seg sections f n stack k base (snd o1);
   Ok ((fst o1 ++ fst o2)%list, snd o2)) = Ok (s, ws') -> grows ws s ws'.
Proof.
  intro H. apply step_inv in H. destruct H as [s1 [w1 [s2 [E1 [E2 E]]]]]. subst s.
  eapply grows_trans; [eapply grows_emit_file_of; eassumption | eapply grows_after_file; eassumption].
Qed.

(* a section [m] that entry [f] reaches from [a] (Spec/C01.v: through its section_order, then through
   the sub-groups) is written: whatever emit_file yields for [m] is part of what is returned for [a] *)
Section Reached.
  Variables (rt : runtime) (sty : style) (cfg : wcfg) (seg : segment) (sections : list string).
  Variable Q : list stmt -> wstate -> Prop.
  Hypothesis Q_left : forall s ws s2 ws', Q s ws -> incl (ws_paths ws) (ws_paths ws') -> Q (s ++ s2) ws'.
  Hypothesis Q_right : forall s1 s ws, Q s ws -> Q (s1 ++ s) ws.

  Lemma emit_sff_reaches f a m :
    Reaches cfg seg sections f a m ->
    forall base,
    (forall ws s ws', emit_file_of rt sty cfg seg sections f m base ws = Ok (s, ws') -> Q s ws') ->
    forall n stack ws s ws',
      emit_sff rt sty cfg seg sections f n stack a base ws = Ok (s, ws') -> Q s ws'.
  Proof.
    induction 1 as [a k Hk | a k s0 m Hk Hs0 Hr IH]; intros base Hm n stack ws s ws' H;
      apply emit_sff_unfold in H; destruct H as [n' [En H]]; subst n; revert H;
      apply (fold_out_some _ Q Q_left Q_right) with (x := k);
      try (intros y w t w'; apply grows_step); try exact Hk.
    - intros w t w' H. apply step_inv in H. destruct H as [s1 [w1 [s2 [E1 [E2 E]]]]]. subst t.
      apply (Q_left s1 w1); [eapply Hm; eassumption | eapply grows_after_file; eassumption].
    - intros w t w' H. apply step_inv in H. destruct H as [s1 [w1 [s2 [E1 [E2 E]]]]]. subst t.
      apply Q_right. revert E2. unfold after_file.
      unfold entry_members, members in Hs0.
      destruct (fi_kind f) eqn:Ek; try (destruct Hs0; fail);
        (destruct (reference_partial cfg); [destruct Hs0|]);
        (rewrite (subgroups_for_leaf seg f) by (rewrite Ek; discriminate));
        (destruct (lookup k (sections_subgroups seg)) as [others|]; [|destruct Hs0]);
        apply (fold_out_some _ Q Q_left Q_right) with (x := s0);
        try (intros y w0 t0 w0'; apply grows_emit_sff); try exact Hs0;
        intros w0 t0 w0'; apply IH; exact Hm.
  Qed.
End Reached.

(* wherever the entry is expanded (any fuel, any stack): for every section [k] it reaches from
   [section] its statement for [k] is there and its path is recorded *)
Lemma emit_sff_traced rt sty cfg seg sections f n stack section base k ws s ws' :
  should_emit rt (fi_conds f) = true -> names_file f ->
  Reaches cfg seg sections f section k ->
  emit_sff rt sty cfg seg sections f n stack section base ws = Ok (s, ws') ->
  file_traced rt seg f base k s ws'.
Proof.
  intros He Hk Hr.
  apply (emit_sff_reaches rt sty cfg seg sections (file_traced rt seg f base k)
           (file_traced_left rt seg f base k) (file_traced_right rt seg f base k) f section k Hr).
  intros w t w' H. destruct (emit_file_of_leaf _ _ _ _ _ _ _ _ _ _ _ He Hk H) as [p [Hp [Es Ew]]]. subst t w'.
  exists p. split; [exact Hp|]. split.
  - cbn [flat_map]. unfold trace_stmt at 2. cbn [deep_inputs app]. left. reflexivity.
  - apply add_path_in.
Qed.

(* entries inside groups: every leaf below [f0] ([leaves]: the included object / archive entries with
   the directory accumulated from the included groups above them), every section reached through the
   chain of entries from [f0] down to the leaf *)
Lemma emit_file_of_group rt sty cfg seg sections f k base ws :
  should_emit rt (fi_conds f) = true -> fi_kind f = KGroup ->
  emit_file_of rt sty cfg seg sections f k base ws =
  (do d <- escape_path rt (fi_dir f);
   fold_out (fun c ws => emit_sff rt sty cfg seg sections c (chain_fuel seg) [] k (push base d) ws)
            (fi_files f) ws).
Proof. intros He Hk. unfold emit_file_of, emit_file_gen, group_fold. rewrite He, Hk. reflexivity. Qed.

Lemma emit_sff_leaf_traced rt sty cfg seg sections f0 :
  forall n stack a base ws s ws',
    emit_sff rt sty cfg seg sections f0 n stack a base ws = Ok (s, ws') ->
    forall c bc chain k,
      In (c, bc, chain) (leaves rt base f0) -> reach_via cfg seg sections chain a k ->
      file_traced rt seg c bc k s ws'.
Proof.
  induction f0 as [p0 k0 sf pa sec lon so files d c0 kp IHfiles] using file_info_ind'.
  set (f := FileInfo p0 k0 sf pa sec lon so files d c0 kp) in *.
  intros n stack a base ws s ws' H c bc chain k Hleaf Hreach.
  destruct (should_emit rt (fi_conds f)) eqn:He; [|rewrite (leaves_excluded rt base f He) in Hleaf; destruct Hleaf].
  destruct (fi_kind f) eqn:Ek.
  - rewrite (leaves_one rt base f He (or_introl Ek)) in Hleaf. destruct Hleaf as [E|[]]. inversion E; subst c bc chain.
    destruct Hreach as [m [Hr Em]]. cbn [reach_via] in Em. subst m.
    eapply emit_sff_traced; try eassumption. left; exact Ek.
  - rewrite (leaves_one rt base f He (or_intror Ek)) in Hleaf. destruct Hleaf as [E|[]]. inversion E; subst c bc chain.
    destruct Hreach as [m [Hr Em]]. cbn [reach_via] in Em. subst m.
    eapply emit_sff_traced; try eassumption. right; exact Ek.
  - rewrite (leaves_other rt base f He (or_introl Ek)) in Hleaf. destruct Hleaf.
  - rewrite (leaves_other rt base f He (or_intror Ek)) in Hleaf. destruct Hleaf.
  - destruct (escape_path rt (fi_dir f)) as [dd|e] eqn:Hd;
      [|rewrite (leaves_group_err rt base f e He Ek Hd) in Hleaf; destruct Hleaf].
    rewrite (leaves_group_ok rt base f dd He Ek Hd) in Hleaf. apply in_map_iff in Hleaf.
    destruct Hleaf as [[[c' bc'] chain'] [E Hin]]. cbn [fst snd] in E. inversion E; subst c' bc' chain. clear E.
    apply in_flat_map in Hin. destruct Hin as [child [Hchild Hin]].
    destruct Hreach as [m [Hr Hreach]].
    revert H.
    apply (emit_sff_reaches rt sty cfg seg sections (file_traced rt seg c bc k)
             (file_traced_left rt seg c bc k) (file_traced_right rt seg c bc k) f a m Hr).
    intros w t w'. rewrite (emit_file_of_group _ _ _ _ _ _ _ _ _ He Ek), Hd. cbn [bind].
    apply (fold_out_some _ (file_traced rt seg c bc k)) with (x := child).
    + apply file_traced_left.
    + apply file_traced_right.
    + intros y w0 t0 w0'. apply grows_emit_sff.
    + exact Hchild.
    + intros w0 t0 w0' H0. rewrite Forall_forall in IHfiles.
      eapply (IHfiles child Hchild); eassumption.
Qed.

(* ---------- from the group of one section up to whole scripts ---------- *)

Lemma emit_section_base rt sty cfg seg sections bp section ws s ws' :
  emit_section rt sty cfg seg sections bp section ws = Ok (s, ws') ->
  exists b, seg_base rt cfg seg bp b /\
            fold_out (fun f ws => emit_sff rt sty cfg seg sections f (chain_fuel seg) [] section b ws)
                     (sg_files seg) ws = Ok (s, ws').
Proof.
  unfold emit_section, seg_base. destruct (escape_path rt bp) as [b0|e]; cbn [bind]; [|discriminate].
  destruct (reference_partial cfg); cbn [bind].
  - intro H. exists b0. split; [exists b0; auto | exact H].
  - destruct (escape_path rt (sg_dir seg)) as [d|e]; cbn [bind]; [|discriminate].
    intro H. exists (push b0 d). split; [exists b0; split; [reflexivity | exists d; auto] | exact H].
Qed.

Lemma seg_base_fun rt cfg seg bp b1 b2 : seg_base rt cfg seg bp b1 -> seg_base rt cfg seg bp b2 -> b1 = b2.
Proof.
  intros [x [Hx H1]] [y [Hy H2]]. rewrite Hx in Hy. apply ok_inj in Hy. subst y.
  destruct (reference_partial cfg); [congruence|].
  destruct H1 as [d1 [Hd1 E1]], H2 as [d2 [Hd2 E2]]. rewrite Hd1 in Hd2. apply ok_inj in Hd2. congruence.
Qed.

(* a property [Q] of (statements, recorded paths) that the group of [section] establishes, that later
   output preserves and that holds of a block when it holds of its body *)
Section Up.
  Variables (rt : runtime) (st : settings) (cfg : wcfg) (seg : segment).
  Variable Q : list stmt -> wstate -> Prop.
  Hypothesis Q_left : forall s ws s2 ws', Q s ws -> incl (ws_paths ws) (ws_paths ws') -> Q (s ++ s2) ws'.
  Hypothesis Q_right : forall s1 s ws, Q s ws -> Q (s1 ++ s) ws.
  Hypothesis Q_outsec : forall name addr at_ noload sub pre body ws,
      Q body ws -> Q [SOutSec name addr at_ noload sub (pre ++ body)] ws.
  Hypothesis Q_sections : forall body ws, Q body ws -> Q [SSections body] ws.
  Variable section : string.

  Definition section_has (sections : list string) : Prop :=
    In section sections /\
    forall ws s ws',
      emit_section rt (linker_symbols_style st) cfg seg sections (base_path st) section ws = Ok (s, ws') ->
      Q s ws'.

  Lemma grows_part_groups sections rest : forall ws s ws',
    part_groups rt st cfg seg sections rest ws = Ok (s, ws') -> grows ws s ws'.
  Proof.
    induction rest as [|sec rest IH]; intros ws s ws' H.
    - apply ok_inj in H. inversion H; subst. apply grows_refl.
    - apply part_groups_cons in H. destruct H as [s1 [ws1 [s2 [E1 [E2 E]]]]].
      change (grows ws (s1 ++ s2) ws').
      eapply grows_trans; [eapply grows_emit_section; eassumption | eapply IH; eassumption].
  Qed.

  Lemma part_groups_some sections rest :
    (forall ws s ws',
        emit_section rt (linker_symbols_style st) cfg seg sections (base_path st) section ws = Ok (s, ws') ->
        Q s ws') ->
    In section rest ->
    forall ws s ws', part_groups rt st cfg seg sections rest ws = Ok (s, ws') -> Q s ws'.
  Proof.
    intro Hq. induction rest as [|sec rest IH]; intros Hs ws s ws' H; [destruct Hs|].
    apply part_groups_cons in H. destruct H as [s1 [ws1 [s2 [E1 [E2 E]]]]]. subst s.
    apply Q_right. destruct Hs as [Hs|Hs].
    - subst sec. apply (Q_left s1 ws1); [eapply Hq; eassumption | eapply grows_part_groups; eassumption].
    - apply Q_right. apply Q_right. apply Q_right. eapply IH; eassumption.
  Qed.

  Lemma grows_write_segment sections noload ws s ws' :
    write_segment rt st cfg seg sections noload ws = Ok (s, ws') -> grows ws s ws'.
  Proof.
    intro H. apply write_segment_inv in H. destruct H as [body [E _]].
    change (grows ws body ws'). eapply grows_part_groups; eassumption.
  Qed.

  Lemma write_segment_some sections noload ws s ws' :
    section_has sections -> write_segment rt st cfg seg sections noload ws = Ok (s, ws') -> Q s ws'.
  Proof.
    intros [Hs Hq] H. apply write_segment_inv in H. destruct H as [body [E Es]]. subst s.
    apply Q_right. apply (Q_left _ ws'); [|apply incl_refl].
    unfold outsec_of. apply Q_outsec. eapply part_groups_some; eassumption.
  Qed.

  Lemma grows_add_segment classes ws s ws' :
    add_segment rt st cfg classes seg ws = Ok (s, ws') -> grows ws s ws'.
  Proof.
    intro H. apply add_segment_inv in H.
    destruct H as [[_ [_ E]] | [_ [cls [ws1 [s1 [ws2 [s2 [Ec [E1 [E2 E]]]]]]]]]]; [subst; apply grows_refl|].
    assert (Ep : ws_paths ws1 = ws_paths ws).
    { apply class_part_inv in Ec. destruct Ec as [[_ Ew] | [cn [c [_ [_ [_ [_ Ew]]]]]]]; subst; reflexivity. }
    apply grows_write_segment in E1. apply grows_write_segment in E2. unfold grows in *. rewrite <- Ep.
    eapply incl_tran; eassumption.
  Qed.

  Lemma add_segment_some classes ws s ws' :
    should_emit rt (sg_conds seg) = true ->
    section_has (alloc_sections seg) \/ section_has (noload_sections seg) ->
    add_segment rt st cfg classes seg ws = Ok (s, ws') -> Q s ws'.
  Proof.
    intros Hseg Hs H. apply add_segment_inv in H.
    destruct H as [[Hc _] | [_ [cls [ws1 [s1 [ws2 [s2 [Ec [E1 [E2 E]]]]]]]]]]; [congruence|]. subst s.
    apply Q_right. apply Q_right. destruct Hs as [Hs|Hs].
    - apply (Q_left s1 ws2); [eapply write_segment_some; eassumption | eapply grows_write_segment; eassumption].
    - apply Q_right. apply Q_right. apply (Q_left s2 ws'); [|apply incl_refl].
      eapply write_segment_some; eassumption.
  Qed.

  (* the single-segment writer *)
  Lemma grows_single_groups sections noload rest : forall ws s ws',
    single_groups rt st cfg seg sections noload rest ws = Ok (s, ws') -> grows ws s ws'.
  Proof.
    induction rest as [|sec rest IH]; intros ws s ws' H.
    - apply ok_inj in H. inversion H; subst. apply grows_refl.
    - apply single_groups_cons in H. destruct H as [s1 [ws1 [s2 [E1 [E2 E]]]]].
      change (grows ws (s1 ++ s2) ws').
      eapply grows_trans; [eapply grows_emit_section; eassumption | eapply IH; eassumption].
  Qed.

  Lemma single_groups_some sections noload rest :
    (forall ws s ws',
        emit_section rt (linker_symbols_style st) cfg seg sections (base_path st) section ws = Ok (s, ws') ->
        Q s ws') ->
    In section rest ->
    forall ws s ws', single_groups rt st cfg seg sections noload rest ws = Ok (s, ws') -> Q s ws'.
  Proof.
    intro Hq. induction rest as [|sec rest IH]; intros Hs ws s ws' H; [destruct Hs|].
    apply single_groups_cons in H. destruct H as [s1 [ws1 [s2 [E1 [E2 E]]]]]. subst s.
    apply Q_right. destruct Hs as [Hs|Hs].
    - subst sec. apply (Q_left _ ws1); [|eapply grows_single_groups; eassumption].
      apply Q_outsec. eapply Hq; eassumption.
    - apply Q_right. apply Q_right. apply Q_right. eapply IH; eassumption.
  Qed.

  Lemma grows_write_single_segment sections noload ws s ws' :
    write_single_segment rt st cfg seg sections noload ws = Ok (s, ws') -> grows ws s ws'.
  Proof.
    intro H. apply write_single_segment_inv in H. destruct H as [body [E _]].
    change (grows ws body ws'). eapply grows_single_groups; eassumption.
  Qed.

  Lemma write_single_segment_some sections noload ws s ws' :
    section_has sections -> write_single_segment rt st cfg seg sections noload ws = Ok (s, ws') -> Q s ws'.
  Proof.
    intros [Hs Hq] H. apply write_single_segment_inv in H. destruct H as [body [E Es]]. subst s.
    apply Q_right. apply (Q_left _ ws'); [|apply incl_refl]. eapply single_groups_some; eassumption.
  Qed.

  Lemma add_single_segment_some classes ws s ws' :
    section_has (alloc_sections seg) \/ section_has (noload_sections seg) ->
    add_single_segment rt st cfg classes seg ws = Ok (s, ws') -> Q s ws'.
  Proof.
    intros Hs H. apply add_single_segment_inv in H.
    destruct H as [s1 [ws1 [s2 [E1 [E2 E]]]]]. subst s. apply Q_sections. apply Q_right.
    destruct Hs as [Hs|Hs].
    - apply (Q_left s1 ws1); [eapply write_single_segment_some; eassumption
                             | eapply grows_write_single_segment; eassumption].
    - apply Q_right. apply Q_right. apply (Q_left s2 ws'); [|apply incl_refl].
      eapply write_single_segment_some; eassumption.
  Qed.
End Up.

(* whole documents *)
Section UpDoc.
  Variables (rt : runtime) (d : document) (seg : segment).
  Variable Q : list stmt -> wstate -> Prop.
  Hypothesis Q_left : forall s ws s2 ws', Q s ws -> incl (ws_paths ws) (ws_paths ws') -> Q (s ++ s2) ws'.
  Hypothesis Q_right : forall s1 s ws, Q s ws -> Q (s1 ++ s) ws.
  Hypothesis Q_outsec : forall name addr at_ noload sub pre body ws,
      Q body ws -> Q [SOutSec name addr at_ noload sub (pre ++ body)] ws.
  Hypothesis Q_sections : forall body ws, Q body ws -> Q [SSections body] ws.
  Variable section : string.

  (* the ordinary script.  In single_segment_mode the conditions of the only segment are not consulted
     (add_all_segments calls add_single_segment directly) *)
  Lemma gen_normal_some w :
    gen_normal d rt = Ok w -> In seg (doc_segments d) ->
    (single_segment_mode (doc_settings d) = true \/ should_emit rt (sg_conds seg) = true) ->
    section_has rt (doc_settings d) cfg_normal seg Q section (alloc_sections seg) \/
    section_has rt (doc_settings d) cfg_normal seg Q section (noload_sections seg) ->
    exists ws', wo_paths w = ws_paths ws' /\ Q (wo_script w) ws'.
  Proof.
    intros H Hseg Hc Hs. apply gen_normal_inv in H. destruct H as [s [ws' [E H]]]. subst w.
    exists ws'. split; [reflexivity|]. cbn [wo_script]. apply Q_right. apply (Q_left s ws'); [|apply incl_refl].
    apply add_all_segments_inv in E. destruct E as [[Hm [sg [Esegs E]]] | [Hm [body [E Es]]]].
    - rewrite Esegs in Hseg. destruct Hseg as [Hseg|[]]. subst sg.
      eapply add_single_segment_some; eassumption.
    - destruct Hc as [Hc|Hc]; [congruence|]. subst s. apply Q_sections.
      apply Q_right. apply (Q_left body ws'); [|apply incl_refl].
      revert E. apply (fold_out_some _ Q Q_left Q_right) with (x := seg).
      + intros y w t w'. apply grows_add_segment.
      + exact Hseg.
      + intros w t w'. apply (add_segment_some rt (doc_settings d) cfg_normal seg Q Q_left Q_right Q_outsec section);
          assumption.
  Qed.

  (* a partial build: the per-segment script of an included segment *)
  Lemma partial_segments_some folder segs : forall ws subs s ws' subs',
    section_has rt (doc_settings d) cfg_sub_partial seg Q section (alloc_sections seg) \/
    section_has rt (doc_settings d) cfg_sub_partial seg Q section (noload_sections seg) ->
    partial_segments d rt folder segs (ws, subs) = Ok (s, (ws', subs')) ->
    incl subs subs' /\
    (In seg segs -> should_emit rt (sg_conds seg) = true ->
     exists w wsub, In (sg_name seg, w) subs' /\ wo_paths w = ws_paths wsub /\ Q (wo_script w) wsub).
  Proof.
    intros ws subs s ws' subs' Hs. revert ws subs s ws' subs'.
    induction segs as [|sg r IH]; intros ws subs s ws' subs' H.
    - apply ok_inj in H. inversion H; subst. split; [apply incl_refl | intros []].
    - apply partial_segments_cons in H. destruct H as [s1 [[ws1 subs1] [s2 [E1 [E2 E]]]]]. subst s.
      apply IH in E2. destruct E2 as [Hi2 Hr]. apply partial_segment_inv in E1.
      destruct E1 as [[Hc [E [Ew Es]]] | [Hc [sub [wsub [Ea [Eb Es]]]]]]; subst.
      + split; [exact Hi2|]. intros [Hsg|Hin] Hc'; [subst sg; congruence | apply Hr; assumption].
      + split; [eapply incl_tran; [apply incl_appl, incl_refl | exact Hi2]|].
        intros [Hsg|Hin] Hc'; [|apply Hr; assumption]. subst sg.
        eexists. exists wsub. split; [apply Hi2; apply in_or_app; right; left; reflexivity|].
        cbn [wo_script wo_paths]. split; [reflexivity|]. apply Q_right.
        eapply add_single_segment_some; eassumption.
  Qed.

  Lemma gen_partial_some po :
    gen_partial d rt = Ok po -> In seg (doc_segments d) -> should_emit rt (sg_conds seg) = true ->
    section_has rt (doc_settings d) cfg_sub_partial seg Q section (alloc_sections seg) \/
    section_has rt (doc_settings d) cfg_sub_partial seg Q section (noload_sections seg) ->
    exists w wsub, In (sg_name seg, w) (po_subs po) /\ wo_paths w = ws_paths wsub /\ Q (wo_script w) wsub.
  Proof.
    intros H Hseg Hc Hs. apply gen_partial_inv in H.
    destruct H as [folder [body [ws [subs [Ef [E H]]]]]]. subst po. cbn [po_subs].
    destruct (partial_segments_some _ _ _ _ _ _ _ Hs E) as [_ G]. apply G; assumption.
  Qed.
End UpDoc.

(* ---------- the property: a leaf of the segment's file list is traced ---------- *)

Lemma file_traced_outsec rt seg f b k name addr at_ noload sub pre body ws :
  file_traced rt seg f b k body ws -> file_traced rt seg f b k [SOutSec name addr at_ noload sub (pre ++ body)] ws.
Proof.
  intros [p [Hp [H1 H2]]]. exists p. split; [exact Hp|]. split; [|exact H2].
  cbn [flat_map deep_inputs]. rewrite app_nil_r. apply deep_in_app. right. exact H1.
Qed.

Lemma file_traced_sections rt seg f b k body ws :
  file_traced rt seg f b k body ws -> file_traced rt seg f b k [SSections body] ws.
Proof.
  intros [p [Hp [H1 H2]]]. exists p. split; [exact Hp|]. split; [|exact H2].
  cbn [flat_map deep_inputs]. rewrite app_nil_r. exact H1.
Qed.

(* [sections] is only the sort key of [here]: what is reached does not depend on it *)
Lemma reaches_sections cfg seg s1 s2 f a m : Reaches cfg seg s1 f a m -> Reaches cfg seg s2 f a m.
Proof.
  induction 1 as [a k Hk | a k s0 m Hk Hs0 Hr IH].
  - apply Reach_here. apply in_here. apply in_here in Hk. exact Hk.
  - eapply Reach_member; [|exact Hs0|exact IH]. apply in_here. apply in_here in Hk. exact Hk.
Qed.

Lemma reach_via_sections cfg seg s1 s2 chain : forall a b,
  reach_via cfg seg s1 chain a b -> reach_via cfg seg s2 chain a b.
Proof.
  induction chain as [|f r IH]; intros a b H; [exact H|]. destruct H as [m [Hr H]].
  exists m. split; [eapply reaches_sections; exact Hr | apply IH; exact H].
Qed.

(* the group of [section] contains the statements of every leaf for every section reached *)
Lemma emit_section_leaf_traced rt sty cfg seg sections bp section b c0 c bc chain k ws s ws' :
  seg_base rt cfg seg bp b -> In c0 (sg_files seg) -> In (c, bc, chain) (leaves rt b c0) ->
  reach_via cfg seg sections chain section k ->
  emit_section rt sty cfg seg sections bp section ws = Ok (s, ws') ->
  file_traced rt seg c bc k s ws'.
Proof.
  intros Hb Hc0 Hleaf Hreach H. apply emit_section_base in H. destruct H as [b' [Hb' H]].
  rewrite (seg_base_fun _ _ _ _ _ _ Hb' Hb) in H. clear b' Hb'. revert H.
  apply (fold_out_some _ (file_traced rt seg c bc k)) with (x := c0).
  - apply file_traced_left.
  - apply file_traced_right.
  - intros y w t w'. apply grows_emit_sff.
  - exact Hc0.
  - intros w t w' H. eapply emit_sff_leaf_traced; eassumption.
Qed.

Lemma leaf_section_has rt st cfg seg b c0 c bc chain k section sections :
  seg_base rt cfg seg (base_path st) b -> In c0 (sg_files seg) -> In (c, bc, chain) (leaves rt b c0) ->
  In section (alloc_sections seg ++ noload_sections seg) ->
  reach_via cfg seg sections chain section k ->
  section_has rt st cfg seg (file_traced rt seg c bc k) section (alloc_sections seg) \/
  section_has rt st cfg seg (file_traced rt seg c bc k) section (noload_sections seg).
Proof.
  intros Hb Hc0 Hleaf Hs Hreach. apply in_app_or in Hs.
  destruct Hs as [Hs|Hs]; [left|right]; (split; [exact Hs|]); intros ws s ws';
    apply (emit_section_leaf_traced _ _ _ _ _ _ _ b c0 c bc chain k); try assumption;
    eapply reach_via_sections; exact Hreach.
Qed.

(* the converse of no-trace / of C01_nothing_unlisted for an included segment: every leaf of its file
   list (an included object / archive entry under included groups) has, for every configured section
   [section] and every [k] reached from it through the chain of entries above the leaf, its statement
   for [k] among the segment's statements, and its path is recorded *)
Lemma included_leaf_traced rt st cfg classes seg b c0 c bc chain k section sections ws s ws' :
  should_emit rt (sg_conds seg) = true ->
  seg_base rt cfg seg (base_path st) b -> In c0 (sg_files seg) -> In (c, bc, chain) (leaves rt b c0) ->
  In section (alloc_sections seg ++ noload_sections seg) ->
  reach_via cfg seg sections chain section k ->
  add_segment rt st cfg classes seg ws = Ok (s, ws') ->
  file_traced rt seg c bc k s ws'.
Proof.
  intros Hseg Hb Hc0 Hleaf Hs Hreach.
  apply (add_segment_some rt st cfg seg (file_traced rt seg c bc k)
           (file_traced_left rt seg c bc k) (file_traced_right rt seg c bc k)
           (file_traced_outsec rt seg c bc k) section classes ws s ws' Hseg).
  eapply leaf_section_has; eassumption.
Qed.

Lemma included_leaf_traced_single rt st cfg classes seg b c0 c bc chain k section sections ws s ws' :
  seg_base rt cfg seg (base_path st) b -> In c0 (sg_files seg) -> In (c, bc, chain) (leaves rt b c0) ->
  In section (alloc_sections seg ++ noload_sections seg) ->
  reach_via cfg seg sections chain section k ->
  add_single_segment rt st cfg classes seg ws = Ok (s, ws') ->
  file_traced rt seg c bc k s ws'.
Proof.
  intros Hb Hc0 Hleaf Hs Hreach.
  apply (add_single_segment_some rt st cfg seg (file_traced rt seg c bc k)
           (file_traced_left rt seg c bc k) (file_traced_right rt seg c bc k)
           (file_traced_outsec rt seg c bc k) (file_traced_sections rt seg c bc k) section classes ws s ws').
  eapply leaf_section_has; eassumption.
Qed.

(* the trace in a written script: statement in [wo_script], path in [wo_paths] *)
Definition out_traced (rt : runtime) (seg : segment) (f : file_info) (b k : string) (w : writer_out) : Prop :=
  exists p, escape_path rt (fi_path f) = Ok p /\
            In (trace_stmt seg f b p k) (flat_map deep_inputs (wo_script w)) /\
            In (components (push b p)) (wo_paths w).

Lemma included_leaf_normal d rt w seg b c0 c bc chain k section sections :
  gen_normal d rt = Ok w -> In seg (doc_segments d) ->
  (single_segment_mode (doc_settings d) = true \/ should_emit rt (sg_conds seg) = true) ->
  seg_base rt cfg_normal seg (base_path (doc_settings d)) b ->
  In c0 (sg_files seg) -> In (c, bc, chain) (leaves rt b c0) ->
  In section (alloc_sections seg ++ noload_sections seg) ->
  reach_via cfg_normal seg sections chain section k ->
  out_traced rt seg c bc k w.
Proof.
  intros H Hseg Hc Hb Hc0 Hleaf Hs Hreach.
  destruct (gen_normal_some rt d seg (file_traced rt seg c bc k)
              (file_traced_left rt seg c bc k) (file_traced_right rt seg c bc k)
              (file_traced_outsec rt seg c bc k) (file_traced_sections rt seg c bc k) section w H Hseg Hc)
    as [ws' [Ew [p [Hp [H1 H2]]]]].
  - eapply leaf_section_has; eassumption.
  - exists p. rewrite Ew. auto.
Qed.

Lemma included_leaf_partial d rt po seg b c0 c bc chain k section sections :
  gen_partial d rt = Ok po -> In seg (doc_segments d) -> should_emit rt (sg_conds seg) = true ->
  seg_base rt cfg_sub_partial seg (base_path (doc_settings d)) b ->
  In c0 (sg_files seg) -> In (c, bc, chain) (leaves rt b c0) ->
  In section (alloc_sections seg ++ noload_sections seg) ->
  reach_via cfg_sub_partial seg sections chain section k ->
  exists w, In (sg_name seg, w) (po_subs po) /\ out_traced rt seg c bc k w.
Proof.
  intros H Hseg Hc Hb Hc0 Hleaf Hs Hreach.
  destruct (gen_partial_some rt d seg (file_traced rt seg c bc k)
              (file_traced_left rt seg c bc k) (file_traced_right rt seg c bc k)
              (file_traced_outsec rt seg c bc k) (file_traced_sections rt seg c bc k) section po H Hseg Hc)
    as [w [wsub [Hw [Ew [p [Hp [H1 H2]]]]]]].
  - eapply leaf_section_has; eassumption.
  - exists w. split; [exact Hw|]. exists p. rewrite Ew. auto.
Qed.

(* ---------- entries listed directly in the segment ---------- *)

(* if anything was written for a configured section, the segment's directory was escaped *)
Lemma add_segment_base rt st cfg classes seg section ws s ws' :
  should_emit rt (sg_conds seg) = true -> In section (alloc_sections seg ++ noload_sections seg) ->
  add_segment rt st cfg classes seg ws = Ok (s, ws') -> exists b, seg_base rt cfg seg (base_path st) b.
Proof.
  intros Hseg Hs.
  apply (add_segment_some rt st cfg seg (fun _ _ => exists b, seg_base rt cfg seg (base_path st) b)
           (fun _ _ _ _ H _ => H) (fun _ _ _ H => H) (fun _ _ _ _ _ _ _ _ H => H) section classes ws s ws' Hseg).
  apply in_app_or in Hs.
  destruct Hs as [Hs|Hs]; [left|right]; (split; [exact Hs|]); intros w t w' H;
    apply emit_section_base in H; destruct H as [b [Hb _]]; exists b; exact Hb.
Qed.

Lemma here_spec_default f section : lookup section (fi_section_order f) = None -> here_spec f section section.
Proof. intro H. unfold here_spec. destruct (fi_section_order f); [reflexivity|]. left. split; [reflexivity | exact H]. Qed.

Lemma top_leaf rt b f : should_emit rt (fi_conds f) = true -> names_file f -> In (f, b, [f]) (leaves rt b f).
Proof. intros He Hk. rewrite (leaves_one rt b f He Hk). left. reflexivity. Qed.

Lemma top_reach cfg seg f section k : here_spec f section k -> reach_via cfg seg [] [f] section k.
Proof. intro H. exists k. split; [apply Reach_here; apply in_here; exact H | reflexivity]. Qed.

(* an included object / archive entry listed in an included segment has, for every configured section
   [section] and every [k] its section_order writes there, its statement for [k] in the segment's
   statements, and its path is recorded *)
Lemma included_file_traced rt st cfg classes seg f k section ws s ws' :
  should_emit rt (sg_conds seg) = true ->
  In f (sg_files seg) -> should_emit rt (fi_conds f) = true -> names_file f ->
  In section (alloc_sections seg ++ noload_sections seg) -> here_spec f section k ->
  add_segment rt st cfg classes seg ws = Ok (s, ws') ->
  exists b, seg_base rt cfg seg (base_path st) b /\ file_traced rt seg f b k s ws'.
Proof.
  intros Hseg Hf He Hk Hs Hh H. destruct (add_segment_base _ _ _ _ _ _ _ _ _ Hseg Hs H) as [b Hb].
  exists b. split; [exact Hb|].
  eapply (included_leaf_traced rt st cfg classes seg b f f b [f] k section []); try eassumption.
  - apply top_leaf; assumption.
  - apply top_reach. exact Hh.
Qed.

(* the two halves of the statement, with section_order at its default for [sec] *)
Lemma included_file_emitted rt st cfg classes seg f sec ws s ws' :
  should_emit rt (sg_conds seg) = true ->
  In f (sg_files seg) -> should_emit rt (fi_conds f) = true -> names_file f ->
  In sec (alloc_sections seg ++ noload_sections seg) -> lookup sec (fi_section_order f) = None ->
  add_segment rt st cfg classes seg ws = Ok (s, ws') ->
  exists b p, seg_base rt cfg seg (base_path st) b /\ escape_path rt (fi_path f) = Ok p /\
    In (SInput (keeps (fi_keep f) sec) (display (push b p)) (member_of f) sec (wildcard_sections seg))
       (flat_map deep_inputs s).
Proof.
  intros Hseg Hf He Hk Hs Hso H.
  destruct (included_file_traced _ _ _ _ _ _ sec sec _ _ _ Hseg Hf He Hk Hs (here_spec_default _ _ Hso) H)
    as [b [Hb [p [Hp [H1 _]]]]].
  exists b, p. auto.
Qed.

Lemma included_file_dependency rt st cfg classes seg f sec ws s ws' :
  should_emit rt (sg_conds seg) = true ->
  In f (sg_files seg) -> should_emit rt (fi_conds f) = true -> names_file f ->
  In sec (alloc_sections seg ++ noload_sections seg) -> lookup sec (fi_section_order f) = None ->
  add_segment rt st cfg classes seg ws = Ok (s, ws') ->
  exists b p, seg_base rt cfg seg (base_path st) b /\ escape_path rt (fi_path f) = Ok p /\
    In (components (push b p)) (ws_paths ws').
Proof.
  intros Hseg Hf He Hk Hs Hso H.
  destruct (included_file_traced _ _ _ _ _ _ sec sec _ _ _ Hseg Hf He Hk Hs (here_spec_default _ _ Hso) H)
    as [b [Hb [p [Hp [_ H2]]]]].
  exists b, p. auto.
Qed.

(* ---------- examples: the sample segment of this file ---------- *)

(* the hypotheses of included_file_emitted / included_file_dependency are met by the first entry of the
   sample segment, section .data ... *)
Lemma ex06_included_hyps :
  let seg := ex06_seg ex06_files in
  let f := ex06_obj "{dir}/a.o" no_conds in
  should_emit ex06_rt (sg_conds seg) = true /\ In f (sg_files seg) /\
  should_emit ex06_rt (fi_conds f) = true /\ names_file f /\
  In ".data" (alloc_sections seg ++ noload_sections seg) /\ lookup ".data" (fi_section_order f) = None /\
  is_ok (add_segment ex06_rt ex06_settings cfg_normal [] seg ws0) = true.
Proof. vm_compute. repeat split; auto. Qed.

(* ... those of included_leaf_normal by the entry b.o inside the group "lib", for the sub-group section
   .text.hot reached from .text: the group passes .text on, the object expands the sub-group ... *)
Definition ex06_lib : file_info :=
  ex06_group "lib" [ex06_obj "b.o" no_conds; ex06_obj "{missing}/c.o" ex06_excluded; ex06_obj "d.o" no_conds]
             no_conds.

Lemma ex06_leaf_hyps :
  let seg := ex06_seg ex06_files in
  let b := push "build/us" "" in
  In seg (doc_segments (ex06_doc ex06_files)) /\ should_emit ex06_rt (sg_conds seg) = true /\
  seg_base ex06_rt cfg_normal seg (base_path (doc_settings (ex06_doc ex06_files))) b /\
  In ex06_lib (sg_files seg) /\
  In (ex06_obj "b.o" no_conds, push b "lib", [ex06_lib; ex06_obj "b.o" no_conds]) (leaves ex06_rt b ex06_lib) /\
  In ".text" (alloc_sections seg ++ noload_sections seg) /\
  reach_via cfg_normal seg [] [ex06_lib; ex06_obj "b.o" no_conds] ".text" ".text.hot".
Proof.
  cbv zeta. split; [left; reflexivity|]. split; [reflexivity|]. split.
  { exists "build/us". split; [reflexivity|]. exists "". split; reflexivity. }
  split; [right; right; left; reflexivity|]. split; [left; reflexivity|]. split; [left; reflexivity|].
  exists ".text". split; [apply Reach_here; left; reflexivity|].
  exists ".text.hot". split; [|reflexivity].
  apply (Reach_member _ _ _ _ ".text" ".text" ".text.hot" ".text.hot").
  - left; reflexivity.
  - left; reflexivity.
  - apply Reach_here. left; reflexivity.
Qed.

(* ... and these are the traces: the statements in the script, the paths in the dependency list; the
   same in the per-segment script of a partial build *)
Lemma ex06_included_trace :
  match gen_normal (ex06_doc ex06_files) ex06_rt with
  | Ok w => mem_str "build/us/src/a.o(.data)" (script_inputs (wo_script w)) = true /\
            mem_str "build/us/lib/b.o(.text.hot)" (script_inputs (wo_script w)) = true /\
            map (join "/") (wo_paths w) = ["build/us/src/a.o"; "build/us/lib/b.o"; "build/us/lib/d.o"]
  | Err _ => False
  end /\
  match gen_partial (ex06_doc ex06_files) ex06_rt with
  | Ok p => map (fun s => (fst s, mem_str "build/us/src/a.o(.data)" (script_inputs (wo_script (snd s))),
                           mem_str "build/us/lib/b.o(.text.hot)" (script_inputs (wo_script (snd s))),
                           map (join "/") (wo_paths (snd s)))) (po_subs p) =
            [("main", true, true, ["build/us/src/a.o"; "build/us/lib/b.o"; "build/us/lib/d.o"])]
  | Err _ => False
  end.
Proof. vm_compute. repeat split; reflexivity. Qed.
