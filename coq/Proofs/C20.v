From Slinky Require Import Model.Types Model.Generated Model.Parse Model.Runtime Model.Style Model.Script
  Model.Writer Model.Exports Spec.C07 Spec.C20 Proofs.C07.
From Coq Require Import Lia.
Local Open Scope string_scope.

(* ====================================================================== *)
(* custom options: the last value per key wins                             *)
(* ====================================================================== *)

Lemma lookup_last_app {A} k (l1 l2 : list (string * A)) :
  lookup_last k (l1 ++ l2)%list =
  match lookup_last k l2 with Some v => Some v | None => lookup_last k l1 end.
Proof.
  induction l1 as [|[k' v] l1 IH]; cbn [lookup_last app].
  - destruct (lookup_last k l2); reflexivity.
  - rewrite IH. destruct (lookup_last k l2); reflexivity.
Qed.

Lemma lookup_last_none {A} k (l : list (string * A)) :
  lookup_last k l = None <-> ~ In k (map fst l).
Proof.
  induction l as [|[k' v] l IH]; cbn [lookup_last map fst In].
  - split; [intros _ [] | reflexivity].
  - destruct (lookup_last k l) as [v'|].
    + split; [discriminate|]. intro H. exfalso. apply H. right.
      destruct (in_dec string_dec k (map fst l)) as [Hin|Hn]; [assumption|].
      apply IH in Hn. discriminate.
    + destruct (String.eqb k k') eqn:E.
      * apply String.eqb_eq in E. split; [discriminate|]. intro H. exfalso. apply H. left. congruence.
      * apply String.eqb_neq in E. split; [|reflexivity]. intros _ [H|H]; [congruence|].
        apply IH in H; [assumption | reflexivity].
Qed.

(* the value is that of the LAST pair with this key, whatever comes before *)
Lemma lookup_last_last {A} k (v : A) l1 l2 :
  ~ In k (map fst l2) -> lookup_last k (l1 ++ (k, v) :: l2)%list = Some v.
Proof.
  intro H. rewrite lookup_last_app. cbn [lookup_last].
  apply lookup_last_none in H. rewrite H, String.eqb_refl. reflexivity.
Qed.

Lemma lookup_last_some {A} k (v : A) l :
  lookup_last k l = Some v <-> exists l1 l2, l = (l1 ++ (k, v) :: l2)%list /\ ~ In k (map fst l2).
Proof.
  split.
  - induction l as [|[k' v'] l IH]; cbn [lookup_last]; [discriminate|].
    destruct (lookup_last k l) as [v''|] eqn:Hl.
    + intro H. injection H as ->. destruct (IH eq_refl) as [l1 [l2 [-> Hn]]].
      exists ((k', v') :: l1), l2. split; [reflexivity | assumption].
    + destruct (String.eqb k k') eqn:E; [|discriminate]. intro H. injection H as ->.
      apply String.eqb_eq in E. subst k'. exists [], l. split; [reflexivity|].
      apply lookup_last_none. assumption.
  - intros [l1 [l2 [-> Hn]]]. apply lookup_last_last. assumption.
Qed.

Lemma opt_get_last_wins k v l1 l2 b :
  ~ In k (map fst l2) -> opt_get (Runtime (l1 ++ (k, v) :: l2)%list b) k = Some v.
Proof. intro H. unfold opt_get. cbn [rt_options]. apply lookup_last_last. assumption. Qed.

Lemma opt_get_some pairs b k v :
  opt_get (Runtime pairs b) k = Some v <->
  exists l1 l2, pairs = (l1 ++ (k, v) :: l2)%list /\ ~ In k (map fst l2).
Proof. unfold opt_get. cbn [rt_options]. apply lookup_last_some. Qed.

Lemma opt_get_none pairs b k : opt_get (Runtime pairs b) k = None <-> ~ In k (map fst pairs).
Proof. unfold opt_get. cbn [rt_options]. apply lookup_last_none. Qed.

(* ====================================================================== *)
(* -c key=value parsing                                                    *)
(* ====================================================================== *)

Lemma split_first_eq_app k v acc :
  contains_char "=" k = false -> split_first_eq (k ++ String "=" v) acc = Some (acc ++ k, v).
Proof.
  revert acc. induction k as [|c k IH]; intros acc Hk; cbn [append split_first_eq].
  - rewrite Ascii.eqb_refl, app_nil_r_s. reflexivity.
  - cbn [contains_char] in Hk. destruct (Ascii.eqb "=" c) eqn:E; [discriminate|].
    rewrite Ascii.eqb_sym, E. rewrite IH by assumption. rewrite app_assoc_s. reflexivity.
Qed.

Lemma split_first_eq_none s acc : contains_char "=" s = false -> split_first_eq s acc = None.
Proof.
  revert acc. induction s as [|c s IH]; intros acc H; cbn [split_first_eq]; [reflexivity|].
  cbn [contains_char] in H. destruct (Ascii.eqb "=" c) eqn:E; [discriminate|].
  rewrite Ascii.eqb_sym, E. apply IH. assumption.
Qed.

(* a piece is cut at its first "=", or has none *)
Lemma split_first_eq_spec piece :
  match split_first_eq piece "" with
  | Some kv => KeyVal piece kv
  | None => contains_char "=" piece = false
  end.
Proof.
  destruct (contains_char "=" piece) eqn:Hc.
  - destruct (split_first _ _ Hc) as [k [v [-> Hk]]].
    rewrite split_first_eq_app by assumption. split; [reflexivity | assumption].
  - rewrite split_first_eq_none by assumption. reflexivity.
Qed.

Lemma KeyVal_split piece kv : KeyVal piece kv -> split_first_eq piece "" = Some kv.
Proof.
  destruct kv as [k v]. intros [-> Hk]. cbn [fst snd] in *.
  change ("=" ++ v) with (String "=" v). rewrite split_first_eq_app by assumption. reflexivity.
Qed.

Lemma KeyVal_has_eq piece kv : KeyVal piece kv -> contains_char "=" piece = true.
Proof.
  intros [-> _]. rewrite contains_app. cbn [append contains_char]. rewrite Ascii.eqb_refl.
  apply Bool.orb_true_r.
Qed.

Definition kv_fold (pieces : list string) : option pairs :=
  fold_right (fun s acc =>
                match split_first_eq s "", acc with
                | Some kv, Some l => Some (kv :: l)
                | _, _ => None
                end) (Some []) pieces.

Lemma Forall2_cons_inv {A B} (R : A -> B -> Prop) x xs l :
  Forall2 R (x :: xs) l -> exists y ys, l = y :: ys /\ R x y /\ Forall2 R xs ys.
Proof. intro H. inversion H; subst. eexists; eexists. repeat split; eassumption. Qed.

Lemma kv_fold_some pieces l : kv_fold pieces = Some l <-> Forall2 KeyVal pieces l.
Proof.
  revert l. induction pieces as [|p ps IH]; intro l; cbn [kv_fold fold_right].
  - split.
    + intro H. injection H as <-. constructor.
    + intro H. inversion H. reflexivity.
  - fold (kv_fold ps). pose proof (split_first_eq_spec p) as Hp.
    destruct (split_first_eq p "") as [kv|] eqn:Es.
    + destruct (kv_fold ps) as [l'|] eqn:Ef.
      * split.
        -- intro H. injection H as <-. constructor; [assumption | apply IH; reflexivity].
        -- intro H. apply Forall2_cons_inv in H. destruct H as [y [ys [-> [Hy Hys]]]].
           apply KeyVal_split in Hy. apply IH in Hys. rewrite Es in Hy.
           injection Hy as <-. injection Hys as <-. reflexivity.
      * split; [discriminate|]. intro H. apply Forall2_cons_inv in H.
        destruct H as [y [ys [-> [Hy Hys]]]]. apply IH in Hys. discriminate.
    + split; [discriminate|]. intro H. apply Forall2_cons_inv in H.
      destruct H as [y [ys [-> [Hy Hys]]]]. apply KeyVal_has_eq in Hy. congruence.
Qed.

Lemma kv_fold_none pieces :
  kv_fold pieces = None <-> exists p, In p pieces /\ contains_char "=" p = false.
Proof.
  induction pieces as [|p ps IH]; cbn [kv_fold fold_right].
  - split; [discriminate | intros [p [[] _]]].
  - fold (kv_fold ps). pose proof (split_first_eq_spec p) as Hp.
    destruct (split_first_eq p "") as [kv|] eqn:Es.
    + destruct (kv_fold ps) as [l'|] eqn:Ef.
      * split; [discriminate|]. intros [q [[<-|Hin] Hq]].
        -- apply KeyVal_has_eq in Hp. congruence.
        -- assert (Hn : Some l' = None) by (apply IH; exists q; split; assumption). discriminate.
      * split; [|reflexivity]. intros _. destruct (proj1 IH eq_refl) as [q [Hin Hq]].
        exists q. split; [right; assumption | assumption].
    + split; [|reflexivity]. intros _. exists p. split; [left; reflexivity | assumption].
Qed.

(* [split_on ","] is the comma split, and the only one *)
Lemma comma_split_iff raw pieces : CommaSplit raw pieces <-> pieces = split_on "," raw.
Proof.
  unfold CommaSplit. split.
  - intros [Hn [<- HF]]. symmetry. apply (split_on_join "," pieces); assumption.
  - intros ->. split; [apply split_on_nonempty|]. split; [apply (join_split_on ",") | apply split_on_pieces].
Qed.

Lemma all_pieces_iff raw pieces : AllPieces raw pieces <-> pieces = flat_map (split_on ",") raw.
Proof.
  unfold AllPieces. split.
  - intros [ll [HF ->]]. induction HF as [|r l raw ll Hc HF IH]; [reflexivity|].
    apply comma_split_iff in Hc. subst l. cbn [List.concat flat_map]. rewrite IH. reflexivity.
  - intros ->. exists (map (split_on ",") raw). split.
    + induction raw as [|r raw IH]; constructor; [apply comma_split_iff; reflexivity | assumption].
    + rewrite flat_map_concat_map. reflexivity.
Qed.

Lemma parse_key_vals_some raw l :
  parse_key_vals raw = Some l <-> exists pieces, AllPieces raw pieces /\ Forall2 KeyVal pieces l.
Proof.
  change (parse_key_vals raw) with (kv_fold (flat_map (split_on ",") raw)). rewrite kv_fold_some. split.
  - intro H. exists (flat_map (split_on ",") raw). split; [apply all_pieces_iff; reflexivity | assumption].
  - intros [pieces [Ha HF]]. apply all_pieces_iff in Ha. subst pieces. assumption.
Qed.

Lemma parse_key_vals_none raw :
  parse_key_vals raw = None <->
  exists pieces p, AllPieces raw pieces /\ In p pieces /\ contains_char "=" p = false.
Proof.
  change (parse_key_vals raw) with (kv_fold (flat_map (split_on ",") raw)). rewrite kv_fold_none. split.
  - intros [p [Hin Hp]]. exists (flat_map (split_on ",") raw), p.
    split; [apply all_pieces_iff; reflexivity|]. split; assumption.
  - intros [pieces [p [Ha [Hin Hp]]]]. apply all_pieces_iff in Ha. subst pieces. exists p. split; assumption.
Qed.

(* ====================================================================== *)
(* the abstract file system                                                *)
(* ====================================================================== *)

Lemma fs_write_same f p c : lookup p (fs_write f p c) = Some c.
Proof.
  induction f as [|[q d] f IH]; cbn [fs_write lookup].
  - rewrite String.eqb_refl. reflexivity.
  - destruct (String.eqb p q) eqn:E; cbn [lookup].
    + rewrite String.eqb_refl. reflexivity.
    + rewrite E. assumption.
Qed.

Lemma fs_write_other f p c q : q <> p -> lookup q (fs_write f p c) = lookup q f.
Proof.
  intro Hq. apply String.eqb_neq in Hq.
  induction f as [|[q' d] f IH]; cbn [fs_write lookup].
  - rewrite Hq. reflexivity.
  - destruct (String.eqb p q') eqn:E; cbn [lookup].
    + apply String.eqb_eq in E. subst q'. rewrite Hq. reflexivity.
    + destruct (String.eqb q q'); [reflexivity | assumption].
Qed.

(* after a sequence of writes a path holds the content of the last write to it, and a path that
   was not written keeps what it had (or stays absent) *)
Lemma apply_writes_lookup ws : forall f p,
  lookup p (apply_writes f ws) =
  match lookup_last p ws with Some c => Some c | None => lookup p f end.
Proof.
  induction ws as [|[q c] ws IH]; intros f p; [reflexivity|].
  change (apply_writes f ((q, c) :: ws)) with (apply_writes (fs_write f q c) ws).
  rewrite IH. cbn [lookup_last]. destruct (lookup_last p ws) as [c'|]; [reflexivity|].
  destruct (String.eqb p q) eqn:E.
  - apply String.eqb_eq in E. subst q. apply fs_write_same.
  - apply String.eqb_neq in E. apply fs_write_other. assumption.
Qed.

Lemma apply_writes_last f ws1 p c ws2 :
  ~ In p (map fst ws2) -> lookup p (apply_writes f (ws1 ++ (p, c) :: ws2)%list) = Some c.
Proof. intro H. rewrite apply_writes_lookup, lookup_last_last by assumption. reflexivity. Qed.

Lemma apply_writes_untouched f ws p :
  ~ In p (map fst ws) -> lookup p (apply_writes f ws) = lookup p f.
Proof. intro H. rewrite apply_writes_lookup. apply lookup_last_none in H. rewrite H. reflexivity. Qed.

(* ====================================================================== *)
(* the exports and cli_run, unfolded                                       *)
(* ====================================================================== *)

Ltac break_ex :=
  repeat match goal with
         | H : exists _, _ |- _ => destruct H
         | H : _ /\ _ |- _ => destruct H
         | H : Ok _ = Ok _ |- _ => injection H as H; try subst
         | H : Some _ = Some _ |- _ => injection H as H; try subst
         | H : Err _ = Ok _ |- _ => discriminate H
         | H : None = Some _ |- _ => discriminate H
         | H : Some _ = None |- _ => discriminate H
         end.

Ltac nf_fin := split; [reflexivity|]; split; repeat first [reflexivity | eexists | split].

Ltac nf_witness :=
  match goal with
  | |- exists dw hw, [?a; ?b] = _ /\ _ => exists [a], [b]; solve [nf_fin]
  | |- exists dw hw, [?a] = _ /\ _ => first [exists [a], []; solve [nf_fin] | exists [], [a]; solve [nf_fin]]
  | |- exists dw hw, [] = _ /\ _ => exists [], []; solve [nf_fin]
  end.

Lemma save_normal_iff rt st w ws :
  save_other_files_normal rt st w = Ok ws <-> NormalFiles rt st w ws.
Proof.
  unfold save_other_files_normal, NormalFiles, escape_opt.
  destruct (d_path st) as [dp|]; [destruct (escape_path rt dp) as [dp'|e1]|];
  (destruct (target_path st) as [t|]; [destruct (escape_path rt t) as [t'|e2]|]);
  (destruct (symbols_header_path st) as [h|]; [destruct (escape_path rt h) as [h'|e3]|]);
  cbn [bind app]; (split; [intro H; try discriminate H; injection H as <-; nf_witness
                      | intro H; break_ex; subst; try reflexivity; try discriminate]).
Qed.

Lemma export_partial_iff rt st p path ws :
  export_script_partial rt st p path = Ok ws <-> PartialScripts rt st p path ws.
Proof.
  unfold export_script_partial, PartialScripts, escape_opt. split.
  - destruct (partial_scripts_folder st) as [x|]; [|discriminate].
    destruct (escape_path rt x) as [x'|e] eqn:Ex; [|discriminate]. cbn [bind].
    intro H. injection H as <-. exists x, x'. repeat split. assumption.
  - intros (x & x' & -> & Hx & ->). rewrite Hx. reflexivity.
Qed.

Lemma save_partial_iff rt st p ws :
  save_other_files_partial rt st p = Ok ws <-> PartialFiles rt st p ws.
Proof.
  unfold save_other_files_partial, PartialFiles, escape_opt. split.
  - destruct (escape_path rt (base_path st)) as [base|e0]; [|discriminate].
    destruct (partial_build_segments_folder st) as [x|]; [|discriminate].
    destruct (escape_path rt x) as [x'|e1] eqn:Ex; [|discriminate].
    destruct (partial_scripts_folder st) as [y|]; [|discriminate].
    destruct (escape_path rt y) as [y'|e2] eqn:Ey; [|discriminate]. cbn [bind].
    destruct (save_other_files_normal rt st (po_main p)) as [mainw|e3] eqn:Hm; [|discriminate].
    cbn [bind]. apply save_normal_iff in Hm.
    intro H. injection H as <-. exists base, x, x', y, y', mainw.
    repeat (split; [first [reflexivity | assumption]|]).
    destruct (d_path st); reflexivity.
  - intros (base & x & x' & y & y' & mainw & -> & -> & -> & -> & -> & Hm & ->).
    apply save_normal_iff in Hm. rewrite Hm. cbn [bind]. destruct (d_path st); reflexivity.
Qed.

(* a successful run is exactly: everything succeeds and the writes are the library's outputs *)
Lemma cli_run_success sd a out ws :
  cli_run sd a = CliResult true out ws <-> CliSuccess sd a out ws.
Proof.
  unfold cli_run, CliSuccess. split.
  - destruct (parse_key_vals (cli_options a)) as [opts|]; [|discriminate].
    destruct (parse sd) as [d|e]; [|discriminate].
    destruct (forallb (fun kv => key_valid (fst kv)) opts) eqn:Hk; cbn [negb]; [|discriminate].
    intro H. cbv zeta in H. exists opts, d. split; [reflexivity|]. split; [reflexivity|].
    split; [exact Hk|]. cbv zeta.
    set (rt := Runtime opts (negb (cli_omit_version_comment a))) in *.
    set (st := doc_settings d) in *.
    destruct (cli_partial a); cbv iota.
    + destruct (gen_partial d rt) as [p|e]; [|discriminate]. exists p. split; [reflexivity|].
      destruct (cli_output a) as [o|].
      * destruct (escape_path rt o) as [path|e]; [|discriminate].
        destruct (export_script_partial rt st p path) as [w1|e] eqn:H1; [|discriminate].
        destruct (save_other_files_partial rt st p) as [w2|e] eqn:H2; [|discriminate].
        injection H as <- <-. exists path, w1, w2.
        apply export_partial_iff in H1. apply save_partial_iff in H2. repeat split; assumption.
      * destruct (save_other_files_partial rt st p) as [w2|e] eqn:H2; [|discriminate].
        injection H as <- <-. apply save_partial_iff in H2. split; [assumption | reflexivity].
    + destruct (gen_normal d rt) as [w|e]; [|discriminate]. exists w. split; [reflexivity|].
      destruct (cli_output a) as [o|].
      * destruct (escape_path rt o) as [path|e]; [|discriminate].
        destruct (save_other_files_normal rt st w) as [w2|e] eqn:H2; [|discriminate].
        injection H as <- <-. exists path, w2. apply save_normal_iff in H2. repeat split; assumption.
      * destruct (save_other_files_normal rt st w) as [w2|e] eqn:H2; [|discriminate].
        injection H as <- <-. apply save_normal_iff in H2. split; [assumption | reflexivity].
  - intros (opts & d & -> & -> & Hk & H). rewrite Hk. cbn [negb]. cbv zeta in H.
    destruct (cli_partial a).
    + destruct H as (p & -> & H). destruct (cli_output a) as [o|].
      * destruct H as (path & w1 & w2 & -> & H1 & H2 & -> & ->).
        apply export_partial_iff in H1. apply save_partial_iff in H2. rewrite H1, H2. reflexivity.
      * destruct H as (H2 & ->). apply save_partial_iff in H2. rewrite H2. reflexivity.
    + destruct H as (w & -> & H). destruct (cli_output a) as [o|].
      * destruct H as (path & w2 & -> & H2 & -> & ->). apply save_normal_iff in H2. rewrite H2. reflexivity.
      * destruct H as (H2 & ->). apply save_normal_iff in H2. rewrite H2. reflexivity.
Qed.

Lemma cli_status_true sd a :
  cli_status (cli_run sd a) = true <-> exists out ws, CliSuccess sd a out ws.
Proof.
  split.
  - intro H. destruct (cli_run sd a) as [b out ws] eqn:E. cbn [cli_status] in H. subst b.
    exists out, ws. apply cli_run_success. exact E.
  - intros [out [ws H]]. apply cli_run_success in H. rewrite H. reflexivity.
Qed.

(* ====================================================================== *)
(* a parsed document with d_path has target_path                           *)
(* ====================================================================== *)

Ltac binds H :=
  repeat (let a := fresh "a" in let Ha := fresh "Ha" in
          apply bind_ok in H; destruct H as [a [Ha H]]).

Lemma parse_settings_target s st :
  parse_settings s = Ok st -> is_some (d_path st) = true -> is_some (target_path st) = true.
Proof.
  unfold parse_settings. intro H. binds H. injection H as <-. cbn [d_path target_path].
  intro Hd.
  match goal with
  | Hc : (if andb (is_some ?x) (negb (is_some ?y)) then _ else _) = Ok _ |- _ =>
      destruct (is_some y); [reflexivity | rewrite Hd in Hc; discriminate Hc]
  end.
Qed.

Lemma parse_target sd d :
  parse sd = Ok d ->
  is_some (d_path (doc_settings d)) = true -> is_some (target_path (doc_settings d)) = true.
Proof.
  unfold parse. destruct (serde_ok sd); [|discriminate]. unfold unserialize_document.
  intro H. binds H. injection H as <-. cbn [doc_settings].
  match goal with
  | Hs : match ?o with Some s => parse_settings s | None => Ok default_settings end = Ok ?st |- _ =>
      destruct o as [s|]; [apply (parse_settings_target s); assumption
                          | injection Hs as <-; intro Hd; discriminate Hd]
  end.
Qed.

(* hence for a parsed document the dependency file is written iff d_path is set *)
Lemma normal_files_parsed sd d rt w ws :
  parse sd = Ok d -> NormalFiles rt (doc_settings d) w ws ->
  exists dw hw, ws = (dw ++ hw)%list /\
    match d_path (doc_settings d) with
    | None => dw = []
    | Some dp =>
        exists dp' t t', escape_path rt dp = Ok dp' /\ target_path (doc_settings d) = Some t /\
                         escape_path rt t = Ok t' /\ dw = [(dp', deps_text rt w t')]
    end /\
    match symbols_header_path (doc_settings d) with
    | None => hw = []
    | Some h => exists h', escape_path rt h = Ok h' /\ hw = [(h', header_text rt (doc_settings d) w)]
    end.
Proof.
  intros Hp (dw & hw & -> & Hd & Hh). exists dw, hw. split; [reflexivity|]. split; [|assumption].
  pose proof (parse_target sd d Hp) as Ht.
  destruct (d_path (doc_settings d)) as [dp|]; [|assumption].
  destruct Hd as (dp' & Hdp & Hd).
  destruct (target_path (doc_settings d)) as [t|]; [|specialize (Ht eq_refl); discriminate Ht].
  destruct Hd as (t' & Ht' & ->). exists dp', t, t'. repeat split; assumption.
Qed.

(* ====================================================================== *)
(* any error gives a failing status                                        *)
(* ====================================================================== *)

Section Status.
  Variable sd : document_serial.
  Variable a : cli_args.

  Lemma status_bad_option : parse_key_vals (cli_options a) = None -> cli_status (cli_run sd a) = false.
  Proof. intro H. unfold cli_run. rewrite H. reflexivity. Qed.

  Lemma status_parse_error e : parse sd = Err e -> cli_status (cli_run sd a) = false.
  Proof. intro H. unfold cli_run. rewrite H. destruct (parse_key_vals (cli_options a)); reflexivity. Qed.

  Variable opts : pairs.
  Variable d : document.
  Hypothesis Hopts : parse_key_vals (cli_options a) = Some opts.
  Hypothesis Hdoc : parse sd = Ok d.
  Let rt := Runtime opts (negb (cli_omit_version_comment a)).
  Let st := doc_settings d.

  Lemma status_invalid_key kv :
    In kv opts -> key_valid (fst kv) = false -> cli_status (cli_run sd a) = false.
  Proof.
    intros Hin Hk. unfold cli_run. rewrite Hopts, Hdoc.
    destruct (forallb (fun kv => key_valid (fst kv)) opts) eqn:Hf; [|reflexivity].
    rewrite forallb_forall in Hf. rewrite (Hf kv Hin) in Hk. discriminate.
  Qed.

  Lemma status_gen_normal_error e :
    cli_partial a = false -> gen_normal d rt = Err e -> cli_status (cli_run sd a) = false.
  Proof.
    intros Hp Hg. unfold cli_run. rewrite Hopts, Hdoc, Hp. fold rt. rewrite Hg.
    destruct (negb (forallb (fun kv => key_valid (fst kv)) opts)); reflexivity.
  Qed.

  Lemma status_gen_partial_error e :
    cli_partial a = true -> gen_partial d rt = Err e -> cli_status (cli_run sd a) = false.
  Proof.
    intros Hp Hg. unfold cli_run. rewrite Hopts, Hdoc, Hp. fold rt. rewrite Hg.
    destruct (negb (forallb (fun kv => key_valid (fst kv)) opts)); reflexivity.
  Qed.

  Lemma status_output_path_error o e :
    cli_output a = Some o -> escape_path rt o = Err e -> cli_status (cli_run sd a) = false.
  Proof.
    intros Ho He. unfold cli_run. rewrite Hopts, Hdoc, Ho. fold rt. rewrite He.
    destruct (negb (forallb (fun kv => key_valid (fst kv)) opts)); [reflexivity|].
    destruct (cli_partial a); [destruct (gen_partial d rt) | destruct (gen_normal d rt)]; reflexivity.
  Qed.

  Lemma status_other_files_normal_error w e :
    cli_partial a = false -> gen_normal d rt = Ok w -> save_other_files_normal rt st w = Err e ->
    cli_status (cli_run sd a) = false.
  Proof.
    intros Hp Hg Hs. unfold cli_run. rewrite Hopts, Hdoc, Hp. fold rt. fold st. rewrite Hg, Hs.
    destruct (negb (forallb (fun kv => key_valid (fst kv)) opts)); [reflexivity|].
    destruct (cli_output a) as [o|]; [destruct (escape_path rt o)|]; reflexivity.
  Qed.

  Lemma status_other_files_partial_error p e :
    cli_partial a = true -> gen_partial d rt = Ok p -> save_other_files_partial rt st p = Err e ->
    cli_status (cli_run sd a) = false.
  Proof.
    intros Hp Hg Hs. unfold cli_run. rewrite Hopts, Hdoc, Hp. fold rt. fold st. rewrite Hg, Hs.
    destruct (negb (forallb (fun kv => key_valid (fst kv)) opts)); [reflexivity|].
    destruct (cli_output a) as [o|]; [|reflexivity].
    destruct (escape_path rt o) as [path|]; [|reflexivity].
    destruct (export_script_partial rt st p path); reflexivity.
  Qed.

  Lemma status_export_partial_error p o path e :
    cli_partial a = true -> gen_partial d rt = Ok p -> cli_output a = Some o ->
    escape_path rt o = Ok path -> export_script_partial rt st p path = Err e ->
    cli_status (cli_run sd a) = false.
  Proof.
    intros Hp Hg Ho Hpath Hs. unfold cli_run. rewrite Hopts, Hdoc, Hp, Ho. fold rt. fold st.
    rewrite Hg, Hpath, Hs.
    destruct (negb (forallb (fun kv => key_valid (fst kv)) opts)); reflexivity.
  Qed.
End Status.

(* ====================================================================== *)
(* generation depends on the run-time settings only through the options,   *)
(* except for the version comment                                          *)
(* ====================================================================== *)

Lemma fold_out_ext_in {A} (f g : A -> wstate -> res out) l :
  Forall (fun x => forall ws, f x ws = g x ws) l -> forall ws, fold_out f l ws = fold_out g l ws.
Proof.
  induction 1 as [|x r Hx HF IH]; intro ws; cbn [fold_out]; [reflexivity|].
  rewrite Hx. destruct (g x ws) as [o1|e]; cbn [bind]; [rewrite IH|]; reflexivity.
Qed.

Section SameOptions.
  Variables rt1 rt2 : runtime.
  Hypothesis Hopt : rt_options rt1 = rt_options rt2.

  Lemma so_opt_get k : opt_get rt1 k = opt_get rt2 k.
  Proof. unfold opt_get. rewrite Hopt. reflexivity. Qed.

  Lemma so_pair_matches kv : pair_matches rt1 kv = pair_matches rt2 kv.
  Proof. unfold pair_matches. rewrite so_opt_get. reflexivity. Qed.

  Lemma so_existsb l : existsb (pair_matches rt1) l = existsb (pair_matches rt2) l.
  Proof. induction l as [|x l IH]; cbn [existsb]; [|rewrite so_pair_matches, IH]; reflexivity. Qed.

  Lemma so_forallb l : forallb (pair_matches rt1) l = forallb (pair_matches rt2) l.
  Proof. induction l as [|x l IH]; cbn [forallb]; [|rewrite so_pair_matches, IH]; reflexivity. Qed.

  Lemma so_should_emit c : should_emit rt1 c = should_emit rt2 c.
  Proof. unfold should_emit. rewrite !so_existsb, !so_forallb. reflexivity. Qed.

  Lemma so_escape_scan orig s : forall out w k,
    escape_scan rt1 orig s out w k = escape_scan rt2 orig s out w k.
  Proof.
    induction s as [|c s IH]; intros out w k; cbn [escape_scan]; [reflexivity|].
    destruct w.
    - destruct (Ascii.eqb c "}"); [|apply IH]. rewrite so_opt_get.
      destruct (opt_get rt2 k); [apply IH | reflexivity].
    - destruct (Ascii.eqb c "{"); apply IH.
  Qed.

  Lemma so_escape_component orig c : escape_component rt1 orig c = escape_component rt2 orig c.
  Proof. unfold escape_component. rewrite so_opt_get, so_escape_scan. reflexivity. Qed.

  Lemma so_escape_components orig l : forall acc,
    escape_components rt1 orig l acc = escape_components rt2 orig l acc.
  Proof.
    induction l as [|c l IH]; intro acc; cbn [escape_components]; [reflexivity|].
    rewrite so_escape_component. destruct (escape_component rt2 orig c); cbn [bind]; [apply IH | reflexivity].
  Qed.

  Lemma so_escape_path p : escape_path rt1 p = escape_path rt2 p.
  Proof. apply so_escape_components. Qed.

  Lemma so_emit_file_gen g1 g2 sty seg f k base ws :
    (forall nb ws, g1 (fi_files f) nb ws = g2 (fi_files f) nb ws) ->
    emit_file_gen g1 rt1 sty seg f k base ws = emit_file_gen g2 rt2 sty seg f k base ws.
  Proof.
    intro H. unfold emit_file_gen. rewrite so_should_emit, !so_escape_path.
    destruct (negb (should_emit rt2 (fi_conds f))); [reflexivity|].
    destruct (fi_kind f); try reflexivity.
    destruct (escape_path rt2 (fi_dir f)); cbn [bind]; [apply H | reflexivity].
  Qed.

  Lemma so_emit_sff sty cfg seg sections f : forall n stack section base ws,
    emit_sff rt1 sty cfg seg sections f n stack section base ws =
    emit_sff rt2 sty cfg seg sections f n stack section base ws.
  Proof.
    induction f as [p k sf pa sec lon so files dir c kp HF] using file_info_ind'.
    induction n as [|n IHn]; intros stack section base ws.
    - rewrite !emit_sff_O. reflexivity.
    - rewrite !emit_sff_S. destruct (mem_str section stack); [reflexivity|].
      unfold chain_step. apply fold_out_ext. intros k0 ws0. unfold emit_file_of.
      rewrite (so_emit_file_gen (group_fold rt1 sty cfg seg sections k0)
                                (group_fold rt2 sty cfg seg sections k0)).
      + destruct (emit_file_gen (group_fold rt2 sty cfg seg sections k0) rt2 sty seg
                                (FileInfo p k sf pa sec lon so files dir c kp) k0 base ws0) as [o1|e];
          cbn [bind]; [|reflexivity].
        destruct (reference_partial cfg); [reflexivity|].
        destruct (lookup k0 (subgroups_for seg _)) as [others|]; [|reflexivity].
        rewrite (fold_out_ext _ (fun other ws1 =>
                   emit_sff rt2 sty cfg seg sections (FileInfo p k sf pa sec lon so files dir c kp)
                            n (section :: stack) other base ws1)); [reflexivity|].
        intros other ws1. apply IHn.
      + intros nb ws1. cbn [fi_files]. unfold group_fold. apply fold_out_ext_in.
        apply Forall_forall. intros x Hx ws2. rewrite Forall_forall in HF. apply (HF x Hx).
  Qed.

  Lemma so_emit_section sty cfg seg sections bp section ws :
    emit_section rt1 sty cfg seg sections bp section ws = emit_section rt2 sty cfg seg sections bp section ws.
  Proof.
    unfold emit_section. rewrite !so_escape_path.
    destruct (escape_path rt2 bp) as [b0|e]; cbn [bind]; [|reflexivity].
    destruct (reference_partial cfg); cbn [bind].
    - apply fold_out_ext. intros f ws0. apply so_emit_sff.
    - destruct (escape_path rt2 (sg_dir seg)) as [dd|e]; cbn [bind]; [|reflexivity].
      apply fold_out_ext. intros f ws0. apply so_emit_sff.
  Qed.

  Lemma so_gp_stmt seg section : gp_stmt rt1 seg section = gp_stmt rt2 seg section.
  Proof. unfold gp_stmt. destruct (sg_gp_info seg); [rewrite so_should_emit|]; reflexivity. Qed.

  Lemma so_section_symbol_start sty cfg seg section :
    section_symbol_start rt1 sty cfg seg section = section_symbol_start rt2 sty cfg seg section.
  Proof. unfold section_symbol_start. rewrite so_gp_stmt. reflexivity. Qed.

  Lemma so_part_groups st cfg seg sections rest : forall ws,
    part_groups rt1 st cfg seg sections rest ws = part_groups rt2 st cfg seg sections rest ws.
  Proof.
    induction rest as [|section rest IH]; intro ws; cbn [part_groups]; [reflexivity|].
    rewrite so_emit_section.
    destruct (emit_section rt2 (linker_symbols_style st) cfg seg sections (base_path st) section ws)
      as [o1|e]; cbn [bind]; [|reflexivity].
    rewrite IH, so_section_symbol_start. reflexivity.
  Qed.

  Lemma so_write_segment st cfg seg sections noload ws :
    write_segment rt1 st cfg seg sections noload ws = write_segment rt2 st cfg seg sections noload ws.
  Proof. unfold write_segment. rewrite so_part_groups. reflexivity. Qed.

  Lemma so_single_groups st cfg seg sections noload rest : forall ws,
    single_groups rt1 st cfg seg sections noload rest ws = single_groups rt2 st cfg seg sections noload rest ws.
  Proof.
    induction rest as [|section rest IH]; intro ws; cbn [single_groups]; [reflexivity|].
    rewrite so_emit_section.
    destruct (emit_section rt2 (linker_symbols_style st) cfg seg sections (base_path st) section ws)
      as [o1|e]; cbn [bind]; [|reflexivity].
    rewrite IH, so_section_symbol_start. reflexivity.
  Qed.

  Lemma so_write_single_segment st cfg seg sections noload ws :
    write_single_segment rt1 st cfg seg sections noload ws =
    write_single_segment rt2 st cfg seg sections noload ws.
  Proof. unfold write_single_segment. rewrite so_single_groups. reflexivity. Qed.

  Lemma so_add_segment st cfg classes seg ws :
    add_segment rt1 st cfg classes seg ws = add_segment rt2 st cfg classes seg ws.
  Proof.
    unfold add_segment. rewrite so_should_emit.
    destruct (negb (should_emit rt2 (sg_conds seg))); [reflexivity|].
    match goal with |- bind ?c _ = bind ?c _ => destruct c as [cls|e] end; cbn [bind]; [|reflexivity].
    rewrite so_write_segment.
    destruct (write_segment rt2 st cfg seg (alloc_sections seg) false (snd cls)) as [o1|e];
      cbn [bind]; [|reflexivity].
    rewrite so_write_segment. reflexivity.
  Qed.

  Lemma so_add_single_segment st cfg classes seg ws :
    add_single_segment rt1 st cfg classes seg ws = add_single_segment rt2 st cfg classes seg ws.
  Proof.
    unfold add_single_segment. rewrite so_write_single_segment.
    destruct (write_single_segment rt2 st cfg seg (alloc_sections seg) false ws) as [o1|e];
      cbn [bind]; [|reflexivity].
    rewrite so_write_single_segment. reflexivity.
  Qed.

  Lemma so_add_all_segments st cfg classes segs ws :
    add_all_segments rt1 st cfg classes segs ws = add_all_segments rt2 st cfg classes segs ws.
  Proof.
    unfold add_all_segments. destruct (single_segment_mode st).
    - destruct segs as [|seg [|s2 r]]; try reflexivity. apply so_add_single_segment.
    - rewrite (fold_out_ext (add_segment rt1 st cfg classes) (add_segment rt2 st cfg classes));
        [reflexivity|]. intros x ws0. apply so_add_segment.
  Qed.

  Lemma so_tail_stmts d : tail_stmts rt1 d = tail_stmts rt2 d.
  Proof.
    unfold tail_stmts, assignment_stmts, required_stmts, assert_stmts.
    rewrite (flat_map_ext _ (fun a => if should_emit rt2 (sa_conds a)
                 then [SAssign (sa_provide a) (sa_hidden a) false (sa_name a) (ERaw (sa_value a))]
                 else [])) by (intro x; rewrite so_should_emit; reflexivity).
    rewrite (flat_map_ext _ (fun r => if should_emit rt2 (rq_conds r)
                 then [SExtern (rq_name r);
                       SAssert ("DEFINED(" ++ rq_name r ++ ")") (required_msg (rq_name r))]
                 else [])) by (intro x; rewrite so_should_emit; reflexivity).
    rewrite (flat_map_ext _ (fun a => if should_emit rt2 (ae_conds a)
                 then [SAssert (ae_check a) (ae_error_message a)] else []))
      by (intro x; rewrite so_should_emit; reflexivity).
    reflexivity.
  Qed.

  Lemma so_gen_normal d :
    match gen_normal d rt1, gen_normal d rt2 with
    | Ok w1, Ok w2 =>
        exists body, wo_script w1 = (version_stmts rt1 ++ body)%list /\
                     wo_script w2 = (version_stmts rt2 ++ body)%list /\
                     wo_paths w1 = wo_paths w2
    | Err e1, Err e2 => e1 = e2
    | _, _ => False
    end.
  Proof.
    unfold gen_normal. rewrite so_add_all_segments.
    destruct (add_all_segments rt2 (doc_settings d) cfg_normal (doc_vram_classes d) (doc_segments d) ws0)
      as [o|e]; cbn [bind]; [|reflexivity].
    rewrite so_tail_stmts. eexists. cbn [wo_script wo_paths]. repeat split.
  Qed.
End SameOptions.

(* ---------- --omit-version-comment removes only the version comment ---------- *)

Lemma gen_normal_omit d o :
  match gen_normal d (Runtime o true), gen_normal d (Runtime o false) with
  | Ok w1, Ok w0 => wo_script w1 = (version_head ++ wo_script w0)%list /\ wo_paths w1 = wo_paths w0
  | Err e1, Err e0 => e1 = e0
  | _, _ => False
  end.
Proof.
  pose proof (so_gen_normal (Runtime o true) (Runtime o false) eq_refl d) as H.
  destruct (gen_normal d (Runtime o true)) as [w1|e1], (gen_normal d (Runtime o false)) as [w0|e0];
    try assumption.
  destruct H as [body [H1 [H0 Hp]]]. rewrite H1, H0. split; [reflexivity | assumption].
Qed.

Lemma version_head_symbols w1 w0 :
  wo_script w1 = (version_head ++ wo_script w0)%list -> linker_symbols w1 = linker_symbols w0.
Proof. intro H. unfold linker_symbols. rewrite H. reflexivity. Qed.

Lemma lines_to_text_cons a l : lines_to_text (a :: l) = a ++ nl ++ lines_to_text l.
Proof. unfold lines_to_text. cbn [map concat_all]. apply app_assoc_s. Qed.

Lemma version_head_text w1 w0 :
  wo_script w1 = (version_head ++ wo_script w0)%list ->
  script_text w1 = "/* " ++ version_comment_text ++ " */" ++ nl ++ nl ++ script_text w0.
Proof.
  intro H. unfold script_text. rewrite H.
  change (render (version_head ++ wo_script w0))
    with (("/* " ++ version_comment_text ++ " */") :: "" :: render (wo_script w0)).
  rewrite !lines_to_text_cons. rewrite !app_assoc_s. reflexivity.
Qed.

Lemma deps_text_omit o w1 w0 t :
  wo_paths w1 = wo_paths w0 ->
  deps_text (Runtime o true) w1 t = "# " ++ version_comment_text ++ nl ++ nl ++ deps_text (Runtime o false) w0 t.
Proof.
  intro H. unfold deps_text. cbn [rt_emit_version_comment]. rewrite H. rewrite !app_assoc_s. reflexivity.
Qed.

Lemma header_text_omit o st w1 w0 :
  linker_symbols w1 = linker_symbols w0 ->
  header_text (Runtime o true) st w1 =
  "/* " ++ version_comment_text ++ " */" ++ nl ++ nl ++ header_text (Runtime o false) st w0.
Proof.
  intro H. unfold header_text. cbn [rt_emit_version_comment]. rewrite H. rewrite !app_assoc_s. reflexivity.
Qed.

(* ---------- the same for partial generation ---------- *)

(* two writers that differ at most by the version comment at the head of the script *)
Definition same_but_version (rt1 rt2 : runtime) (w1 w2 : writer_out) : Prop :=
  exists body, wo_script w1 = (version_stmts rt1 ++ body)%list /\
               wo_script w2 = (version_stmts rt2 ++ body)%list /\
               wo_paths w1 = wo_paths w2.

Definition subs_rel (rt1 rt2 : runtime) (l1 l2 : list (string * writer_out)) : Prop :=
  Forall2 (fun a b => fst a = fst b /\ same_but_version rt1 rt2 (snd a) (snd b)) l1 l2.

Section SameOptionsPartial.
  Variables rt1 rt2 : runtime.
  Hypothesis Hopt : rt_options rt1 = rt_options rt2.

  Definition partial_rel (r1 r2 : res (list stmt * (wstate * list (string * writer_out)))) : Prop :=
    match r1, r2 with
    | Ok x1, Ok x2 => fst x1 = fst x2 /\ fst (snd x1) = fst (snd x2) /\
                      subs_rel rt1 rt2 (snd (snd x1)) (snd (snd x2))
    | Err e1, Err e2 => e1 = e2
    | _, _ => False
    end.

  Lemma so_partial_segment d folder seg ws s1 s2 :
    subs_rel rt1 rt2 s1 s2 ->
    partial_rel (partial_segment d rt1 folder seg (ws, s1)) (partial_segment d rt2 folder seg (ws, s2)).
  Proof.
    intro Hs. unfold partial_segment. rewrite (so_should_emit rt1 rt2 Hopt).
    destruct (negb (should_emit rt2 (sg_conds seg))).
    - cbn. repeat split. assumption.
    - rewrite (so_add_single_segment rt1 rt2 Hopt).
      destruct (add_single_segment rt2 (doc_settings d) cfg_sub_partial (doc_vram_classes d) seg ws0)
        as [sub|e]; cbn [bind]; [|reflexivity].
      cbn [fst snd]. rewrite (so_add_segment rt1 rt2 Hopt).
      match goal with |- partial_rel (bind ?c _) (bind ?c _) => destruct c as [o|e] end;
        cbn [bind]; [|reflexivity].
      cbn [partial_rel fst snd]. repeat split. apply Forall2_app; [assumption|].
      constructor; [|constructor]. cbn [fst snd]. split; [reflexivity|].
      eexists. cbn [wo_script wo_paths]. repeat split.
  Qed.

  Lemma so_partial_segments d folder segs : forall ws s1 s2,
    subs_rel rt1 rt2 s1 s2 ->
    partial_rel (partial_segments d rt1 folder segs (ws, s1)) (partial_segments d rt2 folder segs (ws, s2)).
  Proof.
    induction segs as [|seg segs IH]; intros ws s1 s2 Hs; cbn [partial_segments].
    - cbn. repeat split. assumption.
    - pose proof (so_partial_segment d folder seg ws s1 s2 Hs) as H1.
      destruct (partial_segment d rt1 folder seg (ws, s1)) as [[st1 [w1 t1]]|e1],
               (partial_segment d rt2 folder seg (ws, s2)) as [[st2 [w2 t2]]|e2];
        cbn [partial_rel fst snd] in H1; try contradiction; cbn [bind fst snd]; [|assumption].
      destruct H1 as (-> & -> & Ht). specialize (IH w2 t1 t2 Ht).
      destruct (partial_segments d rt1 folder segs (w2, t1)) as [[st1' [w1' t1']]|e1],
               (partial_segments d rt2 folder segs (w2, t2)) as [[st2' [w2' t2']]|e2];
        cbn [partial_rel fst snd] in IH; try contradiction; cbn [bind partial_rel fst snd]; [|assumption].
      destruct IH as (-> & -> & Ht'). repeat split. assumption.
  Qed.

  Lemma so_gen_partial d :
    match gen_partial d rt1, gen_partial d rt2 with
    | Ok p1, Ok p2 => same_but_version rt1 rt2 (po_main p1) (po_main p2) /\
                      subs_rel rt1 rt2 (po_subs p1) (po_subs p2)
    | Err e1, Err e2 => e1 = e2
    | _, _ => False
    end.
  Proof.
    unfold gen_partial. destruct (partial_build_segments_folder (doc_settings d)) as [folder|]; [|reflexivity].
    pose proof (so_partial_segments d folder (doc_segments d) ws0 [] [] (Forall2_nil _)) as H.
    destruct (partial_segments d rt1 folder (doc_segments d) (ws0, [])) as [[st1 [w1 t1]]|e1],
             (partial_segments d rt2 folder (doc_segments d) (ws0, [])) as [[st2 [w2 t2]]|e2];
      cbn [partial_rel fst snd] in H; try contradiction; cbn [bind fst snd]; [|assumption].
    destruct H as (-> & -> & Ht). cbn [po_main po_subs]. split; [|assumption].
    rewrite (so_tail_stmts rt1 rt2 Hopt). eexists. cbn [wo_script wo_paths]. repeat split.
  Qed.
End SameOptionsPartial.

Lemma gen_partial_omit d o :
  match gen_partial d (Runtime o true), gen_partial d (Runtime o false) with
  | Ok p1, Ok p0 =>
      wo_script (po_main p1) = (version_head ++ wo_script (po_main p0))%list /\
      wo_paths (po_main p1) = wo_paths (po_main p0) /\
      Forall2 (fun a b => fst a = fst b /\
                          wo_script (snd a) = (version_head ++ wo_script (snd b))%list /\
                          wo_paths (snd a) = wo_paths (snd b)) (po_subs p1) (po_subs p0)
  | Err e1, Err e0 => e1 = e0
  | _, _ => False
  end.
Proof.
  pose proof (so_gen_partial (Runtime o true) (Runtime o false) eq_refl d) as H.
  destruct (gen_partial d (Runtime o true)) as [p1|e1], (gen_partial d (Runtime o false)) as [p0|e0];
    try assumption.
  destruct H as [[body [H1 [H0 Hp]]] Hs]. rewrite H1, H0. split; [reflexivity|]. split; [assumption|].
  induction Hs as [|a b l1 l0 [Hn [body' [Ha [Hb Hpp]]]] Hs IH]; constructor; [|assumption].
  split; [assumption|]. rewrite Ha, Hb. split; [reflexivity | assumption].
Qed.

(* ====================================================================== *)
(* the two modes of a successful run, spelled out                          *)
(* ====================================================================== *)

Lemma files_normal sd a out ws :
  cli_partial a = false -> cli_run sd a = CliResult true out ws ->
  exists opts d w,
    parse_key_vals (cli_options a) = Some opts /\ parse sd = Ok d /\
    let rt := Runtime opts (negb (cli_omit_version_comment a)) in
    gen_normal d rt = Ok w /\
    exists others, NormalFiles rt (doc_settings d) w others /\
      match cli_output a with
      | Some o => exists path, escape_path rt o = Ok path /\ out = "" /\
                               ws = (path, script_text w) :: others
      | None => out = script_text w ++ nl /\ ws = others
      end.
Proof.
  intros Hp H. apply cli_run_success in H. destruct H as (opts & d & Ho & Hd & Hk & H).
  rewrite Hp in H. cbv zeta in H. destruct H as (w & Hg & H).
  exists opts, d, w. split; [assumption|]. split; [assumption|]. cbv zeta. split; [assumption|].
  destruct (cli_output a) as [o|].
  - destruct H as (path & w2 & He & Hn & -> & ->). exists w2. split; [assumption|].
    exists path. repeat split. assumption.
  - destruct H as (Hn & ->). exists ws. repeat split. assumption.
Qed.

Lemma files_partial sd a out ws :
  cli_partial a = true -> cli_run sd a = CliResult true out ws ->
  exists opts d p,
    parse_key_vals (cli_options a) = Some opts /\ parse sd = Ok d /\
    let rt := Runtime opts (negb (cli_omit_version_comment a)) in
    gen_partial d rt = Ok p /\
    exists others, PartialFiles rt (doc_settings d) p others /\
      match cli_output a with
      | Some o => exists path scripts, escape_path rt o = Ok path /\
                    PartialScripts rt (doc_settings d) p path scripts /\
                    out = "" /\ ws = (scripts ++ others)%list
      | None => out = partial_script_text p ++ nl /\ ws = others
      end.
Proof.
  intros Hp H. apply cli_run_success in H. destruct H as (opts & d & Ho & Hd & Hk & H).
  rewrite Hp in H. cbv zeta in H. destruct H as (p & Hg & H).
  exists opts, d, p. split; [assumption|]. split; [assumption|]. cbv zeta. split; [assumption|].
  destruct (cli_output a) as [o|].
  - destruct H as (path & w1 & w2 & He & H1 & H2 & -> & ->). exists w2. split; [assumption|].
    exists path, w1. repeat split; assumption.
  - destruct H as (Hn & ->). exists ws. repeat split. assumption.
Qed.

(* ====================================================================== *)
(* a concrete document and command lines (used by the Examples)            *)
(* ====================================================================== *)

Definition ex_cs : conds_serial := mkCondsSerial Absent Absent Absent Absent.
Definition ex_obj (p : string) : file_serial :=
  FileSerial [] (Value p) Absent Absent Absent Absent Absent Absent Absent Absent ex_cs SKAbsent.
Definition ex_group (dir : string) (l : list file_serial) : file_serial :=
  FileSerial [] Absent (Value KGroup) Absent Absent Absent Absent Absent (Value l) (Value dir) ex_cs SKAbsent.
Definition ex_seg (name dir : string) (files : list file_serial) : segment_serial :=
  SegmentSerial [] (Value name) (Some files) (Value 4096%N) Absent Absent Absent (Value dir) Absent ex_cs
                (Value [".text"]) (Value [".bss"]) Absent Absent Absent Absent Absent
                Absent Absent Absent Absent Absent SKAbsent.
Definition ex_settings : settings_serial :=
  SettingsSerial [] (Value "build/{v}") Absent Absent (Value "out/{v}/x.d") (Value "out/x.elf")
                 (Value "include/syms.h") Absent Absent Absent Absent Absent
                 Absent Absent (Value "ld/{v}") (Value "segs") Absent Absent Absent
                 Absent Absent Absent Absent Absent Absent Absent Absent Absent.
Definition ex_doc : document_serial :=
  DocumentSerial [] (Value ex_settings) Absent
    (Some [ex_seg "main" "src/{v}" [ex_obj "a_{w}.o"; ex_group "lib{w}" [ex_obj "{v}{w}.o"]]])
    Absent Absent Absent Absent.
Definition ex_args (o : option string) (partial : bool) (opts : list string) (omit : bool) : cli_args :=
  CliArgs o partial opts omit.

Definition cli_stdout (r : cli_result) : string := match r with CliResult _ o _ => o end.
Definition cli_writes (r : cli_result) : list write := match r with CliResult _ _ w => w end.

Definition gen_normal_of (sd : document_serial) (opts : pairs) (emit : bool) : option writer_out :=
  match parse sd with
  | Ok d => match gen_normal d (Runtime opts emit) with Ok w => Some w | Err _ => None end
  | Err _ => None
  end.
