(* Extraction of the executable model to OCaml.  ExtrOcamlBasic (bool, option, unit, list, prod,
   sumbool, sumor -> the OCaml types of the same shape) and ExtrOcamlString (ascii -> char with
   ascii_dec / Ascii.eqb -> (=) and Ascii.compare -> Char.compare; string -> char list).  positive, N, Z
   and nat stay the extracted inductive types; no other Extract Constant. *)
Require Extraction.
Require Import ExtrOcamlBasic ExtrOcamlString.
From Slinky Require Import Model.Types Model.Parse Model.Runtime Model.Style Model.Script
  Model.Writer Model.Exports Model.Dump Model.LdSem Model.LdDump.
Extraction Language OCaml.
Extraction "model.ml" run_case cli_run jcli run_link.
