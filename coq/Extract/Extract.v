(* Extraction of the executable model to OCaml.  Only ExtrOcamlBasic: string, ascii, positive, N, Z,
   nat stay the extracted inductive types. *)
Require Extraction.
Require Import ExtrOcamlBasic.
From Slinky Require Import Model.Types Model.Parse Model.Runtime Model.Style Model.Script
  Model.Writer Model.Exports Model.Dump.
Extraction Language OCaml.
Extraction "model.ml" run_case cli_run jcli.
