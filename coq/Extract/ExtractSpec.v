(* Extraction of the boolean specification checkers that are run on the implementation's real outcomes
   (a second program, so that the model driver still builds when a Spec file does not). *)
Require Extraction.
Require Import ExtrOcamlBasic ExtrOcamlString.
From Slinky Require Import Model.Types Model.Parse Model.Dump Model.Exports Model.LdSem Model.LdDump Spec.C16 Spec.C19Grammar Spec.C13Doc Spec.DocWf Spec.DocSingleWf.
Extraction Language OCaml.
Extraction "specmodel.ml" run_case cli_run jcli run_link valid Known_C16_null_plain_string Known_C16_null_forbidden_field
  parse wf_lines doc_names_valid doc_names_valid_partial
  doc_header_symbols doc_header_symbols_main doc_header_symbols_single
  doc_symbols doc_symbols_single.
