(* Base string / number utilities used by the model.  Strings are Coq [string]s read as
   byte sequences (see DESIGN.md 2.2).  No proofs in this file. *)
From Coq Require Export List String Ascii NArith ZArith Bool.
Export ListNotations.
Open Scope string_scope.
Open Scope list_scope.

(* ---------- lists ---------- *)

Fixpoint mem_str (x : string) (l : list string) : bool :=
  match l with
  | [] => false
  | y :: r => if String.eqb x y then true else mem_str x r
  end.

Fixpoint lookup {A} (k : string) (l : list (string * A)) : option A :=
  match l with
  | [] => None
  | (k', v) :: r => if String.eqb k k' then Some v else lookup k r
  end.

(* last binding wins: the semantics of HashMap::extend over a sequence of pairs *)
Fixpoint lookup_last {A} (k : string) (l : list (string * A)) : option A :=
  match l with
  | [] => None
  | (k', v) :: r =>
      match lookup_last k r with
      | Some v' => Some v'
      | None => if String.eqb k k' then Some v else None
      end
  end.

Fixpoint position (x : string) (l : list string) : option nat :=
  match l with
  | [] => None
  | y :: r => if String.eqb x y then Some 0
              else match position x r with Some n => Some (S n) | None => None end
  end.

Definition opt_eqb_str (a b : option string) : bool :=
  match a, b with
  | Some x, Some y => String.eqb x y
  | None, None => true
  | _, _ => false
  end.

(* ---------- strings ---------- *)

Definition is_empty (s : string) : bool :=
  match s with EmptyString => true | _ => false end.

Fixpoint concat_all (l : list string) : string :=
  match l with
  | [] => ""
  | s :: r => s ++ concat_all r
  end.

Fixpoint join (sep : string) (l : list string) : string :=
  match l with
  | [] => ""
  | [s] => s
  | s :: r => s ++ sep ++ join sep r
  end.

Fixpoint contains_char (c : ascii) (s : string) : bool :=
  match s with
  | EmptyString => false
  | String d r => if Ascii.eqb c d then true else contains_char c r
  end.

Definition starts_with_char (c : ascii) (s : string) : bool :=
  match s with String d _ => Ascii.eqb c d | EmptyString => false end.

Fixpoint last_char (s : string) : option ascii :=
  match s with
  | EmptyString => None
  | String c EmptyString => Some c
  | String _ r => last_char r
  end.

Definition ends_with_char (c : ascii) (s : string) : bool :=
  match last_char s with Some d => Ascii.eqb c d | None => false end.

(* split on a separator character; "a//b" -> ["a";"";"b"], "" -> [""] *)
Fixpoint split_on_aux (c : ascii) (s : string) (cur : string) : list string :=
  match s with
  | EmptyString => [cur]
  | String d r => if Ascii.eqb c d then cur :: split_on_aux c r ""
                  else split_on_aux c r (cur ++ String d "")
  end.
Definition split_on (c : ascii) (s : string) : list string := split_on_aux c s "".

Fixpoint map_chars (f : ascii -> ascii) (s : string) : string :=
  match s with
  | EmptyString => EmptyString
  | String c r => String (f c) (map_chars f r)
  end.

Definition upper_ascii (c : ascii) : ascii :=
  let n := nat_of_ascii c in
  if andb (Nat.leb 97 n) (Nat.leb n 122) then ascii_of_nat (n - 32) else c.

Definition to_upper (s : string) : string := map_chars upper_ascii s.

Definition replace_char (a b : ascii) (s : string) : string :=
  map_chars (fun c => if Ascii.eqb c a then b else c) s.

Definition is_ascii_char (c : ascii) : bool := Nat.ltb (nat_of_ascii c) 128.

Fixpoint all_ascii (s : string) : bool :=
  match s with
  | EmptyString => true
  | String c r => andb (is_ascii_char c) (all_ascii r)
  end.

(* drop the last [n] characters *)
Definition drop_last (n : nat) (s : string) : string :=
  substring 0 (String.length s - n) s.

(* extension of the last path component: the text after the last '.', if the file name
   contains a '.' that is not its first character (Path::extension) *)
Definition file_name_of (p : string) : string :=
  last (filter (fun c => negb (orb (is_empty c) (String.eqb c "."))) (split_on "/" p)) "".

Definition extension_of (p : string) : option string :=
  let f := file_name_of p in
  if String.eqb f ".." then None else
  match split_on "." f with
  | [] => None
  | [_] => None
  | first :: rest =>
      (* a leading '.' with nothing else before it does not start an extension *)
      if andb (is_empty first) (Nat.eqb (List.length rest) 1) then None
      else Some (last rest "")
  end.

(* ---------- numbers ---------- *)

Definition hex_digit (n : N) : ascii :=
  match n with
  | 0%N => "0" | 1%N => "1" | 2%N => "2" | 3%N => "3" | 4%N => "4" | 5%N => "5" | 6%N => "6" | 7%N => "7"
  | 8%N => "8" | 9%N => "9" | 10%N => "A" | 11%N => "B" | 12%N => "C" | 13%N => "D" | 14%N => "E" | _ => "F"
  end%char.

Fixpoint hex_fuel (fuel : nat) (n : N) (acc : string) : string :=
  match fuel with
  | O => acc
  | S f => if N.eqb n 0 then acc
           else hex_fuel f (N.div n 16) (String (hex_digit (N.modulo n 16)) acc)
  end.

(* {:X} *)
Definition hex_of_N (n : N) : string :=
  if N.eqb n 0 then "0" else hex_fuel (S (N.to_nat (N.size n))) n "".

Fixpoint repeat_char (c : ascii) (n : nat) : string :=
  match n with O => "" | S m => String c (repeat_char c m) end.

Definition pad_left (c : ascii) (w : nat) (s : string) : string :=
  repeat_char c (w - String.length s) ++ s.

(* {:08X} *)
Definition hex8_of_N (n : N) : string := pad_left "0" 8 (hex_of_N n).

(* {:X} applied to an i32: two's complement on 32 bits *)
Definition hex_of_i32 (z : Z) : string :=
  hex_of_N (Z.to_N (Z.modulo z 4294967296)).

Definition dec_digit (n : N) : ascii :=
  match n with
  | 0%N => "0" | 1%N => "1" | 2%N => "2" | 3%N => "3" | 4%N => "4" | 5%N => "5" | 6%N => "6" | 7%N => "7"
  | 8%N => "8" | _ => "9"
  end%char.

Fixpoint dec_fuel (fuel : nat) (n : N) (acc : string) : string :=
  match fuel with
  | O => acc
  | S f => if N.eqb n 0 then acc
           else dec_fuel f (N.div n 10) (String (dec_digit (N.modulo n 10)) acc)
  end.

Definition dec_of_N (n : N) : string :=
  if N.eqb n 0 then "0" else dec_fuel (S (N.to_nat (N.size n))) n "".

Definition dec_of_Z (z : Z) : string :=
  match z with
  | Z0 => "0"
  | Zpos p => dec_of_N (Npos p)
  | Zneg p => "-" ++ dec_of_N (Npos p)
  end.

Definition dec_of_nat (n : nat) : string := dec_of_N (N.of_nat n).

(* ---------- option helpers ---------- *)

Definition is_some {A} (o : option A) : bool := match o with Some _ => true | None => false end.
