(* C17 - top-level statements and _gp: the documented statement lists, written declaratively. *)
From Slinky Require Import Model.Types Model.Runtime Model.Style Model.Script Model.Writer.
From Slinky Require Export Spec.C18.
Local Open Scope string_scope.

(* ---------- the statements that follow the SECTIONS block ---------- *)

Definition entry_part (d : document) : list stmt :=
  match doc_entry d with Some e => [SEntry e] | None => [] end.

Definition assign_stmt (a : symbol_assignment) : stmt :=
  SAssign (sa_provide a) (sa_hidden a) false (sa_name a) (ERaw (sa_value a)).

Definition required_pair (r : required_symbol) : list stmt :=
  [SExtern (rq_name r); SAssert ("DEFINED(" ++ rq_name r ++ ")") (required_msg (rq_name r))].

Definition assert_stmt (a : assert_entry) : stmt := SAssert (ae_check a) (ae_error_message a).

(* ENTRY if given; one assignment per included symbol assignment, in document order; EXTERN + ASSERT
   per included required symbol; one ASSERT per included assert *)
Definition tail_spec (rt : runtime) (d : document) : list stmt :=
  (entry_part d ++
   map assign_stmt (filter (fun a => should_emit rt (sa_conds a)) (doc_symbol_assignments d)) ++
   flat_map required_pair (filter (fun r => should_emit rt (rq_conds r)) (doc_required_symbols d)) ++
   map assert_stmt (filter (fun a => should_emit rt (ae_conds a)) (doc_asserts d)))%list.

(* the PROVIDE / HIDDEN wrapping of an assignment line *)
Definition wrap_assign (provide hidden : bool) (sym value : string) : string :=
  match provide, hidden with
  | true, true => "PROVIDE_HIDDEN(" ++ sym ++ " = " ++ value ++ ");"
  | true, false => "PROVIDE(" ++ sym ++ " = " ++ value ++ ");"
  | false, true => "HIDDEN(" ++ sym ++ " = " ++ value ++ ");"
  | false, false => sym ++ " = " ++ value ++ ";"
  end.

(* ---------- _gp ---------- *)

(* number of statements, at any depth, that assign the symbol _gp *)
Fixpoint count_gp_stmt (s : stmt) : nat :=
  match s with
  | SAssign _ _ _ sym _ => if String.eqb sym "_gp" then 1 else 0
  | SOutSec _ _ _ _ _ body => list_sum (map count_gp_stmt body)
  | SSections body => list_sum (map count_gp_stmt body)
  | _ => 0
  end.

Definition count_gp (l : list stmt) : nat := list_sum (map count_gp_stmt l).

(* the segment's gp_info is present, included and names this section *)
Definition GpHere (rt : runtime) (seg : segment) (section : string) (g : gp_info) : Prop :=
  sg_gp_info seg = Some g /\ should_emit rt (gp_conds g) = true /\ gp_section g = section.

Definition gp_assign (g : gp_info) : stmt :=
  SAssign (gp_provide g) (gp_hidden g) false "_gp" (EDotPlus (gp_offset g)).

(* how many section groups of the segment are named by its included gp_info *)
Definition gp_occurrences (rt : runtime) (seg : segment) : nat :=
  match sg_gp_info seg with
  | Some g => if should_emit rt (gp_conds g)
              then count_occ string_dec (alloc_sections seg ++ noload_sections seg)%list (gp_section g)
              else 0
  | None => 0
  end.

Definition hardcoded_count (st : settings) : nat :=
  match hardcoded_gp_value st with Some _ => 1 | None => 0 end.

(* all the segments of a multi-segment script *)
Definition segments_gp (rt : runtime) (segs : list segment) : nat :=
  list_sum (map (fun seg => if should_emit rt (sg_conds seg) then gp_occurrences rt seg else 0) segs).

(* the user's own symbol assignments that happen to be named _gp *)
Definition user_gp (rt : runtime) (d : document) : nat :=
  List.length (filter (fun a => andb (should_emit rt (sa_conds a)) (String.eqb (sa_name a) "_gp"))
                      (doc_symbol_assignments d)).
