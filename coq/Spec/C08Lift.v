(* C08Lift - the restating and shielding statements of C08 (Properties/C08.v, which stop at
   parse_segment / parse_settings) lifted to whole serial documents and to the outputs: declarative
   definitions only.

   "Restating" edits the SERIAL document: one segment replaced ([sd_with_segment]) or the `settings:`
   mapping replaced ([sd_with_settings]).  The outputs are everything Model/Exports.v and Model/Dump.v
   compute: the two generators, the dependency text, the symbol header, the lists of file writes, the
   command-line tool ([cli_run]) and the harness record ([run_case]). *)
From Slinky Require Import Model.Types Model.Parse Model.Runtime Model.Script Model.Writer Model.Exports Model.Dump.
From Slinky Require Import Spec.C08.

(* ---------- editing a serial document ---------- *)

(* [l] with its element number [i] (from 0) replaced by [x]; unchanged when [i] is out of range *)
Fixpoint replace_nth {A} (i : nat) (l : list A) (x : A) {struct l} : list A :=
  match l, i with
  | [], _ => []
  | _ :: r, O => x :: r
  | y :: r, S j => y :: replace_nth j r x
  end.

(* segment number [i] of a serial document *)
Definition sd_segment (sd : document_serial) (i : nat) : option segment_serial :=
  match ds_segments sd with Some l => nth_error l i | None => None end.

(* the serial document [sd] with segment number [i] replaced by [s'] *)
Definition sd_with_segment (sd : document_serial) (i : nat) (s' : segment_serial) : document_serial :=
  DocumentSerial (ds_unknown sd) (ds_settings sd) (ds_vram_classes sd)
    (match ds_segments sd with Some l => Some (replace_nth i l s') | None => None end)
    (ds_entry sd) (ds_symbol_assignments sd) (ds_required_symbols sd) (ds_asserts sd).

(* the serial document [sd] with its `settings:` entry replaced *)
Definition sd_with_settings (sd : document_serial) (gs : an settings_serial) : document_serial :=
  DocumentSerial (ds_unknown sd) gs (ds_vram_classes sd) (ds_segments sd)
    (ds_entry sd) (ds_symbol_assignments sd) (ds_required_symbols sd) (ds_asserts sd).

(* segment number [i] of a parsed document *)
Definition doc_segment (d : document) (i : nat) : option segment := nth_error (doc_segments d) i.

(* the parsed document with other settings *)
Definition doc_with_settings (d : document) (st : settings) : document :=
  Document st (doc_vram_classes d) (doc_segments d) (doc_entry d) (doc_symbol_assignments d)
           (doc_required_symbols d) (doc_asserts d).

(* ---------- one restating step ---------- *)

(* [restated sd d sd']: [sd'] is [sd] with ONE omitted option spelled out with its effective value -
   at segment level (the value read off segment [i] of the parsed document [d], as in
   C08_restate_segment_* ), or at global level (the documented default, as in C08_restate_global_* ),
   or an absent `settings:` entry replaced by an empty mapping.  Twelve options, two levels. *)
Inductive restated (sd : document_serial) (d : document) : document_serial -> Prop :=
| rs_seg_alloc_sections : forall i s seg,
    sd_segment sd i = Some s -> doc_segment d i = Some seg -> ss_alloc_sections s = Absent ->
    restated sd d (sd_with_segment sd i (ss_with_alloc_sections s (explicit_plain (alloc_sections seg))))
| rs_seg_noload_sections : forall i s seg,
    sd_segment sd i = Some s -> doc_segment d i = Some seg -> ss_noload_sections s = Absent ->
    restated sd d (sd_with_segment sd i (ss_with_noload_sections s (explicit_plain (noload_sections seg))))
| rs_seg_subalign : forall i s seg,
    sd_segment sd i = Some s -> doc_segment d i = Some seg -> ss_subalign s = Absent ->
    restated sd d (sd_with_segment sd i (ss_with_subalign s (explicit_nullable (subalign seg))))
| rs_seg_segment_start_align : forall i s seg,
    sd_segment sd i = Some s -> doc_segment d i = Some seg -> ss_segment_start_align s = Absent ->
    restated sd d (sd_with_segment sd i (ss_with_segment_start_align s (explicit_nullable (segment_start_align seg))))
| rs_seg_segment_end_align : forall i s seg,
    sd_segment sd i = Some s -> doc_segment d i = Some seg -> ss_segment_end_align s = Absent ->
    restated sd d (sd_with_segment sd i (ss_with_segment_end_align s (explicit_nullable (segment_end_align seg))))
| rs_seg_section_start_align : forall i s seg,
    sd_segment sd i = Some s -> doc_segment d i = Some seg -> ss_section_start_align s = Absent ->
    restated sd d (sd_with_segment sd i (ss_with_section_start_align s (explicit_nullable (section_start_align seg))))
| rs_seg_section_end_align : forall i s seg,
    sd_segment sd i = Some s -> doc_segment d i = Some seg -> ss_section_end_align s = Absent ->
    restated sd d (sd_with_segment sd i (ss_with_section_end_align s (explicit_nullable (section_end_align seg))))
| rs_seg_sections_start_alignment : forall i s seg,
    sd_segment sd i = Some s -> doc_segment d i = Some seg -> ss_sections_start_alignment s = Absent ->
    restated sd d (sd_with_segment sd i (ss_with_sections_start_alignment s (explicit_plain (sections_start_alignment seg))))
| rs_seg_sections_end_alignment : forall i s seg,
    sd_segment sd i = Some s -> doc_segment d i = Some seg -> ss_sections_end_alignment s = Absent ->
    restated sd d (sd_with_segment sd i (ss_with_sections_end_alignment s (explicit_plain (sections_end_alignment seg))))
| rs_seg_wildcard_sections : forall i s seg,
    sd_segment sd i = Some s -> doc_segment d i = Some seg -> ss_wildcard_sections s = Absent ->
    restated sd d (sd_with_segment sd i (ss_with_wildcard_sections s (explicit_plain (wildcard_sections seg))))
| rs_seg_fill_value : forall i s seg,
    sd_segment sd i = Some s -> doc_segment d i = Some seg -> ss_fill_value s = Absent ->
    restated sd d (sd_with_segment sd i (ss_with_fill_value s (explicit_nullable (fill_value seg))))
| rs_seg_sections_subgroups : forall i s seg,
    sd_segment sd i = Some s -> doc_segment d i = Some seg -> ss_sections_subgroups s = Absent ->
    restated sd d (sd_with_segment sd i (ss_with_sections_subgroups s (explicit_plain (sections_subgroups seg))))
| rs_glob_alloc_sections : forall gs,
    ds_settings sd = Value gs -> sts_alloc_sections gs = Absent ->
    restated sd d (sd_with_settings sd (Value (sts_with_alloc_sections gs (explicit_plain doc_default_alloc_sections))))
| rs_glob_noload_sections : forall gs,
    ds_settings sd = Value gs -> sts_noload_sections gs = Absent ->
    restated sd d (sd_with_settings sd (Value (sts_with_noload_sections gs (explicit_plain doc_default_noload_sections))))
| rs_glob_subalign : forall gs,
    ds_settings sd = Value gs -> sts_subalign gs = Absent ->
    restated sd d (sd_with_settings sd (Value (sts_with_subalign gs (explicit_nullable doc_default_subalign))))
| rs_glob_segment_start_align : forall gs,
    ds_settings sd = Value gs -> sts_segment_start_align gs = Absent ->
    restated sd d (sd_with_settings sd (Value (sts_with_segment_start_align gs (explicit_nullable doc_default_segment_start_align))))
| rs_glob_segment_end_align : forall gs,
    ds_settings sd = Value gs -> sts_segment_end_align gs = Absent ->
    restated sd d (sd_with_settings sd (Value (sts_with_segment_end_align gs (explicit_nullable doc_default_segment_end_align))))
| rs_glob_section_start_align : forall gs,
    ds_settings sd = Value gs -> sts_section_start_align gs = Absent ->
    restated sd d (sd_with_settings sd (Value (sts_with_section_start_align gs (explicit_nullable doc_default_section_start_align))))
| rs_glob_section_end_align : forall gs,
    ds_settings sd = Value gs -> sts_section_end_align gs = Absent ->
    restated sd d (sd_with_settings sd (Value (sts_with_section_end_align gs (explicit_nullable doc_default_section_end_align))))
| rs_glob_sections_start_alignment : forall gs,
    ds_settings sd = Value gs -> sts_sections_start_alignment gs = Absent ->
    restated sd d (sd_with_settings sd (Value (sts_with_sections_start_alignment gs (explicit_plain doc_default_sections_start_alignment))))
| rs_glob_sections_end_alignment : forall gs,
    ds_settings sd = Value gs -> sts_sections_end_alignment gs = Absent ->
    restated sd d (sd_with_settings sd (Value (sts_with_sections_end_alignment gs (explicit_plain doc_default_sections_end_alignment))))
| rs_glob_wildcard_sections : forall gs,
    ds_settings sd = Value gs -> sts_wildcard_sections gs = Absent ->
    restated sd d (sd_with_settings sd (Value (sts_with_wildcard_sections gs (explicit_plain doc_default_wildcard_sections))))
| rs_glob_fill_value : forall gs,
    ds_settings sd = Value gs -> sts_fill_value gs = Absent ->
    restated sd d (sd_with_settings sd (Value (sts_with_fill_value gs (explicit_nullable doc_default_fill_value))))
| rs_glob_sections_subgroups : forall gs,
    ds_settings sd = Value gs -> sts_sections_subgroups gs = Absent ->
    restated sd d (sd_with_settings sd (Value (sts_with_sections_subgroups gs (explicit_plain doc_default_sections_subgroups))))
| rs_glob_empty_mapping :
    ds_settings sd = Absent ->
    restated sd d (sd_with_settings sd (Value all_absent_settings)).

(* any number of restating steps *)
Inductive restated_many (sd : document_serial) (d : document) : document_serial -> Prop :=
| rm_refl : restated_many sd d sd
| rm_step : forall sd1 sd2, restated_many sd d sd1 -> restated sd1 d sd2 -> restated_many sd d sd2.

(* ---------- the outputs ---------- *)

(* the dependency text of a writer, as the library produces it: only when target_path is set *)
Definition deps_of (rt : runtime) (st : settings) (w : writer_out) : res (option string) :=
  do t <- escape_opt rt (target_path st); Ok (option_map (deps_text rt w) t).

(* every function of Model/Writer.v and Model/Exports.v that takes the parsed document or its settings
   gives the same result for [d] and [d'], for every run-time setting and every writer state it is
   applied to *)
Definition same_doc_outputs (d d' : document) : Prop :=
  forall rt,
    gen_normal d rt = gen_normal d' rt /\
    gen_partial d rt = gen_partial d' rt /\
    (forall w, deps_of rt (doc_settings d) w = deps_of rt (doc_settings d') w) /\
    (forall w, header_text rt (doc_settings d) w = header_text rt (doc_settings d') w) /\
    (forall w, save_other_files_normal rt (doc_settings d) w = save_other_files_normal rt (doc_settings d') w) /\
    (forall p, save_other_files_partial rt (doc_settings d) p = save_other_files_partial rt (doc_settings d') p) /\
    (forall p path, export_script_partial rt (doc_settings d) p path = export_script_partial rt (doc_settings d') p path).

(* the command-line tool cannot tell the two serial documents apart *)
Definition same_cli (sd sd' : document_serial) : Prop := forall a, cli_run sd a = cli_run sd' a.

(* nor can the harness, which also prints the parsed document *)
Definition same_run_case (sd sd' : document_serial) : Prop :=
  forall rt partial, run_case sd rt partial = run_case sd' rt partial.

(* ---------- shielding: every segment gives the option ---------- *)

(* every segment of the serial document gives the option read by [f] (a value or an explicit null) *)
Definition all_segments_give {A} (f : segment_serial -> an A) (sd : document_serial) : Prop :=
  forall l, ds_segments sd = Some l -> Forall (fun s => given (f s)) l.

(* the fifteen settings that no segment can override: what the generators and the exports read of the
   parsed settings (they read none of the twelve overridable fields, C08_outputs_read_only_the_core) *)
Definition same_core (st st' : settings) : Prop :=
  base_path st = base_path st' /\ linker_symbols_style st = linker_symbols_style st' /\
  hardcoded_gp_value st = hardcoded_gp_value st' /\ d_path st = d_path st' /\
  target_path st = target_path st' /\ symbols_header_path st = symbols_header_path st' /\
  symbols_header_type st = symbols_header_type st' /\
  symbols_header_as_array st = symbols_header_as_array st' /\
  sections_allowlist st = sections_allowlist st' /\
  sections_allowlist_extra st = sections_allowlist_extra st' /\
  sections_denylist st = sections_denylist st' /\
  discard_wildcard_section st = discard_wildcard_section st' /\
  single_segment_mode st = single_segment_mode st' /\
  partial_scripts_folder st = partial_scripts_folder st' /\
  partial_build_segments_folder st = partial_build_segments_folder st'.

(* [sd'] is [sd] with the GLOBAL value of one overridable option changed to anything (a value, null,
   or removed) *)
Inductive global_changed (sd : document_serial) : document_serial -> Prop :=
| gc_alloc_sections : forall gs v, ds_settings sd = Value gs -> all_segments_give ss_alloc_sections sd ->
    global_changed sd (sd_with_settings sd (Value (sts_with_alloc_sections gs v)))
| gc_noload_sections : forall gs v, ds_settings sd = Value gs -> all_segments_give ss_noload_sections sd ->
    global_changed sd (sd_with_settings sd (Value (sts_with_noload_sections gs v)))
| gc_subalign : forall gs v, ds_settings sd = Value gs -> all_segments_give ss_subalign sd ->
    global_changed sd (sd_with_settings sd (Value (sts_with_subalign gs v)))
| gc_segment_start_align : forall gs v, ds_settings sd = Value gs -> all_segments_give ss_segment_start_align sd ->
    global_changed sd (sd_with_settings sd (Value (sts_with_segment_start_align gs v)))
| gc_segment_end_align : forall gs v, ds_settings sd = Value gs -> all_segments_give ss_segment_end_align sd ->
    global_changed sd (sd_with_settings sd (Value (sts_with_segment_end_align gs v)))
| gc_section_start_align : forall gs v, ds_settings sd = Value gs -> all_segments_give ss_section_start_align sd ->
    global_changed sd (sd_with_settings sd (Value (sts_with_section_start_align gs v)))
| gc_section_end_align : forall gs v, ds_settings sd = Value gs -> all_segments_give ss_section_end_align sd ->
    global_changed sd (sd_with_settings sd (Value (sts_with_section_end_align gs v)))
| gc_sections_start_alignment : forall gs v, ds_settings sd = Value gs -> all_segments_give ss_sections_start_alignment sd ->
    global_changed sd (sd_with_settings sd (Value (sts_with_sections_start_alignment gs v)))
| gc_sections_end_alignment : forall gs v, ds_settings sd = Value gs -> all_segments_give ss_sections_end_alignment sd ->
    global_changed sd (sd_with_settings sd (Value (sts_with_sections_end_alignment gs v)))
| gc_wildcard_sections : forall gs v, ds_settings sd = Value gs -> all_segments_give ss_wildcard_sections sd ->
    global_changed sd (sd_with_settings sd (Value (sts_with_wildcard_sections gs v)))
| gc_fill_value : forall gs v, ds_settings sd = Value gs -> all_segments_give ss_fill_value sd ->
    global_changed sd (sd_with_settings sd (Value (sts_with_fill_value gs v)))
| gc_sections_subgroups : forall gs v, ds_settings sd = Value gs -> all_segments_give ss_sections_subgroups sd ->
    global_changed sd (sd_with_settings sd (Value (sts_with_sections_subgroups gs v))).

(* what remains of a parsed document when its overridable global values are forgotten: all the fields
   but the settings, and of the settings the core *)
Definition same_but_overridable (d d' : document) : Prop :=
  same_core (doc_settings d) (doc_settings d') /\
  doc_vram_classes d = doc_vram_classes d' /\ doc_segments d = doc_segments d' /\
  doc_entry d = doc_entry d' /\ doc_symbol_assignments d = doc_symbol_assignments d' /\
  doc_required_symbols d = doc_required_symbols d' /\ doc_asserts d = doc_asserts d'.
