(* Fixpoint - the last pass of [layout] is a fixpoint for everything that determines the output sections:
   declarative definitions.

   LdSem consults the previous pass ([env], [senv]) and the object symbols ([ext]) in [sym_lookup] and
   [sec_lookup], and only when the running state of the CURRENT pass has no value.  [chk_list] is a static
   check of a statement list: it threads the set [K] of symbol names whose value is, at this point of the
   pass, the same in any two passes (assigned in the current pass from an expression that reads only such
   names, or listed in the set [R] of outside names the two passes agree on), and the set [S] of output
   sections created so far in the current pass.  It fails when something that determines the geometry of the
   link (an output-section address, a ". =" assignment, a load address) reads a name outside [K]/[S];
   assignments to other symbols from expressions that read the previous pass (X_VRAM = ADDR(.X), written
   before .X exists) only drop the assigned name from [K]. *)
From Slinky Require Import Model.Types Model.Runtime Model.Style Model.Script Model.Writer Model.LdSem.
From Slinky Require Import Spec.C18 Spec.C04 Spec.C03 Spec.DocLevel.
From Coq Require Import ZArith.
Local Open Scope string_scope.

(* ---------- the static check ---------- *)

Definition remove_str (x : string) (l : list string) : list string :=
  filter (fun y => negb (String.eqb x y)) l.

(* the binary operators of the modelled grammar of user text (LdSem.eval_raw) *)
Definition raw_ops : list string := ["+"; "-"; "<="; "<"; ">="; ">"; "=="; "!="].

Definition known_atom (K : list string) (t : string) : bool := is_some (parse_num t) || mem_str t K.

(* user text that evaluates, to the same value, in any pass in which the names of [K] have the same value:
   DEFINED(x), an atom, or "a op b", every symbol being in [K] *)
Definition closed_raw (K : list string) (t : string) : bool :=
  match defined_arg t with
  | Some s => mem_str s K
  | None =>
      match split_on " " t with
      | [a] => known_atom K a
      | [a; op; b] => known_atom K a && known_atom K b && mem_str op raw_ops
      | _ => false
      end
  end.

Definition closed_expr (K S : list string) (e : expr) : bool :=
  match e with
  | EHex8 _ | EDot | EDotPlus _ => true
  | ERaw t => closed_raw K t
  | ESym s => mem_str s K
  | EAddr sec => mem_str sec S
  | EAbsSub a b | ESub a b => mem_str a K && mem_str b K
  end.

(* the names known after "sym = e": a PROVIDE is decided by the object symbols, so its target is not known *)
Definition after_assign (K S : list string) (p : bool) (sym : string) (e : expr) : list string :=
  if negb p && closed_expr K S e then sym :: K else remove_str sym K.

(* a statement of the body of an output section *)
Definition chk_sec_stmt (S K : list string) (s : stmt) : list string :=
  match s with
  | SAssign p _ _ sym e => after_assign K S p sym e
  | _ => K
  end.

Definition chk_top (K S : list string) (s : stmt) : option (list string * list string) :=
  match s with
  | SAssign p _ _ sym e =>
      if String.eqb sym "." then (if closed_expr K S e then Some (K, S) else None)
      else Some (after_assign K S p sym e, S)
  | SMaxSelf sym other =>
      Some (if mem_str sym K && mem_str other K then K else remove_str sym K, S)
  | SRomAdd sec =>
      Some (if mem_str "__romPos" K && mem_str sec S then K else remove_str "__romPos" K, S)
  | SOutSec name addr at_ _ _ body =>
      let K' := fold_left (chk_sec_stmt S) body K in
      if match addr with Some e => closed_expr K S e | None => true end &&
         match at_ with Some s => mem_str s K' | None => true end
      then Some (K', name :: S) else None
  | SSingleEntry sect => Some (K, sect :: S)
  | _ => Some (K, S)       (* "x = ALIGN(x, n)" keeps x known if it was; the others assign nothing *)
  end.

Fixpoint chk_list (K S : list string) (l : list stmt) : option (list string * list string) :=
  match l with
  | [] => Some (K, S)
  | s :: r => match chk_top K S s with
              | Some (K', S') => chk_list K' S' r
              | None => None
              end
  end.

(* the script is stable relative to the outside names [R]: every read that determines an output section is
   a read of the current pass or of a name of [R] *)
Definition script_stable (R : list string) (script : list stmt) : bool :=
  is_some (chk_list R [] (flat_stmts script)).

(* the symbols whose final value is the same in any two passes *)
Definition stable_syms (R : list string) (script : list stmt) : list string :=
  match chk_list R [] (flat_stmts script) with Some (K, _) => K | None => [] end.

(* ---------- what two passes must agree on ---------- *)

(* what sym_lookup finds outside the current pass *)
Definition outer_lookup (env ext : list (string * Z)) (x : string) : option Z :=
  match lookup x env with Some v => Some v | None => lookup x ext end.

Definition agree_on (R : list string) (env1 ext1 env2 ext2 : list (string * Z)) : Prop :=
  forall x, In x R -> exists v, outer_lookup env1 ext1 x = Some v /\ outer_lookup env2 ext2 x = Some v.

(* for [layout]: every name of [R] is defined by the objects given to the link (NOT as the marker of an
   input section, whose value is a result of the link) and is assigned nowhere in the script *)
Definition outside_ok (R : list string) (script : list stmt) (ext0 : list (string * Z)) : bool :=
  forallb (fun x => is_some (lookup x ext0) && no_assign x (flat_stmts script)) R.

(* the part of a state that does not mention symbol values, provided symbols or errors *)
Definition geom (st : lstate) : Z * list osec * list placement * list usec * list string :=
  (l_dot st, l_secs st, l_placed st, l_remaining st, l_discarded st).

Definition not_fwd (e : lerr) : Prop := match e with LForwardRef _ => False | _ => True end.
Definition no_fwd (l : list lerr) : Prop := Forall not_fwd l.

(* the relation between the states of two passes (previous-pass symbols env_i, object symbols ext_i) that
   an accepted statement list preserves: same geometry; the names of K have a value, the same one, in both
   states; the sections of S exist; no LForwardRef so far *)
Definition Kok (env1 ext1 env2 ext2 : list (string * Z)) (K : list string) (st1 st2 : lstate) : Prop :=
  forall x, In x K -> exists v, sym_lookup x st1 env1 ext1 = Some v /\ sym_lookup x st2 env2 ext2 = Some v.

Record sim (env1 ext1 env2 ext2 : list (string * Z)) (K S : list string) (st1 st2 : lstate) : Prop := Sim {
  sim_geom : geom st1 = geom st2;
  sim_K : Kok env1 ext1 env2 ext2 K st1 st2;
  sim_S : forall n, In n S -> exists o, find_sec n (l_secs st1) = Some o;
  sim_e1 : no_fwd (l_errors st1);
  sim_e2 : no_fwd (l_errors st2) }.
Arguments sim_geom {env1 ext1 env2 ext2 K S st1 st2}.
Arguments sim_K {env1 ext1 env2 ext2 K S st1 st2}.
Arguments sim_S {env1 ext1 env2 ext2 K S st1 st2}.
Arguments sim_e1 {env1 ext1 env2 ext2 K S st1 st2}.
Arguments sim_e2 {env1 ext1 env2 ext2 K S st1 st2}.

(* ---------- a class of documents whose script is stable ---------- *)

(* the start address of the segment is a literal (fixed_vram), the location counter (no address field),
   user text (fixed_symbol) whose symbols are all outside names of [R], or the end of one of the segments
   [prev] (follows_segment); it does not come from a class (vram_class: use [script_stable] itself) *)
Definition backward_seg (R prev : list string) (seg : segment) : bool :=
  negb (is_some (sg_vram_class seg)) &&
  match sg_fixed_vram seg, sg_fixed_symbol seg, sg_follows_segment seg with
  | Some _, _, _ => true
  | None, Some t, _ => closed_raw R t
  | None, None, Some f => mem_str f prev
  | None, None, None => true
  end.

(* [prev]: the names of the segments written before *)
Fixpoint backward_segs (R prev : list string) (segs : list segment) : bool :=
  match segs with
  | [] => true
  | seg :: r => backward_seg R prev seg && backward_segs R (sg_name seg :: prev) r
  end.

(* every included segment is such a segment, a followed segment being an EARLIER included one, and no user
   assignment (symbol_assignments) sets the location counter *)
Definition backward_addresses (R : list string) (d : document) (rt : runtime) : bool :=
  backward_segs R [] (included rt (doc_segments d)) &&
  forallb (fun a => negb (String.eqb (sa_name a) ".")) (doc_symbol_assignments d).

(* ---------- the full statement (see Properties/C03Fixpoint.v for what is proved) ---------- *)

Local Open Scope Z_scope.

(* without side condition on what the address expressions read this is FALSE of the model: see
   fx_counter_doc below and Properties/C03Fixpoint.v *)
Definition C03_vram_is_section_start_statement : Prop :=
  forall d rt w u ext0 seg o,
    gen_normal d rt = Ok w -> doc_link_wf d rt = true ->
    Forall (fun x => 0 <= u_size x) u ->
    let sty := linker_symbols_style (doc_settings d) in
    let st' := layout (wo_script w) u ext0 in
    l_errors st' = [] ->
    In seg (included rt (doc_segments d)) ->
    find_sec (alloc_name seg) (l_secs st') = Some o ->
    val st' (segment_vram_start sty (sg_name seg)) = Some (os_vma o).

(* ---------- sample data ---------- *)

Definition fx_segment (name : string) (files : list file_info) (fv : option N) (fs fol cls : option string)
  : segment :=
  Segment name files fv fs fol cls "src" None no_conds [".text"; ".data"; ".sdata"] [".bss"] None
          (Some 16%N) None None None [(".data", 8%N)] [] true (Some 0%N) [] KAbsent.

(* a counterexample to the unconditioned statement: "mid" is placed at an address computed from the marker
   of an input section that is placed AFTER it *)
Definition fx_counter_doc : document :=
  Document ex_settings []
    [fx_segment "boot" [ex_obj "boot.o"] None None None None;
     fx_segment "mid" [ex_obj "a.o"] None (Some "b_text + 0x1000") None None;
     fx_segment "last" [ex_obj "b.o"] None None None None]
    None [] [] [].

(* every kind of start address, each read being backward: a literal, an object symbol, the end of an
   earlier segment, a class following a class placed earlier *)
Definition fx_doc : document :=
  Document ex_settings
    [VramClass "low" (Some 2148532224%N) None [] KAbsent;
     VramClass "high" None None ["low"] KAbsent]
    [fx_segment "boot" [ex_obj "boot.o"] (Some 2147484672%N) None None None;
     fx_segment "a" [ex_obj "a.o"] None (Some "heap_base + 0x100") None None;
     fx_segment "b" [ex_obj "b.o"] None None (Some "a") None;
     fx_segment "c" [ex_obj "c.o"] None None None (Some "low");
     fx_segment "d" [ex_obj "d.o"] None None None (Some "high")]
    None [SymbolAssignment "stack_top" "d_VRAM_END + 0x1000" false false no_conds] [] [].

Definition fx_universe : list usec :=
  dl_universe ++
  [USec "build/src/c.o" None ".text" 32 8 false "c_text";
   USec "build/src/d.o" None ".text" 20 4 false "d_text";
   USec "build/src/d.o" None ".bss" 12 4 true "d_bss"].

(* the same without classes: a document of the class [backward_addresses] *)
Definition fx_backward_doc : document :=
  Document ex_settings []
    [fx_segment "boot" [ex_obj "boot.o"] (Some 2147484672%N) None None None;
     fx_segment "a" [ex_obj "a.o"] None (Some "heap_base + 0x100") None None;
     fx_segment "b" [ex_obj "b.o"] None None (Some "a") None;
     fx_segment "c" [ex_obj "c.o"] None None None None]
    None [SymbolAssignment "stack_top" "c_VRAM_END + 0x1000" false false no_conds] [] [].

(* a second counterexample: the user's own assignment redefines, from a result of the link, the object
   symbol "base" that the segment's address reads *)
Definition fx_redefine_doc : document :=
  Document ex_settings []
    [fx_segment "a" [ex_obj "a.o"] None (Some "base") None None]
    None [SymbolAssignment "base" "a_VRAM_END + 0x100" false false no_conds] [] [].

Definition script_of (d : document) : list stmt :=
  match gen_normal d ex_rt with Ok w => wo_script w | Err _ => [] end.
