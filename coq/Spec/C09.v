(* C09 - requested alignments are honoured in the linked image: the vocabulary of the link-level
   statements (shared with C05, C02, C01). *)
From Slinky Require Import Model.Types Model.Script Model.Writer Model.LdSem.
From Coq Require Import ZArith Sorted.
Local Open Scope Z_scope.

(* the object universe is sane: no input section has a negative size *)
Definition nonneg_sizes (l : list usec) : Prop := Forall (fun u => 0 <= u_size u) l.

(* what an optional alignment does to a position: null / absent adds no alignment *)
Definition opt_aligned (a : option N) (x : Z) : Z :=
  match a with Some n => align_up x (Z.of_N n) | None => x end.

(* "x honours the optional alignment a" *)
Definition honours (a : option N) (x : Z) : Prop :=
  match a with Some n => (Z.of_N n | x) | None => True end.

(* two alignment values are compatible when one divides the other (always the case for powers of two) *)
Definition compatible (a b : Z) : Prop := (a | b) \/ (b | a).

(* the ALIGN statements among a list of statements (not looking inside output sections) *)
Definition is_align (s : stmt) : bool := match s with SAlign _ _ => true | _ => false end.
Definition aligns_of (l : list stmt) : list stmt := filter is_align l.

(* the two statements emitted for a segment-level alignment *)
Definition segment_align_stmts (a : option N) : list stmt :=
  match a with Some n => [SAlign "__romPos" n; SAlign "." n] | None => [] end.

(* the SUBALIGN attribute of the output sections at the top of a statement list *)
Definition outsec_subaligns (l : list stmt) : list (option N) :=
  flat_map (fun s => match s with SOutSec _ _ _ _ sub _ => [sub] | _ => [] end) l.

(* addresses never decrease along the list *)
Definition nondecreasing (l : list Z) : Prop := StronglySorted Z.le l.

(* ---------- sample data for the Examples ---------- *)
Local Open Scope string_scope.

Definition c09_obj (p : string) : file_info :=
  FileInfo p KObject "" 0%N "" "" [] [] "" no_conds KAbsent.

(* section_start_align 16, .data additionally 8 at its start and 32 at its end, subalign 4 *)
Definition c09_segment : segment :=
  Segment "boot" [c09_obj "a.o"; c09_obj "b.o"] None None None None "" None no_conds
          [".text"; ".data"] [".bss"] (Some 4%N)
          (Some 4096%N) (Some 16%N) (Some 16%N) None [(".data", 8%N)] [(".data", 32%N)] true None [] KAbsent.

Definition c09_universe : list usec :=
  [USec "a.o" None ".text" 10 4 false "a_text"; USec "a.o" None ".data" 3 1 false "a_data";
   USec "b.o" None ".text" 6 2 false "b_text"; USec "b.o" None ".bss" 5 8 true "b_bss"].

Definition c09_state : lstate := LState 100 [("__romPos", 7)] [] [] [] c09_universe [] [].
