(* C15 - generation is deterministic.  The model is a function, so repeating a call gives the same
   result by construction; the declarative content is the independence from the two orders that are
   not fixed by the inputs: the iteration order of the `section_order` hash map and the order in
   which custom options are supplied. *)
From Slinky Require Import Model.Types Model.Writer.
From Coq Require Export Permutation.

(* an order given by a boolean comparison, restricted to the elements satisfying [P] *)
Definition le_total_on (P : string -> Prop) (le : string -> string -> bool) : Prop :=
  forall a b, P a -> P b -> le a b = true \/ le b a = true.

Definition le_trans_on (P : string -> Prop) (le : string -> string -> bool) : Prop :=
  forall a b c, P a -> P b -> P c -> le a b = true -> le b c = true -> le a c = true.

Definition le_antisym_on (P : string -> Prop) (le : string -> string -> bool) : Prop :=
  forall a b, P a -> P b -> le a b = true -> le b a = true -> a = b.

(* two run-time settings that answer every custom-option query alike *)
Definition same_options (rt1 rt2 : runtime) : Prop :=
  forall k, opt_get rt1 k = opt_get rt2 k.

(* an option sequence in which a key never receives two different values ("distinct options":
   in particular any sequence without a repeated key) *)
Definition consistent_options (l : pairs) : Prop :=
  forall k v v', In (k, v) l -> In (k, v') l -> v = v'.

(* only the section_order of an entry replaced *)
Definition with_section_order (f : file_info) (so : pairs) : file_info :=
  FileInfo (fi_path f) (fi_kind f) (fi_subfile f) (fi_pad_amount f) (fi_section f)
           (fi_linker_offset_name f) so (fi_files f) (fi_dir f) (fi_conds f) (fi_keep f).

(* two entries that differ only by the order of their section_order maps, at any depth *)
Inductive so_perm : file_info -> file_info -> Prop :=
| so_perm_intro p k sf pa s lon so1 so2 fl1 fl2 d c kp :
    Permutation so1 so2 -> Forall2 so_perm fl1 fl2 ->
    so_perm (FileInfo p k sf pa s lon so1 fl1 d c kp) (FileInfo p k sf pa s lon so2 fl2 d c kp).

Definition seg_so_perm (s1 s2 : segment) : Prop :=
  s2 = clone_with_new_files s1 (sg_files s2) /\ Forall2 so_perm (sg_files s1) (sg_files s2).

Definition with_segments (d : document) (segs : list segment) : document :=
  Document (doc_settings d) (doc_vram_classes d) segs (doc_entry d) (doc_symbol_assignments d)
           (doc_required_symbols d) (doc_asserts d).
