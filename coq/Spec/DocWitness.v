(* DocWitness - REACHABLE witnesses for the hypotheses of the document-level theorems: data only.

   The sample documents of Spec/C18.v (ex_doc) and Spec/DocLevel.v (dl_doc) are [document] values written
   by hand; they set both [hardcoded_gp_value] in the settings and a [gp_info] on a segment, which
   Model/Parse.v rejects (EInvalidFieldCombo "segment.gp_info" "settings.hardcoded_gp_value").  Here the
   starting point is a SERIAL document - what serde hands to [parse] - and every witness is about the
   [document] that [parse] returns for it (Properties/DocWitness.v: wit_parses).

   wit_sd describes a small but complete project:
     settings        base_path "build/{version}" (a custom option in a path), Splat style, segment start and
                     end alignment 16, d_path / target_path, symbols_header_path, both partial folders, an
                     allow list, a deny list, explicit section lists; NO hardcoded_gp_value
     vram classes    "overlay" at a fixed address, "overlay2" following it
     segments        boot     fixed_vram 0x80000400; gp_info (.sdata, PROVIDE); an object with keep_sections,
                              an object with a section_order, a group with a dir holding an archive member
                              (subfile) and an object, a pad, a linker_offset; per-section alignments
                     main     placed by default; sections_subgroups (.rodata -> .rdata); a pad; an entry
                              excluded by its conditions
                     ovl_a    in class overlay
                     ovl_b    in class overlay2; its own section lists
                     buffers  follows_segment main
                     debug    include_if_all debug=on: excluded under wit_rt
     entry, two symbol assignments (one excluded), a required symbol, an assert. *)
From Slinky Require Import Model.Types Model.Parse Model.Runtime Model.Style Model.Script Model.Writer Model.LdSem.
From Slinky Require Import Spec.C04.
From Coq Require Import ZArith.
Local Open Scope string_scope.

(* ====================================================================== *)
(* the serial document                                                     *)
(* ====================================================================== *)

Definition cs_none : conds_serial := mkCondsSerial Absent Absent Absent Absent.

(* "- { path: p }": the kind comes from the extension (.a: archive, otherwise object) *)
Definition fs_path_only (p : string) : file_serial :=
  FileSerial [] (Value p) Absent Absent Absent Absent Absent Absent Absent Absent cs_none SKAbsent.

(* "- { path: boot.o, keep_sections: true }" *)
Definition fs_boot_o : file_serial :=
  FileSerial [] (Value "boot.o") Absent Absent Absent Absent Absent Absent Absent Absent cs_none (SKBool true).

(* "- { path: data.o, section_order: { .rodata: .data } }": its .rodata goes right after its .data *)
Definition fs_data_o : file_serial :=
  FileSerial [] (Value "data.o") Absent Absent Absent Absent Absent (Value [(".rodata", ".data")])
             Absent Absent cs_none SKAbsent.

(* "- { path: libc.a, subfile: mem.o }" *)
Definition fs_libc_mem : file_serial :=
  FileSerial [] (Value "libc.a") Absent (Value "mem.o") Absent Absent Absent Absent Absent Absent cs_none SKAbsent.

(* "- { kind: group, dir: lib, files: [...] }" *)
Definition fs_lib_group : file_serial :=
  FileSerial [] Absent (Value KGroup) Absent Absent Absent Absent Absent
             (Value [fs_libc_mem; fs_path_only "util.o"]) (Value "lib") cs_none SKAbsent.

(* "- { kind: pad, pad_amount: n, section: sec }" *)
Definition fs_pad (sec : string) (n : N) : file_serial :=
  FileSerial [] Absent (Value KPad) Absent (Value n) (Value sec) Absent Absent Absent Absent cs_none SKAbsent.

(* "- { kind: linker_offset, section: sec, linker_offset_name: name }" *)
Definition fs_offset (sec name : string) : file_serial :=
  FileSerial [] Absent (Value KLinkerOffset) Absent Absent (Value sec) (Value name) Absent Absent Absent
             cs_none SKAbsent.

(* "- { path: debug_print.o, include_if_any: [[debug, on]] }" *)
Definition fs_debug_print : file_serial :=
  FileSerial [] (Value "debug_print.o") Absent Absent Absent Absent Absent Absent Absent Absent
             (mkCondsSerial (Value [("debug", "on")]) Absent Absent Absent) SKAbsent.

Definition gs_boot : gp_serial :=
  {| gs_unknown := []; gs_section := Value ".sdata"; gs_offset := Absent; gs_provide := Value true;
     gs_hidden := Absent; gs_conds := cs_none |}.

Definition ss_boot : segment_serial :=
  {| ss_unknown := []; ss_name := Value "boot";
     ss_files := Some [fs_boot_o; fs_data_o; fs_lib_group; fs_pad ".data" 16%N; fs_offset ".text" "boot_mid"];
     ss_fixed_vram := Value 2147484672%N; ss_fixed_symbol := Absent; ss_follows_segment := Absent;
     ss_vram_class := Absent; ss_dir := Value "src/boot"; ss_gp_info := Value gs_boot; ss_conds := cs_none;
     ss_alloc_sections := Absent; ss_noload_sections := Absent; ss_subalign := Absent;
     ss_segment_start_align := Absent; ss_segment_end_align := Absent;
     ss_section_start_align := Absent; ss_section_end_align := Value 4%N;
     ss_sections_start_alignment := Value [(".data", 8%N)]; ss_sections_end_alignment := Value [(".bss", 32%N)];
     ss_wildcard_sections := Absent; ss_fill_value := Absent; ss_sections_subgroups := Absent;
     ss_keep := SKAbsent |}.

Definition ss_main : segment_serial :=
  {| ss_unknown := []; ss_name := Value "main";
     ss_files := Some [fs_path_only "main.o"; fs_pad ".rodata" 8%N; fs_debug_print];
     ss_fixed_vram := Absent; ss_fixed_symbol := Absent; ss_follows_segment := Absent;
     ss_vram_class := Absent; ss_dir := Value "src/main"; ss_gp_info := Absent; ss_conds := cs_none;
     ss_alloc_sections := Absent; ss_noload_sections := Absent; ss_subalign := Value 8%N;
     ss_segment_start_align := Absent; ss_segment_end_align := Absent;
     ss_section_start_align := Absent; ss_section_end_align := Absent;
     ss_sections_start_alignment := Absent; ss_sections_end_alignment := Absent;
     ss_wildcard_sections := Absent; ss_fill_value := Absent;
     ss_sections_subgroups := Value [(".rodata", [".rdata"])];
     ss_keep := SKAbsent |}.

Definition ss_ovl_a : segment_serial :=
  {| ss_unknown := []; ss_name := Value "ovl_a";
     ss_files := Some [fs_path_only "a.o"];
     ss_fixed_vram := Absent; ss_fixed_symbol := Absent; ss_follows_segment := Absent;
     ss_vram_class := Value "overlay"; ss_dir := Value "src/ovl"; ss_gp_info := Absent; ss_conds := cs_none;
     ss_alloc_sections := Absent; ss_noload_sections := Absent; ss_subalign := Absent;
     ss_segment_start_align := Absent; ss_segment_end_align := Absent;
     ss_section_start_align := Absent; ss_section_end_align := Absent;
     ss_sections_start_alignment := Absent; ss_sections_end_alignment := Absent;
     ss_wildcard_sections := Absent; ss_fill_value := Absent; ss_sections_subgroups := Absent;
     ss_keep := SKAbsent |}.

Definition ss_ovl_b : segment_serial :=
  {| ss_unknown := []; ss_name := Value "ovl_b";
     ss_files := Some [fs_path_only "b.o"; fs_offset ".data" "b_mid"];
     ss_fixed_vram := Absent; ss_fixed_symbol := Absent; ss_follows_segment := Absent;
     ss_vram_class := Value "overlay2"; ss_dir := Value "src/ovl"; ss_gp_info := Absent; ss_conds := cs_none;
     ss_alloc_sections := Value [".text"; ".data"]; ss_noload_sections := Value [".bss"]; ss_subalign := Absent;
     ss_segment_start_align := Absent; ss_segment_end_align := Null;
     ss_section_start_align := Absent; ss_section_end_align := Absent;
     ss_sections_start_alignment := Absent; ss_sections_end_alignment := Absent;
     ss_wildcard_sections := Value false; ss_fill_value := Null; ss_sections_subgroups := Absent;
     ss_keep := SKAbsent |}.

Definition ss_buffers : segment_serial :=
  {| ss_unknown := []; ss_name := Value "buffers";
     ss_files := Some [fs_path_only "heap.o"];
     ss_fixed_vram := Absent; ss_fixed_symbol := Absent; ss_follows_segment := Value "main";
     ss_vram_class := Absent; ss_dir := Value "src"; ss_gp_info := Absent; ss_conds := cs_none;
     ss_alloc_sections := Absent; ss_noload_sections := Absent; ss_subalign := Absent;
     ss_segment_start_align := Absent; ss_segment_end_align := Absent;
     ss_section_start_align := Absent; ss_section_end_align := Absent;
     ss_sections_start_alignment := Absent; ss_sections_end_alignment := Absent;
     ss_wildcard_sections := Absent; ss_fill_value := Absent; ss_sections_subgroups := Absent;
     ss_keep := SKAbsent |}.

Definition ss_debug : segment_serial :=
  {| ss_unknown := []; ss_name := Value "debug";
     ss_files := Some [fs_path_only "dbg.o"];
     ss_fixed_vram := Absent; ss_fixed_symbol := Absent; ss_follows_segment := Absent;
     ss_vram_class := Absent; ss_dir := Value "src"; ss_gp_info := Absent;
     ss_conds := mkCondsSerial Absent (Value [("debug", "on")]) Absent Absent;
     ss_alloc_sections := Absent; ss_noload_sections := Absent; ss_subalign := Absent;
     ss_segment_start_align := Absent; ss_segment_end_align := Absent;
     ss_section_start_align := Absent; ss_section_end_align := Absent;
     ss_sections_start_alignment := Absent; ss_sections_end_alignment := Absent;
     ss_wildcard_sections := Absent; ss_fill_value := Absent; ss_sections_subgroups := Absent;
     ss_keep := SKAbsent |}.

(* multi-segment settings; [single] switches single_segment_mode on and drops the partial folders *)
Definition sts_wit (single : bool) : settings_serial :=
  {| sts_unknown := []; sts_base_path := Value "build/{version}"; sts_linker_symbols_style := Value Splat;
     sts_hardcoded_gp_value := Absent;
     sts_d_path := Value "out/game.d"; sts_target_path := Value "out/game.elf";
     sts_symbols_header_path := Value "include/linker_symbols.h"; sts_symbols_header_type := Value "u32";
     sts_symbols_header_as_array := Value false;
     sts_sections_allowlist := Value [".mdebug"]; sts_sections_allowlist_extra := Absent;
     sts_sections_denylist := Value [".reginfo"; ".MIPS.abiflags"; ".got"];
     sts_discard_wildcard_section := Absent;
     sts_single_segment_mode := if single then Value true else Absent;
     sts_partial_scripts_folder := if single then Absent else Value "ld/partial";
     sts_partial_build_segments_folder := if single then Absent else Value "segments";
     sts_alloc_sections := Value [".text"; ".data"; ".rodata"; ".sdata"];
     sts_noload_sections := Value [".sbss"; ".bss"];
     sts_subalign := Absent; sts_segment_start_align := Value 16%N; sts_segment_end_align := Value 16%N;
     sts_section_start_align := Absent; sts_section_end_align := Absent;
     sts_sections_start_alignment := Absent; sts_sections_end_alignment := Absent;
     sts_wildcard_sections := Absent; sts_fill_value := Absent; sts_sections_subgroups := Absent |}.

Definition vs_overlay : class_serial :=
  {| vs_unknown := []; vs_name := Value "overlay"; vs_fixed_vram := Value 2148532224%N;
     vs_fixed_symbol := Absent; vs_follows_classes := Absent; vs_keep := SKAbsent |}.

Definition vs_overlay2 : class_serial :=
  {| vs_unknown := []; vs_name := Value "overlay2"; vs_fixed_vram := Absent;
     vs_fixed_symbol := Absent; vs_follows_classes := Value ["overlay"]; vs_keep := SKAbsent |}.

Definition wit_sd : document_serial :=
  {| ds_unknown := [];
     ds_settings := Value (sts_wit false);
     ds_vram_classes := Value [vs_overlay; vs_overlay2];
     ds_segments := Some [ss_boot; ss_main; ss_ovl_a; ss_ovl_b; ss_buffers; ss_debug];
     ds_entry := Value "entrypoint";
     ds_symbol_assignments :=
       Value [AssignSerial [] (Value "stack_top") (Value "buffers_VRAM_END + 0x1000") (Value true) (Value true) cs_none;
              AssignSerial [] (Value "debug_level") (Value "3") Absent Absent
                           (mkCondsSerial (Value [("debug", "on")]) Absent Absent Absent)];
     ds_required_symbols := Value [RequiredSerial [] (Value "bootproc") cs_none];
     ds_asserts := Value [AssertSerial [] (Value "boot_ROM_SIZE <= 0x1000") (Value "boot too big") cs_none] |}.

(* single-segment variant: the boot segment alone, single_segment_mode on *)
Definition wit_sd_single : document_serial :=
  {| ds_unknown := [];
     ds_settings := Value (sts_wit true);
     ds_vram_classes := Absent;
     ds_segments := Some [ss_boot];
     ds_entry := Value "entrypoint";
     ds_symbol_assignments :=
       Value [AssignSerial [] (Value "stack_top") (Value "boot_noload_VRAM_END + 0x1000") (Value true) (Value true) cs_none];
     ds_required_symbols := Value [RequiredSerial [] (Value "bootproc") cs_none];
     ds_asserts := Value [AssertSerial [] (Value "boot_TEXT_SIZE <= 0x1000") (Value "text too big") cs_none] |}.

(* ====================================================================== *)
(* what the parser returns                                                 *)
(* ====================================================================== *)

(* only reached if [parse] fails; Properties/DocWitness.v (wit_parses) shows it does not *)
Definition wit_dummy_doc : document := Document default_settings [] [] None [] [] [].

Definition wit_doc : document :=
  Eval vm_compute in match parse wit_sd with Ok d => d | Err _ => wit_dummy_doc end.

Definition wit_doc_single : document :=
  Eval vm_compute in match parse wit_sd_single with Ok d => d | Err _ => wit_dummy_doc end.

(* ====================================================================== *)
(* run-time settings, generated scripts, object universe                   *)
(* ====================================================================== *)

(* the options: "version" fills the placeholder of base_path, "debug" excludes the segment debug, the
   entry debug_print.o of main and the assignment debug_level *)
Definition wit_rt : runtime := Runtime [("version", "us"); ("debug", "off")] true.

Definition wit_dummy_w : writer_out := WriterOut [] [].

Definition wit_w : writer_out :=
  Eval vm_compute in match gen_normal wit_doc wit_rt with Ok w => w | Err _ => wit_dummy_w end.

Definition wit_p : partial_out :=
  Eval vm_compute in match gen_partial wit_doc wit_rt with
                     | Ok p => p | Err _ => PartialOut wit_dummy_w []
                     end.

Definition wit_w_single : writer_out :=
  Eval vm_compute in match gen_normal wit_doc_single wit_rt with Ok w => w | Err _ => wit_dummy_w end.

Local Open Scope Z_scope.

(* twelve input sections: those of the objects the included segments list, under the paths the script
   spells (build/us/<segment dir>/...), among them the archive member libc.a:mem.o inside the group
   "lib", a .rdata section reached through the sub-group of .rodata, and a .reginfo section that only
   the deny list names.  Pairwise different markers, sizes >= 0, alignments powers of two *)
Definition wit_u : list usec :=
  [USec "build/us/src/boot/boot.o" None ".text" 40 16 false "boot_text";
   USec "build/us/src/boot/boot.o" None ".data" 12 8 false "boot_data";
   USec "build/us/src/boot/boot.o" None ".bss" 100 8 true "boot_bss";
   USec "build/us/src/boot/lib/libc.a" (Some "mem.o") ".text" 24 4 false "mem_text";
   USec "build/us/src/main/main.o" None ".text" 48 8 false "main_text";
   USec "build/us/src/main/main.o" None ".rodata" 20 4 false "main_rodata";
   USec "build/us/src/main/main.o" None ".rdata" 8 4 false "main_rdata";
   USec "build/us/src/main/main.o" None ".reginfo" 24 4 false "main_reginfo";
   USec "build/us/src/ovl/a.o" None ".text" 24 4 false "a_text";
   USec "build/us/src/ovl/b.o" None ".text" 32 4 false "b_text";
   USec "build/us/src/ovl/b.o" None ".data" 16 4 false "b_data";
   USec "build/us/src/heap.o" None ".bss" 64 16 true "heap_bss"].

(* the symbols the objects define: the required symbol *)
Definition wit_ext0 : list (string * Z) := [("bootproc", 2147484700)].

(* the universe of the single-segment variant: the sections of the objects of boot *)
Definition wit_u_single : list usec := Eval vm_compute in firstn 4 wit_u.

(* ====================================================================== *)
(* named parts of wit_doc                                                  *)
(* ====================================================================== *)

Local Open Scope string_scope.

Definition wit_dummy_segment : segment :=
  Segment "" [] None None None None "" None no_conds [] [] None None None None None [] [] true None [] KAbsent.

(* the first segment of wit_doc: boot *)
Definition wit_seg_boot : segment :=
  Eval vm_compute in hd wit_dummy_segment (doc_segments wit_doc).

(* the second segment: main, placed by default *)
Definition wit_seg_main : segment :=
  Eval vm_compute in nth 1 (doc_segments wit_doc) wit_dummy_segment.

(* the segments that wit_rt includes: all but debug *)
Definition wit_included : list segment :=
  Eval vm_compute in included wit_rt (doc_segments wit_doc).

(* the group "lib" of boot and its archive member, as parsed *)
Definition wit_lf_mem : file_info := FileInfo "libc.a" KArchive "mem.o" 0%N "" "" [] [] "" no_conds KAbsent.
Definition wit_lf_util : file_info := FileInfo "util.o" KObject "*" 0%N "" "" [] [] "" no_conds KAbsent.
Definition wit_group_lib : file_info :=
  FileInfo "" KGroup "*" 0%N "" "" [] [wit_lf_mem; wit_lf_util] "lib" no_conds KAbsent.

(* the input section .text of libc.a:mem.o *)
Definition wit_x_mem : usec := USec "build/us/src/boot/lib/libc.a" (Some "mem.o") ".text" 24 4 false "mem_text".

(* the gp_info of boot, as parsed (offset: the default 0x7FF0) *)
Definition wit_gp : gp_info := GpInfo ".sdata" 32752%Z true false no_conds.
