(* DocWf - a condition on the DOCUMENT (its segments, section lists, files, classes and symbol
   assignments), not on the generated statements, that implies [doc_link_wf], the hypothesis of the
   document-level link theorems (Properties/DocLevel.v).

   [doc_symbols d rt] lists, by recursion over the document, the target of every "sym = value"
   statement (SAssign) of the script that gen_normal produces in multi-segment mode, with
   multiplicity ([def_count] counts them in a script; DocWf_symbols_count).  The other statements that
   change a symbol (SYM = ALIGN(SYM, n), SYM = MAX(SYM, x), __romPos += SIZEOF(..), listed by
   [upd_syms]) only update "." and symbols of this list.  The list is split into the _gp that slinky
   itself defines ([doc_gp_symbols], harmless when repeated) and the rest ([doc_named_symbols]).  A
   document whose named symbols have no repetition, are not "." and, when slinky defines _gp, are
   not _gp, is well-formed for the link theorems ([doc_names_distinct], DocWf_sufficient). *)
From Slinky Require Import Model.Types Model.Runtime Model.Style Model.Script Model.Writer Model.LdSem.
From Slinky Require Import Spec.C18 Spec.C04 Spec.DocLevel.
Local Open Scope string_scope.

(* ---------- definitions and updates in a script ---------- *)

(* the definitions "x = value" of a statement, at any depth *)
Fixpoint def_count (x : string) (s : stmt) : nat :=
  match s with
  | SAssign _ _ _ sym _ => if String.eqb sym x then 1 else 0
  | SOutSec _ _ _ _ _ body => list_sum (map (def_count x) body)
  | SSections body => list_sum (map (def_count x) body)
  | _ => 0
  end.

Definition defs (x : string) (l : list stmt) : nat := list_sum (map (def_count x) l).

(* the symbols a statement updates (ALIGN, MAX, +=), at any depth *)
Fixpoint upd_syms (s : stmt) : list string :=
  match s with
  | SAlign sym _ => [sym]
  | SMaxSelf sym _ => [sym]
  | SRomAdd _ => ["__romPos"]
  | SOutSec _ _ _ _ _ body => flat_map upd_syms body
  | SSections body => flat_map upd_syms body
  | _ => []
  end.

Definition upds (l : list stmt) : list string := flat_map upd_syms l.

(* ---------- the linker offsets of a file entry ---------- *)

Section Offsets.
  Variables (rt : runtime) (sty : style) (seg : segment).
  Variable sections : list string.      (* the part's list: alloc_sections or noload_sections *)

  (* The linker-offset symbols defined when emit_section_for_file is entered for the entry [f] at
     [section].  Same recursion as the model's emit_sff (Model/Writer.v): the entry is visited at
     every section [k] of [sections_here f section sections], and then at the sections of the
     sub-group of [k] (fuel [n], stack of the sections being expanded); at each visit a linker_offset
     entry whose own section is [k] defines its symbol, a group passes [k] to its files, both only
     when their conditions hold ([should_emit]). *)
  Fixpoint sff_offsets (f : file_info) : nat -> list string -> string -> list string :=
    fix chain (n : nat) (stack : list string) (section : string) {struct n} : list string :=
      match n with
      | O => []
      | S n' =>
          if mem_str section stack then [] else
          let file_offsets (k : string) : list string :=
            if negb (should_emit rt (fi_conds f)) then [] else
            match fi_kind f with
            | KLinkerOffset =>
                if String.eqb (fi_section f) k then [linker_offset sty (fi_linker_offset_name f)] else []
            | KGroup => flat_map (fun c => sff_offsets c (chain_fuel seg) [] k) (fi_files f)
            | _ => []
            end in
          flat_map
            (fun k =>
               (file_offsets k ++
                match lookup k (subgroups_for seg f) with
                | Some others => flat_map (chain n' (section :: stack)) others
                | None => []
                end)%list)
            (sections_here f section sections)
      end.

  (* the linker offsets of one section group: every file of the segment, entered at [section] *)
  Definition section_offsets (section : string) : list string :=
    flat_map (fun f => sff_offsets f (chain_fuel seg) [] section) (sg_files seg).
End Offsets.

(* ---------- the symbols of one segment ---------- *)

(* "_gp", when the segment has a gp_info for this section whose conditions hold *)
Definition gp_symbols (rt : runtime) (seg : segment) (section : string) : list string :=
  match sg_gp_info seg with
  | Some g => if andb (should_emit rt (gp_conds g)) (String.eqb (gp_section g) section) then ["_gp"] else []
  | None => []
  end.

(* the "_gp" of one segment: one for each section of its lists that its gp_info names *)
Definition seg_gp_symbols (rt : runtime) (seg : segment) : list string :=
  flat_map (gp_symbols rt seg) (seg_sections seg).

(* one section group: X_SEC_START, the linker offsets of its files, X_SEC_END, X_SEC_SIZE *)
Definition section_symbols (rt : runtime) (sty : style) (seg : segment) (sections : list string)
           (section : string) : list string :=
  ([segment_section_start sty (sg_name seg) section] ++
   section_offsets rt sty seg sections section ++
   [segment_section_end sty (sg_name seg) section; segment_section_size sty (sg_name seg) section])%list.

(* one half of a segment (allocatable or noload): the symbols of the kind X_alloc / X_noload around
   the section groups of its list *)
Definition part_symbols (rt : runtime) (sty : style) (seg : segment) (noload : bool) : list string :=
  let sections := if noload then noload_sections seg else alloc_sections seg in
  ([segment_vram_start sty (kind_name seg noload)] ++
   flat_map (section_symbols rt sty seg sections) sections ++
   [segment_vram_end sty (kind_name seg noload); segment_vram_size sty (kind_name seg noload)])%list.

Definition seg_symbols (rt : runtime) (sty : style) (seg : segment) : list string :=
  ([segment_rom_start sty (sg_name seg); segment_vram_start sty (sg_name seg)] ++
   part_symbols rt sty seg false ++ part_symbols rt sty seg true ++
   [segment_vram_end sty (sg_name seg); segment_vram_size sty (sg_name seg);
    segment_rom_end sty (sg_name seg); segment_rom_size sty (sg_name seg)])%list.

(* ---------- the classes ---------- *)

(* each name of [l] once, at its first position, unless it is in [seen] *)
Fixpoint first_uses (l : list string) (seen : list string) : list string :=
  match l with
  | [] => []
  | c :: r => if mem_str c seen then first_uses r seen else c :: first_uses r (c :: seen)
  end.

(* the start and end symbols of every class that an included segment names *)
Definition class_symbols (sty : style) (used : list string) : list string :=
  flat_map (fun cn => [vram_class_start sty cn; vram_class_end sty cn]) (first_uses used []).

(* the size symbol of every declared class (a repeated name counts once) that an included segment names *)
Definition class_size_symbols (sty : style) (classes : list vram_class) (used : list string) : list string :=
  map (vram_class_size sty) (filter (fun cn => mem_str cn used) (class_names classes [])).

(* ---------- the whole document ---------- *)

Definition hardcoded_gp_symbols (stg : settings) : list string :=
  match hardcoded_gp_value stg with Some _ => ["_gp"] | None => [] end.

Definition user_symbols (rt : runtime) (l : list symbol_assignment) : list string :=
  map sa_name (filter (fun a => should_emit rt (sa_conds a)) l).

(* the "_gp" that slinky itself defines: the hard-coded value of the settings and the gp_info of the
   included segments.  Several of them are harmless for the link theorems (nothing reads _gp). *)
Definition doc_gp_symbols (d : document) (rt : runtime) : list string :=
  (hardcoded_gp_symbols (doc_settings d) ++ flat_map (seg_gp_symbols rt) (included rt (doc_segments d)))%list.

(* every other symbol defined by a "sym = value" statement: __romPos (its initialisation), the classes
   in use, the included segments, the class sizes, the user's own assignments *)
Definition doc_named_symbols (d : document) (rt : runtime) : list string :=
  let stg := doc_settings d in
  let sty := linker_symbols_style stg in
  let used := used_classes rt (doc_segments d) in
  ("__romPos" ::
   class_symbols sty used ++
   flat_map (seg_symbols rt sty) (included rt (doc_segments d)) ++
   class_size_symbols sty (doc_vram_classes d) used ++
   user_symbols rt (doc_symbol_assignments d))%list.

(* the target of every "sym = value" statement, with multiplicity (DocWf_symbols_count) *)
Definition doc_symbols (d : document) (rt : runtime) : list string :=
  (doc_gp_symbols d rt ++ doc_named_symbols d rt)%list.

(* when slinky defines _gp, no other definition is called _gp *)
Definition gp_separate (d : document) (rt : runtime) : bool :=
  match doc_gp_symbols d rt with
  | [] => true
  | _ => negb (mem_str "_gp" (doc_named_symbols d rt))
  end.

(* multi-segment mode; apart from slinky's own _gp no symbol is defined twice, and none is the location
   counter; the output sections of the included segments have different names; no included segment
   lists a section twice *)
Definition doc_names_distinct (d : document) (rt : runtime) : bool :=
  negb (single_segment_mode (doc_settings d)) &&
  nodup_str (doc_named_symbols d rt) &&
  gp_separate d rt &&
  negb (mem_str "." (doc_named_symbols d rt)) &&
  nodup_str (out_names (included rt (doc_segments d))) &&
  forallb (fun seg => nodup_str (seg_sections seg)) (included rt (doc_segments d)).

(* ---------- sample data ---------- *)

(* under the Splat style (section name upper-cased, "." replaced by "_") the section symbols of
   segment "a", section ".B_C" and of segment "a_B", section ".C" are the same: a_B_C_START, a_B_C_END,
   a_B_C_SIZE *)
Definition clash_segment (name : string) (sec : string) : segment :=
  Segment name [ex_obj (name ++ ".o")] None None None None "src" None no_conds [sec] [".bss"] None
          None None None None [] [] true None [] KAbsent.

Definition clash_doc : document :=
  Document ex_settings [] [clash_segment "a" ".B_C"; clash_segment "a_B" ".C"] None [] [] [].

(* two segments of the same name *)
Definition twice_doc : document :=
  Document ex_settings [] [clash_segment "a" ".text"; clash_segment "a" ".data"] None [] [] [].

(* a linker offset visited twice through a sub-group: ".text" expands to ".rodata", which is also a
   section of the segment's own list, so the offset entry of ".rodata" is emitted in both groups *)
Definition subgroup_segment : segment :=
  Segment "s" [ex_obj "s.o"; ex_offset ".rodata" "mid"] None None None None "src" None no_conds
          [".text"; ".rodata"] [".bss"] None None None None None [] [] true None
          [(".text", [".rodata"])] KAbsent.

Definition subgroup_doc : document := Document ex_settings [] [subgroup_segment] None [] [] [].
