(* C05 - linker symbols are complete, named as documented, and mutually consistent.
   The documented spellings are written by hand from /repo/docs/file_format/settings.md
   (linker_symbols_style: valid values), segments.md, vram_classes.md and file.md (linker_offset_name);
   nothing here refers to Model/Style.v or Model/Generated.v. *)
From Slinky Require Import Model.Types Model.Runtime Model.Script Model.Writer Model.LdSem.
From Slinky Require Import Spec.C13.
From Coq Require Import ZArith.
Local Open Scope string_scope.

(* ---------- the documented names ---------- *)

(* splat: the section name upper-cased with "." replaced by "_": .text -> _TEXT *)
Definition doc_section_upper (sec : string) : string := to_upper (replace_char "." "_" sec).

(* makerom: the section name without its leading ".", first letter capitalised: .text -> Text;
   .rodata is spelled RoData *)
Definition doc_strip_dot (s : string) : string :=
  match s with String "." r => r | _ => s end.
Definition doc_capitalize (s : string) : string :=
  match s with EmptyString => "" | String c r => String (upper_ascii c) r end.
Definition doc_section_camel (sec : string) : string :=
  if String.eqb sec ".rodata" then "RoData" else doc_capitalize (doc_strip_dot sec).

Definition doc_rom_start (sty : style) (seg : string) : string :=
  match sty with Splat => seg ++ "_ROM_START" | Makerom => "_" ++ seg ++ "SegmentRomStart" end.
Definition doc_rom_end (sty : style) (seg : string) : string :=
  match sty with Splat => seg ++ "_ROM_END" | Makerom => "_" ++ seg ++ "SegmentRomEnd" end.
Definition doc_rom_size (sty : style) (seg : string) : string :=
  match sty with Splat => seg ++ "_ROM_SIZE" | Makerom => "_" ++ seg ++ "SegmentRomSize" end.
Definition doc_vram_start (sty : style) (seg : string) : string :=
  match sty with Splat => seg ++ "_VRAM" | Makerom => "_" ++ seg ++ "SegmentStart" end.
Definition doc_vram_end (sty : style) (seg : string) : string :=
  match sty with Splat => seg ++ "_VRAM_END" | Makerom => "_" ++ seg ++ "SegmentEnd" end.
Definition doc_vram_size (sty : style) (seg : string) : string :=
  match sty with Splat => seg ++ "_VRAM_SIZE" | Makerom => "_" ++ seg ++ "SegmentSize" end.
Definition doc_section_start (sty : style) (seg sec : string) : string :=
  match sty with
  | Splat => seg ++ doc_section_upper sec ++ "_START"
  | Makerom => "_" ++ seg ++ "Segment" ++ doc_section_camel sec ++ "Start"
  end.
Definition doc_section_end (sty : style) (seg sec : string) : string :=
  match sty with
  | Splat => seg ++ doc_section_upper sec ++ "_END"
  | Makerom => "_" ++ seg ++ "Segment" ++ doc_section_camel sec ++ "End"
  end.
Definition doc_section_size (sty : style) (seg sec : string) : string :=
  match sty with
  | Splat => seg ++ doc_section_upper sec ++ "_SIZE"
  | Makerom => "_" ++ seg ++ "Segment" ++ doc_section_camel sec ++ "Size"
  end.
Definition doc_linker_offset (sty : style) (name : string) : string :=
  match sty with Splat => name ++ "_OFFSET" | Makerom => "_" ++ name ++ "Offset" end.
Definition doc_class_start (sty : style) (name : string) : string :=
  match sty with Splat => name ++ "_VRAM_CLASS_START" | Makerom => "_" ++ name ++ "VramClassStart" end.
Definition doc_class_end (sty : style) (name : string) : string :=
  match sty with Splat => name ++ "_VRAM_CLASS_END" | Makerom => "_" ++ name ++ "VramClassEnd" end.
Definition doc_class_size (sty : style) (name : string) : string :=
  match sty with Splat => name ++ "_VRAM_CLASS_SIZE" | Makerom => "_" ++ name ++ "VramClassSize" end.

(* the allocatable / noload halves are named like a segment called <seg>_alloc / <seg>_noload *)
Definition doc_kind_name (seg : string) (noload : bool) : string :=
  seg ++ (if noload then "_noload" else "_alloc").

(* ---------- the symbols of one emitted segment, in script order ---------- *)

Section Expected.
  Variable sty : style.
  Variable cfg : wcfg.
  Variable seg : segment.

  (* one section group: start, the linker offsets of the files of the group, end, size *)
  Definition section_symbols (sec : string) (offs : list string) : list string :=
    ((if section_syms cfg then [doc_section_start sty (sg_name seg) sec] else []) ++
     offs ++
     (if section_syms cfg
      then [doc_section_end sty (sg_name seg) sec; doc_section_size sty (sg_name seg) sec] else []))%list.

  (* one half of the segment: kind start, its groups, kind end, kind size *)
  Definition part_symbols (noload : bool) (secs : list (string * list string)) : list string :=
    ((if kind_syms cfg then [doc_vram_start sty (doc_kind_name (sg_name seg) noload)] else []) ++
     flat_map (fun so => section_symbols (fst so) (snd so)) secs ++
     (if kind_syms cfg
      then [doc_vram_end sty (doc_kind_name (sg_name seg) noload);
            doc_vram_size sty (doc_kind_name (sg_name seg) noload)] else []))%list.

  (* [first_of_class]: the segment is the first emitted member of its vram class.
     [alloc], [noload]: the configured sections of each half with the linker offsets recorded in
     their groups *)
  Definition expected_segment_symbols (first_of_class : bool)
             (alloc noload : list (string * list string)) : list string :=
    ((match sg_vram_class seg with
      | Some cn => if first_of_class then [doc_class_start sty cn; doc_class_end sty cn] else []
      | None => []
      end) ++
     [doc_rom_start sty (sg_name seg); doc_vram_start sty (sg_name seg)] ++
     part_symbols false alloc ++
     part_symbols true noload ++
     [doc_vram_end sty (sg_name seg); doc_vram_size sty (sg_name seg);
      doc_rom_end sty (sg_name seg); doc_rom_size sty (sg_name seg)])%list.
End Expected.

(* the linker offsets of a group come from the segment's included linker-offset entries *)
Definition doc_offset_of (rt : runtime) (sty : style) (seg : segment) (sym : string) : Prop :=
  exists name, In name (segment_offset_names rt seg) /\ sym = doc_linker_offset sty name.

(* ---------- link level: the statements the files of a group are made of ---------- *)

(* an input statement, a pad, or the definition of a linker offset as "." *)
Definition group_stmt (sty : style) (offs : string -> Prop) (s : stmt) : Prop :=
  match s with
  | SInput _ _ _ _ _ => True
  | SDotAdd _ => True
  | SAssign false false true n EDot => exists name, offs name /\ n = doc_linker_offset sty name
  | _ => False
  end.

Local Open Scope Z_scope.

(* a symbol defined with a value in [lo, hi] *)
Definition sym_between (lo hi : Z) (nv : string * Z) : Prop := lo <= snd nv /\ snd nv <= hi.

(* a placement in [lo, hi] carrying the name of its output section *)
Definition placed_between (lo hi : Z) (outsec : string) (p : placement) : Prop :=
  lo <= pl_addr p /\ pl_addr p <= hi /\ pl_outsec p = outsec.

(* ---------- the witness of the alloc-start finding ---------- *)
Local Open Scope string_scope.

Definition c05_obj (p : string) : file_info :=
  FileInfo p KObject "" 0%N "" "" [] [] "" no_conds KAbsent.

Definition c05_seg (name : string) (vram : N) (files : list file_info) : segment :=
  Segment name files (Some vram) None None None "" None no_conds [".text"] [".bss"] None
          None None None None [] [] true None [] KAbsent.

Definition c05_settings : settings :=
  Settings "" Splat None None None None "char" true [] [] [] false false None None
           [".text"] [".bss"] None None None None None [] [] true None [].

(* two segments with explicit addresses, the second below the first *)
Definition c05_doc : document :=
  Document c05_settings []
           [c05_seg "a" 4096%N [c05_obj "a.o"]; c05_seg "b" 512%N [c05_obj "b.o"]]
           None [] [] [].

Definition c05_universe : list usec :=
  [USec "a.o" None ".text" 256 4 false "a_text"; USec "b.o" None ".text" 16 4 false "b_text"].
