(* DocPartial - the document-level link theorems (Properties/DocLevel.v) for the MAIN script of a
   partial build (gen_partial, po_main), and what that script shares with the ordinary script of the
   same document (C11): declarative definitions.

   The main script is "version; SECTIONS { begin; the statements of each included segment; end }; tail"
   like the ordinary one, but every included segment is emitted by add_segment under
   [cfg_main_partial] on a clone whose only file is the segment's partial object
   <partial_build_segments_folder>/<name>.o ([partial_clone]). *)
From Slinky Require Import Model.Types Model.Runtime Model.Style Model.Script Model.Writer Model.LdSem.
From Slinky Require Import Spec.C18 Spec.C04 Spec.C03 Spec.C05 Spec.C10 Spec.C11 Spec.DocLevel Spec.DocWf.
From Coq Require Import ZArith.
Local Open Scope string_scope.

(* ---------- the segments of the main script ---------- *)

(* the segment the main script emits for [seg]: same name, address fields, class, section lists,
   alignments, fill, conditions; one file, the partial object *)
Definition partial_clone (folder : string) (seg : segment) : segment :=
  clone_with_new_files seg [new_object (partial_object folder seg)].

(* the document whose segments are the clones *)
Definition partial_doc (d : document) (folder : string) : document :=
  Document (doc_settings d) (doc_vram_classes d) (map (partial_clone folder) (doc_segments d))
           (doc_entry d) (doc_symbol_assignments d) (doc_required_symbols d) (doc_asserts d).

(* ---------- well-formedness of generated statements for the link-level theorems ---------- *)

(* The conjuncts of [doc_link_wf] (Spec/DocLevel.v) that look at the statements, for ANY statements
   [body] (of the segments [segs], leaving the writer in [ws']) followed by the tail of SECTIONS and by
   [tl]: the output-section names of the included segments are pairwise different; every included
   segment and every used class is well-formed against the statements; [tl] does not assign __romPos.
   Only the names, section lists and classes of [segs] are read: the value is the same for the
   segments of a document and for their clones (link_wf_stmts_clone). *)
Definition link_wf_stmts (rt : runtime) (stg : settings) (classes : list vram_class) (segs : list segment)
           (tl body : list stmt) (ws' : wstate) : bool :=
  let sty := linker_symbols_style stg in
  let isegs := included rt segs in
  let fin := (end_sections_body stg classes ws' ++ tl)%list in
  let all := (begin_sections_body stg ++ body ++ fin)%list in
  nodup_str (out_names isegs) &&
  forallb (seg_link_wf sty all) isegs &&
  forallb (class_link_wf sty body fin) (used_classes rt segs) &&
  no_assign "__romPos" tl.

(* the condition of the partial theorems, computed from the document and the run-time settings the way
   gen_partial computes the main script: the folder is set, every included segment generates (its
   sub-script and its statements in the main script), and the statements of the main script are
   well-formed.  Unlike doc_link_wf there is no condition on single_segment_mode: gen_partial does not
   read it, the main script always has the multi-segment form. *)
Definition doc_link_wf_partial (d : document) (rt : runtime) : bool :=
  let stg := doc_settings d in
  match partial_build_segments_folder stg with
  | None => false
  | Some folder =>
      match partial_segments d rt folder (doc_segments d) (ws0, []) with
      | Err _ => false
      | Ok (body, (ws', _)) =>
          link_wf_stmts rt stg (doc_vram_classes d) (doc_segments d) (tail_stmts rt d) body ws'
      end
  end.

(* ---------- the main script against the ordinary script (C11) ---------- *)

(* [bm] is [b] with some definitions "x = value" removed, [offs] listing (with multiplicity) the
   symbols whose definitions were removed: for every symbol the number of definitions at any depth
   ([defs], Spec/DocWf.v) differs by its number of occurrences in [offs], and the statements that
   update a symbol (x = ALIGN(x, n), x = MAX(x, y), __romPos += ..) are the same list *)
Definition body_rel (b bm : list stmt) (offs : list string) : Prop :=
  (forall x, defs x b = defs x bm + count_occ string_dec offs x)%nat /\ upds b = upds bm.

(* statement against statement: identical, or two output sections with the same name, address
   request, AT symbol, NOLOAD flag and SUBALIGN whose bodies are related by body_rel *)
Inductive stmt_rel : stmt -> stmt -> list string -> Prop :=
| sr_same : forall s, stmt_rel s s []
| sr_outsec : forall name addr at_ noload sub b bm offs,
    body_rel b bm offs ->
    stmt_rel (SOutSec name addr at_ noload sub b) (SOutSec name addr at_ noload sub bm) offs.

(* list against list, position by position; the removed definitions are collected in order *)
Inductive stmts_rel : list stmt -> list stmt -> list string -> Prop :=
| srs_nil : stmts_rel [] [] []
| srs_cons : forall s sm o l lm ol,
    stmt_rel s sm o -> stmts_rel l lm ol -> stmts_rel (s :: l) (sm :: lm) (o ++ ol)%list.

(* the linker-offset symbols one segment defines in the ordinary script: those of every section group
   of its two lists, as emit_section_for_file visits them (section_offsets, Spec/DocWf.v) *)
Definition seg_offsets (rt : runtime) (sty : style) (seg : segment) : list string :=
  (flat_map (section_offsets rt sty seg (alloc_sections seg)) (alloc_sections seg) ++
   flat_map (section_offsets rt sty seg (noload_sections seg)) (noload_sections seg))%list.

(* the linker-offset symbols of the included segments, in document order *)
Definition doc_offsets (d : document) (rt : runtime) : list string :=
  flat_map (seg_offsets rt (linker_symbols_style (doc_settings d))) (included rt (doc_segments d)).

(* ---------- sample data ---------- *)

Local Open Scope Z_scope.

(* the partial objects of dl_doc (Spec/DocLevel.v: three included segments, two of them in one class):
   what `ld -r` makes of the three sub-scripts (the .data of boot.o includes the 16 bytes of padding that
   the ordinary script puts in the section group) *)
Definition dl_universe_partial : list usec :=
  [USec "build/segments/boot.o" None ".text" 40 16 false "boot_text";
   USec "build/segments/boot.o" None ".data" 28 8 false "boot_data";
   USec "build/segments/boot.o" None ".bss" 100 8 true "boot_bss";
   USec "build/segments/ovl_a.o" None ".text" 24 4 false "a_text";
   USec "build/segments/ovl_a.o" None ".bss" 8 4 true "a_bss";
   USec "build/segments/ovl_b.o" None ".text" 48 4 false "b_text";
   USec "build/segments/ovl_b.o" None ".data" 16 4 false "b_data";
   USec "build/segments/ovl_b.o" None ".bss" 4 4 true "b_bss"].

Definition dl_main_script : list stmt :=
  match gen_partial dl_doc ex_rt with Ok p => wo_script (po_main p) | Err _ => [] end.
