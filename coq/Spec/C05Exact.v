(* C05Exact - "each section's start/end bracket EXACTLY the input sections placed in that group":
   declarative definitions.

   Spec/DocLevel.v states C05 over a whole document with [GroupChain]; there the block of placements a
   group brackets is existential with no lower bound, so the empty block always qualifies and the
   clause carries no information.  Here the block is pinned down from both sides:
   - the placements of the output section, in placement order, are [before ++ mine ++ after]; every
     placement of [before] ENDS at or below START, every placement of [mine] lies - start and end -
     within [START, END], every placement of [after] STARTS at or above END;
   - [mine] is what LdSem appended to l_placed while it executed the statements that stand between the
     assignment of START and the assignment of END in the body of that output section
     ([placed_between], a function of the script and the starting state: no choice is left). *)
From Slinky Require Import Model.Types Model.Runtime Model.Style Model.Script Model.Writer Model.LdSem.
From Slinky Require Import Spec.C18 Spec.C04 Spec.C03 Spec.C05 Spec.C10 Spec.DocLevel Spec.C01Doc.
From Coq Require Import ZArith.

(* ---------- finding a place in a script ---------- *)

(* [s] is the header of an output section called [name]: its address request, SUBALIGN and body *)
Definition outsec_named (name : string) (s : stmt) : option (option expr * option N * list stmt) :=
  match s with
  | SOutSec n addr _ _ sub body => if String.eqb n name then Some (addr, sub, body) else None
  | _ => None
  end.

(* the first output section called [name] of a statement list: the statements before it, and it *)
Fixpoint split_outsec (name : string) (l : list stmt)
  : option (list stmt * (option expr * option N * list stmt)) :=
  match l with
  | [] => None
  | s :: r =>
      match outsec_named name s with
      | Some h => Some ([], h)
      | None => match split_outsec name r with
                | Some (A, h) => Some (s :: A, h)
                | None => None
                end
      end
  end.

(* the first statement of [l] that assigns the symbol [x] ([assigns], Spec/C04.v): the statements
   before it, the statement, the statements after it *)
Fixpoint split_assign (x : string) (l : list stmt) : option (list stmt * stmt * list stmt) :=
  match l with
  | [] => None
  | s :: r =>
      if assigns x s then Some ([], s, r)
      else match split_assign x r with
           | Some (a, t, b) => Some (s :: a, t, b)
           | None => None
           end
  end.

(* ---------- what LdSem places between two assignments ---------- *)

(* [L]: the statements LdSem executes at top level ([flat_stmts script]), from the state [st0].
   In the body of the first output section called [outsec]: [bpre] up to the first assignment [sx] of
   [X], then [mid] up to the next assignment of [Y].  The result is what executing [mid] appends to
   l_placed: the state before [mid] is reached exactly as LdSem reaches it (the statements before the
   output section at top level, the address of the output section as exec_outsec computes it, then
   [bpre] and [sx] inside the section); l_placed only grows at its end, hence [skipn].
   None: no such output section, no such assignments in this order, or the address of the output
   section cannot be evaluated (LdSem then skips its body). *)
Definition placed_between (env : list (string * Z)) (senv : list osec) (ext : list (string * Z)) (final : bool)
           (L : list stmt) (st0 : lstate) (outsec X Y : string) : option (list placement) :=
  match split_outsec outsec L with
  | Some (A, (addr, sub, body)) =>
      match split_assign X body with
      | Some (bpre, sx, r1) =>
          match split_assign Y r1 with
          | Some (mid, _, _) =>
              let stA := run env senv ext final A st0 in
              let subz := option_map Z.of_N sub in
              match (match addr with
                     | Some e => eval_expr env senv ext stA (l_dot stA) e
                     | None => Ok (align_up (l_dot stA) (body_align subz body (l_remaining stA) 1))
                     end) with
              | Ok vma =>
                  let step := exec_sec_stmt env senv ext final vma subz outsec in
                  let ss1 := fold_left step (bpre ++ [sx]) (SState 0 false stA) in
                  let ss2 := fold_left step mid ss1 in
                  Some (skipn (List.length (l_placed (s_st ss1))) (l_placed (s_st ss2)))
              | Err _ => None
              end
          | None => None
          end
      | None => None
      end
  | None => None
  end.

Local Open Scope Z_scope.

(* ---------- C05, exact ---------- *)

(* the input section placed by [p] (same marker, in the universe [u]) ends at or below [v] *)
Definition ends_at_or_below (u : list usec) (v : Z) (p : placement) : Prop :=
  exists x, In x u /\ u_marker x = pl_marker p /\ pl_addr p + u_size x <= v.

Definition starts_at_or_above (v : Z) (p : placement) : Prop := v <= pl_addr p.

(* the section groups [secs] of segment [name] read in a symbol table [syms], against [ps], ALL the
   placements of their output section in placement order, and [made X Y], the placements made between
   the assignments of X and Y.  Going up from [lo]: START <= END, SIZE = END - START, each group
   starts at or after the end of the previous one (as in GroupChain), and
     ps = before ++ mine ++ after,
   [before] entirely at or below START, [mine] entirely within [START, END] ([placement_within],
   Spec/C01Doc.v: lo <= addr and addr + size <= hi), [after] at or above END, [mine] being exactly what
   was placed between START = . and END = . *)
Fixpoint GroupChainExact (sty : style) (u : list usec) (syms : list (string * Z)) (ps : list placement)
         (made : string -> string -> option (list placement)) (name : string)
         (lo : Z) (secs : list string) (hi : Z) : Prop :=
  match secs with
  | [] => lo <= hi
  | sec :: rest =>
      exists S E before mine after,
        lookup (segment_section_start sty name sec) syms = Some S /\
        lookup (segment_section_end sty name sec) syms = Some E /\
        lookup (segment_section_size sty name sec) syms = Some (E - S) /\
        lo <= S /\ S <= E /\
        ps = (before ++ mine ++ after)%list /\
        Forall (ends_at_or_below u S) before /\
        Forall (placement_within u S E) mine /\
        Forall (starts_at_or_above E) after /\
        made (segment_section_start sty name sec) (segment_section_end sty name sec) = Some mine /\
        GroupChainExact sty u syms ps made name E rest hi
  end.

(* both halves of one segment in the state [st'] reached from [init_state u] by executing [L]:
   [placed_in n st'] (Spec/C01Doc.v) are the placements of [st'] in the output section [n], in
   placement order *)
Definition SegmentGroupsExact (env : list (string * Z)) (senv : list osec) (ext : list (string * Z)) (final : bool)
           (sty : style) (u : list usec) (L : list stmt) (st' : lstate) (seg : segment) : Prop :=
  (exists o, find_sec (alloc_name seg) (l_secs st') = Some o /\ os_noload o = false /\
             GroupChainExact sty u (l_syms st') (placed_in (alloc_name seg) st')
                             (placed_between env senv ext final L (init_state u) (alloc_name seg))
                             (sg_name seg) (os_vma o) (alloc_sections seg) (os_vma o + os_size o)) /\
  (exists o, find_sec (noload_name seg) (l_secs st') = Some o /\ os_noload o = true /\
             GroupChainExact sty u (l_syms st') (placed_in (noload_name seg) st')
                             (placed_between env senv ext final L (init_state u) (noload_name seg))
                             (sg_name seg) (os_vma o) (noload_sections seg) (os_vma o + os_size o)).

(* ---------- a linker offset inside its group ---------- *)

(* the symbol [sym] against the group of section [sec] in the output section [outsec] of segment [seg]:
   [m1] is what was placed between START = . and the assignment of [sym], [m2] what was placed between
   that assignment and END = . ; then the group placed [m1 ++ m2], [sym] is the linker offset of a
   linker-offset entry of the segment, its final value [v] lies in [START, END], everything of [m1]
   lies within [START, v] and everything of [m2] within [v, END] *)
Definition OffsetBetween (rt : runtime) (sty : style) (u : list usec) (st' : lstate)
           (made : string -> string -> option (list placement)) (seg : segment) (sec sym : string)
           (m1 m2 : list placement) : Prop :=
  exists S E v name,
    val st' (segment_section_start sty (sg_name seg) sec) = Some S /\
    val st' (segment_section_end sty (sg_name seg) sec) = Some E /\
    val st' sym = Some v /\ S <= v /\ v <= E /\
    In name (segment_offset_names rt seg) /\ sym = linker_offset sty name /\
    made (segment_section_start sty (sg_name seg) sec) (segment_section_end sty (sg_name seg) sec)
      = Some (m1 ++ m2)%list /\
    Forall (placement_within u S v) m1 /\ Forall (placement_within u v E) m2.
