(* C18 - allowlisted sections survive, denied and unplaced sections are discarded: the documented
   shape of the end of the SECTIONS block, written declaratively. *)
From Slinky Require Import Model.Types Model.Runtime Model.Style Model.Script Model.Writer.

(* ---------- generic: keep the first occurrence of every element ---------- *)

Section KeepFirst.
  Context {A : Type} (eqb : A -> A -> bool).
  Fixpoint keep_first (l : list A) : list A :=
    match l with
    | [] => []
    | x :: r => x :: filter (fun y => negb (eqb x y)) (keep_first r)
    end.
End KeepFirst.

(* ---------- the linker offsets a file tree can define ---------- *)

(* the linker_offset_name of every included linker-offset file, looking inside included groups *)
Fixpoint file_offset_names (rt : runtime) (f : file_info) : list string :=
  match f with
  | FileInfo _ k _ _ _ lon _ files _ c _ =>
      if should_emit rt c then
        match k with
        | KLinkerOffset => [lon]
        | KGroup => flat_map (file_offset_names rt) files
        | _ => []
        end
      else []
  end.

Definition segment_offset_names (rt : runtime) (seg : segment) : list string :=
  flat_map (file_offset_names rt) (sg_files seg).

(* ---------- blank lines are not significant ---------- *)

Definition is_blank (s : stmt) : bool := match s with SBlank => true | _ => false end.
Definition strip_blank (l : list stmt) : list stmt := filter (fun s => negb (is_blank s)) l.

(* the non-empty parts, in order, with exactly one blank line between two consecutive ones *)
Fixpoint sep_concat (parts : list (list stmt)) : list stmt :=
  match parts with
  | [] => []
  | p :: r =>
      match p with
      | [] => sep_concat r
      | _ => p ++ match sep_concat r with [] => [] | t => SBlank :: t end
      end
  end.

(* ---------- the four parts of the tail of SECTIONS ---------- *)

(* the classes that some emitted segment used, in declaration order (a repeated name counts once,
   at its first position) *)
Definition emitted_classes (classes : list vram_class) (ws : wstate) : list string :=
  filter (fun cn => mem_str cn (ws_emitted ws)) (keep_first String.eqb (map vc_name classes)).

Definition class_size_stmt (sty : style) (cn : string) : stmt :=
  linker_symbol (vram_class_size sty cn) (ESub (vram_class_end sty cn) (vram_class_start sty cn)).

Definition tail_sizes (st : settings) (classes : list vram_class) (ws : wstate) : list stmt :=
  map (class_size_stmt (linker_symbols_style st)) (emitted_classes classes ws).

Definition tail_allow (st : settings) : list stmt := map SSingleEntry (sections_allowlist st).
Definition tail_extra (st : settings) : list stmt := map SSingleEntry (sections_allowlist_extra st).

Definition DiscardWanted (st : settings) : Prop :=
  discard_wildcard_section st = true \/ sections_denylist st <> [].

(* the /DISCARD/ block: the denylist patterns, then the wildcard when requested; see C18_discard_iff *)
Definition tail_discard (st : settings) : list stmt :=
  if orb (discard_wildcard_section st) (nonempty (sections_denylist st))
  then [SDiscard (sections_denylist st) (discard_wildcard_section st)] else [].

(* ---------- "the discard block follows everything else" ---------- *)

(* a statement that is neither a single-entry (allowlist) output section nor a /DISCARD/ block, and
   contains none *)
Fixpoint no_tail_deep (s : stmt) : bool :=
  match s with
  | SSingleEntry _ | SDiscard _ _ => false
  | SOutSec _ _ _ _ _ body => forallb no_tail_deep body
  | SSections body => forallb no_tail_deep body
  | _ => true
  end.

Definition no_tail_stmt (s : stmt) : Prop := no_tail_deep s = true.

(* the SECTIONS body [body] is [pre] followed by the tail computed from the final writer state, and
   nothing in [pre] is an allowlist entry or a discard block *)
Definition EndsWithTail (st : settings) (classes : list vram_class) (body : list stmt) : Prop :=
  exists pre ws, body = pre ++ end_sections_body st classes ws /\ Forall no_tail_stmt pre.

(* ---------- sample data for the Examples ---------- *)

Local Open Scope string_scope.

Definition ex_settings : settings :=
  Settings "build" Splat (Some 2147516416%N) (Some "out/game.d") (Some "out/game.elf") (Some "include/syms.h")
           "char" true [".mdebug"] [".symtab"; ".strtab"] [".reginfo"; ".got"] true false
           (Some "ld/partial") (Some "segments")
           [".text"; ".data"; ".sdata"] [".bss"] None None None None None [] [] true (Some 0%N) [].

Definition ex_obj (p : string) : file_info :=
  FileInfo p KObject "" 0%N "" "" [] [] "" no_conds KAbsent.
Definition ex_archive (p sub : string) : file_info :=
  FileInfo p KArchive sub 0%N "" "" [] [] "" no_conds KAbsent.
Definition ex_pad (sec : string) (n : N) : file_info :=
  FileInfo "" KPad "" n sec "" [] [] "" no_conds KAbsent.
Definition ex_offset (sec name : string) : file_info :=
  FileInfo "" KLinkerOffset "" 0%N sec name [] [] "" no_conds KAbsent.
Definition ex_group (dir : string) (files : list file_info) : file_info :=
  FileInfo "" KGroup "" 0%N "" "" [] files dir no_conds KAbsent.

Definition ex_gp : gp_info := GpInfo ".sdata" 32752%Z true false no_conds.

Definition ex_segment (name : string) (files : list file_info) (cls : option string)
           (gp : option gp_info) (c : conds) : segment :=
  Segment name files None None None cls "src" gp c [".text"; ".data"; ".sdata"] [".bss"] None
          (Some 16%N) None None None [(".data", 8%N)] [] true (Some 0%N) [] KAbsent.

Definition ex_files_boot : list file_info :=
  [ex_obj "boot.o"; ex_group "lib" [ex_archive "libc.a" "mem.o"; ex_obj "util.o"];
   ex_pad ".data" 16%N; ex_offset ".text" "boot_mid"; ex_obj "boot.o"].

Definition ex_excluded : conds := mkConds [] [] [("version", "us")] [].

Definition ex_doc : document :=
  Document ex_settings
    [VramClass "overlay" (Some 2148532224%N) None [] KAbsent]
    [ex_segment "boot" ex_files_boot None (Some ex_gp) no_conds;
     ex_segment "ovl_a" [ex_obj "a.o"] (Some "overlay") None no_conds;
     ex_segment "debug" [ex_obj "dbg.o"] None None ex_excluded]
    (Some "entrypoint")
    [SymbolAssignment "stack_top" "0x80400000" true true no_conds;
     SymbolAssignment "only_jp" "1" false false ex_excluded]
    [RequiredSymbol "main" no_conds]
    [AssertEntry "boot_ROM_SIZE <= 0x1000" "boot too big" no_conds].

Definition ex_rt : runtime := Runtime [("version", "us")] true.

(* the same document in single-segment mode (one segment) *)
Definition ex_settings_single : settings :=
  Settings "build" Splat (Some 2147516416%N) (Some "out/game.d") (Some "out/game.elf") (Some "include/syms.h")
           "char" true [".mdebug"] [".symtab"; ".strtab"] [".reginfo"; ".got"] true true
           None None
           [".text"; ".data"; ".sdata"] [".bss"] None None None None None [] [] true (Some 0%N) [].

Definition ex_doc_single : document :=
  Document ex_settings_single [] [ex_segment "boot" ex_files_boot None (Some ex_gp) no_conds]
           None [] [] [].
