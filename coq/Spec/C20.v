(* C20 - the command-line tool and the file exports write exactly the library's in-memory outputs:
   the declarative side (an abstract file system, the -c option syntax, the expected writes). *)
From Slinky Require Import Model.Types Model.Parse Model.Runtime Model.Script Model.Writer Model.Exports.
Local Open Scope string_scope.

(* ---------- an abstract file system ---------- *)

(* path (as given to the OS) -> whole content; creating a file replaces any previous content *)
Definition fs := list (string * string).

Fixpoint fs_write (f : fs) (p c : string) : fs :=
  match f with
  | [] => [(p, c)]
  | (q, d) :: r => if String.eqb p q then (p, c) :: r else (q, d) :: fs_write r p c
  end.

Definition apply_writes (f : fs) (ws : list write) : fs :=
  fold_left (fun f w => fs_write f (fst w) (snd w)) ws f.

(* ---------- the -c option syntax ---------- *)

(* a raw value is cut at every ",": the pieces hold no "," and joined by "," give it back *)
Definition CommaSplit (raw : string) (pieces : list string) : Prop :=
  pieces <> [] /\ join "," pieces = raw /\ Forall (fun p => contains_char "," p = false) pieces.

(* a piece "key=value" is cut at its FIRST "=" *)
Definition KeyVal (piece : string) (kv : string * string) : Prop :=
  piece = fst kv ++ "=" ++ snd kv /\ contains_char "=" (fst kv) = false.

(* all pieces of all raw values, in order *)
Definition AllPieces (raw : list string) (pieces : list string) : Prop :=
  exists ll, Forall2 CommaSplit raw ll /\ pieces = List.concat ll.

(* ---------- the writes the library's outputs call for ---------- *)

(* the dependency file and the symbols header of one writer (LinkerWriter::save_other_files) *)
Definition NormalFiles (rt : runtime) (st : settings) (w : writer_out) (ws : list write) : Prop :=
  exists dw hw, ws = (dw ++ hw)%list /\
    match d_path st with
    | None => dw = []
    | Some dp =>
        exists dp', escape_path rt dp = Ok dp' /\
          match target_path st with
          | None => dw = []
          | Some t => exists t', escape_path rt t = Ok t' /\ dw = [(dp', deps_text rt w t')]
          end
    end /\
    match symbols_header_path st with
    | None => hw = []
    | Some h => exists h', escape_path rt h = Ok h' /\ hw = [(h', header_text rt st w)]
    end.

(* partial mode, the scripts: the main one at [path], each segment's under partial_scripts_folder *)
Definition PartialScripts (rt : runtime) (st : settings) (p : partial_out) (path : string)
           (ws : list write) : Prop :=
  exists psf0 psf, partial_scripts_folder st = Some psf0 /\ escape_path rt psf0 = Ok psf /\
    ws = (path, script_text (po_main p)) ::
         map (fun s => (push psf (fst s ++ ".ld"), script_text (snd s))) (po_subs p).

(* partial mode, the other files: those of the main writer, then, iff d_path is set, one
   dependency file per segment script, whose target is the segment's partial object *)
Definition PartialFiles (rt : runtime) (st : settings) (p : partial_out) (ws : list write) : Prop :=
  exists base pbsf0 pbsf psf0 psf mainw,
    escape_path rt (base_path st) = Ok base /\
    partial_build_segments_folder st = Some pbsf0 /\ escape_path rt pbsf0 = Ok pbsf /\
    partial_scripts_folder st = Some psf0 /\ escape_path rt psf0 = Ok psf /\
    NormalFiles rt st (po_main p) mainw /\
    ws = (mainw ++
          match d_path st with
          | Some _ =>
              map (fun s => (push psf (fst s ++ ".d"),
                             deps_text rt (snd s) (push (extend_path base pbsf) (fst s ++ ".o"))))
                  (po_subs p)
          | None => []
          end)%list.

(* what a successful run of the tool is: the options parse, the document parses, every key is
   acceptable, the library generates, and stdout / the writes are the library's outputs *)
Definition CliSuccess (sd : document_serial) (a : cli_args) (out : string) (ws : list write) : Prop :=
  exists opts d,
    parse_key_vals (cli_options a) = Some opts /\
    parse sd = Ok d /\
    forallb (fun kv => key_valid (fst kv)) opts = true /\
    let rt := Runtime opts (negb (cli_omit_version_comment a)) in
    let st := doc_settings d in
    if cli_partial a then
      exists p, gen_partial d rt = Ok p /\
        match cli_output a with
        | Some o =>
            exists path w1 w2, escape_path rt o = Ok path /\ PartialScripts rt st p path w1 /\
              PartialFiles rt st p w2 /\ out = "" /\ ws = (w1 ++ w2)%list
        | None => PartialFiles rt st p ws /\ out = partial_script_text p ++ nl
        end
    else
      exists w, gen_normal d rt = Ok w /\
        match cli_output a with
        | Some o =>
            exists path w2, escape_path rt o = Ok path /\ NormalFiles rt st w w2 /\
              out = "" /\ ws = (path, script_text w) :: w2
        | None => NormalFiles rt st w ws /\ out = script_text w ++ nl
        end.

Definition cli_status (r : cli_result) : bool := match r with CliResult b _ _ => b end.

(* the version comment at the head of a script *)
Definition version_head : list stmt := [SComment version_comment_text; SBlank].
