(* C03 - each segment starts at the VRAM address the document requests: declarative definitions. *)
From Slinky Require Import Model.Types Model.Runtime Model.Style Model.Script Model.Writer Model.LdSem.
From Slinky Require Import Spec.C04.
Local Open Scope string_scope.

(* how many of the four address fields a segment sets *)
Definition b2n (b : bool) : nat := if b then 1 else 0.

Definition addr_fields (seg : segment) : nat :=
  b2n (is_some (sg_fixed_vram seg)) + b2n (is_some (sg_fixed_symbol seg)) +
  b2n (is_some (sg_follows_segment seg)) + b2n (is_some (sg_vram_class seg)).

Definition at_most_one_addr (seg : segment) : Prop := addr_fields seg <= 1.

(* the address expression [a] is the one the document asks for *)
Definition AddrSpec (sty : style) (seg : segment) (a : option expr) : Prop :=
  (forall v, sg_fixed_vram seg = Some v -> a = Some (EHex8 v)) /\
  (forall s, sg_fixed_symbol seg = Some s -> a = Some (ERaw s)) /\
  (forall f, sg_follows_segment seg = Some f -> a = Some (ESym (segment_vram_end sty f))) /\
  (forall c, sg_vram_class seg = Some c -> a = Some (ESym (vram_class_start sty c))) /\
  (sg_fixed_vram seg = None -> sg_fixed_symbol seg = None -> sg_follows_segment seg = None ->
   sg_vram_class seg = None -> a = None).

(* does the statement (or a statement of its body) set "." with an assignment ". = e"? *)
Fixpoint sets_dot (s : stmt) : bool :=
  match s with
  | SAssign _ _ _ sym _ => String.eqb sym "."
  | SOutSec _ _ _ _ _ body => existsb sets_dot body
  | SSections body => existsb sets_dot body
  | _ => false
  end.

(* the statement of single-segment mode that sets the start address *)
Definition single_start (seg : segment) : list stmt :=
  match sg_fixed_vram seg with
  | Some v => [SAssign false false false "." (EHex8 v)]
  | None => []
  end.

(* the VRAM symbols of one segment are assigned once *)
Definition vram_names_distinct (sty : style) (name : string) (l : list stmt) : bool :=
  defined_once (segment_vram_start sty name) l &&
  defined_once (segment_vram_end sty name) l &&
  defined_once (segment_vram_size sty name) l.
