(* C14 - KEEP wrapping follows nearest-ancestor keep_sections inheritance: the declarative rule. *)
From Slinky Require Import Model.Types Model.Parse Model.Runtime Model.Style Model.Script Model.Writer.

(* the tree of keep_sections values of an entry and, recursively, of the entries below it *)
Inductive ktree := KT (k : keep) (children : list ktree).

Fixpoint kt_of (f : file_info) : ktree := KT (fi_keep f) (map kt_of (fi_files f)).

(* the value written on an entry, when there is one *)
Definition explicit_or (own inherited : keep) : keep :=
  match own with KAbsent => inherited | k => k end.

(* the rule on the document as written: an entry has its own explicit value, else the value
   inherited from what encloses it; the entries of a group inherit the group's resulting value *)
Fixpoint spec_kt (inherited : keep) (fs : file_serial) : ktree :=
  let eff := explicit_or (keep_of_skeep (fs_keep fs)) inherited in
  KT eff
     (match fs_kind fs, fs_files fs with
      | Value KGroup, Value l => map (spec_kt eff) l
      | _, _ => []
      end).

(* the same rule, literally "the nearest explicit value": [ancestors] lists the values written on
   the enclosing groups from the innermost outwards, then the segment, then its vram class *)
Fixpoint nearest (l : list keep) : keep :=
  match l with
  | [] => KAbsent                        (* nothing explicit: [keeps KAbsent _ = false] *)
  | k :: r => explicit_or k (nearest r)
  end.

Fixpoint nearest_kt (ancestors : list keep) (fs : file_serial) : ktree :=
  let own := keep_of_skeep (fs_keep fs) in
  KT (nearest (own :: ancestors))
     (match fs_kind fs, fs_files fs with
      | Value KGroup, Value l => map (nearest_kt (own :: ancestors)) l
      | _, _ => []
      end).

(* the serial files of a segment, the serial segments of a document *)
Definition serial_files (ss : segment_serial) : list file_serial :=
  match ss_files ss with Some l => l | None => [] end.

Definition serial_segments (d : document_serial) : list segment_serial :=
  match ds_segments d with Some l => l | None => [] end.

Definition serial_classes (d : document_serial) : list class_serial :=
  match ds_vram_classes d with Value l => l | _ => [] end.

(* the value written on the vram class a segment names: the first declared class of that name *)
Definition class_keep (classes : list vram_class) (vclass : option string) : keep :=
  match vclass with
  | Some cn => match find_class cn classes with Some c => vc_keep c | None => KAbsent end
  | None => KAbsent
  end.

Definition class_keep_serial (classes : list class_serial) (vclass : an string) : keep :=
  match vclass with
  | Value cn =>
      match find (fun c => String.eqb (opt_str (plain_str (vs_name c))) cn) classes with
      | Some c => keep_of_skeep (vs_keep c)
      | None => KAbsent
      end
  | _ => KAbsent
  end.

(* what a segment's entries inherit: the segment's explicit value, else its class's *)
Definition segment_inherited (d : document_serial) (ss : segment_serial) : keep :=
  nearest [keep_of_skeep (ss_keep ss); class_keep_serial (serial_classes d) (ss_vram_class ss)].

(* the emission of one entry for one section [k] (the local `emit_file` of [emit_sff]), with the
   recursive call on the entries of a group made explicit *)
Definition emit_file_of (rt : runtime) (sty : style) (cfg : wcfg) (seg : segment)
           (sections : list string) (f : file_info) (base : string) (k : string) (ws : wstate)
  : res out :=
  if negb (should_emit rt (fi_conds f)) then Ok ([], ws) else
  match fi_kind f with
  | KObject =>
      do p <- escape_path rt (fi_path f);
      Ok ([SInput (keeps (fi_keep f) k) (display (push base p)) None k (wildcard_sections seg)],
          add_path (push base p) ws)
  | KArchive =>
      do p <- escape_path rt (fi_path f);
      Ok ([SInput (keeps (fi_keep f) k) (display (push base p)) (Some (fi_subfile f)) k
                  (wildcard_sections seg)],
          add_path (push base p) ws)
  | KPad => Ok (if String.eqb (fi_section f) k then [SDotAdd (fi_pad_amount f)] else [], ws)
  | KLinkerOffset =>
      Ok (if String.eqb (fi_section f) k
          then [SAssign false false true (linker_offset sty (fi_linker_offset_name f)) EDot]
          else [], ws)
  | KGroup =>
      do d <- escape_path rt (fi_dir f);
      fold_out (fun c ws => emit_sff rt sty cfg seg sections c (chain_fuel seg) [] k (push base d) ws)
               (fi_files f) ws
  end.

(* [g] is [f] or an entry below it *)
Inductive below : file_info -> file_info -> Prop :=
| below_self f : below f f
| below_child g c f : fi_kind f = KGroup -> In c (fi_files f) -> below g c -> below g f.

Definition objlike (f : file_info) : Prop := fi_kind f = KObject \/ fi_kind f = KArchive.

(* an input-section statement of entry [g]: its KEEP flag is the rule applied to [g]'s value *)
Definition input_of (g : file_info) (s : stmt) : Prop :=
  exists path member k wild, s = SInput (keeps (fi_keep g) k) path member k wild.

Definition is_input (s : stmt) : bool := match s with SInput _ _ _ _ _ => true | _ => false end.

(* every input-section statement emitted for [f] belongs to an object/archive entry at or below [f]
   and carries the flag the rule gives for that entry *)
Definition input_rule (f : file_info) (s : stmt) : Prop :=
  is_input s = true -> exists g, below g f /\ objlike g /\ input_of g s.

Definition unkept_input (s : stmt) : Prop :=
  exists path member k wild, s = SInput false path member k wild.

(* the text of an input-section statement without its KEEP wrapper *)
Definition input_text (path : string) (member : option string) (sect : string) (wild : bool) : string :=
  (path ++ (match member with Some m => ":" ++ m | None => "" end) ++
   "(" ++ sect ++ (if wild then "*" else "") ++ ")")%string.
