(* DocSingle - document-level link statements for SINGLE-SEGMENT mode (and for the per-segment scripts
   of partial linking, produced by the same add_single_segment): declarative definitions.
   In this mode the script has no wrapping output sections: every entry of
   alloc_sections ++ noload_sections becomes an output section of its own, and the section symbols and
   alignment statements are top-level statements, where "." is an absolute address. *)
From Slinky Require Import Model.Types Model.Runtime Model.Style Model.Script Model.Writer Model.LdSem.
From Slinky Require Import Spec.C18 Spec.C04 Spec.C09 Spec.C05 Spec.DocLevel Spec.C01Doc.
From Coq Require Import ZArith.
Local Open Scope string_scope.

(* ---------- the shape of the script ---------- *)

(* the hard-coded _gp (fix F7): only when section symbols are emitted, hence not in partial sub-scripts *)
Definition single_gp_head (stg : settings) (cfg : wcfg) : list stmt :=
  if section_syms cfg
  then match hardcoded_gp_stmts stg with [] => [] | l => (l ++ [SBlank])%list end
  else [].

(* ". = fixed_vram" *)
Definition single_vram_head (seg : segment) : list stmt :=
  match sg_fixed_vram seg with
  | Some v => [SAssign false false false "." (EHex8 v); SBlank]
  | None => []
  end.

(* the body of SECTIONS: [s1] / [s2] are the statements of the allocatable / noload half *)
Definition single_sections_body (stg : settings) (cfg : wcfg) (classes : list vram_class) (seg : segment)
           (s1 s2 : list stmt) (ws' : wstate) : list stmt :=
  (single_gp_head stg cfg ++ single_vram_head seg ++ s1 ++ [SBlank] ++ s2 ++ [SBlank] ++
   end_sections_body stg classes ws')%list.

(* one section: alignments and START at the top level, the output section named after the section,
   alignments, END and SIZE at the top level *)
Definition single_group (rt : runtime) (sty : style) (cfg : wcfg) (seg : segment) (noload : bool)
           (sec : string) (files : list stmt) : list stmt :=
  (section_symbol_start rt sty cfg seg sec ++
   [SOutSec sec None None noload (subalign seg) (opt_fill seg ++ files)] ++
   section_symbol_end sty cfg seg sec)%list.

Fixpoint single_groups_stmts (rt : runtime) (sty : style) (cfg : wcfg) (seg : segment) (noload : bool)
         (secs : list string) (filess : list (list stmt)) : list stmt :=
  match secs, filess with
  | sec :: rest, f :: fr =>
      (single_group rt sty cfg seg noload sec f ++
       (match rest with [] => [] | _ => [SBlank] end) ++
       single_groups_stmts rt sty cfg seg noload rest fr)%list
  | _, _ => []
  end.

(* the file statements of the sections [rest], each produced by emit_section from the writer state the
   previous one left *)
Fixpoint emit_chain (rt : runtime) (stg : settings) (cfg : wcfg) (seg : segment) (sections rest : list string)
         (ws : wstate) (filess : list (list stmt)) (ws' : wstate) : Prop :=
  match rest, filess with
  | [], [] => ws' = ws
  | sec :: r, f :: fr =>
      exists ws1, emit_section rt (linker_symbols_style stg) cfg seg sections (base_path stg) sec ws = Ok (f, ws1) /\
                  emit_chain rt stg cfg seg sections r ws1 fr ws'
  | _, _ => False
  end.

(* one half of the segment: kind symbols around one group per section *)
Definition single_part (rt : runtime) (stg : settings) (cfg : wcfg) (seg : segment) (sections : list string)
           (noload : bool) (ws : wstate) (s : list stmt) (ws' : wstate) : Prop :=
  let sty := linker_symbols_style stg in
  exists filess,
    emit_chain rt stg cfg seg sections sections ws filess ws' /\
    s = (sections_kind_start sty cfg seg noload ++
         single_groups_stmts rt sty cfg seg noload sections filess ++
         sections_kind_end sty cfg seg noload)%list.

(* ---------- well-formedness ---------- *)

(* against all the statements [all] the link executes: the section list has no duplicate, no section is
   called like an allow-list entry (which makes an output section of that name at address 0), the three
   symbols of each section are assigned by exactly one statement *)
Definition single_stmts_wf (sty : style) (stg : settings) (seg : segment) (all : list stmt) : bool :=
  nodup_str (seg_sections seg) &&
  forallb (fun sec => negb (mem_str sec (aux_section_names stg))) (seg_sections seg) &&
  forallb (section_names_once sty (sg_name seg) all) (seg_sections seg).

(* computed from the document and the run-time settings: single-segment mode, exactly one segment, the
   generator succeeds, and its statements followed by the user's statements are well-formed *)
Definition doc_single_wf (d : document) (rt : runtime) : bool :=
  let stg := doc_settings d in
  match doc_segments d with
  | [seg] =>
      match add_single_segment rt stg cfg_normal (doc_vram_classes d) seg ws0 with
      | Ok (s, _) =>
          single_segment_mode stg &&
          single_stmts_wf (linker_symbols_style stg) stg seg (s ++ tail_stmts rt d)%list
      | Err _ => false
      end
  | _ => false
  end.

Local Open Scope Z_scope.

(* ---------- the layout ---------- *)

(* "." before the first section *)
Definition single_dot0 (seg : segment) : Z :=
  match sg_fixed_vram seg with Some v => Z.of_N v | None => 0 end.

(* the sections in script order with their NOLOAD flag *)
Definition single_secs (seg : segment) : list (string * bool) :=
  (map (fun s => (s, false)) (alloc_sections seg) ++ map (fun s => (s, true)) (noload_sections seg))%list.

(* where START(sec) is put when "." is [lo]: section_start_align, then the sections_start_alignment
   entry (no symbol and no alignment statement when section symbols are not emitted) *)
Definition sec_start_pos (cfg : wcfg) (seg : segment) (sec : string) (lo : Z) : Z :=
  if section_syms cfg
  then opt_aligned (lookup sec (sections_start_alignment seg)) (opt_aligned (section_start_align seg) lo)
  else lo.

(* where END(sec) is put when the output section ends at [e] *)
Definition sec_end_pos (cfg : wcfg) (seg : segment) (sec : string) (e : Z) : Z :=
  if section_syms cfg
  then opt_aligned (lookup sec (sections_end_alignment seg)) (opt_aligned (section_end_align seg) e)
  else e.

(* one section [sec] with output section [o], "." being [lo] before its first statement: [o] is named
   after the section, carries the NOLOAD flag, has no load address and a non-negative size, starts at
   START aligned up to the alignment ld gives the output section (some A >= 1); with [b] the three
   symbols have, in the table [syms], the values START = sec_start_pos lo,
   END = sec_end_pos (end of o), SIZE = END - START *)
Definition SingleSec (b : bool) (sty : style) (cfg : wcfg) (seg : segment) (syms : list (string * Z))
           (lo : Z) (sec : string) (nl : bool) (o : osec) : Prop :=
  let S := sec_start_pos cfg seg sec lo in
  let E := sec_end_pos cfg seg sec (os_vma o + os_size o) in
  os_name o = sec /\ os_noload o = nl /\ os_lma o = None /\ (nl = true -> os_contents o = false) /\
  0 <= os_size o /\
  (exists A, 1 <= A /\ os_vma o = align_up S A) /\
  (b = true ->
     lookup (segment_section_start sty (sg_name seg) sec) syms = Some S /\
     lookup (segment_section_end sty (sg_name seg) sec) syms = Some E /\
     lookup (segment_section_size sty (sg_name seg) sec) syms = Some (E - S)).

(* the sections [secs] with the output sections [osecs], in order, going up from "." = [lo]; each one
   starts from the END position of the previous one; [hi] is the END position of the last *)
Fixpoint SingleChain (b : bool) (sty : style) (cfg : wcfg) (seg : segment) (syms : list (string * Z))
         (lo : Z) (secs : list (string * bool)) (osecs : list osec) (hi : Z) : Prop :=
  match secs, osecs with
  | [], [] => hi = lo
  | (sec, nl) :: rest, o :: orest =>
      SingleSec b sty cfg seg syms lo sec nl o /\
      SingleChain b sty cfg seg syms (sec_end_pos cfg seg sec (os_vma o + os_size o)) rest orest hi
  | _, _ => False
  end.

(* consecutive output sections do not overlap and are in list order *)
Definition secs_ascending (osecs : list osec) : Prop :=
  forall i o1 o2, nth_error osecs i = Some o1 -> nth_error osecs (S i) = Some o2 ->
                  os_vma o1 + os_size o1 <= os_vma o2.

(* without section symbols (partial sub-scripts) nothing separates the output sections: each one starts at
   the end of the previous one, aligned up to the alignment ld gives it *)
Fixpoint contiguous_from (lo : Z) (osecs : list osec) : Prop :=
  match osecs with
  | [] => True
  | o :: rest => (exists A, 1 <= A /\ os_vma o = align_up lo A) /\ 0 <= os_size o /\
                 contiguous_from (os_vma o + os_size o) rest
  end.

(* x is a multiple of the per-section alignment b, and of the segment-wide alignment a when the two are
   compatible (one divides the other: always the case for powers of two) *)
Definition aligned_to (a : option N) (b : option N) (x : Z) : Prop :=
  (forall n, b = Some n -> (0 < n)%N -> (Z.of_N n | x)) /\
  (forall n, a = Some n -> (0 < n)%N ->
             (forall m, b = Some m -> compatible (Z.of_N n) (Z.of_N m)) -> (Z.of_N n | x)).

(* ---------- the readable projections ---------- *)

(* C03: [osecs] are the output sections of alloc_sections ++ noload_sections, in that order: named after
   the sections, NOLOAD as configured (a NOLOAD one has no file contents), without load address; the first
   one starts at or after "." = fixed_vram (0 without), precisely at that position aligned by the
   section's start alignments and then by the alignment ld gives the output section; each next one starts
   at or after the end of the previous one *)
Definition SingleSections (cfg : wcfg) (seg : segment) (osecs : list osec) : Prop :=
  map os_name osecs = seg_sections seg /\
  map os_noload osecs = map snd (single_secs seg) /\
  Forall (fun o => os_lma o = None /\ 0 <= os_size o /\ (os_noload o = true -> os_contents o = false)) osecs /\
  (forall o orest, osecs = o :: orest ->
     single_dot0 seg <= os_vma o /\
     exists A, 1 <= A /\ os_vma o = align_up (sec_start_pos cfg seg (os_name o) (single_dot0 seg)) A) /\
  secs_ascending osecs.

(* C05 / C09 for the section [sec] in the state [st'] (universe [u]): its output section o is the one
   found under its name; START, END and SIZE are defined, SIZE = END - START;
   fixed_vram <= START <= start of o <= end of o <= END (the alignment statements and ld's own alignment
   of the output section sit between the symbols and the section); the start of o is START aligned up;
   END is the end of o aligned by section_end_align and the sections_end_alignment entry; START / END
   are multiples of the configured alignments (absolute addresses); every placement labelled with this
   output section lies, with its whole size, inside o - hence inside [START, END] - at non-decreasing
   addresses *)
Definition SectionSymbols (sty : style) (seg : segment) (u : list usec) (st' : lstate) (sec : string) : Prop :=
  exists o S E,
    find_sec sec (l_secs st') = Some o /\ In (sec, os_noload o) (single_secs seg) /\
    val st' (segment_section_start sty (sg_name seg) sec) = Some S /\
    val st' (segment_section_end sty (sg_name seg) sec) = Some E /\
    val st' (segment_section_size sty (sg_name seg) sec) = Some (E - S) /\
    single_dot0 seg <= S /\ S <= os_vma o /\ os_vma o <= os_vma o + os_size o /\ os_vma o + os_size o <= E /\
    (exists A, 1 <= A /\ os_vma o = align_up S A) /\
    E = sec_end_pos cfg_normal seg sec (os_vma o + os_size o) /\
    aligned_to (section_start_align seg) (lookup sec (sections_start_alignment seg)) S /\
    aligned_to (section_end_align seg) (lookup sec (sections_end_alignment seg)) E /\
    Forall (fun p => placement_within u (os_vma o) (os_vma o + os_size o) p) (placed_in sec st') /\
    nondecreasing (map pl_addr (placed_in sec st')).

(* the per-segment script [w] of segment [seg] in partial linking (no section symbols, no alignment
   statements): the chain, its projections, the sections contiguous up to ld's alignment; and, when the
   section names are distinct and none is an allow-list name, the placements of each output section *)
Definition SubScriptLayout (env : list (string * Z)) (senv : list osec) (ext : list (string * Z)) (final : bool)
           (d : document) (u : list usec) (seg : segment) (w : writer_out) : Prop :=
  let stg := doc_settings d in
  let sty := linker_symbols_style stg in
  let st' := exec_script env senv ext final (wo_script w) (init_state u) in
  (exists osecs rest hi,
     l_secs st' = (osecs ++ rest)%list /\
     SingleChain false sty cfg_sub_partial seg (l_syms st') (single_dot0 seg) (single_secs seg) osecs hi /\
     SingleSections cfg_sub_partial seg osecs /\ contiguous_from (single_dot0 seg) osecs) /\
  (forall sec, NoDup (seg_sections seg) -> In sec (seg_sections seg) -> ~ In sec (aux_section_names stg) ->
     exists o, find_sec sec (l_secs st') = Some o /\
       Forall (fun p => placement_within u (os_vma o) (os_vma o + os_size o) p) (placed_in sec st') /\
       nondecreasing (map pl_addr (placed_in sec st'))).

(* ---------- sample data: one segment at 0x80000400, section alignments, _gp, user statements ---------- *)

Definition ds_segment : segment :=
  Segment "main" ex_files_boot (Some 2147484672%N) None None None "src" (Some ex_gp) no_conds
          [".text"; ".data"; ".sdata"] [".bss"] None None None (Some 16%N) (Some 4%N)
          [(".data", 8%N)] [(".bss", 32%N)] true (Some 0%N) [] KAbsent.

Definition ds_doc : document :=
  Document ex_settings_single [] [ds_segment] (Some "entrypoint")
    [SymbolAssignment "stack_top" "0x80400000" true true no_conds]
    [RequiredSymbol "main" no_conds]
    [AssertEntry "main_TEXT_SIZE <= 0x1000" "text too big" no_conds].

Definition ds_script : list stmt :=
  match gen_normal ds_doc ex_rt with Ok w => wo_script w | Err _ => [] end.

Definition ds_universe : list usec :=
  [USec "build/src/boot.o" None ".text" 40 16 false "boot_text";
   USec "build/src/boot.o" None ".data" 12 8 false "boot_data";
   USec "build/src/boot.o" None ".bss" 100 8 true "boot_bss";
   USec "build/src/lib/util.o" None ".text" 24 4 false "util_text";
   USec "build/src/lib/util.o" None ".bss" 8 4 true "util_bss"].

(* a document with three segments for partial linking: its per-segment scripts *)
Definition ds_subs : list (string * list stmt) :=
  match gen_partial ex_doc ex_rt with
  | Ok p => map (fun nw => (fst nw, wo_script (snd nw))) (po_subs p)
  | Err _ => []
  end.

(* fixed_vram = 0x80000404, no alignment configured: the witness of "the first section does not start AT
   fixed_vram when fixed_vram is not aligned as the first output section must be" *)
Definition ds_off_segment : segment :=
  Segment "main" [ex_obj "boot.o"] (Some 2147484676%N) None None None "src" None no_conds
          [".text"] [".bss"] None None None None None [] [] true None [] KAbsent.

Definition ds_off_doc : document := Document ex_settings_single [] [ds_off_segment] None [] [] [].

Definition ds_off_script : list stmt :=
  match gen_normal ds_off_doc ex_rt with Ok w => wo_script w | Err _ => [] end.

(* a user statement reassigns main_TEXT_END: not well-formed, and SIZE = END - START fails at the end *)
Definition ds_bad_doc : document :=
  Document ex_settings_single [] [ds_segment] None
    [SymbolAssignment "main_TEXT_END" "0x1" false false no_conds] [] [].

Definition ds_bad_script : list stmt :=
  match gen_normal ds_bad_doc ex_rt with Ok w => wo_script w | Err _ => [] end.
