(* to be filled *)
