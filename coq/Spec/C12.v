(* C12 - the dependency file lists exactly what the script references, written declaratively. *)
From Slinky Require Import Model.Types Model.Runtime Model.Style Model.Script Model.Writer Model.Exports.
From Slinky Require Export Spec.C18.
Local Open Scope string_scope.

(* the paths shown by the object / archive statements of a script, at any depth, in script order *)
Fixpoint stmt_inputs (s : stmt) : list string :=
  match s with
  | SInput _ path _ _ _ => [path]
  | SOutSec _ _ _ _ _ body => flat_map stmt_inputs body
  | SSections body => flat_map stmt_inputs body
  | _ => []
  end.

Definition input_paths (l : list stmt) : list string := flat_map stmt_inputs l.

(* the IndexSet discipline on component lists *)
Definition add_comps (c : list string) (acc : list (list string)) : list (list string) :=
  if comps_mem c acc then acc else (acc ++ [c])%list.

Definition add_paths (L : list string) (acc : list (list string)) : list (list string) :=
  fold_left (fun acc p => add_comps (components p) acc) L acc.

(* the documented text of a dependency file *)
Definition deps_spec (rt : runtime) (target : string) (paths : list (list string)) : string :=
  (if rt_emit_version_comment rt then "# " ++ version_comment_text ++ nl ++ nl else "") ++
  display target ++ ":" ++
  concat_all (map (fun p => " \" ++ nl ++ "    " ++ join "/" p) paths) ++
  nl ++ nl ++
  concat_all (map (fun p => join "/" p ++ ":" ++ nl) paths).

(* what a script shows corresponds to a list of paths [C] (as component lists), and the writer has
   recorded each distinct one once, at its first position *)
Definition ListsExactly (script : list stmt) (recorded : list (list string)) : Prop :=
  exists C : list (list string),
    input_paths script = map (join "/") C /\ recorded = keep_first comps_eqb C.

(* a file that is a pad, a linker offset, or excluded by its conditions *)
Definition InertFile (rt : runtime) (f : file_info) : Prop :=
  fi_kind f = KPad \/ fi_kind f = KLinkerOffset \/ should_emit rt (fi_conds f) = false.
