(* C16 - "Structurally invalid documents are rejected; valid ones are accepted".
   The documented rules as one boolean [valid], a conjunction of independent rules per record kind.
   It is written from the property text and /repo/docs/file_format/*.md; it is NOT the sequential
   parser: no rule depends on the order in which the fields are examined and no error value appears.
   From the model only [kind_from_path] (the documented guess of `kind` from the extension) and
   [nodup_keys] (how a YAML mapping with a repeated key is represented) are reused. *)
From Slinky Require Import Model.Types Model.Parse Spec.C08.

(* ---------- vocabulary ---------- *)

Definition is_null {A} (x : an A) : bool := match x with Null => true | _ => false end.
Definition not_null {A} (x : an A) : bool := negb (is_null x).
Definition no_unknown_keys (l : list string) : bool := match l with [] => true | _ => false end.
Definition keep_well_typed (k : skeep) : bool := match k with SKInvalid => false | _ => true end.
(* a rule about the value of an optional field says nothing when there is no value *)
Definition if_given {A} (rule : A -> bool) (x : an A) : bool := match x with Value v => rule v | _ => true end.
Definition nonempty_str (s : string) : bool := negb (is_empty s).
Definition nonempty_list {A} (l : list A) : bool := match l with [] => false | _ => true end.
Definition an_list {A} (x : an (list A)) : list A := match x with Value l => l | _ => [] end.
Definition opt_list {A} (x : option (list A)) : list A := match x with Some l => l | None => [] end.
Definition count_true (l : list bool) : nat := List.length (filter (fun b => b) l).

(* a required plain string (name, value, check, error_message): present, not null, not empty.
   KNOWN DEVIATION of the implementation: see [Known_C16_null_plain_string] below. *)
Definition required_str (x : an string) : bool :=
  match x with Value v => nonempty_str v | _ => false end.

(* ---------- conditional lists (all entry kinds): never null, never empty ---------- *)

Definition valid_cond_list (x : an pairs) : bool := not_null x && if_given nonempty_list x.

Definition valid_conds (c : conds_serial) : bool :=
  valid_cond_list (cs_inc_any c) && valid_cond_list (cs_inc_all c) &&
  valid_cond_list (cs_exc_any c) && valid_cond_list (cs_exc_all c).

(* ---------- file entries: the kind / field table of file.md ---------- *)

Inductive rule := Required | Optional | Forbidden.

(* [Required]: the field must have a value (absent and null are both errors).
   [Optional]: the field is not nullable, so only null is an error.
   [Forbidden]: the field must be absent.  A value is an error ("a file-entry field that its kind forbids") and so
   is an explicit `null`: none of these fields is nullable ("`null` for a non-nullable field").
   KNOWN DEVIATION of the implementation: it tolerates the `null` (`has_value()` in file_info.rs, [forbid] /
   [has_value] in Model/Parse.v); see [Known_C16_null_forbidden_field] below. *)
Definition meets {A} (r : rule) (x : an A) : bool :=
  match r, x with
  | Required, Value _ => true
  | Required, _ => false
  | Optional, Null => false
  | Optional, _ => true
  | Forbidden, Absent => true
  | Forbidden, _ => false
  end.

Definition rule_path k := match k with KObject | KArchive => Required | _ => Forbidden end.
Definition rule_subfile k := match k with KArchive => Optional | _ => Forbidden end.
Definition rule_pad_amount k := match k with KPad => Required | _ => Forbidden end.
Definition rule_section k := match k with KPad | KLinkerOffset => Required | _ => Forbidden end.
Definition rule_linker_offset_name k := match k with KLinkerOffset => Required | _ => Forbidden end.
Definition rule_section_order k := match k with KObject | KArchive => Optional | _ => Forbidden end.
Definition rule_files k := match k with KGroup => Required | _ => Forbidden end.
Definition rule_dir k := match k with KGroup => Optional | _ => Forbidden end.

(* `kind` as given, else guessed from the extension of `path`; none when `kind` is null or when there is
   nothing to guess from *)
Definition effective_kind (f : file_serial) : option file_kind :=
  match fs_kind f with
  | Value k => Some k
  | Null => None
  | Absent => match fs_path f with Value p => Some (kind_from_path p) | _ => None end
  end.

Definition kind_table (k : file_kind) (f : file_serial) : bool :=
  meets (rule_path k) (fs_path f) &&
  meets (rule_subfile k) (fs_subfile f) &&
  meets (rule_pad_amount k) (fs_pad_amount f) &&
  meets (rule_section k) (fs_section f) &&
  meets (rule_linker_offset_name k) (fs_linker_offset_name f) &&
  meets (rule_section_order k) (fs_section_order f) &&
  meets (rule_files k) (fs_files f) &&
  meets (rule_dir k) (fs_dir f).

Fixpoint valid_file (f : file_serial) : bool :=
  no_unknown_keys (fs_unknown f) &&
  keep_well_typed (fs_keep f) &&
  valid_conds (fs_conds f) &&
  if_given nonempty_str (fs_path f) &&
  if_given nodup_keys (fs_section_order f) &&
  match effective_kind f with Some k => kind_table k f | None => false end &&
  match fs_files f with
  | Value l => (fix all (l : list file_serial) : bool :=
                  match l with [] => true | x :: r => valid_file x && all r end) l
  | _ => true
  end.

(* ---------- gp_info ---------- *)

Definition doc_default_gp_section : string := ".sdata".   (* gp_info.md *)

Definition valid_gp (g : gp_serial) : bool :=
  no_unknown_keys (gs_unknown g) &&
  not_null (gs_section g) && if_given nonempty_str (gs_section g) &&
  not_null (gs_offset g) && not_null (gs_provide g) && not_null (gs_hidden g) &&
  valid_conds (gs_conds g).

Definition gp_effective_section (g : gp_serial) : string :=
  match gs_section g with Value s => s | _ => doc_default_gp_section end.

(* ---------- settings ---------- *)
(* nullable: hardcoded_gp_value, d_path, target_path, symbols_header_path, partial_scripts_folder,
   partial_build_segments_folder, subalign, the four *_align, fill_value.  Everything else is not. *)

Definition valid_settings (s : settings_serial) : bool :=
  no_unknown_keys (sts_unknown s) &&
  not_null (sts_base_path s) && not_null (sts_linker_symbols_style s) &&
  not_null (sts_symbols_header_type s) && not_null (sts_symbols_header_as_array s) &&
  not_null (sts_sections_allowlist s) && not_null (sts_sections_allowlist_extra s) &&
  not_null (sts_sections_denylist s) && not_null (sts_discard_wildcard_section s) &&
  not_null (sts_single_segment_mode s) &&
  not_null (sts_alloc_sections s) && not_null (sts_noload_sections s) &&
  not_null (sts_sections_start_alignment s) && not_null (sts_sections_end_alignment s) &&
  not_null (sts_wildcard_sections s) && not_null (sts_sections_subgroups s) &&
  if_given nodup_keys (sts_sections_start_alignment s) &&
  if_given nodup_keys (sts_sections_end_alignment s) &&
  if_given nodup_keys (sts_sections_subgroups s) &&
  (* d_path requires target_path (both are off unless given a value) *)
  implb (has_value (sts_d_path s)) (has_value (sts_target_path s)).

(* what a segment sees of the global settings: the field as written under `settings:`, if any *)
Definition global_field {A} (gs : an settings_serial) (field : settings_serial -> an A) : an A :=
  match gs with Value s => field s | _ => Absent end.

(* effective section list of a segment: its own, else the global one, else the documented default *)
Definition effective_sections (own global : an (list string)) (default : list string) : list string :=
  match own with
  | Value v => v
  | _ => match global with Value v => v | _ => default end
  end.

(* [st] is what the document's `settings:` entry [gs] parses to; Settings::default() when there is no entry.
   Used to state the per-segment results: a segment is parsed against [st] and validated against [gs]. *)
Definition settings_link (gs : an settings_serial) (st : settings) : Prop :=
  match gs with
  | Value g => parse_settings g = Ok st
  | Absent => st = default_settings
  | Null => False
  end.

(* ---------- segments ---------- *)

Definition valid_segment (gs : an settings_serial) (s : segment_serial) : bool :=
  no_unknown_keys (ss_unknown s) &&
  keep_well_typed (ss_keep s) &&
  required_str (ss_name s) &&
  (* files: required, not empty, every entry valid *)
  nonempty_list (opt_list (ss_files s)) && forallb valid_file (opt_list (ss_files s)) &&
  (* not nullable *)
  not_null (ss_fixed_vram s) && not_null (ss_fixed_symbol s) && not_null (ss_follows_segment s) &&
  not_null (ss_vram_class s) && not_null (ss_dir s) && not_null (ss_gp_info s) &&
  not_null (ss_alloc_sections s) && not_null (ss_noload_sections s) &&
  not_null (ss_sections_start_alignment s) && not_null (ss_sections_end_alignment s) &&
  not_null (ss_wildcard_sections s) && not_null (ss_sections_subgroups s) &&
  if_given nodup_keys (ss_sections_start_alignment s) &&
  if_given nodup_keys (ss_sections_end_alignment s) &&
  if_given nodup_keys (ss_sections_subgroups s) &&
  valid_conds (ss_conds s) &&
  (* at most one of the four address fields *)
  Nat.leb (count_true [has_value (ss_fixed_vram s); has_value (ss_fixed_symbol s);
                       has_value (ss_follows_segment s); has_value (ss_vram_class s)]) 1 &&
  (* gp_info: well formed, not together with the global hardcoded_gp_value, and its section is one of the
     sections the segment has *)
  if_given (fun g =>
      valid_gp g &&
      negb (has_value (global_field gs sts_hardcoded_gp_value)) &&
      mem_str (gp_effective_section g)
        (effective_sections (ss_alloc_sections s) (global_field gs sts_alloc_sections) doc_default_alloc_sections ++
         effective_sections (ss_noload_sections s) (global_field gs sts_noload_sections) doc_default_noload_sections))
    (ss_gp_info s).

(* ---------- vram classes ---------- *)

Definition valid_class (c : class_serial) : bool :=
  no_unknown_keys (vs_unknown c) &&
  keep_well_typed (vs_keep c) &&
  required_str (vs_name c) &&
  not_null (vs_fixed_vram c) && not_null (vs_fixed_symbol c) && not_null (vs_follows_classes c) &&
  (* exactly one placement: fixed_vram, fixed_symbol or a non-empty follows_classes *)
  Nat.eqb (count_true [has_value (vs_fixed_vram c); has_value (vs_fixed_symbol c);
                       nonempty_list (an_list (vs_follows_classes c))]) 1.

(* ---------- symbol assignments, required symbols, asserts ---------- *)

Definition valid_assign (a : assign_serial) : bool :=
  no_unknown_keys (as_unknown a) &&
  required_str (as_name a) && required_str (as_value a) &&
  not_null (as_provide a) && not_null (as_hidden a) &&
  valid_conds (as_conds a).

Definition valid_required (r : required_serial) : bool :=
  no_unknown_keys (rs_unknown r) && required_str (rs_name r) && valid_conds (rs_conds r).

Definition valid_assert (a : assert_serial) : bool :=
  no_unknown_keys (ats_unknown a) &&
  required_str (ats_check a) && required_str (ats_error_message a) &&
  valid_conds (ats_conds a).

(* ---------- the document ---------- *)
(* README.md calls `settings` "required"; settings.md says every setting is optional and the code accepts a
   document without `settings:` - the property text does not list it as an error and neither does [valid]. *)

Definition valid (d : document_serial) : bool :=
  no_unknown_keys (ds_unknown d) &&
  not_null (ds_settings d) && if_given valid_settings (ds_settings d) &&
  not_null (ds_vram_classes d) && forallb valid_class (an_list (ds_vram_classes d)) &&
  (* segments: required, not empty *)
  nonempty_list (opt_list (ds_segments d)) &&
  forallb (valid_segment (ds_settings d)) (opt_list (ds_segments d)) &&
  not_null (ds_entry d) &&
  not_null (ds_symbol_assignments d) && forallb valid_assign (an_list (ds_symbol_assignments d)) &&
  not_null (ds_required_symbols d) && forallb valid_required (an_list (ds_required_symbols d)) &&
  not_null (ds_asserts d) && forallb valid_assert (an_list (ds_asserts d)).

(* ---------- the first known deviation ---------- *)
(* The plain `String` fields (segment / class / assignment / required-symbol name, assignment value, assert
   check and error_message) are not AbsentNullable in the Rust structs, and serde_yaml reads the YAML scalar
   `null` into a String as the four characters "null" ([plain_str] in Model/Types.v).  So a null there is
   ACCEPTED although "null for a non-nullable field" must be rejected.  [valid] says it is invalid
   ([required_str Null = false]); this predicate is true iff the document has such a null. *)
Definition Known_C16_null_plain_string (d : document_serial) : bool :=
  existsb (fun s => is_null (ss_name s)) (opt_list (ds_segments d)) ||
  existsb (fun c => is_null (vs_name c)) (an_list (ds_vram_classes d)) ||
  existsb (fun a => is_null (as_name a) || is_null (as_value a)) (an_list (ds_symbol_assignments d)) ||
  existsb (fun r => is_null (rs_name r)) (an_list (ds_required_symbols d)) ||
  existsb (fun a => is_null (ats_check a) || is_null (ats_error_message a)) (an_list (ds_asserts d)).

(* ---------- the second known deviation ---------- *)
(* A file entry may carry an explicit `null` on a field that its kind forbids, e.g.
   `{ path: a.o, kind: object, pad_amount: null, subfile: null }`.  The field is not nullable and the kind forbids
   it, so the document must be rejected and [valid] says so ([meets Forbidden Null = false]); the implementation
   only asks `has_value()` and ACCEPTS the entry, treating the null as if the field were absent.
   This predicate is true iff some file entry, at any nesting depth of any segment, has such a null.  The kind is
   the same [effective_kind] and the table the same [rule_*] as in [valid_file].
   When the effective kind is undetermined (`kind: null`, or no `kind` and no `path` value to guess from) the
   table has no row to apply, so nothing counts as "forbidden by the kind" at that entry: the entry itself
   contributes [false] (it is invalid and is rejected by the implementation anyway, for the missing kind); the
   entries nested under it are still examined. *)
Definition forbidden (r : rule) : bool := match r with Forbidden => true | _ => false end.
Definition null_on_forbidden {A} (r : rule) (x : an A) : bool := forbidden r && is_null x.

Definition kind_null_forbidden (k : file_kind) (f : file_serial) : bool :=
  null_on_forbidden (rule_path k) (fs_path f) ||
  null_on_forbidden (rule_subfile k) (fs_subfile f) ||
  null_on_forbidden (rule_pad_amount k) (fs_pad_amount f) ||
  null_on_forbidden (rule_section k) (fs_section f) ||
  null_on_forbidden (rule_linker_offset_name k) (fs_linker_offset_name f) ||
  null_on_forbidden (rule_section_order k) (fs_section_order f) ||
  null_on_forbidden (rule_files k) (fs_files f) ||
  null_on_forbidden (rule_dir k) (fs_dir f).

Fixpoint file_null_forbidden (f : file_serial) : bool :=
  match effective_kind f with Some k => kind_null_forbidden k f | None => false end ||
  match fs_files f with
  | Value l => (fix any (l : list file_serial) : bool :=
                  match l with [] => false | x :: r => file_null_forbidden x || any r end) l
  | _ => false
  end.

Definition segment_null_forbidden (s : segment_serial) : bool :=
  existsb file_null_forbidden (opt_list (ss_files s)).

Definition Known_C16_null_forbidden_field (d : document_serial) : bool :=
  existsb segment_null_forbidden (opt_list (ds_segments d)).

(* the same document with those nulls removed (the field left out instead): what the implementation in effect
   reads.  Only used in statements; nothing else of the document changes. *)
Definition drop_null {A} (r : rule) (x : an A) : an A :=
  match r, x with Forbidden, Null => Absent | _, _ => x end.

Fixpoint file_without_forbidden_nulls (f : file_serial) : file_serial :=
  let sub : an (list file_serial) :=
    match fs_files f with
    | Value l => Value ((fix go (l : list file_serial) : list file_serial :=
                           match l with [] => [] | x :: r => file_without_forbidden_nulls x :: go r end) l)
    | Null => Null
    | Absent => Absent
    end in
  match effective_kind f with
  | Some k =>
      FileSerial (fs_unknown f) (drop_null (rule_path k) (fs_path f)) (fs_kind f)
        (drop_null (rule_subfile k) (fs_subfile f)) (drop_null (rule_pad_amount k) (fs_pad_amount f))
        (drop_null (rule_section k) (fs_section f)) (drop_null (rule_linker_offset_name k) (fs_linker_offset_name f))
        (drop_null (rule_section_order k) (fs_section_order f)) (drop_null (rule_files k) sub)
        (drop_null (rule_dir k) (fs_dir f)) (fs_conds f) (fs_keep f)
  | None =>
      FileSerial (fs_unknown f) (fs_path f) (fs_kind f) (fs_subfile f) (fs_pad_amount f) (fs_section f)
        (fs_linker_offset_name f) (fs_section_order f) sub (fs_dir f) (fs_conds f) (fs_keep f)
  end.

Definition ss_with_files (s : segment_serial) (fl : option (list file_serial)) : segment_serial :=
  SegmentSerial (ss_unknown s) (ss_name s) fl (ss_fixed_vram s) (ss_fixed_symbol s)
    (ss_follows_segment s) (ss_vram_class s) (ss_dir s) (ss_gp_info s) (ss_conds s)
    (ss_alloc_sections s) (ss_noload_sections s) (ss_subalign s) (ss_segment_start_align s)
    (ss_segment_end_align s) (ss_section_start_align s) (ss_section_end_align s)
    (ss_sections_start_alignment s) (ss_sections_end_alignment s) (ss_wildcard_sections s) (ss_fill_value s)
    (ss_sections_subgroups s) (ss_keep s).

Definition segment_without_forbidden_nulls (s : segment_serial) : segment_serial :=
  ss_with_files s (option_map (map file_without_forbidden_nulls) (ss_files s)).

Definition without_forbidden_nulls (d : document_serial) : document_serial :=
  DocumentSerial (ds_unknown d) (ds_settings d) (ds_vram_classes d)
    (option_map (map segment_without_forbidden_nulls) (ds_segments d))
    (ds_entry d) (ds_symbol_assignments d) (ds_required_symbols d) (ds_asserts d).

(* ---------- "an unknown key at any level" (nine record kinds) ---------- *)

Definition has_keys (l : list string) : bool := negb (no_unknown_keys l).

Fixpoint file_has_unknown (f : file_serial) : bool :=
  has_keys (fs_unknown f) ||
  match fs_files f with
  | Value l => (fix any (l : list file_serial) : bool :=
                  match l with [] => false | x :: r => file_has_unknown x || any r end) l
  | _ => false
  end.

Definition segment_has_unknown (s : segment_serial) : bool :=
  has_keys (ss_unknown s) ||
  existsb file_has_unknown (opt_list (ss_files s)) ||
  match ss_gp_info s with Value g => has_keys (gs_unknown g) | _ => false end.

Definition has_unknown_key (d : document_serial) : bool :=
  has_keys (ds_unknown d) ||
  match ds_settings d with Value s => has_keys (sts_unknown s) | _ => false end ||
  existsb (fun c => has_keys (vs_unknown c)) (an_list (ds_vram_classes d)) ||
  existsb segment_has_unknown (opt_list (ds_segments d)) ||
  existsb (fun a => has_keys (as_unknown a)) (an_list (ds_symbol_assignments d)) ||
  existsb (fun r => has_keys (rs_unknown r)) (an_list (ds_required_symbols d)) ||
  existsb (fun a => has_keys (ats_unknown a)) (an_list (ds_asserts d)).

(* ---------- record updates used to state single-fault cases ("valid but for this one field") ---------- *)

Definition sts_with_d_path (s : settings_serial) (v : an string) : settings_serial :=
  SettingsSerial (sts_unknown s) (sts_base_path s) (sts_linker_symbols_style s) (sts_hardcoded_gp_value s) v
    (sts_target_path s) (sts_symbols_header_path s) (sts_symbols_header_type s) (sts_symbols_header_as_array s)
    (sts_sections_allowlist s) (sts_sections_allowlist_extra s) (sts_sections_denylist s)
    (sts_discard_wildcard_section s) (sts_single_segment_mode s) (sts_partial_scripts_folder s)
    (sts_partial_build_segments_folder s) (sts_alloc_sections s) (sts_noload_sections s) (sts_subalign s)
    (sts_segment_start_align s) (sts_segment_end_align s) (sts_section_start_align s) (sts_section_end_align s)
    (sts_sections_start_alignment s) (sts_sections_end_alignment s) (sts_wildcard_sections s) (sts_fill_value s)
    (sts_sections_subgroups s).

Definition ss_with_address (s : segment_serial) (fv : an N) (fs fo vc : an string) : segment_serial :=
  SegmentSerial (ss_unknown s) (ss_name s) (ss_files s) fv fs fo vc (ss_dir s) (ss_gp_info s) (ss_conds s)
    (ss_alloc_sections s) (ss_noload_sections s) (ss_subalign s) (ss_segment_start_align s)
    (ss_segment_end_align s) (ss_section_start_align s) (ss_section_end_align s)
    (ss_sections_start_alignment s) (ss_sections_end_alignment s) (ss_wildcard_sections s) (ss_fill_value s)
    (ss_sections_subgroups s) (ss_keep s).

Definition ss_with_gp_info (s : segment_serial) (g : an gp_serial) : segment_serial :=
  SegmentSerial (ss_unknown s) (ss_name s) (ss_files s) (ss_fixed_vram s) (ss_fixed_symbol s)
    (ss_follows_segment s) (ss_vram_class s) (ss_dir s) g (ss_conds s)
    (ss_alloc_sections s) (ss_noload_sections s) (ss_subalign s) (ss_segment_start_align s)
    (ss_segment_end_align s) (ss_section_start_align s) (ss_section_end_align s)
    (ss_sections_start_alignment s) (ss_sections_end_alignment s) (ss_wildcard_sections s) (ss_fill_value s)
    (ss_sections_subgroups s) (ss_keep s).
