(* C03Req - the start address a document REQUESTS for each segment, at document level: declarative
   definitions.

   Spec/DocLevel.v ([VramChain]) constrains the start of the output section .seg only for a segment
   without address field, and there only by "exists A, start = align_up (align_up dot sa) A" (a lower
   bound: any start >= align_up dot sa has that form).  Here the start is given EXACTLY for the five
   kinds of request, as a function of the state in which LdSem executes the header of .seg, and the
   alignment A is the one LdSem computes from the input sections the output section receives. *)
From Slinky Require Import Model.Types Model.Runtime Model.Style Model.Script Model.Writer Model.LdSem.
From Slinky Require Import Spec.C18 Spec.C04 Spec.C03 Spec.C10 Spec.DocLevel Spec.Fixpoint.
From Coq Require Import ZArith.
Local Open Scope string_scope.

(* ---------- where the header of an output section is in a statement list ---------- *)

(* the statements executed before the (first) output section called [name]: the whole list when there is
   none *)
Fixpoint before_sec (name : string) (l : list stmt) : list stmt :=
  match l with
  | [] => []
  | SOutSec n a at_ nl sub body :: r =>
      if String.eqb n name then [] else SOutSec n a at_ nl sub body :: before_sec name r
  | s :: r => s :: before_sec name r
  end.

(* from that output section on *)
Fixpoint from_sec (name : string) (l : list stmt) : list stmt :=
  match l with
  | [] => []
  | SOutSec n a at_ nl sub body :: r =>
      if String.eqb n name then SOutSec n a at_ nl sub body :: r else from_sec name r
  | _ :: r => from_sec name r
  end.

(* the statements executed after it *)
Definition after_sec (name : string) (l : list stmt) : list stmt := tl (from_sec name l).

(* its body *)
Definition sec_body (name : string) (l : list stmt) : list stmt :=
  match from_sec name l with
  | SOutSec _ _ _ _ _ body :: _ => body
  | _ => []
  end.

(* the state in which LdSem executes the header of the output section [name] of [script] (it evaluates the
   address expression there, or aligns "." there), in a pass over the object universe [u] *)
Definition header_state (env : list (string * Z)) (senv : list osec) (ext : list (string * Z)) (final : bool)
           (script : list stmt) (u : list usec) (name : string) : lstate :=
  run env senv ext final (before_sec name (flat_stmts script)) (init_state u).

(* ---------- the alignment LdSem gives an output section ---------- *)

(* the input sections the body of an output section receives, in placement order, [remaining] being the
   input sections not yet placed when its header is reached: each input statement takes what it selects
   and leaves the rest to the following ones (LdSem.exec_sec_stmt / LdSem.body_align) *)
Fixpoint received (body : list stmt) (remaining : list usec) : list usec :=
  match body with
  | [] => []
  | SInput _ path member sect wild :: r =>
      (filter (sel false path member sect wild) remaining ++
       received r (filter (fun u => negb (sel false path member sect wild u)) remaining))%list
  | _ :: r => received r remaining
  end.

Local Open Scope Z_scope.

Definition sub_z (sub : option N) : Z := match sub with Some s => Z.of_N s | None => 1 end.

(* the alignment of an output section that receives the input sections [us] under SUBALIGN [sub]: the
   largest of their alignments and of SUBALIGN; 1 for an output section that receives nothing (also
   under SUBALIGN) *)
Definition sec_align (sub : option N) (us : list usec) : Z :=
  match us with
  | [] => 1
  | _ => fold_left Z.max (map u_align us) (Z.max 1 (sub_z sub))
  end.

(* ---------- the requested start ---------- *)

(* the address the document requests for the segment, read in the state [stH] in which the header of .seg
   is executed; [A] is the alignment of the output section.  Priority as in Writer.segment_addr (a parsed
   segment sets at most one of the four fields, C03_at_most_one):
   fixed_vram v       the literal, as written (no alignment is added to an explicit address);
   fixed_symbol e     the value the text e has at that point of the pass;
   follows_segment n  the value of n_VRAM_END at that point;
   vram_class c       the value of c_VRAM_CLASS_START at that point;
   none               "." (already rounded up to segment_start_align by the statements before the header)
                      rounded up to A. *)
Definition requested_start (env ext : list (string * Z)) (sty : style) (seg : segment) (A : Z) (stH : lstate)
  : option Z :=
  match sg_fixed_vram seg, sg_fixed_symbol seg, sg_follows_segment seg, sg_vram_class seg with
  | Some v, _, _, _ => Some (Z.of_N v)
  | None, Some e, _, _ => match eval_raw env ext stH e with Ok v => Some v | Err _ => None end
  | None, None, Some n, _ => sym_lookup (segment_vram_end sty n) stH env ext
  | None, None, None, Some c => sym_lookup (vram_class_start sty c) stH env ext
  | None, None, None, None => Some (align_up (l_dot stH) A)
  end.

(* ---------- one segment, and the chain over the included segments ---------- *)

(* segment [seg] in the state [st'] at the end of the pass; [stH] / [stN] are the states in which the
   headers of .seg / .seg.noload are executed, [b1] / [b2] the bodies of these output sections, [dt] the
   location counter before the statements of the segment, [ve] its VRAM end:
   - "." at the header of .seg is dt rounded up to segment_start_align;
   - .seg starts EXACTLY at the requested start, A being the alignment of what .seg receives;
   - "." at the header of .seg.noload is the end of .seg, and .seg.noload starts there rounded up to the
     alignment of what IT receives;
   - VRAM_END = the end of .seg.noload rounded up to segment_end_align. *)
Definition SegReq (sty : style) (env ext : list (string * Z)) (stH stN : lstate) (b1 b2 : list stmt)
           (st' : lstate) (dt : Z) (seg : segment) (ve : Z) : Prop :=
  exists o1 o2,
    find_sec (alloc_name seg) (l_secs st') = Some o1 /\
    find_sec (noload_name seg) (l_secs st') = Some o2 /\
    0 <= os_size o1 /\ 0 <= os_size o2 /\
    l_dot stH = align_up dt (align_z (segment_start_align seg)) /\
    requested_start env ext sty seg (sec_align (subalign seg) (received b1 (l_remaining stH))) stH
      = Some (os_vma o1) /\
    l_dot stN = os_vma o1 + os_size o1 /\
    os_vma o2 = align_up (os_vma o1 + os_size o1) (sec_align (subalign seg) (received b2 (l_remaining stN))) /\
    ve = align_up (os_vma o2 + os_size o2) (align_z (segment_end_align seg)) /\
    val st' (segment_vram_end sty (sg_name seg)) = Some ve.

(* [hs name] : the state at the header of the output section [name]; [bd name] : its body.  The location
   counter before a segment is the VRAM end of the previous one ([dt] for the first) *)
Fixpoint ReqChain (sty : style) (env ext : list (string * Z)) (hs : string -> lstate) (bd : string -> list stmt)
         (st' : lstate) (dt : Z) (segs : list segment) : Prop :=
  match segs with
  | [] => True
  | seg :: rest =>
      exists ve,
        SegReq sty env ext (hs (alloc_name seg)) (hs (noload_name seg)) (bd (alloc_name seg))
               (bd (noload_name seg)) st' dt seg ve /\
        ReqChain sty env ext hs bd st' ve rest
  end.

(* ---------- the old formula (Spec/DocLevel.v, VramChain) for comparison ---------- *)

(* what VramChain says of the start [x] of a segment without address field, "." being [dot] before it *)
Definition old_default_formula (dot sa x : Z) : Prop := exists A, x = align_up (align_up dot sa) A.

(* ---------- sample data ---------- *)

(* fx_doc / fx_universe (Spec/Fixpoint.v): one segment per kind of address - a literal, the object symbol
   heap_base, the end of the previous segment, a class, a class following that class *)
Definition rq_script : list stmt := script_of fx_doc.
Definition rq_ext : list (string * Z) := [("heap_base", 2147500000)].

(* a document with three segments placed by default (segment_start_align 16): "c" holds a section
   aligned to 64 and a noload section aligned to 32; "e" has SUBALIGN 32 and receives nothing (no input
   section of e.o is in the universe) *)
Definition rq_sub_segment (name : string) (files : list file_info) : segment :=
  Segment name files None None None None "src" None no_conds [".text"; ".data"; ".sdata"] [".bss"] (Some 32%N)
          (Some 16%N) None None None [(".data", 8%N)] [] true (Some 0%N) [] KAbsent.

Definition rq_default_doc : document :=
  Document ex_settings []
    [fx_segment "boot" [ex_obj "boot.o"] None None None None;
     fx_segment "c" [ex_obj "c.o"] None None None None;
     rq_sub_segment "e" [ex_obj "e.o"];
     rq_sub_segment "f" [ex_obj "f.o"]]
    None [] [] [].

Definition rq_default_script : list stmt := script_of rq_default_doc.

Definition rq_default_universe : list usec :=
  [USec "build/src/boot.o" None ".text" 40 16 false "boot_text";
   USec "build/src/boot.o" None ".bss" 100 8 true "boot_bss";
   USec "build/src/c.o" None ".text" 32 4 false "c_text";
   USec "build/src/c.o" None ".data" 8 64 false "c_data";
   USec "build/src/c.o" None ".bss" 12 32 true "c_bss";
   USec "build/src/f.o" None ".text" 20 4 false "f_text"].
