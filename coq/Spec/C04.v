(* C04 - ROM positions are contiguous, ordered and exclude noload data: declarative definitions.
   The first part (which symbol a statement assigns, running a statement list through LdSem) is
   shared by the link-level theorems of C03, C10 and the *Link files. *)
From Slinky Require Import Model.Types Model.Runtime Model.Style Model.Script Model.Writer Model.LdSem.
From Slinky Require Import Spec.C18.
Local Open Scope string_scope.

(* ---------- which symbol a statement assigns ---------- *)

(* does the statement (or a statement of its body) assign the symbol [x]? *)
Fixpoint assigns (x : string) (s : stmt) : bool :=
  match s with
  | SAssign _ _ _ sym _ => String.eqb sym x
  | SAlign sym _ => String.eqb sym x
  | SMaxSelf sym _ => String.eqb sym x
  | SRomAdd _ => String.eqb "__romPos" x
  | SOutSec _ _ _ _ _ body => existsb (assigns x) body
  | SSections body => existsb (assigns x) body
  | _ => false
  end.

(* no statement of the list assigns [x] *)
Definition no_assign (x : string) (l : list stmt) : bool := negb (existsb (assigns x) l).

(* exactly one statement of the list assigns [x] (an output section counts as one statement) *)
Definition defined_once (x : string) (l : list stmt) : bool :=
  Nat.eqb (List.length (filter (assigns x) l)) 1.

(* ---------- executing the body of a SECTIONS block ---------- *)

Definition run (env : list (string * Z)) (senv : list osec) (ext : list (string * Z)) (final : bool)
           (l : list stmt) (st : lstate) : lstate :=
  fold_left (exec_top_stmt env senv ext final) l st.

(* the value a symbol got from the script in this pass *)
Definition val (st : lstate) (x : string) : option Z := lookup x (l_syms st).

(* ---------- shapes ---------- *)

(* the output-section headers of a statement list, in order: name, address, AT symbol, NOLOAD *)
Definition header_of (s : stmt) : list (string * option expr * option string * bool) :=
  match s with
  | SOutSec name addr at_ noload _ _ => [(name, addr, at_, noload)]
  | _ => []
  end.
Definition headers (l : list stmt) := flat_map header_of l.

(* the sections whose size is added to the ROM position, in order *)
Definition rom_add_of (s : stmt) : list string :=
  match s with SRomAdd sec => [sec] | _ => [] end.
Definition rom_adds (l : list stmt) : list string := flat_map rom_add_of l.

Definition included (rt : runtime) (segs : list segment) : list segment :=
  filter (fun seg => should_emit rt (sg_conds seg)) segs.

Definition alloc_name (seg : segment) : string := "." ++ sg_name seg.
Definition noload_name (seg : segment) : string := "." ++ sg_name seg ++ ".noload".

(* the two headers of a segment: only the allocatable one has an address and a load address *)
Definition segment_headers (sty : style) (seg : segment) : list (string * option expr * option string * bool) :=
  [(alloc_name seg, segment_addr sty seg, Some (segment_rom_start sty (sg_name seg)), false);
   (noload_name seg, None, None, true)].

Definition align_pair (a : option N) : list stmt :=
  match a with Some n => [SAlign "__romPos" n; SAlign "." n] | None => [] end.

Definition rom_align (a : option N) : list stmt :=
  match a with Some n => [SAlign "__romPos" n] | None => [] end.

(* every statement of a segment that assigns __romPos *)
Definition segment_rom_stmts (seg : segment) : list stmt :=
  (rom_align (segment_start_align seg) ++ [SRomAdd (alloc_name seg)] ++ rom_align (segment_end_align seg))%list.

Definition rom_init : stmt := SAssign false false false "__romPos" (ERaw "0x0").

(* alignment as a number: none = 1 *)
Definition align_z (a : option N) : Z := match a with Some n => Z.of_N n | None => 1%Z end.

(* ---------- the ROM symbols of one segment are not redefined ---------- *)

Definition rom_names_distinct (sty : style) (name : string) (l : list stmt) : bool :=
  defined_once (segment_rom_start sty name) l &&
  defined_once (segment_rom_end sty name) l &&
  defined_once (segment_rom_size sty name) l.

Local Open Scope Z_scope.

(* the ROM layout of a list of (emitted) segments read in the state [st'] at the end of the pass,
   [r] being the ROM position before the first of them *)
Fixpoint RomChain (sty : style) (st' : lstate) (r : Z) (segs : list segment) : Prop :=
  match segs with
  | [] => val st' "__romPos" = Some r
  | seg :: rest =>
      let name := sg_name seg in
      let rs := align_up r (align_z (segment_start_align seg)) in
      exists o,
        find_sec (alloc_name seg) (l_secs st') = Some o /\
        os_lma o = Some rs /\ os_noload o = false /\ 0 <= os_size o /\
        let re := align_up (rs + os_size o) (align_z (segment_end_align seg)) in
        val st' (segment_rom_start sty name) = Some rs /\
        val st' (segment_rom_end sty name) = Some re /\
        val st' (segment_rom_size sty name) = Some (re - rs) /\
        RomChain sty st' re rest
  end.

(* the names of all output sections of the emitted segments are pairwise different *)
Definition out_names (segs : list segment) : list string :=
  flat_map (fun seg => [alloc_name seg; noload_name seg]) segs.

(* ---------- sample data for the Examples (the document and run-time settings are those of Spec/C18.v) ---------- *)

Definition ex_sections_body : list stmt :=
  match add_all_segments ex_rt ex_settings cfg_normal (doc_vram_classes ex_doc) (doc_segments ex_doc) ws0 with
  | Ok ([SSections body], _) => body
  | _ => []
  end.

Definition ex_script : list stmt :=
  match gen_normal ex_doc ex_rt with Ok w => wo_script w | Err _ => [] end.

(* the input sections of two objects *)
Definition ex_universe : list usec :=
  [USec "build/src/boot.o" None ".text" 40 16 false "boot_text";
   USec "build/src/boot.o" None ".data" 12 8 false "boot_data";
   USec "build/src/boot.o" None ".bss" 100 8 true "boot_bss";
   USec "build/src/a.o" None ".text" 24 4 false "a_text";
   USec "build/src/a.o" None ".bss" 8 4 true "a_bss"].

(* with a .mdebug section (allow-listed), a .reginfo section (denied) and a .comment section (caught by
   the wildcard) *)
Definition ex_universe_discard : list usec :=
  [USec "build/src/boot.o" None ".text" 40 16 false "boot_text";
   USec "build/src/boot.o" None ".mdebug" 20 4 false "boot_mdebug";
   USec "build/src/boot.o" None ".reginfo" 24 4 false "boot_reginfo";
   USec "build/src/a.o" None ".text" 24 4 false "a_text";
   USec "build/src/a.o" None ".mdebug" 12 4 false "a_mdebug";
   USec "build/src/a.o" None ".comment" 7 1 false "a_comment"].
