(* C06 - conditional inclusion: the documented predicate, written declaratively. *)
From Slinky Require Import Model.Types Model.Runtime.

(* a pair (key, value) matches when the custom options give [key] exactly [value] *)
Definition Matches (rt : runtime) (kv : string * string) : Prop :=
  opt_get rt (fst kv) = Some (snd kv).

Definition SomeMatch (rt : runtime) (l : pairs) : Prop := exists kv, In kv l /\ Matches rt kv.
Definition AllMatch (rt : runtime) (l : pairs) : Prop := forall kv, In kv l -> Matches rt kv.

(* "emitted iff no exclude_if_any pair matches, not every exclude_if_all pair matches, and, when an
   include list is given, some include_if_any pair matches or every include_if_all pair matches" *)
Definition Included (rt : runtime) (c : conds) : Prop :=
  ~ SomeMatch rt (exc_any c) /\
  ~ (exc_all c <> [] /\ AllMatch rt (exc_all c)) /\
  ((inc_any c = [] /\ inc_all c = []) \/
   SomeMatch rt (inc_any c) \/
   (inc_all c <> [] /\ AllMatch rt (inc_all c))).

(* blank lines are not significant when comparing outputs *)
Definition strip_blank_lines (l : list string) : list string :=
  filter (fun s => negb (is_empty s)) l.
