(* C19 - generation never crashes: declarative definitions. *)
From Slinky Require Import Model.Types Model.Runtime Model.Script Model.Writer.

(* every error of [r] satisfies [P] *)
Definition errs {A} (P : err -> Prop) (r : res A) : Prop := forall e, r = Err e -> P e.

(* the result is a value or an error value other than the model's stand-in for a panic *)
Definition no_crash {A} (r : res A) : Prop := forall w, r <> Err (ECrash w).

(* the kinds of error that generation (as opposed to parsing) can return *)
Inductive gen_error : err -> Prop :=
| ge_option path key : gen_error (ECustomOptionNotProvided path key)
| ge_class seg cls : gen_error (EMissingVramClassForSegment seg cls)
| ge_count n : gen_error (EInvalidSegmentCount n)
| ge_cycle seg section : gen_error (ESubgroupCycle seg section).

(* ... and the partial writer *)
Inductive gen_partial_error : err -> Prop :=
| gpe_gen e : gen_error e -> gen_partial_error e
| gpe_field name : gen_partial_error (EMissingRequiredField name).

(* no edge of the sub-group expansion of file [f] leads upwards: [rank] strictly decreases from the
   section being expanded to every section its expansion recurses into.  The table consulted is
   [subgroups_for seg f]: the segment's sections_subgroups for a file, nothing for a group (a group
   leaves the expansion to its files, so there is no constraint at the group itself) *)
Definition chain_decreasing (seg : segment) (sections : list string) (rank : string -> nat)
           (f : file_info) : Prop :=
  forall section k others other,
    In k (sections_here f section sections) ->
    lookup k (subgroups_for seg f) = Some others -> In other others ->
    rank other < rank section.

Fixpoint chain_decreasing_deep (seg : segment) (sections : list string) (rank : string -> nat)
         (f : file_info) : Prop :=
  chain_decreasing seg sections rank f /\
  (fix all (l : list file_info) : Prop :=
     match l with
     | [] => True
     | c :: r => chain_decreasing_deep seg sections rank c /\ all r
     end) (fi_files f).

(* ---------- block structure of the rendered text ---------- *)

(* leading spaces removed *)
Fixpoint strip_indent (s : string) : string :=
  match s with
  | String " " r => strip_indent r
  | _ => s
  end.

(* a lone brace, possibly indented: the only texts that open or close a block *)
Definition is_brace (t : string) : Prop := strip_indent t = "{"%string \/ strip_indent t = "}"%string.

(* [blocks ind l]: [l] is a sequence of items at indentation [ind]; an item is a blank line, a
   one-line statement (indentation then a text that is not a lone brace), or a block: a header line,
   the opening brace on its own line, items one level deeper, the closing brace on its own line *)
Inductive blocks : nat -> list string -> Prop :=
| bl_nil ind : blocks ind []
| bl_blank ind r : blocks ind r -> blocks ind (""%string :: r)
| bl_line ind t r : ~ is_brace t -> blocks ind r -> blocks ind ((indent_str ind ++ t)%string :: r)
| bl_block ind header body r :
    ~ is_brace header -> blocks (S ind) body -> blocks ind r ->
    blocks ind ((indent_str ind ++ header)%string :: (indent_str ind ++ "{")%string ::
                body ++ (indent_str ind ++ "}")%string :: r).

(* a reader that only counts lone braces: the nesting depth after the lines, [None] when a block is
   closed that was never opened *)
Fixpoint depth_after (d : nat) (lines : list string) : option nat :=
  match lines with
  | [] => Some d
  | l :: r =>
      if String.eqb (strip_indent l) "{" then depth_after (S d) r
      else if String.eqb (strip_indent l) "}" then
             match d with O => None | S d' => depth_after d' r end
      else depth_after d r
  end.
