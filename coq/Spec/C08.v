(* C08 - "Segment options override global settings, which override documented defaults".
   Declarative side: the DOCUMENTED default of every setting, written by hand from
   /repo/docs/file_format/settings.md ("Default value" paragraphs) and /repo/CHANGELOG.md, the two
   three-way resolution tables, and the record-update helpers used to state "restating a value".
   Nothing here mentions Model/Generated.v: the obligation [C08_tables] compares the two. *)
From Slinky Require Import Model.Types.

(* ---------- documented defaults (settings.md, in the order of the document) ---------- *)

Definition doc_default_base_path : string := "".                       (* "Defaults to empty path." *)
Definition doc_default_linker_symbols_style : style := Splat.          (* `splat` *)
Definition doc_default_hardcoded_gp_value : option N := None.          (* `null` *)
(* d_path, target_path, symbols_header_path, partial_scripts_folder, partial_build_segments_folder
   have no "Default value" paragraph: the feature is off ("generated only if ... is specified") *)
Definition doc_default_d_path : option string := None.
Definition doc_default_target_path : option string := None.
Definition doc_default_symbols_header_path : option string := None.
Definition doc_default_symbols_header_type : string := "char".         (* `char` *)
Definition doc_default_symbols_header_as_array : bool := true.         (* `True` *)
Definition doc_default_sections_allowlist : list string := [].         (* `[]` *)
(* settings.md: `[.symtab, .strtab, .shstrtab]` (CHANGELOG Unreleased: .symtab and .strtab added) *)
Definition doc_default_sections_allowlist_extra : list string := [".symtab"; ".strtab"; ".shstrtab"].
(* settings.md lists six entries; CHANGELOG Unreleased: "Add `.got` to the default list of discarded
   sections" - the prose of settings.md was not updated, the CHANGELOG is followed: seven entries *)
Definition doc_default_sections_denylist : list string :=
  [".reginfo"; ".MIPS.abiflags"; ".MIPS.options"; ".note.gnu.build-id"; ".interp"; ".eh_frame"; ".got"].
Definition doc_default_discard_wildcard_section : bool := true.        (* `True` *)
Definition doc_default_single_segment_mode : bool := false.            (* `False` *)
Definition doc_default_partial_scripts_folder : option string := None.
Definition doc_default_partial_build_segments_folder : option string := None.
(* the twelve options that a segment can override *)
Definition doc_default_alloc_sections : list string := [".text"; ".data"; ".rodata"; ".sdata"].
Definition doc_default_noload_sections : list string := [".sbss"; ".scommon"; ".bss"; "COMMON"].
Definition doc_default_subalign : option N := None.                    (* `null` *)
Definition doc_default_segment_start_align : option N := None.         (* `null` *)
Definition doc_default_segment_end_align : option N := None.           (* `null` *)
Definition doc_default_section_start_align : option N := None.         (* `null` *)
Definition doc_default_section_end_align : option N := None.           (* `null` *)
Definition doc_default_sections_start_alignment : list (string * N) := [].   (* "Empty mapping." *)
Definition doc_default_sections_end_alignment : list (string * N) := [].     (* "Empty mapping." *)
Definition doc_default_wildcard_sections : bool := true.               (* `True` *)
Definition doc_default_fill_value : option N := Some 0%N.              (* `0` *)
Definition doc_default_sections_subgroups : list (string * list string) := [].  (* "Empty mapping." *)

(* the Settings obtained when every setting is omitted *)
Definition doc_default_settings : settings :=
  Settings doc_default_base_path doc_default_linker_symbols_style doc_default_hardcoded_gp_value
    doc_default_d_path doc_default_target_path doc_default_symbols_header_path
    doc_default_symbols_header_type doc_default_symbols_header_as_array
    doc_default_sections_allowlist doc_default_sections_allowlist_extra doc_default_sections_denylist
    doc_default_discard_wildcard_section doc_default_single_segment_mode
    doc_default_partial_scripts_folder doc_default_partial_build_segments_folder
    doc_default_alloc_sections doc_default_noload_sections doc_default_subalign
    doc_default_segment_start_align doc_default_segment_end_align
    doc_default_section_start_align doc_default_section_end_align
    doc_default_sections_start_alignment doc_default_sections_end_alignment
    doc_default_wildcard_sections doc_default_fill_value doc_default_sections_subgroups.

(* a `settings:` mapping with no key at all *)
Definition all_absent_settings : settings_serial :=
  SettingsSerial [] Absent Absent Absent Absent Absent Absent Absent Absent Absent Absent Absent Absent
    Absent Absent Absent Absent Absent Absent Absent Absent Absent Absent Absent Absent Absent Absent Absent.

(* ---------- the two resolution tables ---------- *)

(* options where `null` means "disabled": the effective value is an [option] *)
Definition resolve_nullable {A} (given : an A) (inherited : option A) : option A :=
  match given with
  | Absent => inherited
  | Null => None
  | Value v => Some v
  end.

(* options where `null` is not allowed: [None] stands for "the document is rejected" *)
Definition resolve_plain {A} (given : an A) (inherited : A) : option A :=
  match given with
  | Absent => Some inherited
  | Null => None
  | Value v => Some v
  end.

(* "the option is given at this level" (a value or an explicit null) *)
Definition given {A} (x : an A) : Prop := x <> Absent.

(* the explicit spelling of an effective value *)
Definition explicit_nullable {A} (o : option A) : an A :=
  match o with Some v => Value v | None => Null end.
Definition explicit_plain {A} (v : A) : an A := Value v.

(* ---------- record updates (one per overridable option and level) ---------- *)

Definition ss_with_alloc_sections (s : segment_serial) (v : an (list string)) : segment_serial :=
  SegmentSerial (ss_unknown s) (ss_name s) (ss_files s) (ss_fixed_vram s) (ss_fixed_symbol s) (ss_follows_segment s) (ss_vram_class s) (ss_dir s) (ss_gp_info s) (ss_conds s) v (ss_noload_sections s) (ss_subalign s) (ss_segment_start_align s) (ss_segment_end_align s) (ss_section_start_align s) (ss_section_end_align s) (ss_sections_start_alignment s) (ss_sections_end_alignment s) (ss_wildcard_sections s) (ss_fill_value s) (ss_sections_subgroups s) (ss_keep s).
Definition ss_with_noload_sections (s : segment_serial) (v : an (list string)) : segment_serial :=
  SegmentSerial (ss_unknown s) (ss_name s) (ss_files s) (ss_fixed_vram s) (ss_fixed_symbol s) (ss_follows_segment s) (ss_vram_class s) (ss_dir s) (ss_gp_info s) (ss_conds s) (ss_alloc_sections s) v (ss_subalign s) (ss_segment_start_align s) (ss_segment_end_align s) (ss_section_start_align s) (ss_section_end_align s) (ss_sections_start_alignment s) (ss_sections_end_alignment s) (ss_wildcard_sections s) (ss_fill_value s) (ss_sections_subgroups s) (ss_keep s).
Definition ss_with_subalign (s : segment_serial) (v : an (N)) : segment_serial :=
  SegmentSerial (ss_unknown s) (ss_name s) (ss_files s) (ss_fixed_vram s) (ss_fixed_symbol s) (ss_follows_segment s) (ss_vram_class s) (ss_dir s) (ss_gp_info s) (ss_conds s) (ss_alloc_sections s) (ss_noload_sections s) v (ss_segment_start_align s) (ss_segment_end_align s) (ss_section_start_align s) (ss_section_end_align s) (ss_sections_start_alignment s) (ss_sections_end_alignment s) (ss_wildcard_sections s) (ss_fill_value s) (ss_sections_subgroups s) (ss_keep s).
Definition ss_with_segment_start_align (s : segment_serial) (v : an (N)) : segment_serial :=
  SegmentSerial (ss_unknown s) (ss_name s) (ss_files s) (ss_fixed_vram s) (ss_fixed_symbol s) (ss_follows_segment s) (ss_vram_class s) (ss_dir s) (ss_gp_info s) (ss_conds s) (ss_alloc_sections s) (ss_noload_sections s) (ss_subalign s) v (ss_segment_end_align s) (ss_section_start_align s) (ss_section_end_align s) (ss_sections_start_alignment s) (ss_sections_end_alignment s) (ss_wildcard_sections s) (ss_fill_value s) (ss_sections_subgroups s) (ss_keep s).
Definition ss_with_segment_end_align (s : segment_serial) (v : an (N)) : segment_serial :=
  SegmentSerial (ss_unknown s) (ss_name s) (ss_files s) (ss_fixed_vram s) (ss_fixed_symbol s) (ss_follows_segment s) (ss_vram_class s) (ss_dir s) (ss_gp_info s) (ss_conds s) (ss_alloc_sections s) (ss_noload_sections s) (ss_subalign s) (ss_segment_start_align s) v (ss_section_start_align s) (ss_section_end_align s) (ss_sections_start_alignment s) (ss_sections_end_alignment s) (ss_wildcard_sections s) (ss_fill_value s) (ss_sections_subgroups s) (ss_keep s).
Definition ss_with_section_start_align (s : segment_serial) (v : an (N)) : segment_serial :=
  SegmentSerial (ss_unknown s) (ss_name s) (ss_files s) (ss_fixed_vram s) (ss_fixed_symbol s) (ss_follows_segment s) (ss_vram_class s) (ss_dir s) (ss_gp_info s) (ss_conds s) (ss_alloc_sections s) (ss_noload_sections s) (ss_subalign s) (ss_segment_start_align s) (ss_segment_end_align s) v (ss_section_end_align s) (ss_sections_start_alignment s) (ss_sections_end_alignment s) (ss_wildcard_sections s) (ss_fill_value s) (ss_sections_subgroups s) (ss_keep s).
Definition ss_with_section_end_align (s : segment_serial) (v : an (N)) : segment_serial :=
  SegmentSerial (ss_unknown s) (ss_name s) (ss_files s) (ss_fixed_vram s) (ss_fixed_symbol s) (ss_follows_segment s) (ss_vram_class s) (ss_dir s) (ss_gp_info s) (ss_conds s) (ss_alloc_sections s) (ss_noload_sections s) (ss_subalign s) (ss_segment_start_align s) (ss_segment_end_align s) (ss_section_start_align s) v (ss_sections_start_alignment s) (ss_sections_end_alignment s) (ss_wildcard_sections s) (ss_fill_value s) (ss_sections_subgroups s) (ss_keep s).
Definition ss_with_sections_start_alignment (s : segment_serial) (v : an (list (string * N))) : segment_serial :=
  SegmentSerial (ss_unknown s) (ss_name s) (ss_files s) (ss_fixed_vram s) (ss_fixed_symbol s) (ss_follows_segment s) (ss_vram_class s) (ss_dir s) (ss_gp_info s) (ss_conds s) (ss_alloc_sections s) (ss_noload_sections s) (ss_subalign s) (ss_segment_start_align s) (ss_segment_end_align s) (ss_section_start_align s) (ss_section_end_align s) v (ss_sections_end_alignment s) (ss_wildcard_sections s) (ss_fill_value s) (ss_sections_subgroups s) (ss_keep s).
Definition ss_with_sections_end_alignment (s : segment_serial) (v : an (list (string * N))) : segment_serial :=
  SegmentSerial (ss_unknown s) (ss_name s) (ss_files s) (ss_fixed_vram s) (ss_fixed_symbol s) (ss_follows_segment s) (ss_vram_class s) (ss_dir s) (ss_gp_info s) (ss_conds s) (ss_alloc_sections s) (ss_noload_sections s) (ss_subalign s) (ss_segment_start_align s) (ss_segment_end_align s) (ss_section_start_align s) (ss_section_end_align s) (ss_sections_start_alignment s) v (ss_wildcard_sections s) (ss_fill_value s) (ss_sections_subgroups s) (ss_keep s).
Definition ss_with_wildcard_sections (s : segment_serial) (v : an (bool)) : segment_serial :=
  SegmentSerial (ss_unknown s) (ss_name s) (ss_files s) (ss_fixed_vram s) (ss_fixed_symbol s) (ss_follows_segment s) (ss_vram_class s) (ss_dir s) (ss_gp_info s) (ss_conds s) (ss_alloc_sections s) (ss_noload_sections s) (ss_subalign s) (ss_segment_start_align s) (ss_segment_end_align s) (ss_section_start_align s) (ss_section_end_align s) (ss_sections_start_alignment s) (ss_sections_end_alignment s) v (ss_fill_value s) (ss_sections_subgroups s) (ss_keep s).
Definition ss_with_fill_value (s : segment_serial) (v : an (N)) : segment_serial :=
  SegmentSerial (ss_unknown s) (ss_name s) (ss_files s) (ss_fixed_vram s) (ss_fixed_symbol s) (ss_follows_segment s) (ss_vram_class s) (ss_dir s) (ss_gp_info s) (ss_conds s) (ss_alloc_sections s) (ss_noload_sections s) (ss_subalign s) (ss_segment_start_align s) (ss_segment_end_align s) (ss_section_start_align s) (ss_section_end_align s) (ss_sections_start_alignment s) (ss_sections_end_alignment s) (ss_wildcard_sections s) v (ss_sections_subgroups s) (ss_keep s).
Definition ss_with_sections_subgroups (s : segment_serial) (v : an (list (string * list string))) : segment_serial :=
  SegmentSerial (ss_unknown s) (ss_name s) (ss_files s) (ss_fixed_vram s) (ss_fixed_symbol s) (ss_follows_segment s) (ss_vram_class s) (ss_dir s) (ss_gp_info s) (ss_conds s) (ss_alloc_sections s) (ss_noload_sections s) (ss_subalign s) (ss_segment_start_align s) (ss_segment_end_align s) (ss_section_start_align s) (ss_section_end_align s) (ss_sections_start_alignment s) (ss_sections_end_alignment s) (ss_wildcard_sections s) (ss_fill_value s) v (ss_keep s).

Definition sts_with_alloc_sections (s : settings_serial) (v : an (list string)) : settings_serial :=
  SettingsSerial (sts_unknown s) (sts_base_path s) (sts_linker_symbols_style s) (sts_hardcoded_gp_value s) (sts_d_path s) (sts_target_path s) (sts_symbols_header_path s) (sts_symbols_header_type s) (sts_symbols_header_as_array s) (sts_sections_allowlist s) (sts_sections_allowlist_extra s) (sts_sections_denylist s) (sts_discard_wildcard_section s) (sts_single_segment_mode s) (sts_partial_scripts_folder s) (sts_partial_build_segments_folder s) v (sts_noload_sections s) (sts_subalign s) (sts_segment_start_align s) (sts_segment_end_align s) (sts_section_start_align s) (sts_section_end_align s) (sts_sections_start_alignment s) (sts_sections_end_alignment s) (sts_wildcard_sections s) (sts_fill_value s) (sts_sections_subgroups s).
Definition sts_with_noload_sections (s : settings_serial) (v : an (list string)) : settings_serial :=
  SettingsSerial (sts_unknown s) (sts_base_path s) (sts_linker_symbols_style s) (sts_hardcoded_gp_value s) (sts_d_path s) (sts_target_path s) (sts_symbols_header_path s) (sts_symbols_header_type s) (sts_symbols_header_as_array s) (sts_sections_allowlist s) (sts_sections_allowlist_extra s) (sts_sections_denylist s) (sts_discard_wildcard_section s) (sts_single_segment_mode s) (sts_partial_scripts_folder s) (sts_partial_build_segments_folder s) (sts_alloc_sections s) v (sts_subalign s) (sts_segment_start_align s) (sts_segment_end_align s) (sts_section_start_align s) (sts_section_end_align s) (sts_sections_start_alignment s) (sts_sections_end_alignment s) (sts_wildcard_sections s) (sts_fill_value s) (sts_sections_subgroups s).
Definition sts_with_subalign (s : settings_serial) (v : an (N)) : settings_serial :=
  SettingsSerial (sts_unknown s) (sts_base_path s) (sts_linker_symbols_style s) (sts_hardcoded_gp_value s) (sts_d_path s) (sts_target_path s) (sts_symbols_header_path s) (sts_symbols_header_type s) (sts_symbols_header_as_array s) (sts_sections_allowlist s) (sts_sections_allowlist_extra s) (sts_sections_denylist s) (sts_discard_wildcard_section s) (sts_single_segment_mode s) (sts_partial_scripts_folder s) (sts_partial_build_segments_folder s) (sts_alloc_sections s) (sts_noload_sections s) v (sts_segment_start_align s) (sts_segment_end_align s) (sts_section_start_align s) (sts_section_end_align s) (sts_sections_start_alignment s) (sts_sections_end_alignment s) (sts_wildcard_sections s) (sts_fill_value s) (sts_sections_subgroups s).
Definition sts_with_segment_start_align (s : settings_serial) (v : an (N)) : settings_serial :=
  SettingsSerial (sts_unknown s) (sts_base_path s) (sts_linker_symbols_style s) (sts_hardcoded_gp_value s) (sts_d_path s) (sts_target_path s) (sts_symbols_header_path s) (sts_symbols_header_type s) (sts_symbols_header_as_array s) (sts_sections_allowlist s) (sts_sections_allowlist_extra s) (sts_sections_denylist s) (sts_discard_wildcard_section s) (sts_single_segment_mode s) (sts_partial_scripts_folder s) (sts_partial_build_segments_folder s) (sts_alloc_sections s) (sts_noload_sections s) (sts_subalign s) v (sts_segment_end_align s) (sts_section_start_align s) (sts_section_end_align s) (sts_sections_start_alignment s) (sts_sections_end_alignment s) (sts_wildcard_sections s) (sts_fill_value s) (sts_sections_subgroups s).
Definition sts_with_segment_end_align (s : settings_serial) (v : an (N)) : settings_serial :=
  SettingsSerial (sts_unknown s) (sts_base_path s) (sts_linker_symbols_style s) (sts_hardcoded_gp_value s) (sts_d_path s) (sts_target_path s) (sts_symbols_header_path s) (sts_symbols_header_type s) (sts_symbols_header_as_array s) (sts_sections_allowlist s) (sts_sections_allowlist_extra s) (sts_sections_denylist s) (sts_discard_wildcard_section s) (sts_single_segment_mode s) (sts_partial_scripts_folder s) (sts_partial_build_segments_folder s) (sts_alloc_sections s) (sts_noload_sections s) (sts_subalign s) (sts_segment_start_align s) v (sts_section_start_align s) (sts_section_end_align s) (sts_sections_start_alignment s) (sts_sections_end_alignment s) (sts_wildcard_sections s) (sts_fill_value s) (sts_sections_subgroups s).
Definition sts_with_section_start_align (s : settings_serial) (v : an (N)) : settings_serial :=
  SettingsSerial (sts_unknown s) (sts_base_path s) (sts_linker_symbols_style s) (sts_hardcoded_gp_value s) (sts_d_path s) (sts_target_path s) (sts_symbols_header_path s) (sts_symbols_header_type s) (sts_symbols_header_as_array s) (sts_sections_allowlist s) (sts_sections_allowlist_extra s) (sts_sections_denylist s) (sts_discard_wildcard_section s) (sts_single_segment_mode s) (sts_partial_scripts_folder s) (sts_partial_build_segments_folder s) (sts_alloc_sections s) (sts_noload_sections s) (sts_subalign s) (sts_segment_start_align s) (sts_segment_end_align s) v (sts_section_end_align s) (sts_sections_start_alignment s) (sts_sections_end_alignment s) (sts_wildcard_sections s) (sts_fill_value s) (sts_sections_subgroups s).
Definition sts_with_section_end_align (s : settings_serial) (v : an (N)) : settings_serial :=
  SettingsSerial (sts_unknown s) (sts_base_path s) (sts_linker_symbols_style s) (sts_hardcoded_gp_value s) (sts_d_path s) (sts_target_path s) (sts_symbols_header_path s) (sts_symbols_header_type s) (sts_symbols_header_as_array s) (sts_sections_allowlist s) (sts_sections_allowlist_extra s) (sts_sections_denylist s) (sts_discard_wildcard_section s) (sts_single_segment_mode s) (sts_partial_scripts_folder s) (sts_partial_build_segments_folder s) (sts_alloc_sections s) (sts_noload_sections s) (sts_subalign s) (sts_segment_start_align s) (sts_segment_end_align s) (sts_section_start_align s) v (sts_sections_start_alignment s) (sts_sections_end_alignment s) (sts_wildcard_sections s) (sts_fill_value s) (sts_sections_subgroups s).
Definition sts_with_sections_start_alignment (s : settings_serial) (v : an (list (string * N))) : settings_serial :=
  SettingsSerial (sts_unknown s) (sts_base_path s) (sts_linker_symbols_style s) (sts_hardcoded_gp_value s) (sts_d_path s) (sts_target_path s) (sts_symbols_header_path s) (sts_symbols_header_type s) (sts_symbols_header_as_array s) (sts_sections_allowlist s) (sts_sections_allowlist_extra s) (sts_sections_denylist s) (sts_discard_wildcard_section s) (sts_single_segment_mode s) (sts_partial_scripts_folder s) (sts_partial_build_segments_folder s) (sts_alloc_sections s) (sts_noload_sections s) (sts_subalign s) (sts_segment_start_align s) (sts_segment_end_align s) (sts_section_start_align s) (sts_section_end_align s) v (sts_sections_end_alignment s) (sts_wildcard_sections s) (sts_fill_value s) (sts_sections_subgroups s).
Definition sts_with_sections_end_alignment (s : settings_serial) (v : an (list (string * N))) : settings_serial :=
  SettingsSerial (sts_unknown s) (sts_base_path s) (sts_linker_symbols_style s) (sts_hardcoded_gp_value s) (sts_d_path s) (sts_target_path s) (sts_symbols_header_path s) (sts_symbols_header_type s) (sts_symbols_header_as_array s) (sts_sections_allowlist s) (sts_sections_allowlist_extra s) (sts_sections_denylist s) (sts_discard_wildcard_section s) (sts_single_segment_mode s) (sts_partial_scripts_folder s) (sts_partial_build_segments_folder s) (sts_alloc_sections s) (sts_noload_sections s) (sts_subalign s) (sts_segment_start_align s) (sts_segment_end_align s) (sts_section_start_align s) (sts_section_end_align s) (sts_sections_start_alignment s) v (sts_wildcard_sections s) (sts_fill_value s) (sts_sections_subgroups s).
Definition sts_with_wildcard_sections (s : settings_serial) (v : an (bool)) : settings_serial :=
  SettingsSerial (sts_unknown s) (sts_base_path s) (sts_linker_symbols_style s) (sts_hardcoded_gp_value s) (sts_d_path s) (sts_target_path s) (sts_symbols_header_path s) (sts_symbols_header_type s) (sts_symbols_header_as_array s) (sts_sections_allowlist s) (sts_sections_allowlist_extra s) (sts_sections_denylist s) (sts_discard_wildcard_section s) (sts_single_segment_mode s) (sts_partial_scripts_folder s) (sts_partial_build_segments_folder s) (sts_alloc_sections s) (sts_noload_sections s) (sts_subalign s) (sts_segment_start_align s) (sts_segment_end_align s) (sts_section_start_align s) (sts_section_end_align s) (sts_sections_start_alignment s) (sts_sections_end_alignment s) v (sts_fill_value s) (sts_sections_subgroups s).
Definition sts_with_fill_value (s : settings_serial) (v : an (N)) : settings_serial :=
  SettingsSerial (sts_unknown s) (sts_base_path s) (sts_linker_symbols_style s) (sts_hardcoded_gp_value s) (sts_d_path s) (sts_target_path s) (sts_symbols_header_path s) (sts_symbols_header_type s) (sts_symbols_header_as_array s) (sts_sections_allowlist s) (sts_sections_allowlist_extra s) (sts_sections_denylist s) (sts_discard_wildcard_section s) (sts_single_segment_mode s) (sts_partial_scripts_folder s) (sts_partial_build_segments_folder s) (sts_alloc_sections s) (sts_noload_sections s) (sts_subalign s) (sts_segment_start_align s) (sts_segment_end_align s) (sts_section_start_align s) (sts_section_end_align s) (sts_sections_start_alignment s) (sts_sections_end_alignment s) (sts_wildcard_sections s) v (sts_sections_subgroups s).
Definition sts_with_sections_subgroups (s : settings_serial) (v : an (list (string * list string))) : settings_serial :=
  SettingsSerial (sts_unknown s) (sts_base_path s) (sts_linker_symbols_style s) (sts_hardcoded_gp_value s) (sts_d_path s) (sts_target_path s) (sts_symbols_header_path s) (sts_symbols_header_type s) (sts_symbols_header_as_array s) (sts_sections_allowlist s) (sts_sections_allowlist_extra s) (sts_sections_denylist s) (sts_discard_wildcard_section s) (sts_single_segment_mode s) (sts_partial_scripts_folder s) (sts_partial_build_segments_folder s) (sts_alloc_sections s) (sts_noload_sections s) (sts_subalign s) (sts_segment_start_align s) (sts_segment_end_align s) (sts_section_start_align s) (sts_section_end_align s) (sts_sections_start_alignment s) (sts_sections_end_alignment s) (sts_wildcard_sections s) (sts_fill_value s) v.

Definition st_with_alloc_sections (st : settings) (v : list string) : settings :=
  Settings (base_path st) (linker_symbols_style st) (hardcoded_gp_value st) (d_path st) (target_path st) (symbols_header_path st) (symbols_header_type st) (symbols_header_as_array st) (sections_allowlist st) (sections_allowlist_extra st) (sections_denylist st) (discard_wildcard_section st) (single_segment_mode st) (partial_scripts_folder st) (partial_build_segments_folder st) v (st_noload_sections st) (st_subalign st) (st_segment_start_align st) (st_segment_end_align st) (st_section_start_align st) (st_section_end_align st) (st_sections_start_alignment st) (st_sections_end_alignment st) (st_wildcard_sections st) (st_fill_value st) (st_sections_subgroups st).
Definition st_with_noload_sections (st : settings) (v : list string) : settings :=
  Settings (base_path st) (linker_symbols_style st) (hardcoded_gp_value st) (d_path st) (target_path st) (symbols_header_path st) (symbols_header_type st) (symbols_header_as_array st) (sections_allowlist st) (sections_allowlist_extra st) (sections_denylist st) (discard_wildcard_section st) (single_segment_mode st) (partial_scripts_folder st) (partial_build_segments_folder st) (st_alloc_sections st) v (st_subalign st) (st_segment_start_align st) (st_segment_end_align st) (st_section_start_align st) (st_section_end_align st) (st_sections_start_alignment st) (st_sections_end_alignment st) (st_wildcard_sections st) (st_fill_value st) (st_sections_subgroups st).
Definition st_with_subalign (st : settings) (v : option N) : settings :=
  Settings (base_path st) (linker_symbols_style st) (hardcoded_gp_value st) (d_path st) (target_path st) (symbols_header_path st) (symbols_header_type st) (symbols_header_as_array st) (sections_allowlist st) (sections_allowlist_extra st) (sections_denylist st) (discard_wildcard_section st) (single_segment_mode st) (partial_scripts_folder st) (partial_build_segments_folder st) (st_alloc_sections st) (st_noload_sections st) v (st_segment_start_align st) (st_segment_end_align st) (st_section_start_align st) (st_section_end_align st) (st_sections_start_alignment st) (st_sections_end_alignment st) (st_wildcard_sections st) (st_fill_value st) (st_sections_subgroups st).
Definition st_with_segment_start_align (st : settings) (v : option N) : settings :=
  Settings (base_path st) (linker_symbols_style st) (hardcoded_gp_value st) (d_path st) (target_path st) (symbols_header_path st) (symbols_header_type st) (symbols_header_as_array st) (sections_allowlist st) (sections_allowlist_extra st) (sections_denylist st) (discard_wildcard_section st) (single_segment_mode st) (partial_scripts_folder st) (partial_build_segments_folder st) (st_alloc_sections st) (st_noload_sections st) (st_subalign st) v (st_segment_end_align st) (st_section_start_align st) (st_section_end_align st) (st_sections_start_alignment st) (st_sections_end_alignment st) (st_wildcard_sections st) (st_fill_value st) (st_sections_subgroups st).
Definition st_with_segment_end_align (st : settings) (v : option N) : settings :=
  Settings (base_path st) (linker_symbols_style st) (hardcoded_gp_value st) (d_path st) (target_path st) (symbols_header_path st) (symbols_header_type st) (symbols_header_as_array st) (sections_allowlist st) (sections_allowlist_extra st) (sections_denylist st) (discard_wildcard_section st) (single_segment_mode st) (partial_scripts_folder st) (partial_build_segments_folder st) (st_alloc_sections st) (st_noload_sections st) (st_subalign st) (st_segment_start_align st) v (st_section_start_align st) (st_section_end_align st) (st_sections_start_alignment st) (st_sections_end_alignment st) (st_wildcard_sections st) (st_fill_value st) (st_sections_subgroups st).
Definition st_with_section_start_align (st : settings) (v : option N) : settings :=
  Settings (base_path st) (linker_symbols_style st) (hardcoded_gp_value st) (d_path st) (target_path st) (symbols_header_path st) (symbols_header_type st) (symbols_header_as_array st) (sections_allowlist st) (sections_allowlist_extra st) (sections_denylist st) (discard_wildcard_section st) (single_segment_mode st) (partial_scripts_folder st) (partial_build_segments_folder st) (st_alloc_sections st) (st_noload_sections st) (st_subalign st) (st_segment_start_align st) (st_segment_end_align st) v (st_section_end_align st) (st_sections_start_alignment st) (st_sections_end_alignment st) (st_wildcard_sections st) (st_fill_value st) (st_sections_subgroups st).
Definition st_with_section_end_align (st : settings) (v : option N) : settings :=
  Settings (base_path st) (linker_symbols_style st) (hardcoded_gp_value st) (d_path st) (target_path st) (symbols_header_path st) (symbols_header_type st) (symbols_header_as_array st) (sections_allowlist st) (sections_allowlist_extra st) (sections_denylist st) (discard_wildcard_section st) (single_segment_mode st) (partial_scripts_folder st) (partial_build_segments_folder st) (st_alloc_sections st) (st_noload_sections st) (st_subalign st) (st_segment_start_align st) (st_segment_end_align st) (st_section_start_align st) v (st_sections_start_alignment st) (st_sections_end_alignment st) (st_wildcard_sections st) (st_fill_value st) (st_sections_subgroups st).
Definition st_with_sections_start_alignment (st : settings) (v : list (string * N)) : settings :=
  Settings (base_path st) (linker_symbols_style st) (hardcoded_gp_value st) (d_path st) (target_path st) (symbols_header_path st) (symbols_header_type st) (symbols_header_as_array st) (sections_allowlist st) (sections_allowlist_extra st) (sections_denylist st) (discard_wildcard_section st) (single_segment_mode st) (partial_scripts_folder st) (partial_build_segments_folder st) (st_alloc_sections st) (st_noload_sections st) (st_subalign st) (st_segment_start_align st) (st_segment_end_align st) (st_section_start_align st) (st_section_end_align st) v (st_sections_end_alignment st) (st_wildcard_sections st) (st_fill_value st) (st_sections_subgroups st).
Definition st_with_sections_end_alignment (st : settings) (v : list (string * N)) : settings :=
  Settings (base_path st) (linker_symbols_style st) (hardcoded_gp_value st) (d_path st) (target_path st) (symbols_header_path st) (symbols_header_type st) (symbols_header_as_array st) (sections_allowlist st) (sections_allowlist_extra st) (sections_denylist st) (discard_wildcard_section st) (single_segment_mode st) (partial_scripts_folder st) (partial_build_segments_folder st) (st_alloc_sections st) (st_noload_sections st) (st_subalign st) (st_segment_start_align st) (st_segment_end_align st) (st_section_start_align st) (st_section_end_align st) (st_sections_start_alignment st) v (st_wildcard_sections st) (st_fill_value st) (st_sections_subgroups st).
Definition st_with_wildcard_sections (st : settings) (v : bool) : settings :=
  Settings (base_path st) (linker_symbols_style st) (hardcoded_gp_value st) (d_path st) (target_path st) (symbols_header_path st) (symbols_header_type st) (symbols_header_as_array st) (sections_allowlist st) (sections_allowlist_extra st) (sections_denylist st) (discard_wildcard_section st) (single_segment_mode st) (partial_scripts_folder st) (partial_build_segments_folder st) (st_alloc_sections st) (st_noload_sections st) (st_subalign st) (st_segment_start_align st) (st_segment_end_align st) (st_section_start_align st) (st_section_end_align st) (st_sections_start_alignment st) (st_sections_end_alignment st) v (st_fill_value st) (st_sections_subgroups st).
Definition st_with_fill_value (st : settings) (v : option N) : settings :=
  Settings (base_path st) (linker_symbols_style st) (hardcoded_gp_value st) (d_path st) (target_path st) (symbols_header_path st) (symbols_header_type st) (symbols_header_as_array st) (sections_allowlist st) (sections_allowlist_extra st) (sections_denylist st) (discard_wildcard_section st) (single_segment_mode st) (partial_scripts_folder st) (partial_build_segments_folder st) (st_alloc_sections st) (st_noload_sections st) (st_subalign st) (st_segment_start_align st) (st_segment_end_align st) (st_section_start_align st) (st_section_end_align st) (st_sections_start_alignment st) (st_sections_end_alignment st) (st_wildcard_sections st) v (st_sections_subgroups st).
Definition st_with_sections_subgroups (st : settings) (v : list (string * list string)) : settings :=
  Settings (base_path st) (linker_symbols_style st) (hardcoded_gp_value st) (d_path st) (target_path st) (symbols_header_path st) (symbols_header_type st) (symbols_header_as_array st) (sections_allowlist st) (sections_allowlist_extra st) (sections_denylist st) (discard_wildcard_section st) (single_segment_mode st) (partial_scripts_folder st) (partial_build_segments_folder st) (st_alloc_sections st) (st_noload_sections st) (st_subalign st) (st_segment_start_align st) (st_segment_end_align st) (st_section_start_align st) (st_section_end_align st) (st_sections_start_alignment st) (st_sections_end_alignment st) (st_wildcard_sections st) (st_fill_value st) v.
