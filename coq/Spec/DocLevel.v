(* DocLevel - document-level composition of the per-segment link theorems (C03, C04, C05, C10):
   declarative definitions.  The per-segment theorems say what LdSem does with the statements of ONE
   add_segment; here are the predicates that describe a WHOLE generated script (multi-segment mode). *)
From Slinky Require Import Model.Types Model.Runtime Model.Style Model.Script Model.Writer Model.LdSem.
From Slinky Require Import Spec.C18 Spec.C04 Spec.C03 Spec.C05 Spec.C10.
From Coq Require Import ZArith.
Local Open Scope string_scope.

(* ---------- the shape of the script ---------- *)

(* the statement lists of the segments [segs], in order, each produced by add_segment from the writer
   state the previous one left *)
Fixpoint seg_chain (rt : runtime) (stg : settings) (classes : list vram_class) (segs : list segment)
         (ws : wstate) (parts : list (list stmt)) (ws' : wstate) : Prop :=
  match segs, parts with
  | [], [] => ws' = ws
  | seg :: r, p :: ps =>
      exists ws1, add_segment rt stg cfg_normal classes seg ws = Ok (p, ws1) /\
                  seg_chain rt stg classes r ws1 ps ws'
  | _, _ => False
  end.

(* what LdSem executes: the body of SECTIONS is executed in place *)
Definition flat_stmts (script : list stmt) : list stmt :=
  flat_map (fun s => match s with SSections b => b | _ => [s] end) script.

(* ---------- well-formedness of a document for the link-level theorems ---------- *)

Fixpoint nodup_str (l : list string) : bool :=
  match l with
  | [] => true
  | x :: r => negb (mem_str x r) && nodup_str r
  end.

Definition seg_sections (seg : segment) : list string := (alloc_sections seg ++ noload_sections seg)%list.

(* how many statements, at any depth, assign the symbol [x] *)
Fixpoint assign_count (x : string) (s : stmt) : nat :=
  match s with
  | SAssign _ _ _ sym _ => if String.eqb sym x then 1 else 0
  | SAlign sym _ => if String.eqb sym x then 1 else 0
  | SMaxSelf sym _ => if String.eqb sym x then 1 else 0
  | SRomAdd _ => if String.eqb "__romPos" x then 1 else 0
  | SOutSec _ _ _ _ _ body => list_sum (map (assign_count x) body)
  | SSections body => list_sum (map (assign_count x) body)
  | _ => 0
  end.

Definition count_assigns (x : string) (l : list stmt) : nat := list_sum (map (assign_count x) l).

(* exactly one statement, inside the output sections included, assigns [x] *)
Definition assigned_once_deep (x : string) (l : list stmt) : bool := Nat.eqb (count_assigns x l) 1.

(* the three symbols of a section group are each assigned by exactly one statement (the groups of one
   output section are statements of its body: a count that looks inside the output sections) *)
Definition section_names_once (sty : style) (name : string) (l : list stmt) (sec : string) : bool :=
  assigned_once_deep (segment_section_start sty name sec) l &&
  assigned_once_deep (segment_section_end sty name sec) l &&
  assigned_once_deep (segment_section_size sty name sec) l.

(* one included segment, against all the statements [l] the link executes: its ROM and VRAM symbols
   are assigned once, its section lists have no duplicate, the symbols of each of its section groups
   are assigned once *)
Definition seg_link_wf (sty : style) (l : list stmt) (seg : segment) : bool :=
  rom_names_distinct sty (sg_name seg) l &&
  vram_names_distinct sty (sg_name seg) l &&
  nodup_str (seg_sections seg) &&
  forallb (section_names_once sty (sg_name seg) l) (seg_sections seg).

(* the classes named by the included segments *)
Definition used_classes (rt : runtime) (segs : list segment) : list string :=
  flat_map (fun seg => match sg_vram_class seg with Some c => [c] | None => [] end) (included rt segs).

(* one used class: in the segments' statements [body] its end symbol is assigned only by "END = 0" and
   "END = MAX(END, x)"; what follows [fin] (the tail of SECTIONS and the statements after it) assigns
   neither its end nor its start symbol and assigns its size symbol once *)
Definition class_link_wf (sty : style) (body fin : list stmt) (cn : string) : bool :=
  end_clean (vram_class_end sty cn) body &&
  no_assign (vram_class_end sty cn) fin &&
  no_assign (vram_class_start sty cn) fin &&
  defined_once (vram_class_size sty cn) fin.

(* the whole condition, computed from the document and the run-time settings: the generator succeeds
   in multi-segment mode; the output-section names of the included segments are pairwise different;
   every included segment and every used class is well-formed against the generated statements; the
   user's own assignments (after SECTIONS) do not assign __romPos *)
Definition doc_link_wf (d : document) (rt : runtime) : bool :=
  let stg := doc_settings d in
  let sty := linker_symbols_style stg in
  let classes := doc_vram_classes d in
  let segs := included rt (doc_segments d) in
  match fold_out (add_segment rt stg cfg_normal classes) (doc_segments d) ws0 with
  | Err _ => false
  | Ok (body, ws') =>
      let fin := (end_sections_body stg classes ws' ++ tail_stmts rt d)%list in
      let all := (begin_sections_body stg ++ body ++ fin)%list in
      negb (single_segment_mode stg) &&
      nodup_str (out_names segs) &&
      forallb (seg_link_wf sty all) segs &&
      forallb (class_link_wf sty body fin) (used_classes rt (doc_segments d)) &&
      no_assign "__romPos" (tail_stmts rt d)
  end.

Local Open Scope Z_scope.

(* ---------- C04 at document level: the noload sections ---------- *)

Definition NoloadSections (st' : lstate) (segs : list segment) : Prop :=
  Forall (fun seg => exists o, find_sec (noload_name seg) (l_secs st') = Some o /\
                               os_noload o = true /\ os_contents o = false) segs.

(* ---------- C03 at document level ---------- *)

(* the VRAM layout of a list of (emitted) segments read in the state [st'] at the end of the pass,
   [dt] being the location counter before the first of them and [senv] the sections of the previous
   pass (which ADDR(.name) reads, the section .name not existing yet when X_VRAM is assigned) *)
Fixpoint VramChain (sty : style) (senv : list osec) (st' : lstate) (dt : Z) (segs : list segment) : Prop :=
  match segs with
  | [] => True
  | seg :: rest =>
      let name := sg_name seg in
      exists o1 o2 A2,
        find_sec (alloc_name seg) (l_secs st') = Some o1 /\
        find_sec (noload_name seg) (l_secs st') = Some o2 /\
        os_noload o1 = false /\ 0 <= os_size o1 /\
        os_noload o2 = true /\ os_contents o2 = false /\ 0 <= os_size o2 /\
        os_vma o2 = align_up (os_vma o1 + os_size o1) A2 /\ os_vma o1 + os_size o1 <= os_vma o2 /\
        let ve := align_up (os_vma o2 + os_size o2) (align_z (segment_end_align seg)) in
        val st' (segment_vram_end sty name) = Some ve /\
        (forall v, val st' (segment_vram_start sty name) = Some v ->
                   val st' (segment_vram_size sty name) = Some (ve - v)) /\
        (forall o, find_sec (alloc_name seg) senv = Some o ->
                   val st' (segment_vram_start sty name) = Some (os_vma o)) /\
        (sg_fixed_vram seg = None -> sg_fixed_symbol seg = None -> sg_follows_segment seg = None ->
         sg_vram_class seg = None ->
         exists A, os_vma o1 = align_up (align_up dt (align_z (segment_start_align seg))) A) /\
        VramChain sty senv st' ve rest
  end.

(* ---------- C10 at document level ---------- *)

(* class [cn] in the final state: its end is the largest VRAM end of its included members (0 when
   they are all below 0), its size is end - start for whatever value the start symbol has there *)
Definition ClassSummary (sty : style) (env ext : list (string * Z)) (st' : lstate) (rt : runtime)
           (segs : list segment) (cn : string) : Prop :=
  exists vs,
    Forall2 (fun seg v => val st' (segment_vram_end sty (sg_name seg)) = Some v) (members rt cn segs) vs /\
    val st' (vram_class_end sty cn) = Some (fold_left Z.max vs 0) /\
    (forall s, sym_lookup (vram_class_start sty cn) st' env ext = Some s ->
               val st' (vram_class_size sty cn) = Some (fold_left Z.max vs 0 - s)).

(* ---------- C05 at document level ---------- *)

(* the section groups [secs] of segment [name], placed in the output section [outsec], read in a symbol
   table [syms] and a list of placements [placed]: going up from [lo], each group has
   START <= END and SIZE = END - START, starts at or after the end of the previous one, and brackets a
   block of the placements (what it placed); the last one ends at or below [hi] *)
Fixpoint GroupChain (sty : style) (syms : list (string * Z)) (placed : list placement) (name outsec : string)
         (lo : Z) (secs : list string) (hi : Z) : Prop :=
  match secs with
  | [] => lo <= hi
  | sec :: rest =>
      exists S E pre new post,
        lookup (segment_section_start sty name sec) syms = Some S /\
        lookup (segment_section_end sty name sec) syms = Some E /\
        lookup (segment_section_size sty name sec) syms = Some (E - S) /\
        lo <= S /\ S <= E /\
        placed = (pre ++ new ++ post)%list /\
        Forall (placed_between S E outsec) new /\
        GroupChain sty syms placed name outsec E rest hi
  end.

(* both halves of one segment in the state [st']: the groups of the allocatable sections lie, in order,
   inside the output section .name, those of the noload sections inside .name.noload *)
Definition SegmentGroups (sty : style) (st' : lstate) (seg : segment) : Prop :=
  (exists o, find_sec (alloc_name seg) (l_secs st') = Some o /\ os_noload o = false /\
             GroupChain sty (l_syms st') (l_placed st') (sg_name seg) (alloc_name seg)
                        (os_vma o) (alloc_sections seg) (os_vma o + os_size o)) /\
  (exists o, find_sec (noload_name seg) (l_secs st') = Some o /\ os_noload o = true /\
             GroupChain sty (l_syms st') (l_placed st') (sg_name seg) (noload_name seg)
                        (os_vma o) (noload_sections seg) (os_vma o + os_size o)).

(* ---------- sample data: three included segments, two of them in one class ---------- *)

Definition dl_doc : document :=
  Document ex_settings
    [VramClass "overlay" (Some 2148532224%N) None [] KAbsent]
    [ex_segment "boot" ex_files_boot None (Some ex_gp) no_conds;
     ex_segment "ovl_a" [ex_obj "a.o"] (Some "overlay") None no_conds;
     ex_segment "ovl_b" [ex_obj "b.o"; ex_offset ".data" "b_mid"] (Some "overlay") None no_conds;
     ex_segment "debug" [ex_obj "dbg.o"] None None ex_excluded]
    (Some "entrypoint")
    [SymbolAssignment "stack_top" "0x80400000" true true no_conds;
     SymbolAssignment "only_jp" "1" false false ex_excluded]
    [RequiredSymbol "main" no_conds]
    [AssertEntry "boot_ROM_SIZE <= 0x1000" "boot too big" no_conds].

Definition dl_script : list stmt :=
  match gen_normal dl_doc ex_rt with Ok w => wo_script w | Err _ => [] end.

Definition dl_universe : list usec :=
  [USec "build/src/boot.o" None ".text" 40 16 false "boot_text";
   USec "build/src/boot.o" None ".data" 12 8 false "boot_data";
   USec "build/src/boot.o" None ".bss" 100 8 true "boot_bss";
   USec "build/src/a.o" None ".text" 24 4 false "a_text";
   USec "build/src/a.o" None ".bss" 8 4 true "a_bss";
   USec "build/src/b.o" None ".text" 48 4 false "b_text";
   USec "build/src/b.o" None ".data" 16 4 false "b_data";
   USec "build/src/b.o" None ".bss" 4 4 true "b_bss"].
